import TallyVerif.Model.Totals
/-! Generic facts about `upsert` folds (Python `defaultdict` accumulation). Core Lean only. -/
namespace TallyVerif.Totals

variable {κ β τ : Type} [BEq κ] [LawfulBEq κ]

theorem lookup_upsert_self (k : κ) (d : β) (f : β → β) (m : List (κ × β)) :
    (upsert k d f m).lookup k = some (f ((m.lookup k).getD d)) := by
  induction m with
  | nil => simp [upsert, List.lookup_cons]
  | cons kv m ih =>
    obtain ⟨k', v⟩ := kv
    by_cases h : k' = k
    · subst h; simp [upsert, List.lookup_cons]
    · have h' : (k' == k) = false := by simpa using h
      have h'' : (k == k') = false := by simpa using (fun e => h e.symm)
      simp [upsert, List.lookup_cons, h', h'', ih]

theorem lookup_upsert_ne (k k₂ : κ) (hne : k₂ ≠ k) (d : β) (f : β → β) (m : List (κ × β)) :
    (upsert k d f m).lookup k₂ = m.lookup k₂ := by
  induction m with
  | nil =>
    have : (k₂ == k) = false := by simpa using hne
    simp [upsert, List.lookup_cons, this]
  | cons kv m ih =>
    obtain ⟨k', v⟩ := kv
    by_cases h : k' = k
    · subst h
      have : (k₂ == k') = false := by simpa using hne
      simp [upsert, List.lookup_cons, this]
    · have h' : (k' == k) = false := by simpa using h
      simp only [upsert, h', List.lookup_cons]
      by_cases h2 : k₂ = k'
      · subst h2; simp
      · have : (k₂ == k') = false := by simpa using h2
        simp [List.lookup_cons, this, ih]

/-- accumulate a list into a dictionary: `for t in l: d[key t] = g t d[key t]` -/
def accumFrom (key : τ → κ) (d : β) (g : τ → β → β) (m : List (κ × β)) (l : List τ) : List (κ × β) :=
  l.foldl (fun m t => upsert (key t) d (g t) m) m

theorem lookup_accumFrom (key : τ → κ) (d : β) (g : τ → β → β) (k : κ) (l : List τ) (m : List (κ × β)) :
    (accumFrom key d g m l).lookup k =
      let f := l.filter (fun t => key t == k)
      match m.lookup k with
      | some v => some (f.foldl (fun b t => g t b) v)
      | none => if f.isEmpty then none else some (f.foldl (fun b t => g t b) d) := by
  induction l generalizing m with
  | nil => cases h : m.lookup k <;> simp [accumFrom, h]
  | cons t l ih =>
    simp only [accumFrom, List.foldl_cons] at ih ⊢
    rw [ih]
    by_cases hk : key t = k
    · subst hk
      simp only [lookup_upsert_self, beq_self_eq_true, List.filter_cons_of_pos, List.foldl_cons]
      cases h : m.lookup (key t) <;> simp
    · have hb : (key t == k) = false := by simpa using hk
      rw [lookup_upsert_ne (key t) k (fun e => hk e.symm)]
      have hf : List.filter (fun t => key t == k) (t :: l) = List.filter (fun t => key t == k) l := by
        simp [List.filter_cons, hb]
      rw [hf]

/-- the dictionary entry for `k` is the fold of `g` over exactly the items whose key is `k` -/
theorem lookup_accum (key : τ → κ) (d : β) (g : τ → β → β) (k : κ) (l : List τ) :
    (accumFrom key d g [] l).lookup k =
      if (l.filter (fun t => key t == k)).isEmpty then none
      else some ((l.filter (fun t => key t == k)).foldl (fun b t => g t b) d) := by
  rw [lookup_accumFrom]; simp

theorem lookup_accum_perm (key : τ → κ) (d : β) (g : τ → β → β)
    (comm : ∀ x y z, g y (g x z) = g x (g y z)) (k : κ) {l l' : List τ} (p : l.Perm l') :
    (accumFrom key d g [] l).lookup k = (accumFrom key d g [] l').lookup k := by
  rw [lookup_accum, lookup_accum]
  have pf := p.filter (fun t => key t == k)
  rw [pf.isEmpty_eq, pf.foldl_eq' (fun x _ y _ z => comm x y z) d]

theorem lookup_accum_append (key : τ → κ) (d : β) (g : τ → β → β) (k : κ) (l₁ l₂ : List τ) :
    (accumFrom key d g [] (l₁ ++ l₂)).lookup k =
      let f₂ := l₂.filter (fun t => key t == k)
      match (accumFrom key d g [] l₁).lookup k with
      | some v => some (f₂.foldl (fun b t => g t b) v)
      | none => if f₂.isEmpty then none else some (f₂.foldl (fun b t => g t b) d) := by
  have : accumFrom key d g [] (l₁ ++ l₂) = accumFrom key d g (accumFrom key d g [] l₁) l₂ := by
    simp [accumFrom, List.foldl_append]
  rw [this, lookup_accumFrom]

end TallyVerif.Totals
