import TallyVerif.Model.Val
/-!
M-Expr — `expr_parser.TransactionEvaluator` as a structurally recursive interpreter.

`Impl.eval` mirrors the code method by method (`_eval_Name`, `_eval_BoolOp`, `_eval_BinOp`,
`_eval_Compare` with its `left = right` chain and date/ISO coercion, `_eval_Attribute`, `_eval_Call`
with its fixed dispatch order, comprehensions with the mutable `_scope` and its restore-by-`is None`
quirk, lazy generator consumption by any/all/sum/next/min/max, `_eval_Subscript`, walrus).
External primitives (regex, difflib, Unicode case mapping, float printing, round) are the fields of
`Oracles`; a field returns `none` when the driver's table has no entry yet (the harness then asks
CPython for exactly that primitive and re-runs).  Theorems quantify over every `Oracles`.
Core Lean only.
-/
namespace TallyVerif.Expr
open TallyVerif.Py

inductive UnOp | not | neg
deriving DecidableEq, Repr

inductive CmpOp | eq | ne | lt | le | gt | ge | isIn | notIn
deriving DecidableEq, Repr

mutual
inductive Expr
  | const (v : Val)
  | name (id : String)
  | attr (e : Expr) (a : String)                      -- Attribute whose receiver is NOT a plain Name
  | attrName (id : String) (a : String)               -- Attribute(Name id, a)
  | callName (f : String) (args : List Expr)          -- Call(Name f, args), first argument NOT a generator expression
  | callNameGen (f : String) (elt : Expr) (gens : List Comp) (more : List Expr)
                                                      -- Call(Name f, [GeneratorExp(elt, gens), *more])
  | callAttr (recv : Expr) (meth : String) (args : List Expr)
  | callOther (f : Expr) (args : List Expr)
  | boolop (isAnd : Bool) (es : List Expr)
  | unop (op : UnOp) (e : Expr)
  | binop (op : BinOp) (l r : Expr)
  | cmp (l : Expr) (links : List Link)
  | ifexp (c t e : Expr)
  | listcomp (elt : Expr) (gens : List Comp)
  | genexp (elt : Expr) (gens : List Comp)
  | subscript (e i : Expr)
  | walrus (id : String) (e : Expr)
inductive Link
  | mk (op : CmpOp) (e : Expr)
inductive Comp
  | mk (target : Option String) (iter : Expr) (ifs : List Expr)     -- target = none: not a plain Name
end

structure Oracles where
  upper : String → Option String                                   -- consulted for non-ASCII text only
  lower : String → Option String
  reSearch : (pattern text : String) → Option (Option Bool)        -- inner none = re.error
  reExtract : (pattern text : String) → Option (Option String)     -- first group or ""
  reSub : (pattern repl text : String) → Option (Option String)
  ratio : (a b : String) → Option UInt64                           -- SequenceMatcher(None, a, b).ratio()
  isoDate : String → Option (Option Date)                          -- date.fromisoformat beyond strict YYYY-MM-DD
  fltStr : UInt64 → Option String                                  -- str(float)
  round : UInt64 → Option Int → Option Val                         -- round(float[, n])
  fmod : UInt64 → UInt64 → Option UInt64                           -- Python float `a % b` (b ≠ 0)

structure Ctx where
  description : String
  amount : Val
  date : Option Date
  source : String
  location : String
  field : Option (List (String × Val))
  variables : List (String × Val)
  sources : List (String × Val)
  functionNames : List String          -- TransactionContext._FUNCTION_NAMES (regenerated from source)

abbrev Scope := List (String × Val)

/-- evaluation monad: the mutable `_scope` dict survives exceptions (as in Python) -/
def M (α : Type) := Scope → Except Err α × Scope

@[inline] def M.pure {α : Type} (a : α) : M α := fun s => (.ok a, s)
@[inline] def M.bind {α β : Type} (x : M α) (f : α → M β) : M β := fun s =>
  match x s with
  | (.ok a, s') => f a s'
  | (.error e, s') => (.error e, s')
instance : Monad M where
  pure := M.pure
  bind := M.bind

def raise {α : Type} (e : Err) : M α := fun s => (.error e, s)
def exprErr {α : Type} (tag : String) : M α := raise (.expr tag)
def pyErr {α : Type} (c : PyExc) : M α := raise (.py c)
def need {α : Type} (prim : String) (args : List String) : M α :=
  raise (.unmodelled ("need\u0001" ++ prim ++ String.join (args.map (fun a => "\u0001" ++ a))))
def liftE {α : Type} (x : Except Err α) : M α := fun s => (x, s)
def raiseE {α : Type} (e : Err) : Except Err α := .error e
def exprErrE {α : Type} (tag : String) : Except Err α := .error (.expr tag)
def pyErrE {α : Type} (c : PyExc) : Except Err α := .error (.py c)
def needE {α : Type} (prim : String) (args : List String) : Except Err α :=
  .error (.unmodelled ("need\u0001" ++ prim ++ String.join (args.map (fun a => "\u0001" ++ a))))
def getScope : M Scope := fun s => (.ok s, s)
def setVar (k : String) (v : Val) : M Unit := fun s =>
  (.ok (), if (s.lookup k).isSome then s.map (fun kv => if kv.1 == k then (k, v) else kv) else s ++ [(k, v)])
def delVar (k : String) : M Unit := fun s => (.ok (), s.filter (fun kv => kv.1 != k))
/-- `try: x except ExpressionError: handler` -/
def catchExpr {α : Type} (x : M α) (handler : M α) : M α := fun s =>
  match x s with
  | (.error (.expr _), s') => handler s'
  | r => r

/-! ### primitives through oracles -/

def pyUpper (o : Oracles) (s : String) : Except Err String :=
  if isAsciiStr s then pure (upperAscii s) else
  match o.upper s with
  | some r => pure r
  | none => needE "upper" [s]

def pyLower (o : Oracles) (s : String) : Except Err String :=
  if isAsciiStr s then pure (lowerAscii s) else
  match o.lower s with
  | some r => pure r
  | none => needE "lower" [s]

def natStr (n : Nat) : String := toString n
def intStr (i : Int) : String := if i < 0 then "-" ++ toString (-i).toNat else toString i.toNat

/-- `str(v)` -/
def pyStr (o : Oracles) : Val → Except Err String
  | .none => pure "None"
  | .bool b => pure (if b then "True" else "False")
  | .int i => pure (intStr i)
  | .flt b => match o.fltStr b with
    | some s => pure s
    | none => needE "fltstr" [toString b.toNat]
  | .str s => pure s
  | .date d => pure d.iso
  | v => raiseE (.unmodelled ("str() of " ++ v.typeName))

def strictIso (s : String) : Option (Option Date) :=
  -- exactly YYYY-MM-DD with ASCII digits: decided natively; anything else goes to the oracle
  let cs := s.toList
  if cs.length == 10 && cs[4]? == some '-' && cs[7]? == some '-' &&
      (cs.take 4 ++ (cs.drop 5).take 2 ++ cs.drop 8).all (fun c => '0' ≤ c && c ≤ '9') then
    let num (l : List Char) : Nat := l.foldl (fun a c => a * 10 + (c.toNat - '0'.toNat)) 0
    let d : Date := ⟨num (cs.take 4), num ((cs.drop 5).take 2), num (cs.drop 8)⟩
    some (if d.valid then some d else none)
  else none

/-- `_parse_date_string` -/
def parseDate (o : Oracles) (s : String) : Except Err Date :=
  match strictIso s with
  | some (some d) => pure d
  | some none => exprErrE "Invalid date format"
  | none =>
    match o.isoDate s with
    | some (some d) => pure d
    | some none => exprErrE "Invalid date format"
    | none => needE "isodate" [s]

def requireStr (c : PyExc) : Val → Except Err String
  | .str s => pure s
  | _ => pyErrE c

/-! ### iteration -/

/-- what `for item in v` iterates over -/
def iterItems : Val → M (List Val)
  | .list xs => pure xs
  | .str s => pure (s.toList.map (fun c => Val.str (String.singleton c)))
  | .row kvs => pure (kvs.map (fun kv => Val.str kv.1))
  | .gen _ => raise (.unmodelled "iteration over an escaped generator")
  | _ => pyErr .typeError

inductive Step (β : Type) | more (b : β) | done (b : β)

/-- consumers of a lazily produced sequence -/
inductive Consumer | collect | any | all | sum | next | min | max
deriving DecidableEq, Repr

structure Acc where
  vals : List Val        -- collect: reversed output
  cur : Val              -- sum: running total; min/max/next: current answer
  has : Bool             -- min/max/next: `cur` is set
  fsum : Option (UInt64 × UInt64)   -- CPython ≥ 3.12 float fast path of sum(): (f_result, compensation c)

/-- CPython 3.12 `sum()`: ints accumulate exactly; from the first float on, Neumaier-compensated
double accumulation (ints are added uncompensated); any other type falls back to `+`. -/
def sumStep (acc : Acc) (v : Val) : Except Err Acc :=
  match acc.fsum with
  | some (fr, c) =>
    (match v with
     | .flt x =>
       let f := F fr; let xf := F x
       let t := f + xf
       let c' := if Float.abs f ≥ Float.abs xf then F c + ((f - t) + xf) else F c + ((xf - t) + f)
       .ok { acc with fsum := some (B t, B c') }
     | .int n => if n.natAbs ≥ 2 ^ 53 then .error (.unmodelled "big int in float sum") else
        .ok { acc with fsum := some (B (F fr + intToFloat n), c) }
     | .bool b => .ok { acc with fsum := some (B (F fr + (if b then 1.0 else 0.0)), c) }
     | _ =>
       -- leave the fast path: fold the compensation in, continue generically
       let f := if F c != 0.0 && (F c).isFinite then F fr + F c else F fr
       match pyArith .add (.flt (B f)) v with
       | .ok r => .ok { acc with cur := r, fsum := none }
       | .error e => .error e)
  | none =>
    match pyArith .add acc.cur v with
    | .ok (.flt r) =>
      -- entering the float fast path happens only when the running result is an exact float
      .ok { acc with cur := .flt r, fsum := some (r, B 0.0) }
    | .ok r => .ok { acc with cur := r }
    | .error e => .error e

def sumFinish (acc : Acc) : Val :=
  match acc.fsum with
  | some (fr, c) => .flt (B (if F c != 0.0 && (F c).isFinite then F fr + F c else F fr))
  | none => acc.cur

def consume (c : Consumer) (acc : Acc) (v : Val) : Except Err (Step Acc) :=
  match c with
  | .collect => .ok (.more { acc with vals := v :: acc.vals })
  | .any => if truthy v then .ok (.done { acc with cur := .bool true }) else .ok (.more acc)
  | .all => if truthy v then .ok (.more acc) else .ok (.done { acc with cur := .bool false })
  | .next => .ok (.done { acc with cur := v, has := true })
  | .sum => (sumStep acc v).map .more
  | .min =>
    if !acc.has then .ok (.more { acc with cur := v, has := true }) else
    (match pyLt v acc.cur with
     | some true => .ok (.more { acc with cur := v })
     | some false => .ok (.more acc)
     | none => .error (.py .typeError))
  | .max =>
    if !acc.has then .ok (.more { acc with cur := v, has := true }) else
    (match pyLt acc.cur v with       -- `item > maxval`
     | some true => .ok (.more { acc with cur := v })
     | some false => .ok (.more acc)
     | none => .error (.py .typeError))

/-- `for item in iterable:` of `_eval_comprehension_loop` / `_generator_helper`:
bind, test the `if` clauses, run the body, restore the binder — unless the consumer stopped
pulling (`done`): a suspended generator never restores. -/
def loopItems (x : String) (cond : M Bool) (body : Acc → M (Step Acc)) : List Val → Acc → M (Step Acc)
  | [], acc => pure (.more acc)
  | item :: rest, acc => do
    let sc ← getScope
    let old := sc.lookup x
    setVar x item
    let ok ← cond
    let st ← if ok then body acc else pure (Step.more acc)
    match st with
    | .done b => pure (.done b)
    | .more b =>
      (match old with
       | none => delVar x
       | some .none => delVar x          -- `if old_value is None: pop` — a binder that shadowed a None entry deletes it
       | some v => setVar x v)
      loopItems x cond body rest b

def emptyAcc (start : Val) : Acc := { vals := [], cur := start, has := false, fsum := none }

/-! ### the fixed function table (`_fn_*`) on already evaluated arguments -/

def textPattern (fname : String) (desc : String) : List Val → Except Err (Val × Val)
  | [p] => pure (.str desc, p)
  | [t, p] => pure (t, p)
  | _ => exprErrE (fname ++ "() requires 1 or 2 arguments")

def isIntLike : Val → Option Int
  | .int i => some i
  | .bool b => some (if b then 1 else 0)
  | _ => none

def fuzzyWindows (o : Oracles) (text pat : String) (thr : Float) : Except Err Bool := do
  let t := text.toList; let p := pat.toList
  let ratioOf (a b : String) : Except Err Float :=
    match o.ratio a b with
    | some r => pure (F r)
    | none => needE "ratio" [a, b]
  if p.length > t.length then
    let r ← ratioOf text pat
    pure (r ≥ thr)
  else
    let rec go (fuel : Nat) (i : Nat) : Except Err Bool :=
      match fuel with
      | 0 => pure false
      | fuel + 1 =>
        if i + p.length > t.length then pure false else do
          let w := String.ofList ((t.drop i).take p.length)
          let r ← ratioOf w pat
          if r ≥ thr then pure true else go fuel (i + 1)
    go (t.length + 1) 0

def thresholdOf : Val → Except Err Float
  | .int i => pure (intToFloat i)
  | .bool b => pure (if b then 1.0 else 0.0)
  | .flt b => pure (F b)
  | _ => pyErrE .typeError

def callFn (o : Oracles) (ctx : Ctx) (fname : String) (args : List Val) : Except Err Val :=
  match fname with
  | "contains" => do
    let (t, p) ← textPattern fname ctx.description args
    let ps ← requireStr .attributeError p
    let pu ← pyUpper o ps
    let ts ← requireStr .attributeError t
    let tu ← pyUpper o ts
    pure (.bool (strContains pu tu))
  | "regex" => do
    let (t, p) ← textPattern fname ctx.description args
    if !hashable p then pyErrE .typeError else
    match p with
    | .str ps =>
      (match t with
       | .str ts =>
         (match o.reSearch ps ts with
          | some (some b) => pure (.bool b)
          | some none => exprErrE "Invalid regex pattern"
          | none => needE "re_search" [ps, ts])
       | _ =>
         -- the pattern is compiled first: a bad pattern is reported before the bad text
         (match o.reSearch ps "" with
          | some (some _) => pyErrE .typeError
          | some none => exprErrE "Invalid regex pattern"
          | none => needE "re_search" [ps, ""]))
    | _ => pyErrE .typeError
  | "normalized" => do
    let (t, p) ← textPattern fname ctx.description args
    let ps ← requireStr .attributeError p
    let pu ← pyUpper o ps
    let ts ← requireStr .attributeError t
    let tu ← pyUpper o ts
    pure (.bool (strContains (normalizeChars pu) (normalizeChars tu)))
  | "anyof" => do
    let du ← pyUpper o ctx.description
    let rec go : List Val → Except Err Val
      | [] => pure (.bool false)
      | p :: ps => do
        let s ← requireStr .attributeError p
        let u ← pyUpper o s
        if strContains u du then pure (.bool true) else go ps
    go args
  | "startswith" => do
    let (t, p) ← textPattern fname ctx.description args
    let ts ← requireStr .attributeError t
    let tu ← pyUpper o ts
    let ps ← requireStr .attributeError p
    let pu ← pyUpper o ps
    pure (.bool (strStartsWith tu pu))
  | "fuzzy" => do
    let (t, p, thr) ← (match args with
      | [p] => pure (Val.str ctx.description, p, Val.flt (B 0.80))
      | [a, b] => (match b with
        | .int _ | .flt _ | .bool _ => pure (Val.str ctx.description, a, b)
        | _ => pure (a, b, Val.flt (B 0.80)))
      | [a, b, c] => pure (a, b, c)
      | _ => exprErrE "fuzzy() requires 1-3 arguments" : Except Err (Val × Val × Val))
    let ts ← requireStr .attributeError t
    let tu ← pyUpper o ts
    let ps ← requireStr .attributeError p
    let pu ← pyUpper o ps
    -- the threshold is only touched when a ratio is compared with it
    if pu.length ≤ tu.length && tu.length + 1 - pu.length == 0 then pure (.bool false) else do
      let th ← (match thr with
        | .int _ | .flt _ | .bool _ => thresholdOf thr
        | _ => pyErrE .typeError : Except Err Float)
      let b ← fuzzyWindows o tu pu th
      pure (.bool b)
  | "extract" => do
    let (t, p) ← textPattern fname ctx.description args
    if !hashable p then pyErrE .typeError else
    match p with
    | .str ps =>
      (match t with
       | .str ts =>
         (match o.reExtract ps ts with
          | some (some s) => pure (.str s)
          | some none => exprErrE "Invalid regex pattern in extract()"
          | none => needE "re_extract" [ps, ts])
       | _ =>
         (match o.reExtract ps "" with
          | some (some _) => pyErrE .typeError
          | some none => exprErrE "Invalid regex pattern in extract()"
          | none => needE "re_extract" [ps, ""]))
    | _ => pyErrE .typeError
  | "split" => do
    let (t, d, i) ← (match args with
      | [d, i] => pure (Val.str ctx.description, d, i)
      | [t, d, i] => pure (t, d, i)
      | _ => exprErrE "split() requires 2 or 3 arguments" : Except Err (Val × Val × Val))
    match isIntLike i with
    | none => exprErrE "split() index must be an integer"
    | some idx =>
      match t with
      | .str ts =>
        (match d with
         | .str ds =>
           if ds.isEmpty then pyErrE .valueError else
           let parts := strSplit ts ds
           if 0 ≤ idx && idx < parts.length then pure (.str (pyStrip (parts.getD idx.toNat ""))) else pure (.str "")
         | .none =>
           let parts := (splitWs [] ts.toList).map String.ofList
           if 0 ≤ idx && idx < parts.length then pure (.str (pyStrip (parts.getD idx.toNat ""))) else pure (.str "")
         | _ => pyErrE .typeError)
      | _ => pyErrE .attributeError
  | "substring" => do
    let (t, a, b) ← (match args with
      | [a, b] => pure (Val.str ctx.description, a, b)
      | [t, a, b] => pure (t, a, b)
      | _ => exprErrE "substring() requires 2 or 3 arguments" : Except Err (Val × Val × Val))
    match isIntLike a, isIntLike b with
    | some s, some e =>
      (match t with
       | .str ts => pure (.str (String.ofList (pySlice ts.toList s e)))
       | .list xs => pure (.list (pySlice xs s e))
       | .row _ => pyErrE .keyError          -- `row[a:b]`: a slice is hashable (Python ≥ 3.12), so the dict lookup raises KeyError
       | _ => pyErrE .typeError)
    | _, _ => exprErrE "substring() start and end must be integers"
  | "trim" =>
    (match args with
     | [] => pure (.str (pyStrip ctx.description))
     | [x] => do let s ← pyStr o x; pure (.str (pyStrip s))
     | _ => exprErrE "trim() requires 0 or 1 arguments")
  | "regex_replace" =>
    (match args with
     | [t, p, r] => do
       let ts ← pyStr o t; let ps ← pyStr o p; let rs ← pyStr o r
       match o.reSub ps rs ts with
       | some (some s) => pure (.str s)
       | some none => pyErrE .reError               -- `re.error` is NOT caught by regex_replace
       | none => needE "re_sub" [ps, rs, ts]
     | _ => exprErrE "regex_replace() requires 3 arguments")
  | "uppercase" =>
    (match args with
     | [x] => do let s ← pyStr o x; let u ← pyUpper o s; pure (.str u)
     | _ => exprErrE "uppercase() requires 1 argument")
  | "lowercase" =>
    (match args with
     | [x] => do let s ← pyStr o x; let u ← pyLower o s; pure (.str u)
     | _ => exprErrE "lowercase() requires 1 argument")
  | "strip_prefix" =>
    (match args with
     | [t, p] => do
       let ts ← pyStr o t; let ps ← pyStr o p
       let tu ← pyUpper o ts; let pu ← pyUpper o ps
       if strStartsWith tu pu then pure (.str (String.ofList (ts.toList.drop ps.length))) else pure (.str ts)
     | _ => exprErrE "strip_prefix() requires 2 arguments")
  | "strip_suffix" =>
    (match args with
     | [t, p] => do
       let ts ← pyStr o t; let ps ← pyStr o p
       let tu ← pyUpper o ts; let pu ← pyUpper o ps
       -- `text[:-len(suffix)]`: for an empty suffix this is `text[:0]`
       if strEndsWith tu pu then pure (.str (String.ofList (pySlice ts.toList 0 (-(ps.length : Int))))) else pure (.str ts)
     | _ => exprErrE "strip_suffix() requires 2 arguments")
  | "abs" =>
    (match args with
     | [.int i] => pure (.int i.natAbs)
     | [.bool b] => pure (.int (if b then 1 else 0))
     | [.flt b] => pure (.flt (B (Float.abs (F b))))
     | [.tdelta d] => pure (.tdelta d.natAbs)
     | _ => pyErrE .typeError)
  | "round" =>
    (match args with
     | [.int i] => pure (.int i)
     | [.bool b] => pure (.int (if b then 1 else 0))
     | [.flt b] => (match o.round b none with
       | some v => pure v
       | none => needE "round" [toString b.toNat])
     | [.flt b, n] => (match n with
       | .none => (match o.round b none with
         | some v => pure v
         | none => needE "round" [toString b.toNat])
       | _ => match isIntLike n with
         | some k => (match o.round b (some k) with
           | some v => pure v
           | none => needE "round" [toString b.toNat, intStr k])
         | none => pyErrE .typeError)
     | [.int i, n] => (match n with
       | .none => pure (.int i)
       | _ => match isIntLike n with
         | some k => if k ≥ 0 then pure (.int i) else raiseE (.unmodelled "round(int, negative)")
         | none => pyErrE .typeError)
     | [.bool b, n] => (match n with
       | .none => pure (.int (if b then 1 else 0))
       | _ => match isIntLike n with
         | some k => if k ≥ 0 then pure (.int (if b then 1 else 0)) else raiseE (.unmodelled "round(int, negative)")
         | none => pyErrE .typeError)
     | _ => pyErrE .typeError)
  | other => raiseE (.unmodelled ("function in _FUNCTION_NAMES without a model: " ++ other))

/-! ### comparisons -/

def cmpLink (o : Oracles) (op : CmpOp) (left right : Val) : Except Err Bool :=
  match op with
  | .eq =>
    (match left, right with
     | .str a, .str b => do let x ← pyLower o a; let y ← pyLower o b; pure (x == y)
     | _, _ => pure (pyEq left right))
  | .ne =>
    (match left, right with
     | .str a, .str b => do let x ← pyLower o a; let y ← pyLower o b; pure (x != y)
     | _, _ => pure (!pyEq left right))
  | .lt => (match pyLt left right with | some b => pure b | none => pyErrE .typeError)
  | .le => (match pyLe left right with | some b => pure b | none => pyErrE .typeError)
  | .gt => (match pyLt right left with | some b => pure b | none => pyErrE .typeError)
  | .ge => (match pyLe right left with | some b => pure b | none => pyErrE .typeError)
  | .isIn | .notIn => do
    let r ← (match right with
      | .str rs =>
        (match left with
         | .str ls => do let lu ← pyUpper o ls; let ru ← pyUpper o rs; pure (strContains lu ru)
         | _ => pyErrE .typeError)
      | .list xs => pure (xs.any (fun x => pyEq left x))      -- (a generator / NaN identity corner is outside the model)
      | .row kvs => if hashable left then (match left with
          | .str k => pure ((kvs.lookup k).isSome)
          | _ => pure false) else pyErrE .typeError
      | .gen _ => raiseE (.unmodelled "membership in an escaped generator")
      | _ => pyErrE .typeError : Except Err Bool)
    pure (if op == .isIn then r else !r)

/-- date comparisons against ISO strings: `date ⋈ "YYYY-MM-DD"` (either side) parses the string -/
def coerceDates (o : Oracles) (left right : Val) : Except Err (Val × Val) :=
  match left, right with
  | .date _, .str s => do let d ← parseDate o s; pure (left, Val.date d)
  | .str s, .date _ => do let d ← parseDate o s; pure (Val.date d, right)
  | _, _ => pure (left, right)

/-! ### the interpreter -/

def primitive (ctx : Ctx) (name : String) : Option Val :=
  match name with
  | "description" => some (.str ctx.description)
  | "amount" => some ctx.amount
  | "date" => some (match ctx.date with | some d => .date d | none => .none)
  | "month" => some (.int (match ctx.date with | some d => d.m | none => 0))
  | "year" => some (.int (match ctx.date with | some d => d.y | none => 0))
  | "day" => some (.int (match ctx.date with | some d => d.d | none => 0))
  | "weekday" => some (.int (match ctx.date with | some d => d.weekday | none => 0))
  | "source" => some (.str ctx.source)
  | "true" => some (.bool true)
  | "false" => some (.bool false)
  | _ => none

def txnAttr (ctx : Ctx) (a : String) : Option Val :=
  match a with
  | "location" => some (.str ctx.location)
  | "true" | "false" => none
  | _ => primitive ctx a

def fieldBuiltin (ctx : Ctx) (a : String) : Option Val :=
  match a with
  | "description" => some (.str ctx.description)
  | "amount" => some ctx.amount
  | "date" => some (match ctx.date with | some d => .date d | none => .none)
  | "source" => some (.str ctx.source)
  | "location" => some (.str ctx.location)
  | _ => none

def lowerName (s : String) : String := s.toLower     -- identifiers: `str.lower()`; ASCII here, non-ASCII identifiers are filtered by the harness

def isGenexp : Expr → Bool
  | .genexp _ _ => true
  | _ => false

/-- `_eval_Name` -/
def lookupName (ctx : Ctx) (id : String) : M Val := do
  let n := lowerName id
  let sc ← getScope
  match sc.lookup n with
  | some v => pure v
  | none =>
    match ctx.variables.lookup n with
    | some v => pure v
    | none =>
      match primitive ctx n with
      | some v => pure v
      | none =>
        match ctx.sources.lookup n with
        | some v => pure v
        | none => exprErr "Unknown variable"

/-- tail of `_eval_Attribute`: only a dict row resolves; any ExpressionError on the way is swallowed
and replaced by "Unsupported attribute access" -/
def rowAttr (recv : M Val) (al : String) : M Val :=
  catchExpr (do
    let v ← recv
    match v with
    | .row kvs => (match kvs.lookup al with
      | some x => pure x
      | none => exprErr "Unsupported attribute access")
    | _ => exprErr "Unsupported attribute access")
    (exprErr "Unsupported attribute access")

def finishAcc (c : Consumer) (acc : Acc) : M Val :=
  match c with
  | .sum => pure (sumFinish acc)
  | .min | .max => if acc.has then pure acc.cur else pyErr .valueError
  | .any | .all => pure acc.cur
  | .next => pure acc.cur
  | .collect => pure (.list acc.vals.reverse)

def foldConsumerGo (c : Consumer) : List Val → Acc → M Val
  | [], acc => finishAcc c acc
  | v :: rest, acc =>
    match consume c acc v with
    | .ok (.more a) => foldConsumerGo c rest a
    | .ok (.done a) => finishAcc c a
    | .error e => raise e

def foldConsumer (c : Consumer) (vs : List Val) (start : Val) : M Val := foldConsumerGo c vs (emptyAcc start)

/-- any/all/sum/min/max over an already evaluated iterable -/
def finishConsumer (c : Consumer) (it : Val) (start : Val) : M Val :=
  match c, start with
  | .sum, .str _ => pyErr .typeError           -- sum() refuses a str start value
  | _, _ => do
    let items ← iterItems it
    foldConsumer c items start

/-- PEP 479: the body of a generator expression runs in a generator frame; a `StopIteration` that escapes from it
(a `next()` on an exhausted generator inside it) reaches the consumer as `RuntimeError("generator raised StopIteration")` -/
def pep479 {α : Type} (x : M α) : M α := fun s =>
  match x s with
  | (.error (.py .stopIteration), s') => (.error (.py .runtimeError), s')
  | r => r

/-- a generator expression consumed lazily in place by any/all/sum/min/max -/
def runGen (gensM : (Acc → M (Step Acc)) → Acc → M (Step Acc)) (eltM : M Val) (c : Consumer) (start : Val) : M Val := do
  let st ← pep479 (gensM (fun acc => do
    let v ← eltM
    liftE (consume c acc v)) (emptyAcc start))
  match st with
  | .more acc | .done acc => finishAcc c acc

mutual
def eval (o : Oracles) (ctx : Ctx) : Expr → M Val
  | .const v => pure v
  | .name id => lookupName ctx id
  | .attr e a => rowAttr (eval o ctx e) (lowerName a)
  | .attrName id a =>
    let al := lowerName a
    if lowerName id == "txn" then
      (match txnAttr ctx al with
       | some v => pure v
       | none => exprErr "Unknown txn attribute")
    else if lowerName id == "field" then
      (match fieldBuiltin ctx al with
       | some v => pure v
       | none =>
         match ctx.field with
         | some f => (match f.lookup al with
           | some v => pure v
           | none => exprErr "Unknown field")
         | none => exprErr "Unknown field")
    else rowAttr (lookupName ctx id) al
  | .callAttr recv meth args => do
    let obj ← eval o ctx recv
    let m := lowerName meth
    match obj with
    | .str s =>
      (match m with
       | "lower" => do let r ← liftE (pyLower o s); pure (.str r)
       | "upper" => do let r ← liftE (pyUpper o s); pure (.str r)
       | "strip" => pure (.str (pyStrip s))
       | "startswith" =>
         (match args with
          | [a] => do
            let v ← eval o ctx a
            match v with
            | .str p => pure (.bool (strStartsWith s p))
            | _ => pyErr .typeError
          | _ => exprErr "startswith() requires 1 argument")
       | "endswith" =>
         (match args with
          | [a] => do
            let v ← eval o ctx a
            match v with
            | .str p => pure (.bool (strEndsWith s p))
            | _ => pyErr .typeError
          | _ => exprErr "endswith() requires 1 argument")
       | "replace" =>
         (match args with
          | [a, b] => do
            let va ← eval o ctx a
            let vb ← eval o ctx b
            match va, vb with
            | .str x, .str y => pure (.str (strReplace s x y))
            | _, _ => pyErr .typeError
          | _ => exprErr "replace() requires 2 arguments")
       | _ => exprErr "Unsupported method call")
    | _ => exprErr "Unsupported method call"
  | .callOther _ _ => exprErr "Only simple function calls are supported"
  | .callName f args =>
    let fn := lowerName f
    match fn with
    | "exists" =>
      (match args with
       | [a] => catchExpr (do
           let v ← eval o ctx a
           if truthy v then do
             let s ← liftE (pyStr o v)
             pure (.bool (!(pyStrip s).isEmpty))
           else pure (.bool false))
           (pure (.bool false))
       | _ => exprErr "exists() requires exactly 1 argument")
    | "len" =>
      (match args with
       | [a] => do
         let v ← eval o ctx a
         match v with
         | .str s => pure (.int s.length)
         | .list xs => pure (.int xs.length)
         | .row kvs => pure (.int kvs.length)
         | _ => pyErr .typeError
       | _ => exprErr "len() requires exactly 1 argument")
    | "sum" =>
      (match args with
       | [a] => do
         let it ← eval o ctx a
         finishConsumer .sum it (.int 0)
       | [a, b] => do
         let it ← eval o ctx a
         let st ← eval o ctx b
         finishConsumer .sum it st
       | _ => exprErr "sum() requires 1 or 2 arguments")
    | "any" =>
      (match args with
       | [a] => do
         let it ← eval o ctx a
         finishConsumer .any it (.bool false)
       | _ => exprErr "any() requires exactly 1 argument")
    | "all" =>
      (match args with
       | [a] => do
         let it ← eval o ctx a
         finishConsumer .all it (.bool true)
       | _ => exprErr "all() requires exactly 1 argument")
    | "next" =>
      (match args with
       | [a] => do
         let v ← eval o ctx a
         match v with
         | .gen _ => raise (.unmodelled "next() on an escaped generator")
         | _ => pyErr .typeError
       | [a, d] => do
         let v ← eval o ctx a
         let _ ← eval o ctx d
         match v with
         | .gen _ => raise (.unmodelled "next() on an escaped generator")
         | _ => pyErr .typeError
       | _ => exprErr "next() requires 1 or 2 arguments")
    | "min" =>
      if args.length == 1 then do
        let vs ← evalArgs o ctx args
        match vs with
        | [it] => finishConsumer .min it .none
        | _ => pyErr .typeError
      else do
        -- `min(self.evaluate(arg) for arg in node.args)`: arguments are evaluated as min() pulls them
        let st ← evalLazyArgs o ctx .min args (emptyAcc .none)
        finishAcc .min st
    | "max" =>
      if args.length == 1 then do
        let vs ← evalArgs o ctx args
        match vs with
        | [it] => finishConsumer .max it .none
        | _ => pyErr .typeError
      else do
        -- `max(self.evaluate(arg) for arg in node.args)`: arguments are evaluated as max() pulls them
        let st ← evalLazyArgs o ctx .max args (emptyAcc .none)
        finishAcc .max st
    | _ =>
      if fn == "abs" || fn == "round" || ctx.functionNames.contains fn then do
        let vs ← evalArgs o ctx args
        liftE (callFn o ctx fn vs)
      else exprErr "Unknown function"
  | .callNameGen f elt gens more =>
    let fn := lowerName f
    match fn with
    | "exists" =>
      (match more with
       | [] => pure (.bool true)          -- a generator object is truthy and its str() is not blank; nothing is evaluated
       | _ => exprErr "exists() requires exactly 1 argument")
    | "len" =>
      (match more with
       | [] => pyErr .typeError
       | _ => exprErr "len() requires exactly 1 argument")
    | "sum" =>
      (match more with
       | [] => runGen (evalGens o ctx gens) (eval o ctx elt) .sum (.int 0)
       | [b] => do
         let st ← eval o ctx b           -- the start value is evaluated before the generator is pulled
         match st with
         | .str _ => pyErr .typeError
         | _ => runGen (evalGens o ctx gens) (eval o ctx elt) .sum st
       | _ => exprErr "sum() requires 1 or 2 arguments")
    | "any" =>
      (match more with
       | [] => runGen (evalGens o ctx gens) (eval o ctx elt) .any (.bool false)
       | _ => exprErr "any() requires exactly 1 argument")
    | "all" =>
      (match more with
       | [] => runGen (evalGens o ctx gens) (eval o ctx elt) .all (.bool true)
       | _ => exprErr "all() requires exactly 1 argument")
    | "next" =>
      (match more with
       | [] => do
         let st ← pep479 (evalGens o ctx gens (fun acc => do
           let v ← eval o ctx elt
           liftE (consume .next acc v)) (emptyAcc .none))
         match st with
         | .done acc => pure acc.cur
         | .more _ => pyErr .stopIteration
       | [d] => do
         let dv ← eval o ctx d
         let st ← pep479 (evalGens o ctx gens (fun acc => do
           let v ← eval o ctx elt
           liftE (consume .next acc v)) (emptyAcc .none))
         match st with
         | .done acc => pure acc.cur
         | .more _ => pure dv
       | _ => exprErr "next() requires 1 or 2 arguments")
    | "min" | "max" =>
      (match more with
       | [] => runGen (evalGens o ctx gens) (eval o ctx elt) (if fn == "min" then .min else .max) .none
       | b :: _ => do
         let _ ← eval o ctx b            -- second argument is pulled, then generator vs value is unorderable
         pyErr .typeError)
    | _ =>
      if fn == "abs" || fn == "round" || ctx.functionNames.contains fn then do
        let vs ← evalArgs o ctx more
        liftE (callFn o ctx fn (Val.gen [] :: vs))     -- the generator object itself is never run by these functions
      else exprErr "Unknown function"
  | .boolop isAnd es => do
    let b ← evalBool o ctx isAnd es
    pure (.bool b)
  | .unop op e => do
    let v ← eval o ctx e
    match op with
    | .not => pure (.bool (!truthy v))
    | .neg => liftE (pyNeg v)
  | .binop op l r => do
    let a ← eval o ctx l
    let b ← eval o ctx r
    match op with
    | .div => if isZero b then pure (.int 0) else liftE (pyArith .div a b)
    | .mod =>
      if isZero b then pure (.int 0) else
      (match asNumber a, asNumber b with
       | some x, some y =>
         (match x, y with
          | .i _, .i _ => liftE (pyArith .mod a b)
          | _, _ =>
            let bigInt := (match x with | .i n => n.natAbs ≥ 2 ^ 53 | _ => false) || (match y with | .i n => n.natAbs ≥ 2 ^ 53 | _ => false)
            if bigInt then raise (.unmodelled "big int with float") else
            let xb := B (numToFloat x); let yb := B (numToFloat y)
            match o.fmod xb yb with
            | some r => pure (.flt r)
            | none => need "fmod" [toString xb.toNat, toString yb.toNat])
       | _, _ => liftE (pyArith .mod a b))
    | _ => liftE (pyArith op a b)
  | .cmp l links => do
    let left ← eval o ctx l
    let b ← evalLinks o ctx left links
    pure (.bool b)
  | .ifexp c t e => do
    let cv ← eval o ctx c
    if truthy cv then eval o ctx t else eval o ctx e
  | .listcomp elt gens => do
    let st ← evalGens o ctx gens (fun acc => do
      let v ← eval o ctx elt
      liftE (consume .collect acc v)) (emptyAcc .none)
    match st with
    | .more acc | .done acc => pure (.list acc.vals.reverse)
  | .genexp _ _ => raise (.unmodelled "generator object outside a consuming call")
  | .subscript e i => do
    let v ← eval o ctx e
    let idx ← eval o ctx i
    match v with
    | .str s =>
      (match isIntLike idx with
       | some k => (match pyIndex s.toList k with
         | some c => pure (.str (String.singleton c))
         | none => exprErr "Index error")
       | none => pyErr .typeError)
    | .list xs =>
      (match isIntLike idx with
       | some k => (match pyIndex xs k with
         | some x => pure x
         | none => exprErr "Index error")
       | none => pyErr .typeError)
    | .row kvs =>
      if !hashable idx then pyErr .typeError else
      (match idx with
       | .str k => (match kvs.lookup k with
         | some x => pure x
         | none => exprErr "Index error")
       | _ => exprErr "Index error")
    | _ => pyErr .typeError
  | .walrus id e => do
    let v ← eval o ctx e
    setVar (lowerName id) v
    pure v

/-- min()/max() over several arguments: each argument is evaluated when the builtin pulls it -/
def evalLazyArgs (o : Oracles) (ctx : Ctx) (c : Consumer) : List Expr → Acc → M Acc
  | [], acc => pure acc
  | e :: es, acc => do
    let v ← eval o ctx e
    match consume c acc v with
    | .ok (.more a) => evalLazyArgs o ctx c es a
    | .ok (.done a) => pure a
    | .error err => raise err

def evalArgs (o : Oracles) (ctx : Ctx) : List Expr → M (List Val)
  | [] => pure []
  | e :: es => do
    let v ← eval o ctx e
    let vs ← evalArgs o ctx es
    pure (v :: vs)

/-- `and` / `or`: left to right, first decisive operand, result is a Python bool -/
def evalBool (o : Oracles) (ctx : Ctx) (isAnd : Bool) : List Expr → M Bool
  | [] => pure isAnd
  | e :: es => do
    let v ← eval o ctx e
    if isAnd then (if truthy v then evalBool o ctx isAnd es else pure false)
    else (if truthy v then pure true else evalBool o ctx isAnd es)

/-- `all(self.evaluate(c) for c in comp.ifs)` -/
def evalConds (o : Oracles) (ctx : Ctx) : List Expr → M Bool
  | [] => pure true
  | e :: es => do
    let v ← eval o ctx e
    if truthy v then evalConds o ctx es else pure false

/-- the comparison chain: per link evaluate the comparator, coerce date/ISO string, compare,
stop at the first false link, and continue with `left = right` (the coerced value) -/
def evalLinks (o : Oracles) (ctx : Ctx) (left : Val) : List Link → M Bool
  | [] => pure true
  | .mk op e :: rest => do
    let right0 ← eval o ctx e
    let (l, r) ← liftE (coerceDates o left right0)
    let b ← liftE (cmpLink o op l r)
    if b then evalLinks o ctx r rest else pure false

def evalGens (o : Oracles) (ctx : Ctx) : List Comp → (Acc → M (Step Acc)) → Acc → M (Step Acc)
  | [], body, acc => body acc
  | .mk target iter ifs :: gs, body, acc => do
    let itv ← eval o ctx iter
    match target with
    | none => exprErr "Only simple loop variables supported"
    | some x => do
      let items ← iterItems itv
      loopItems (lowerName x) (evalConds o ctx ifs) (evalGens o ctx gs body) items acc
end

/-- top level: a fresh evaluator (empty `_scope`) -/
def run (o : Oracles) (ctx : Ctx) (e : Expr) : Except Err Val := (eval o ctx e []).1

end TallyVerif.Expr
