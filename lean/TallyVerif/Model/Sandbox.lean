/-!
M-Sandbox — `validate_ast`: the whitelist walk over an arbitrary Python AST.

`Tree` is any AST: a node kind and its child nodes in `ast.iter_child_nodes` order.  Core Lean only.
-/
namespace TallyVerif.Sandbox

inductive Tree
  | node (kind : String) (children : List Tree)
deriving Repr

mutual
/-- `validate_ast(node, allowed)`: `type(node) in allowed` and every child validates -/
def validate (allowed : List String) : Tree → Bool
  | .node k cs => allowed.contains k && validateAll allowed cs
def validateAll (allowed : List String) : List Tree → Bool
  | [] => true
  | t :: ts => validate allowed t && validateAll allowed ts
end

mutual
/-- every node kind occurring anywhere in the tree -/
def kinds : Tree → List String
  | .node k cs => k :: kindsAll cs
def kindsAll : List Tree → List String
  | [] => []
  | t :: ts => kinds t ++ kindsAll ts
end

end TallyVerif.Sandbox
