/-!
# M-Csv / M-Amount — statement rows to transactions (property C05)

Hand model of `parsers.parse_amount`, `parsers.extract_location` and of the row loop of
`parsers.parse_generic_csv` (called with `rules=[]`: classification is out of scope here).

* `parseFile`: input = rows **after** tokenisation (the harness feeds the model the rows
  `_iter_rows_with_delimiter` produced from the same file).  Tokenisation itself is `iterRows` (section
  "tokenisation"): `readCsv` models `csv.reader`, the regular expression of a `regex:` delimiter is a parameter.
* Text is `List Char`; every function is total and structurally recursive.
* External functions are parameters (`Oracles`): `float()` and `datetime.strptime` (the latter is modelled in
  Model/Strptime.lean: `Strptime.oracles` instantiates it, leaving only CPython's character tables as a parameter).
* A Python `float` is its IEEE-754 bit pattern, split into sign bit and 63-bit magnitude (`F64`);
  negation, `abs`, `== 0`, `< 0`, `math.isfinite` are exact operations on that pattern.
* `Cfg.skipNonFinite = true` is the repaired code (fix D5: `if not math.isfinite(amount): continue`);
  `false` is the tree before the repair (kept so that the D5 witness can be stated on `Impl`).

Core Lean only (the driver links this file).
-/
namespace TallyVerif.Csv

abbrev Str := List Char

/-! ## Python text primitives -/

/-- `str.isspace()` per character = what `str.strip()`, `str.split()` and `re`'s `\s` use
(29 code points; the driver op `spaces` lets the harness compare this set with CPython's). -/
def isPySpace (c : Char) : Bool :=
  let n := c.toNat
  (9 ≤ n && n ≤ 13) || (28 ≤ n && n ≤ 32) || n == 0x85 || n == 0xa0 || n == 0x1680 ||
  (0x2000 ≤ n && n ≤ 0x200a) || n == 0x2028 || n == 0x2029 || n == 0x202f || n == 0x205f || n == 0x3000

def lstrip (s : Str) : Str := s.dropWhile isPySpace
def rstrip (s : Str) : Str := (s.reverse.dropWhile isPySpace).reverse
/-- `s.strip()` -/
def strip (s : Str) : Str := rstrip (lstrip s)

/-- `s.split()[0]`; `none` = `IndexError` (nothing but blanks) -/
def firstToken (s : Str) : Option Str :=
  match lstrip s with
  | [] => none
  | t => some (t.takeWhile (fun c => !isPySpace c))

def isAsciiUpper (c : Char) : Bool := 65 ≤ c.toNat && c.toNat ≤ 90

/-- `extract_location`: `re.search(r'\s+([A-Z]{2})\s*$', description)`.  `\s*` may swallow everything up
to the end, so a match exists iff the text minus trailing blanks ends in blank, capital, capital. -/
def extractLocation (desc : Str) : Option Str :=
  match desc.reverse.dropWhile isPySpace with
  | b :: a :: w :: _ => if isAsciiUpper a && isAsciiUpper b && isPySpace w then some [a, b] else none
  | _ => none

/-! ## IEEE doubles as bit patterns -/

structure F64 where
  neg : Bool
  /-- exponent and fraction bits (`bits &&& 0x7fff_ffff_ffff_ffff`) -/
  mag : Nat
deriving DecidableEq, Repr

namespace F64
def infMag : Nat := 0x7ff0000000000000
def isFinite (x : F64) : Bool := x.mag < infMag
def isNaN (x : F64) : Bool := infMag < x.mag
/-- `x == 0` (both zeros) -/
def isZero (x : F64) : Bool := x.mag == 0
/-- unary minus flips the sign bit (also of zeros and NaNs) -/
def negate (x : F64) : F64 := { x with neg := !x.neg }
def abs (x : F64) : F64 := { x with neg := false }
/-- `x < 0` -/
def ltZero (x : F64) : Bool := x.neg && x.mag != 0 && !x.isNaN
def ofBits (b : Nat) : F64 := ⟨b / 2 ^ 63 % 2 == 1, b % 2 ^ 63⟩
def toBits (x : F64) : Nat := (if x.neg then 2 ^ 63 else 0) + x.mag
end F64

/-! ## `parse_amount` -/

def isCurrency (c : Char) : Bool := c == '$' || c == '€' || c == '£' || c == '¥'

/-- Everything `parse_amount` does before `float()`: the parenthesis flag and the text handed to `float()`. -/
def cleanAmount (eu : Bool) (cell : Str) : Bool × Str :=
  let s := strip cell
  let paren := s.head? == some '(' && s.getLast? == some ')'
  let s := if paren then (s.drop 1).dropLast else s
  let s := strip (s.filter fun c => !isCurrency c)
  let s := if eu then (s.filter fun c => c != '.' && c != ' ').map (fun c => if c == ',' then '.' else c)
           else s.filter fun c => c != ','
  (paren, s)

/-- why `datetime.strptime` returned no date -/
inductive DateErr
  | valueError      -- no match / unconverted data / impossible date / bad directive: caught per row
  | reError         -- `re.error` (the format uses a directive twice: "redefinition of group name"): NOT caught
  | unsupported     -- the format uses a directive outside the model of `strptime`
deriving DecidableEq, Repr

structure Oracles where
  /-- `float(text)`; `none` = `ValueError` -/
  pyFloat : Str → Option F64
  /-- `datetime.strptime(token, fmt).isoformat()`.  `Strptime.dateOracle` (Model/Strptime.lean) is the model of CPython's
  `_strptime`; the theorems of the row loop hold for every function here -/
  strptime : (fmt tok : Str) → Except DateErr Str

/-- `parse_amount(cell, ',' if eu else '.')`; `none` = `ValueError` -/
def parseAmount (o : Oracles) (eu : Bool) (cell : Str) : Option F64 :=
  let (paren, s) := cleanAmount eu cell
  match o.pyFloat s with
  | none => none
  | some r => some (if paren then r.negate else r)

/-! ### the exact value of a plain decimal literal (what `float()` is asked to round) -/

def digitVal? (c : Char) : Option Nat :=
  if 48 ≤ c.toNat && c.toNat ≤ 57 then some (c.toNat - 48) else none

/-- fraction part: `acc` = digits so far as a number, `k` = fraction digits read -/
def scanFrac (acc k : Nat) (any : Bool) : Str → Option (Nat × Nat)
  | [] => if any then some (acc, k) else none
  | c :: cs => match digitVal? c with
    | some d => scanFrac (10 * acc + d) (k + 1) true cs
    | none => none

def scanInt (acc : Nat) (any : Bool) : Str → Option (Nat × Nat)
  | [] => if any then some (acc, 0) else none
  | c :: cs =>
    if c == '.' then scanFrac acc 0 any cs else
    match digitVal? c with
    | some d => scanInt (10 * acc + d) true cs
    | none => none

/-- `[+-]?(\d+(\.\d*)?|\.\d+)` ↦ `(m, k)` meaning `m / 10^k`; `none` for anything else
(exponents, `_`, `nan`, `inf`, non-ASCII digits and junk are left to the `float()` oracle). -/
def decimalValue (s : Str) : Option (Int × Nat) :=
  match s with
  | '-' :: r => (scanInt 0 false r).map fun (m, k) => (-(m : Int), k)
  | '+' :: r => (scanInt 0 false r).map fun (m, k) => ((m : Int), k)
  | r => (scanInt 0 false r).map fun (m, k) => ((m : Int), k)

/-- exact value of an amount cell: `(m, k)` = `m / 10^k`, parentheses negate -/
def parseAmountExact (eu : Bool) (cell : Str) : Option (Int × Nat) :=
  let (paren, s) := cleanAmount eu cell
  (decimalValue s).map fun (m, k) => (if paren then -m else m, k)

/-! ## `str.format(**captures)` for the description template -/

inductive Err
  | shortRow        -- `len(row) <= max_col` → continue
  | emptyField      -- empty date / description / amount → continue
  | valueError      -- strptime / float / template syntax → caught
  | indexError      -- `split()[0]`, `{}` / `{0}` in the template → caught
  | nonFinite       -- fix D5
  | zero            -- amount == 0 → continue
  | keyError        -- template names a field that was not captured → NOT caught
  | attributeError  -- mode 2 without captures / template (`None.items()`, `None.format`) → NOT caught
  | reError         -- `re.error` out of `strptime` (a date format with the same directive twice) → NOT caught
  | unsupported     -- template uses `!conv`, `:spec`, `a.b`, `a[0]`: outside the model
deriving DecidableEq, Repr

/-- is the exception one that `except (ValueError, IndexError)` does not catch? -/
def Err.fatal : Err → Bool
  | .keyError | .attributeError | .reError | .unsupported => true
  | _ => false

def DateErr.toErr : DateErr → Err
  | .valueError => .valueError
  | .reError => .reError
  | .unsupported => .unsupported

def lookupCap (caps : List (Str × Str)) (n : Str) : Option Str :=
  match caps with
  | [] => none
  | (k, v) :: r => if k == n then some v else lookupCap r n

def isFieldSpecial (c : Char) : Bool := c == '!' || c == ':' || c == '.' || c == '['

def allDigits (s : Str) : Bool := s.all fun c => (digitVal? c).isSome

/-- `st = none`: literal text; `st = some name`: inside `{…` having read `name`. -/
def fmtScan (caps : List (Str × Str)) : Option Str → Str → Str → Except Err Str
  | none, out, [] => .ok out
  | none, out, '{' :: '{' :: r => fmtScan caps none (out ++ ['{']) r
  | none, out, '{' :: r => fmtScan caps (some []) out r
  | none, out, '}' :: '}' :: r => fmtScan caps none (out ++ ['}']) r
  | none, _, '}' :: _ => .error .valueError                 -- Single '}' encountered
  | none, out, c :: r => fmtScan caps none (out ++ [c]) r
  | some _, _, [] => .error .valueError                      -- expected '}' / Single '{'
  | some nm, out, '}' :: r =>
    if allDigits nm then .error .indexError                  -- `{}` / `{0}`: positional, no positional args
    else match lookupCap caps nm with
      | none => .error .keyError
      | some v => fmtScan caps none (out ++ v) r
  | some nm, out, c :: r =>
    if c == '{' then .error .valueError                      -- unexpected '{' in field name
    else if isFieldSpecial c then .error .unsupported
    else fmtScan caps (some (nm ++ [c])) out r

/-- `template.format(**captures)` -/
def formatTemplate (tpl : Str) (caps : List (Str × Str)) : Except Err Str := fmtScan caps none [] tpl

/-! ## `FormatSpec` and the row loop -/

structure Spec where
  dateCol : Nat
  dateFormat : Str
  amountCol : Nat
  descCol : Option Nat := none
  customCaptures : Option (List (Str × Nat)) := none
  template : Option Str := none
  extraFields : Option (List (Str × Nat)) := none
  locationCol : Option Nat := none
  sourceName : Option Str := none
  negateAmount : Bool := false
  absAmount : Bool := false

structure Cfg where
  spec : Spec
  /-- `decimal_separator == ','` -/
  eu : Bool
  sourceName : Str
  /-- `true` = with fix D5 applied -/
  skipNonFinite : Bool := true

structure Txn where
  date : Str
  rawDescription : Str
  amount : F64
  source : Str
  location : Option Str
  isCredit : Bool
  field : Option (List (Str × Str))
deriving DecidableEq, Repr

def optCols (o : Option (List (Str × Nat))) : List Nat := (o.getD []).map (·.2)

def requiredCols (s : Spec) : List Nat :=
  [s.dateCol, s.amountCol] ++ s.descCol.toList ++ optCols s.customCaptures ++ optCols s.extraFields ++
    s.locationCol.toList

def maxCol (s : Spec) : Nat := (requiredCols s).foldl max 0

/-- `row[i].strip()`.  Only used below the `len(row) <= max_col` guard, where `i` is in range
(`Lemmas.Csv.required_lt_length`), so the default is never taken. -/
def cell (row : List Str) (i : Nat) : Str := strip (row.getD i [])

def captureCells (row : List Str) (cols : List (Str × Nat)) : List (Str × Str) :=
  cols.map fun (n, i) => (n, cell row i)

/-- description and `captures` dict (insertion order) -/
def describe (s : Spec) (row : List Str) : Except Err (Str × List (Str × Str)) :=
  match s.descCol with
  | some dc => .ok (cell row dc, captureCells row (s.extraFields.getD []))
  | none =>
    match s.customCaptures with
    | none => .error .attributeError
    | some cc =>
      match s.template with
      | none => .error .attributeError
      | some tpl =>
        match formatTemplate tpl (captureCells row cc) with
        | .error e => .error e
        | .ok d => .ok (d, captureCells row cc)

/-- the text handed to `strptime`; `none` = `IndexError` -/
def dateToken (s : Spec) (dateStr : Str) : Option Str :=
  if s.dateFormat.any isPySpace then some dateStr else firstToken dateStr

/-- `{+amount}` wins over `{-amount}` -/
def applySign (s : Spec) (q : F64) : F64 :=
  if s.absAmount then q.abs else if s.negateAmount then q.negate else q

def locationOf (s : Spec) (row : List Str) (desc : Str) : Option Str :=
  let loc : Str := match s.locationCol with
    | some i => cell row i
    | none => []
  if loc.isEmpty then extractLocation desc else some loc

def sourceOf (cfg : Cfg) : Str :=
  match cfg.spec.sourceName with
  | some n => if n.isEmpty then cfg.sourceName else n
  | none => cfg.sourceName

/-- the number read from the amount cell, before the sign mode -/
def rawAmount (o : Oracles) (cfg : Cfg) (row : List Str) : Option F64 :=
  parseAmount o cfg.eu (cell row cfg.spec.amountCol)

/-- body of the `for row in …: try:` block -/
def parseRow (o : Oracles) (cfg : Cfg) (row : List Str) : Except Err Txn :=
  let s := cfg.spec
  if row.length ≤ maxCol s then .error .shortRow else
  let dateStr := cell row s.dateCol
  let amountStr := cell row s.amountCol
  match describe s row with
  | .error e => .error e
  | .ok (desc, caps) =>
    if dateStr.isEmpty || desc.isEmpty || amountStr.isEmpty then .error .emptyField else
    match dateToken s dateStr with
    | none => .error .indexError
    | some tok =>
      match o.strptime s.dateFormat tok with
      | .error e => .error e.toErr
      | .ok dt =>
        match parseAmount o cfg.eu amountStr with
        | none => .error .valueError
        | some q =>
          if cfg.skipNonFinite && !q.isFinite then .error .nonFinite else
          let a := applySign s q
          if a.isZero then .error .zero else
          .ok { date := dt, rawDescription := desc, amount := a, source := sourceOf cfg,
                location := locationOf s row desc, isCredit := a.ltZero,
                field := if caps.isEmpty then none else some caps }

/-- one iteration of the loop: append, skip (`continue` / caught exception) or propagate -/
def step (o : Oracles) (cfg : Cfg) (st : Except Err (List Txn)) (row : List Str) : Except Err (List Txn) :=
  match st with
  | .error e => .error e
  | .ok acc =>
    match parseRow o cfg row with
    | .ok t => .ok (acc ++ [t])
    | .error e => if e.fatal then .error e else .ok acc

/-- `parse_generic_csv` on tokenised rows -/
def parseFile (o : Oracles) (cfg : Cfg) (rows : List (List Str)) : Except Err (List Txn) :=
  rows.foldl (step o cfg) (.ok [])

/-! ## tokenisation: `parsers._iter_rows_with_delimiter`

The file is opened in text mode with universal newlines, so the text the tokenisers see contains no `'\r'`
(every line terminator is `'\n'`); the model is stated on that text.  `readCsv` is CPython's `_csv` reader
(`Modules/_csv.c`, `parse_process_char`) for the dialect tally uses: delimiter `d`, quote character `"`,
`doublequote`, no escape character, `skipinitialspace=False`, `strict=False`.  The reader is fed physical
lines; because a line ends at `'\n'` and nowhere else, feeding it the whole text character by character is
the same machine: `'\n'` outside quotes ends the record (`EAT_CRNL` + end of line), inside quotes it is data.
`writeCsv` is `csv.writer(…, delimiter=d, lineterminator='\n')` with `QUOTE_MINIMAL`.  The regular expression of the
`regex:` delimiter is a parameter (`m`: stripped line ↦ groups of `pattern.match`, `none` = no match). -/

inductive RState | startRecord | startField | inField | inQuoted | quoteInQuoted
deriving DecidableEq, Repr

/-- reader state: automaton state, characters of the field being read, fields of the record so far -/
structure RS where
  st : RState
  field : Str
  row : List Str
deriving DecidableEq, Repr

def RS.init : RS := ⟨.startRecord, [], []⟩
/-- `parse_save_field`, then expect another field -/
def RS.save (s : RS) : RS := ⟨.startField, [], s.row ++ [s.field]⟩
/-- `parse_add_char` -/
def RS.add (s : RS) (st : RState) (c : Char) : RS := ⟨st, s.field ++ [c], s.row⟩
/-- the record is complete -/
def RS.emit (s : RS) : RS × Option (List Str) := (RS.init, some (s.row ++ [s.field]))

/-- `START_FIELD` -/
def stepStartField (d : Char) (s : RS) (c : Char) : RS × Option (List Str) :=
  if c = '\n' then s.emit
  else if c = '"' then ({ s with st := .inQuoted }, none)
  else if c = d then (s.save, none)
  else (s.add .inField c, none)

/-- one character through `parse_process_char`; the second component is the record completed by it -/
def rstep (d : Char) (s : RS) (c : Char) : RS × Option (List Str) :=
  match s.st with
  | .startRecord => if c = '\n' then (RS.init, some []) else stepStartField d s c
  | .startField => stepStartField d s c
  | .inField =>
    if c = '\n' then s.emit else if c = d then (s.save, none) else (s.add .inField c, none)
  | .inQuoted => if c = '"' then ({ s with st := .quoteInQuoted }, none) else (s.add .inQuoted c, none)
  | .quoteInQuoted =>
    if c = '"' then (s.add .inQuoted c, none)
    else if c = d then (s.save, none)
    else if c = '\n' then s.emit
    else (s.add .inField c, none)

/-- run the automaton over a text: records completed, state at the end -/
def runCsv (d : Char) (s : RS) : Str → List (List Str) × RS
  | [] => ([], s)
  | c :: cs =>
    match rstep d s c with
    | (s', some r) => let (rs, e) := runCsv d s' cs; (r :: rs, e)
    | (s', none) => runCsv d s' cs

/-- end of file (`Reader_iternext` when the line iterator is exhausted): a record that is under way - text
after the last `'\n'`, or an unterminated quoted field - is returned as it stands -/
def RS.flush (s : RS) : List (List Str) := if s.st = .startRecord then [] else [s.row ++ [s.field]]

/-- `list(csv.reader(f, delimiter=d))` -/
def readCsv (d : Char) (text : Str) : List (List Str) :=
  let (rs, e) := runCsv d RS.init text
  rs ++ e.flush

/-- `QUOTE_MINIMAL`: the field contains the delimiter, the quote character or the line terminator -/
def needsQuote (d : Char) (f : Str) : Bool := f.any fun c => c == d || c == '"' || c == '\n'
def escapeQuotes : Str → Str
  | [] => []
  | c :: cs => if c = '"' then '"' :: '"' :: escapeQuotes cs else c :: escapeQuotes cs
def writeField (d : Char) (f : Str) : Str :=
  if needsQuote d f then '"' :: (escapeQuotes f ++ ['"']) else f
def joinFields (d : Char) : List Str → Str
  | [] => []
  | [f] => f
  | f :: fs => f ++ d :: joinFields d fs
/-- `writer.writerow(row)`; a record consisting of one empty field is written `""` (an empty line would read back
as a record without fields) -/
def writeRow (d : Char) (row : List Str) : Str :=
  match row with
  | [[]] => ['"', '"', '\n']
  | _ => joinFields d (row.map (writeField d)) ++ ['\n']
def writeCsv (d : Char) (rows : List (List Str)) : Str := rows.flatMap (writeRow d)

/-- the physical lines of a text file (`for line in f`), without their terminator -/
def splitLinesGo (cur : Str) : Str → List Str
  | [] => if cur.isEmpty then [] else [cur]
  | c :: cs => if c = '\n' then cur :: splitLinesGo [] cs else splitLinesGo (cur ++ [c]) cs
def splitLines (text : Str) : List Str := splitLinesGo [] text

/-- the `regex:` branch as written: `for i, line in enumerate(f)` with `continue` for the header line, blank lines
and lines the pattern does not match -/
def regexLoop (m : Str → Option (List Str)) (hasHeader : Bool) : Nat → List Str → List (List Str)
  | _, [] => []
  | i, l :: ls =>
    if hasHeader && i == 0 then regexLoop m hasHeader (i + 1) ls else
    let s := strip l
    if s.isEmpty then regexLoop m hasHeader (i + 1) ls else
    match m s with
    | some g => g :: regexLoop m hasHeader (i + 1) ls
    | none => regexLoop m hasHeader (i + 1) ls

/-- what one physical line contributes under a `regex:` delimiter -/
def lineRow (m : Str → Option (List Str)) (l : Str) : Option (List Str) :=
  let s := strip l
  if s.isEmpty then none else m s

/-- how `_iter_rows_with_delimiter` reads its `delimiter` argument -/
inductive Delim
  | csv (d : Char)
  | regex
deriving DecidableEq, Repr

def delimOf (delimiter : Option Str) : Delim :=
  match delimiter with
  | none => .csv ','
  | some s =>
    let s := if s = "tab".toList then ['\t'] else s
    if "regex:".toList.isPrefixOf s then .regex else
    match s with
    | [c] => .csv c
    | _ => .csv ','

/-- `_iter_rows_with_delimiter` on the decoded text of the file -/
def iterRows (m : Str → Option (List Str)) (dl : Delim) (hasHeader : Bool) (text : Str) : List (List Str) :=
  match dl with
  | .regex => regexLoop m hasHeader 0 (splitLines text)
  | .csv d => let rows := readCsv d text; if hasHeader then rows.drop 1 else rows

/-! ## rendering amounts (for the round-trip theorems and the driver op `amount`) -/

def digitChar (d : Nat) : Char := Char.ofNat (48 + d)

/-- value of a most-significant-first digit list -/
def ofDigits (ds : List Nat) : Nat := ds.foldl (fun a d => 10 * a + d) 0

/-- insert `sep` every three characters of a *reversed* digit string -/
def groupRev (sep : Char) : Str → Str
  | a :: b :: c :: d :: rest => a :: b :: c :: sep :: groupRev sep (d :: rest)
  | l => l

def group3 (sep : Char) (ds : Str) : Str := (groupRev sep ds.reverse).reverse

inductive SymPos | pre | post | postSpace
deriving DecidableEq, Repr

structure Style where
  /-- group the whole part in threes -/
  thousands : Bool
  /-- EU only: group with a blank instead of '.' -/
  blankSep : Bool := false
  symbol : Option Char
  symPos : SymPos := .pre
  /-- negative numbers in parentheses instead of a leading '-' -/
  paren : Bool

/-- `whole`: digits of the whole part (most significant first), `d1 d2`: the two cents digits -/
def renderBody (eu : Bool) (st : Style) (whole : List Nat) (d1 d2 : Nat) : Str :=
  let w := whole.map digitChar
  let tsep := if eu then (if st.blankSep then ' ' else '.') else ','
  let w := if st.thousands then group3 tsep w else w
  w ++ [if eu then ',' else '.', digitChar d1, digitChar d2]

def withSymbol (st : Style) (body : Str) : Str :=
  match st.symbol with
  | none => body
  | some c => match st.symPos with
    | .pre => c :: body
    | .post => body ++ [c]
    | .postSpace => body ++ [' ', c]

def render (eu : Bool) (st : Style) (negative : Bool) (whole : List Nat) (d1 d2 : Nat) : Str :=
  let core := withSymbol st (renderBody eu st whole d1 d2)
  if negative then (if st.paren then '(' :: core ++ [')'] else '-' :: core) else core

/-- number of cents written by `render` -/
def centsOf (negative : Bool) (whole : List Nat) (d1 d2 : Nat) : Int :=
  let n : Int := ((ofDigits whole * 100 + d1 * 10 + d2 : Nat) : Int)
  if negative then -n else n

/-- decimal digits of `n`, most significant first (`str(n)`) -/
def digitsOf (n : Nat) : List Nat :=
  if n < 10 then [n] else digitsOf (n / 10) ++ [n % 10]
termination_by n
decreasing_by omega

/-- an integer number of cents, written in style `st` -/
def renderCents (eu : Bool) (st : Style) (n : Int) : Str :=
  render eu st (decide (n < 0)) (digitsOf (n.natAbs / 100)) (n.natAbs % 100 / 10) (n.natAbs % 10)

end TallyVerif.Csv
