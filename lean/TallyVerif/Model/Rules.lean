/-!
M-Rules — the list algorithms of `MerchantEngine.match` (both modes) and of the legacy tuple
loop in `merchant_utils.normalize_merchant`, over an ABSTRACT per-rule evaluation.

`ev r` is everything the expression language contributes for one rule and one transaction:
did let-bindings + match evaluate to a truthy value (without ExpressionError), what the rule's
tags resolve to, what its `field:` directives evaluate to.  All theorems about these functions
hold for every `ev`, i.e. for every expression language, variables, lets and oracles at once.
Core Lean only.
-/
namespace TallyVerif.Rules

structure Rule where
  line : Nat                 -- MerchantRule.line_number (identity of the rule within a file)
  name : String
  merchant : String          -- already defaulted to `name` by __post_init__
  category : String
  subcategory : String
  priority : Int
  matchExpr : String
deriving DecidableEq, Repr

def Rule.isCat (r : Rule) : Bool := r.category != ""          -- is_categorization_rule
def Rule.hasMerchant (r : Rule) : Bool := r.merchant != ""    -- has_merchant
def Rule.hasSub (r : Rule) : Bool := r.subcategory != ""      -- has_subcategory

/-- outcome of evaluating one rule on the transaction at hand -/
structure Eval where
  hit : Bool                           -- lets + match evaluated, result truthy
  tags : List String                   -- `_resolve_tags` (already stripped / lower-cased / non-empty)
  fields : List (String × String)      -- `_evaluate_fields` (canonical rendering of values)
deriving DecidableEq, Repr

/-- specificity key `(priority, pattern_conditions, field_constraints, pattern_length)` -/
structure Key where
  prio : Int
  pats : Nat
  kinds : Nat
  len : Nat
deriving DecidableEq, Repr

/-- Python tuple `<` (lexicographic) -/
def Key.lt (a b : Key) : Bool :=
  if a.prio != b.prio then decide (a.prio < b.prio)
  else if a.pats != b.pats then decide (a.pats < b.pats)
  else if a.kinds != b.kinds then decide (a.kinds < b.kinds)
  else decide (a.len < b.len)

/-- Python `max(xs, key=…)`: the FIRST maximal element (`>` must be strict to replace) -/
def pyMaxFrom {α : Type} (key : α → Key) (best : α) : List α → α
  | [] => best
  | x :: xs => pyMaxFrom key (if (key best).lt (key x) then x else best) xs

def pyMax {α : Type} (key : α → Key) : List α → Option α
  | [] => none
  | x :: xs => some (pyMaxFrom key x xs)

inductive Mode | firstMatch | mostSpecific
deriving DecidableEq, Repr

structure Result where
  matched : Bool
  merchant : String
  category : String
  subcategory : String
  tags : List String                       -- first-insertion order, no duplicates
  matchedRule : Option Rule
  merchantRule : Option Rule
  subcategoryRule : Option Rule
  allMatching : List Rule
  tagRules : List Rule
  extraFields : List (String × String)
  tagSources : List (String × Rule)        -- tag ↦ first rule that contributed it
deriving DecidableEq, Repr

/-- loop state of `for rule in self.rules:` -/
structure Loop where
  firstCat : Option Rule
  matching : List Rule            -- in file order
  tags : List String
  tagSources : List (String × Rule)
deriving DecidableEq, Repr

def addTags (r : Rule) : List String → List String × List (String × Rule) → List String × List (String × Rule)
  | [], acc => acc
  | t :: ts, (tags, src) =>
    if tags.contains t then addTags r ts (tags, src)
    else addTags r ts (tags ++ [t], src ++ [(t, r)])

def loopStep (ev : Rule → Eval) (s : Loop) (r : Rule) : Loop :=
  if (ev r).hit then
    let (tags, src) := addTags r (ev r).tags (s.tags, s.tagSources)
    { firstCat := if s.firstCat.isNone && r.isCat then some r else s.firstCat
      matching := s.matching ++ [r]
      tags := tags
      tagSources := src }
  else s

def loopInit : Loop := { firstCat := none, matching := [], tags := [], tagSources := [] }

def runLoop (ev : Rule → Eval) (rs : List Rule) : Loop := rs.foldl (loopStep ev) loopInit

/-- `merchantFromCatOnly = true` is the code after the D2 repair (the merchant, like the category,
is chosen among categorising rules only); `false` is the code as pinned. -/
def finish (merchantFromCatOnly : Bool) (key : Rule → Key) (ev : Rule → Eval) (mode : Mode) (s : Loop) : Result :=
  let base : Result :=
    { matched := false, merchant := "", category := "", subcategory := "", tags := s.tags,
      matchedRule := none, merchantRule := none, subcategoryRule := none,
      allMatching := s.matching, tagRules := s.matching, extraFields := [], tagSources := s.tagSources }
  match mode with
  | .firstMatch =>
    match s.firstCat with
    | none => base
    | some r =>
      { base with
        matched := true, merchant := r.merchant, merchantRule := some r, category := r.category,
        matchedRule := some r,
        subcategory := if r.hasSub then r.subcategory else "",
        subcategoryRule := if r.hasSub then some r else none,
        extraFields := (ev r).fields }
  | .mostSpecific =>
    let mrules := s.matching.filter (fun r => r.hasMerchant && (!merchantFromCatOnly || r.isCat))
    let crules := s.matching.filter Rule.isCat
    let srules := s.matching.filter Rule.hasSub
    let r1 : Result := match pyMax key mrules with
      | none => base
      | some w => { base with merchant := w.merchant, merchantRule := some w }
    let r2 : Result := match pyMax key crules with
      | none => r1
      | some w => { r1 with matched := true, category := w.category, matchedRule := some w,
                            extraFields := (ev w).fields }
    match pyMax key srules with
    | none => r2
    | some w => { r2 with subcategory := w.subcategory, subcategoryRule := some w }

def matchEngine (fixD2 : Bool) (key : Rule → Key) (ev : Rule → Eval) (mode : Mode) (rs : List Rule) : Result :=
  finish fixD2 key ev mode (runLoop ev rs)

/-! ### the legacy tuple loop of `normalize_merchant` -/

structure LRule where
  idx : Nat
  pattern : String
  merchant : String
  category : String
  subcategory : String
  source : String
deriving DecidableEq, Repr

inductive LOutcome | matched | noMatch | skipped     -- skipped: re.error / ExpressionError caught
deriving DecidableEq, Repr

structure LEval where
  outcome : LOutcome
  tags : List String            -- `_resolve_dynamic_tags` (a list: duplicates possible)
deriving DecidableEq, Repr

structure LLoop where
  first : Option LRule
  allTags : List String
  tagSources : List (String × LRule)
deriving DecidableEq, Repr

def addSources (r : LRule) : List String → List (String × LRule) → List (String × LRule)
  | [], src => src
  | t :: ts, src => if (src.map Prod.fst).contains t then addSources r ts src else addSources r ts (src ++ [(t, r)])

def lstep (ev : LRule → LEval) (s : LLoop) (r : LRule) : LLoop :=
  match (ev r).outcome with
  | .matched =>
    { first := if s.first.isNone && r.category != "" then some r else s.first
      allTags := s.allTags ++ (ev r).tags
      tagSources := addSources r (ev r).tags s.tagSources }
  | _ => s

/-- `list(dict.fromkeys(xs))` -/
def dedupe : List String → List String
  | [] => []
  | x :: xs => x :: (dedupe xs).filter (· != x)

structure LResult where
  merchant : String
  category : String
  subcategory : String
  rule : Option LRule
  tags : List String
  tagSources : List (String × LRule)
deriving DecidableEq, Repr

def legacy (ev : LRule → LEval) (fallbackName : String) (rs : List LRule) : LResult :=
  let s := rs.foldl (lstep ev) { first := none, allTags := [], tagSources := [] }
  let tags := dedupe s.allTags
  match s.first with
  | some r => { merchant := r.merchant, category := r.category, subcategory := r.subcategory, rule := some r,
                tags := tags, tagSources := s.tagSources }
  | none => { merchant := fallbackName, category := "Unknown", subcategory := "Unknown", rule := none,
              tags := tags, tagSources := s.tagSources }

/-! ### the wrapper `normalize_merchant` (engine path) and `apply_transforms` -/

/-- what `normalize_merchant` returns on the engine path: the engine's answer when a categorising
rule matched, otherwise (`extract_merchant_name(description)`, Unknown, Unknown) -/
def normalizeEngine (res : Result) (fallbackName : String) : String × String × String :=
  if res.matched then (res.merchant, res.category, res.subcategory) else (fallbackName, "Unknown", "Unknown")

/-- the part of a transaction that transforms may assign -/
structure TState where
  description : String
  fields : List (String × String)      -- `transaction['field']`
  raw : List (String × String)         -- `_raw_<name>` keys, saved once
deriving DecidableEq, Repr

def setField (k v : String) : List (String × String) → List (String × String)
  | [] => [(k, v)]
  | (k', v') :: rest => if k' == k then (k', v) :: rest else (k', v') :: setField k v rest

/-- one `field.<name> = expr` transform; `value = none` when evaluation raised (transform skipped) -/
def applyTransform (s : TState) (name : String) (value : Option String) : TState :=
  match value with
  | none => s
  | some v =>
    let rawKey := "_raw_" ++ name
    if name == "description" then
      { s with raw := if (s.raw.lookup rawKey).isSome then s.raw else s.raw ++ [(rawKey, s.description)],
               description := v }
    else
      { s with raw := if (s.raw.lookup rawKey).isSome then s.raw
                      else s.raw ++ [(rawKey, (s.fields.lookup name).getD "")],
               fields := setField name v s.fields }

/-- `apply_transforms`: sequential; each transform sees the state left by the previous ones
(`tev s name expr` = what the expression evaluates to in state `s`) -/
def applyTransforms (tev : TState → String → String → Option String) (trs : List (String × String)) (s : TState) : TState :=
  trs.foldl (fun s tr => applyTransform s tr.1 (tev s tr.1 tr.2)) s

end TallyVerif.Rules
