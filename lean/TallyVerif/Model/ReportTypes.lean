import TallyVerif.Gen.ReportTypes
import TallyVerif.Model.Totals
/-!
M-ReportTypes — the per-category `typeTotals` of the report data (`report.py`, `build_category_view`).

The per-transaction decision is NOT hand-written: `Gen.ReportTypes.type_contrib` is regenerated from the if/elif chain of
`build_category_view`'s transaction loop on every run.  This file only adds the accumulation: one `typeTotals` record per
category, each transaction of the category adding its contribution (the real loop walks category → subcategory →
merchant → transaction; over exact amounts the order is immaterial, and the driver feeds the transactions in the
real loop's order when floats are compared).
-/
namespace TallyVerif.ReportTypes
open TallyVerif TallyVerif.Gen.ReportTypes TallyVerif.Totals

def zeroTT (N : NumLike) : TypeTotals N.α := ⟨N.zero, N.zero, N.zero, N.zero⟩

/-- `type_totals[k] += v` for the four keys at once (three of the four `v` are zero for any one transaction) -/
def addTT (N : NumLike) (a b : TypeTotals N.α) : TypeTotals N.α :=
  ⟨N.add a.spending b.spending, N.add a.income b.income, N.add a.investment b.investment, N.add a.transfer b.transfer⟩

/-- `categoryView[cat]['typeTotals']` for every category, in order of first appearance -/
def typeTotalsByCat (N : NumLike) (lower : String → String) (l : List (Txn N.α)) : List (String × TypeTotals N.α) :=
  l.foldl (fun m t => upsert t.category (zeroTT N) (fun acc => addTT N acc (type_contrib N lower t.amount t.tags)) m) []

end TallyVerif.ReportTypes
