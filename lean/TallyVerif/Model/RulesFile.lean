/-!
M-RulesFile — the two line-oriented file parsers of tally, as the loops they are.

* `Impl.parseRulesFile`  mirrors `merchant_engine.MerchantEngine.parse` + `_add_rule`
* `Impl.parseViewsFile`  mirrors `section_engine.parse_sections`

Text is `List Char`; a file is the list of its lines (`splitLines` = `content.split('\n')`).
External functions are parameters:
* `validExpr`  = "`expr_parser.parse_expression(text)` does not raise `ExpressionError`" (the harness
  computes it with the real parser + validator and ships a table);
* `wordNA`     = "`\w` matches this non-ASCII character" (views parser only).
Hand-written and tied by correspondence: `isSpace` (= `str.isspace` = regex `\s` = what `str.strip`
removes; the 29 code points are re-enumerated against CPython on every run), ASCII lower-casing of
keys / identifiers, `pyInt` (`int()` on ASCII text), and the matchers for the regexes
  `^(field\.[a-zA-Z_][a-zA-Z0-9_]*|[a-zA-Z_][a-zA-Z0-9_]*)\s*=\s*(.+)$`   (`matchTopAssign`)
  `^([a-zA-Z_][a-zA-Z0-9_]*)\s*=\s*(.+)$`                                 (`matchLetAssign`)
  `^\[([^\]]+)\]\s*$`, `^filter:\s*(.+)$`, `^description:\s*(.+)$`, `^(\w+)\s*=\s*(.+)$`.
Lines never contain '\n' (they come from `splitLines`), so `.` = any character and `$` = end.
-/
namespace TallyVerif.RulesFile

abbrev Str := List Char

/-! ### character classes and string helpers -/

/-- `str.isspace()` / regex `\s` / the set removed by `str.strip()` (CPython 3.12: 29 code points). -/
def isSpace (c : Char) : Bool :=
  let n := c.toNat
  (9 ≤ n && n ≤ 13) || (28 ≤ n && n ≤ 32) || n == 0x85 || n == 0xa0 || n == 0x1680 ||
  (0x2000 ≤ n && n ≤ 0x200a) || n == 0x2028 || n == 0x2029 || n == 0x202f || n == 0x205f || n == 0x3000

def lstrip (l : Str) : Str := l.dropWhile isSpace
def rstrip (l : Str) : Str := (l.reverse.dropWhile isSpace).reverse
/-- `str.strip()` -/
def strip (l : Str) : Str := rstrip (lstrip l)

def isUpper (c : Char) : Bool := 'A' ≤ c && c ≤ 'Z'
def isLower (c : Char) : Bool := 'a' ≤ c && c ≤ 'z'
def isDigit (c : Char) : Bool := '0' ≤ c && c ≤ '9'
def isIdStart (c : Char) : Bool := isUpper c || isLower c || c == '_'
def isIdChar (c : Char) : Bool := isIdStart c || isDigit c

/-- ASCII lower-casing (`str.lower()` restricted to what can reach a comparison with an ASCII keyword:
the only non-ASCII characters whose `lower()` contains an ASCII letter are U+0130 and U+212A (→ i̇, k);
no keyword contains `k`, and i̇ is two characters). -/
def lowerChar (c : Char) : Char := if isUpper c then Char.ofNat (c.toNat + 32) else c
def lower (s : Str) : Str := s.map lowerChar

/-- `content.split('\n')` -/
def splitLinesAux : Str → Str → List Str
  | [], cur => [cur.reverse]
  | c :: cs, cur => if c == '\n' then cur.reverse :: splitLinesAux cs [] else splitLinesAux cs (c :: cur)
def splitLines (s : Str) : List Str := splitLinesAux s []

def dropPrefix? : Str → Str → Option Str
  | [], s => some s
  | _ :: _, [] => none
  | p :: ps, c :: cs => if p == c then dropPrefix? ps cs else none

/-- `dict[k] = v` keeping insertion order (an existing key keeps its position) -/
def dictSet (k v : Str) : List (Str × Str) → List (Str × Str)
  | [] => [(k, v)]
  | (k', v') :: rest => if k' == k then (k', v) :: rest else (k', v') :: dictSet k v rest

/-- `set.add` on a list kept in first-insertion order -/
def setAdd (x : Str) (s : List Str) : List Str := if s.contains x then s else s ++ [x]

/-! ### regex matchers -/

/-- `[a-zA-Z_][a-zA-Z0-9_]*` at the start: (identifier, rest) -/
def matchIdent : Str → Option (Str × Str)
  | [] => none
  | c :: t => if isIdStart c then some (c :: t.takeWhile isIdChar, t.dropWhile isIdChar) else none

/-- `\s*(.+)$` : the captured group. If only white space follows, the greedy `\s*` gives back its
last character (cannot happen on stripped text; kept for faithfulness). -/
def matchRest (r : Str) : Option Str :=
  match r.dropWhile isSpace with
  | [] => match r.getLast? with
    | some c => some [c]
    | none => none
  | v => some v

/-- `\s*=\s*(.+)$` -/
def matchAssignTail (rest : Str) : Option Str :=
  match rest.dropWhile isSpace with
  | '=' :: r => matchRest r
  | _ => none

/-- `^([a-zA-Z_][a-zA-Z0-9_]*)\s*=\s*(.+)$` : (name, expression) -/
def matchLetAssign (s : Str) : Option (Str × Str) :=
  match matchIdent s with
  | some (idt, rest) =>
    match matchAssignTail rest with
    | some v => some (idt, v)
    | none => none
  | none => none

def fieldDot : Str := ['f', 'i', 'e', 'l', 'd', '.']

/-- the top-level assignment regex: (is it `field.x`?, lhs, rhs) -/
def matchTopAssign (s : Str) : Option (Bool × Str × Str) :=
  let alt1 : Option (Bool × Str × Str) :=
    match dropPrefix? fieldDot s with
    | some r =>
      match matchLetAssign r with
      | some (idt, v) => some (true, fieldDot ++ idt, v)
      | none => none
    | none => none
  match alt1 with
  | some x => some x
  | none =>
    match matchLetAssign s with
    | some (idt, v) => some (false, idt, v)
    | none => none

/-! ### `int(value)` on ASCII text (value is already stripped) -/

def digitsVal : Nat → Str → Option Nat          -- after a digit: `(_?[0-9])*`
  | acc, [] => some acc
  | acc, c :: cs =>
    if isDigit c then digitsVal (acc * 10 + (c.toNat - 48)) cs
    else if c == '_' then
      match cs with
      | d :: ds => if isDigit d then digitsVal (acc * 10 + (d.toNat - 48)) ds else none
      | [] => none
    else none

def natLit : Str → Option Nat
  | [] => none
  | c :: cs => if isDigit c then digitsVal (c.toNat - 48) cs else none

def pyInt (s : Str) : Option Int :=
  match s with
  | '+' :: r => (natLit r).map Int.ofNat
  | '-' :: r => (natLit r).map (fun n => - Int.ofNat n)
  | r => (natLit r).map Int.ofNat

/-! ### tags: split on commas outside parentheses -/

def pushTag (cur : Str) (tags : List Str) : List Str :=
  let tag := strip cur.reverse
  if tag.isEmpty then tags else setAdd tag tags

/-- the `for char in value:` loop; `cur` is kept reversed -/
def tagsLoop : Str → Int → Str → List Str → List Str
  | [], _, cur, tags => pushTag cur tags
  | c :: cs, depth, cur, tags =>
    if c == '(' then tagsLoop cs (depth + 1) (c :: cur) tags
    else if c == ')' then tagsLoop cs (depth - 1) (c :: cur) tags
    else if c == ',' && depth == 0 then tagsLoop cs depth [] (pushTag cur tags)
    else tagsLoop cs depth (c :: cur) tags

def splitTags (value : Str) : List Str := tagsLoop value 0 [] []

/-! ## merchants parser -/

inductive MErr
  | emptyName | badLet | badField | badPriority | unknownProperty | unexpectedContent
  | missingMatch | missingCategoryOrTags | invalidLetExpr | invalidFieldExpr | invalidMatchExpr
deriving DecidableEq, Repr

/-- the `current_rule` dict -/
structure RuleData where
  name : Str
  matchExpr : Option Str := none
  category : Option Str := none
  subcategory : Option Str := none
  merchant : Option Str := none
  tags : Option (List Str) := none
  priority : Option Int := none
  lets : List (Str × Str) := []
  fields : List (Str × Str) := []
deriving DecidableEq, Repr

/-- `MerchantRule` without `line_number` -/
structure Rule where
  name : Str
  merchant : Str
  category : Str
  subcategory : Str
  tags : List Str          -- a set: first-insertion order here, sorted by the driver
  priority : Int
  matchExpr : Str
  lets : List (Str × Str)
  fields : List (Str × Str)
deriving DecidableEq, Repr

structure RulesFileResult where
  rules : List Rule
  variables : List (Str × Str)
  transforms : List (Str × Str)
deriving DecidableEq, Repr

structure MState where
  cur : Option RuleData := none
  startLine : Nat := 0
  rules : List Rule := []
  variables : List (Str × Str) := []
  transforms : List (Str × Str) := []
deriving DecidableEq, Repr

inductive PropKey | «let» | field | «match» | category | subcategory | merchant | tags | priority
deriving DecidableEq, Repr

def propKey? (key : Str) : Option PropKey :=
  if key = ['l', 'e', 't'] then some .let
  else if key = ['f', 'i', 'e', 'l', 'd'] then some .field
  else if key = ['m', 'a', 't', 'c', 'h'] then some .match
  else if key = ['c', 'a', 't', 'e', 'g', 'o', 'r', 'y'] then some .category
  else if key = ['s', 'u', 'b', 'c', 'a', 't', 'e', 'g', 'o', 'r', 'y'] then some .subcategory
  else if key = ['m', 'e', 'r', 'c', 'h', 'a', 'n', 't'] then some .merchant
  else if key = ['t', 'a', 'g', 's'] then some .tags
  else if key = ['p', 'r', 'i', 'o', 'r', 'i', 't', 'y'] then some .priority
  else none

/-- the `if key == … elif …` chain for a known key -/
def applyProp (k : PropKey) (value : Str) (d : RuleData) : Except MErr RuleData :=
  match k with
  | .let =>
    match matchLetAssign value with
    | some (n, e) => .ok { d with lets := d.lets ++ [(lower n, e)] }
    | none => .error .badLet
  | .field =>
    match matchLetAssign value with
    | some (n, e) => .ok { d with fields := dictSet (lower n) e d.fields }
    | none => .error .badField
  | .match => .ok { d with matchExpr := some value }
  | .category => .ok { d with category := some value }
  | .subcategory => .ok { d with subcategory := some value }
  | .merchant => .ok { d with merchant := some value }
  | .tags => .ok { d with tags := some (splitTags value) }
  | .priority =>
    match pyInt value with
    | some n => .ok { d with priority := some n }
    | none => .error .badPriority

/-- `key, value = stripped.split(':', 1)`; key stripped + lower-cased, value stripped -/
def splitProp (s : Str) : Str × Str :=
  (lower (strip (s.takeWhile (· != ':'))), strip ((s.dropWhile (· != ':')).drop 1))

/-- a `key: value` line inside a rule -/
def propLine (s : Str) (d : RuleData) : Except MErr RuleData :=
  match propKey? (splitProp s).1 with
  | some k => applyProp k (splitProp s).2 d
  | none => .error .unknownProperty

/-- first invalid expression in a `(name, expr)` list -/
def allValid (ve : Str → Bool) (l : List (Str × Str)) : Bool := l.all (fun p => ve p.2)

/-- `'category' in rule_data and rule_data['category']` -/
def hasCategory (d : RuleData) : Bool := match d.category with | some c => !c.isEmpty | none => false
/-- `'tags' in rule_data and rule_data['tags']` -/
def hasTags (d : RuleData) : Bool := match d.tags with | some t => !t.isEmpty | none => false

/-- `MerchantRule(name=…, …)` incl. `__post_init__` (merchant defaults to the name) -/
def mkRule (d : RuleData) (m : Str) : Rule :=
  { name := d.name, merchant := if (d.merchant.getD []).isEmpty then d.name else d.merchant.getD [],
    category := d.category.getD [], subcategory := d.subcategory.getD [],
    tags := d.tags.getD [], priority := d.priority.getD 50, matchExpr := m,
    lets := d.lets, fields := d.fields }

/-- `_add_rule` -/
def addRule (ve : Str → Bool) (d : RuleData) : Except MErr Rule :=
  match d.matchExpr with
  | none => .error .missingMatch
  | some m =>
    if !hasCategory d && !hasTags d then .error .missingCategoryOrTags
    else if !allValid ve d.lets then .error .invalidLetExpr
    else if !allValid ve d.fields then .error .invalidFieldExpr
    else if !ve m then .error .invalidMatchExpr
    else .ok (mkRule d m)

/-- `if current_rule: self._add_rule(current_rule, rule_start_line)` -/
def closeCur (ve : Str → Bool) (st : MState) : Except (Nat × MErr) MState :=
  match st.cur with
  | none => .ok st
  | some d =>
    match addRule ve d with
    | .ok r => .ok { st with cur := none, rules := st.rules ++ [r] }
    | .error e => .error (st.startLine, e)

def isSkip (s : Str) : Bool := s.isEmpty || s.head? == some '#'
def isHeader (s : Str) : Bool := s.head? == some '[' && s.getLast? == some ']'
/-- `stripped[1:-1].strip()` -/
def headerName (s : Str) : Str := strip (s.drop 1).dropLast

/-- top-level `name = expr` / `field.x = expr` (only consulted while no rule has started) -/
def topLine (s : Str) (st : MState) : MState :=
  if s.contains '=' then
    match matchTopAssign s with
    | some (true, lhs, rhs) => { st with transforms := st.transforms ++ [(lhs, rhs)] }
    | some (false, lhs, rhs) => { st with variables := dictSet (lower lhs) rhs st.variables }
    | none => st
  else st

/-- one iteration of `for line_num, line in enumerate(lines, 1)` on the STRIPPED line -/
def stepS (ve : Str → Bool) (st : MState) (n : Nat) (s : Str) : Except (Nat × MErr) MState :=
  if isSkip s then .ok st
  else if isHeader s then
    match closeCur ve st with
    | .error e => .error e
    | .ok st1 =>
      if (headerName s).isEmpty then .error (n, .emptyName)
      else .ok { st1 with cur := some { name := headerName s }, startLine := n }
  else
    match st.cur with
    | none => .ok (topLine s st)
    | some d =>
      if s.contains ':' then
        match propLine s d with
        | .ok d' => .ok { st with cur := some d' }
        | .error e => .error (n, e)
      else .error (n, .unexpectedContent)

def step (ve : Str → Bool) (st : MState) (n : Nat) (line : Str) : Except (Nat × MErr) MState :=
  stepS ve st n (strip line)

/-- the loop, from line number `n` -/
def run (ve : Str → Bool) : Nat → MState → List Str → Except (Nat × MErr) MState
  | _, st, [] => .ok st
  | n, st, l :: ls =>
    match step ve st n l with
    | .ok st' => run ve (n + 1) st' ls
    | .error e => .error e

def finish (ve : Str → Bool) (st : MState) : Except (Nat × MErr) RulesFileResult :=
  match closeCur ve st with
  | .ok st' => .ok { rules := st'.rules, variables := st'.variables, transforms := st'.transforms }
  | .error e => .error e

namespace Impl
/-- `MerchantEngine.parse(content)` with `lines = content.split('\n')` -/
def parseRulesFile (validExpr : Str → Bool) (lines : List Str) : Except (Nat × MErr) RulesFileResult :=
  match run validExpr 1 {} lines with
  | .ok st => finish validExpr st
  | .error e => .error e
end Impl

/-! ## views parser -/

inductive VErr
  | missingFilter | filterOutside | descriptionOutside | invalidFilterExpr | invalidVarExpr | unexpectedContent
deriving DecidableEq, Repr

structure Section where
  name : Str
  filterExpr : Str
  description : Option Str
  variables : List (Str × Str)
deriving DecidableEq, Repr

structure ViewsResult where
  globals : List (Str × Str)
  sections : List Section
deriving DecidableEq, Repr

structure VState where
  cur : Option Section := none
  startLine : Nat := 0
  sections : List Section := []
  globals : List (Str × Str) := []
deriving DecidableEq, Repr

/-- `\w` : ASCII by hand, non-ASCII from the parameter -/
def isWord (wordNA : Char → Bool) (c : Char) : Bool :=
  if c.toNat < 128 then isIdChar c else wordNA c

/-- `^\[([^\]]+)\]\s*$` on the RAW line: the captured name (not yet stripped) -/
def matchSectionHeader : Str → Option Str
  | '[' :: rest =>
    match rest.dropWhile (· != ']') with
    | ']' :: tail =>
      if (rest.takeWhile (· != ']')).isEmpty then none
      else if tail.all isSpace then some (rest.takeWhile (· != ']')) else none
    | _ => none
  | _ => none

/-- `^(\w+)\s*=\s*(.+)$` : (name, expression) -/
def matchVarDecl (wordNA : Char → Bool) (s : Str) : Option (Str × Str) :=
  if (s.takeWhile (isWord wordNA)).isEmpty then none
  else
    match matchAssignTail (s.dropWhile (isWord wordNA)) with
    | some v => some (s.takeWhile (isWord wordNA), v)
    | none => none

/-- `^filter:\s*(.+)$` / `^description:\s*(.+)$` : the group -/
def matchKeyDecl (key : Str) (s : Str) : Option Str :=
  match dropPrefix? key s with
  | some r => matchRest r
  | none => none

/-- `COMMENT.match(line) or BLANK.match(line)` on the raw line -/
def isSkipRaw (line : Str) : Bool := isSkip (lstrip line)

/-- save the previous section (`if not current_section.filter_expr: raise …`) -/
def closeSection (st : VState) : Except (Nat × VErr) VState :=
  match st.cur with
  | none => .ok st
  | some sec =>
    if sec.filterExpr.isEmpty then .error (st.startLine, .missingFilter)
    else .ok { st with cur := none, sections := st.sections ++ [sec] }

/-- the non-header part of one iteration, on the stripped line `s` -/
def vbodyS (ve : Str → Bool) (wordNA : Char → Bool) (st : VState) (n : Nat) (s : Str) :
    Except (Nat × VErr) VState :=
  match matchKeyDecl (['f', 'i', 'l', 't', 'e', 'r', ':']) s with
  | some g =>
    match st.cur with
    | none => .error (n, .filterOutside)
    | some sec =>
      if ve (strip g) then .ok { st with cur := some { sec with filterExpr := strip g } }
      else .error (n, .invalidFilterExpr)
  | none =>
    match matchKeyDecl (['d', 'e', 's', 'c', 'r', 'i', 'p', 't', 'i', 'o', 'n', ':']) s with
    | some g =>
      match st.cur with
      | none => .error (n, .descriptionOutside)
      | some sec => .ok { st with cur := some { sec with description := some (strip g) } }
    | none =>
      match matchVarDecl wordNA s with
      | some (name, e) =>
        if ve (strip e) then
          match st.cur with
          | none => .ok { st with globals := dictSet name (strip e) st.globals }
          | some sec => .ok { st with cur := some { sec with variables := dictSet name (strip e) sec.variables } }
        else .error (n, .invalidVarExpr)
      | none => .error (n, .unexpectedContent)

/-- one iteration of `for line_num, line in enumerate(lines, start=1)` -/
def vstep (ve : Str → Bool) (wordNA : Char → Bool) (st : VState) (n : Nat) (line : Str) :
    Except (Nat × VErr) VState :=
  if isSkipRaw line then .ok st
  else
    match matchSectionHeader line with
    | some name =>
      match closeSection st with
      | .error e => .error e
      | .ok st1 =>
        .ok { st1 with cur := some { name := strip name, filterExpr := [], description := none, variables := [] },
                       startLine := n }
    | none => vbodyS ve wordNA st n (strip line)

def vrun (ve : Str → Bool) (wordNA : Char → Bool) : Nat → VState → List Str → Except (Nat × VErr) VState
  | _, st, [] => .ok st
  | n, st, l :: ls =>
    match vstep ve wordNA st n l with
    | .ok st' => vrun ve wordNA (n + 1) st' ls
    | .error e => .error e

def vfinish (st : VState) : Except (Nat × VErr) ViewsResult :=
  match closeSection st with
  | .ok st' => .ok { globals := st'.globals, sections := st'.sections }
  | .error e => .error e

namespace Impl
/-- `section_engine.parse_sections(text)` with `lines = text.split('\n')` -/
def parseViewsFile (validExpr : Str → Bool) (wordNA : Char → Bool) (lines : List Str) :
    Except (Nat × VErr) ViewsResult :=
  match vrun validExpr wordNA 1 {} lines with
  | .ok st => vfinish st
  | .error e => .error e
end Impl

end TallyVerif.RulesFile
