import TallyVerif.Model.Expr
/-!
Renaming of identifiers in an expression tree.

`Expr.mapNames f` rewrites EVERY identifier position of the AST with `f` and nothing else:

* variable / primitive / data-source names            `Name.id`                       (`.name`)
* the receiver name and the attribute of `x.a`        `Attribute(Name id).attr`       (`.attrName`)
* the attribute of `<expr>.a`                         `Attribute.attr`                (`.attr`)
* function names of calls                             `Call.func = Name`              (`.callName`, `.callNameGen`)
* string-method names                                 `Call.func = Attribute`         (`.callAttr`)
* comprehension / generator binders                   `comprehension.target = Name`   (`Comp.mk (some x) …`)
* walrus targets                                      `NamedExpr.target`              (`.walrus`)

Constants (including the string keys of `row["key"]` subscripts and every text operand) are NOT
identifiers and are left alone.  Keyword-argument names do not exist in the language
(`ast.keyword` is not in `ALLOWED_NODES`; the parser rejects them).  Core Lean only: the driver
applies `mapNames` so that the correspondence can compare it with a Python `ast.NodeTransformer`.
-/
namespace TallyVerif.Expr
open TallyVerif.Py

mutual
def Expr.mapNames (f : String → String) : Expr → Expr
  | .const v => .const v
  | .name id => .name (f id)
  | .attr e a => .attr (e.mapNames f) (f a)
  | .attrName id a => .attrName (f id) (f a)
  | .callName g args => .callName (f g) (mapNamesList f args)
  | .callNameGen g elt gens more => .callNameGen (f g) (elt.mapNames f) (mapNamesComps f gens) (mapNamesList f more)
  | .callAttr recv meth args => .callAttr (recv.mapNames f) (f meth) (mapNamesList f args)
  | .callOther g args => .callOther (g.mapNames f) (mapNamesList f args)
  | .boolop isAnd es => .boolop isAnd (mapNamesList f es)
  | .unop op e => .unop op (e.mapNames f)
  | .binop op l r => .binop op (l.mapNames f) (r.mapNames f)
  | .cmp l links => .cmp (l.mapNames f) (mapNamesLinks f links)
  | .ifexp c t e => .ifexp (c.mapNames f) (t.mapNames f) (e.mapNames f)
  | .listcomp elt gens => .listcomp (elt.mapNames f) (mapNamesComps f gens)
  | .genexp elt gens => .genexp (elt.mapNames f) (mapNamesComps f gens)
  | .subscript e i => .subscript (e.mapNames f) (i.mapNames f)
  | .walrus id e => .walrus (f id) (e.mapNames f)
def mapNamesList (f : String → String) : List Expr → List Expr
  | [] => []
  | e :: es => e.mapNames f :: mapNamesList f es
def mapNamesLinks (f : String → String) : List Link → List Link
  | [] => []
  | .mk op e :: rest => .mk op (e.mapNames f) :: mapNamesLinks f rest
def mapNamesComps (f : String → String) : List Comp → List Comp
  | [] => []
  | .mk target iter ifs :: gs => .mk (target.map f) (iter.mapNames f) (mapNamesList f ifs) :: mapNamesComps f gs
end

end TallyVerif.Expr
