import TallyVerif.Model.ClassPrelude
/-! Concrete number systems for the generated classification code. -/
namespace TallyVerif

/-- IEEE doubles, as Python `float` and JavaScript `Number`. -/
def floatNum : NumLike where
  α := Float
  zero := 0.0
  gt a b := decide (a > b)
  lt a b := decide (a < b)
  ge a b := decide (a ≥ b)
  le a b := decide (a ≤ b)
  abs := Float.abs
  neg a := -a
  add a b := a + b
  sub a b := a - b

/-- Exact amounts (integer cents): the ordered ring the conservation theorems are proved over. -/
@[reducible] def intNum : NumLike where
  α := Int
  zero := 0
  gt a b := decide (a > b)
  lt a b := decide (a < b)
  ge a b := decide (a ≥ b)
  le a b := decide (a ≤ b)
  abs a := if a < 0 then -a else a
  neg a := -a
  add a b := a + b
  sub a b := a - b

@[simp] theorem intNum_zero : intNum.zero = (0 : Int) := rfl
@[simp] theorem intNum_add (a b : Int) : intNum.add a b = a + b := rfl
@[simp] theorem intNum_sub (a b : Int) : intNum.sub a b = a - b := rfl
@[simp] theorem intNum_neg (a : Int) : intNum.neg a = -a := rfl
@[simp] theorem intNum_abs (a : Int) : intNum.abs a = if a < 0 then -a else a := rfl
@[simp] theorem intNum_gt (a b : Int) : intNum.gt a b = decide (a > b) := rfl
@[simp] theorem intNum_lt (a b : Int) : intNum.lt a b = decide (a < b) := rfl
@[simp] theorem intNum_ge (a b : Int) : intNum.ge a b = decide (a ≥ b) := rfl
@[simp] theorem intNum_le (a b : Int) : intNum.le a b = decide (a ≤ b) := rfl

/-- ASCII lower-casing (Python `str.lower` and JS `toLowerCase` agree with it on ASCII). -/
def asciiLower (s : String) : String := s.map Char.toLower

end TallyVerif
