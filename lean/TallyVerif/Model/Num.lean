import TallyVerif.Model.ClassPrelude
/-! Concrete number systems for the generated classification code. -/
namespace TallyVerif

/-- IEEE doubles, as Python `float` and JavaScript `Number`. -/
def floatNum : NumLike where
  α := Float
  zero := 0.0
  gt a b := decide (a > b)
  lt a b := decide (a < b)
  ge a b := decide (a ≥ b)
  le a b := decide (a ≤ b)
  abs := Float.abs
  neg a := -a
  add a b := a + b
  sub a b := a - b

/-- Exact amounts (integer cents): the ordered ring the conservation theorems are proved over. -/
def intNum : NumLike where
  α := Int
  zero := 0
  gt a b := decide (a > b)
  lt a b := decide (a < b)
  ge a b := decide (a ≥ b)
  le a b := decide (a ≤ b)
  abs a := if a < 0 then -a else a
  neg a := -a
  add a b := a + b
  sub a b := a - b

/-- ASCII lower-casing (Python `str.lower` and JS `toLowerCase` agree with it on ASCII). -/
def asciiLower (s : String) : String := s.map Char.toLower

end TallyVerif
