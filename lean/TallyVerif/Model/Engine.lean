import TallyVerif.Model.Expr
import TallyVerif.Model.Rules
/-!
M-Engine — `MerchantEngine.match` end to end: the expression evaluator (`Expr.eval`) composed with
the rule-list algorithm (`Rules.matchEngine`).

`evalRoot` is `_eval_Expression` AFTER the D8 repair: any Python exception raised inside evaluation
surfaces as `ExpressionError` at the expression root (`convert = true`); `convert = false` is the
code as pinned.  Call sites catch exactly `ExpressionError`.
-/
namespace TallyVerif.Engine
open TallyVerif.Py TallyVerif.Expr TallyVerif.Rules

/-- `evaluator.evaluate(tree)` on an `ast.Expression` root with a fresh evaluator -/
def evalRoot (convert : Bool) (o : Oracles) (ctx : Ctx) (e : Expr) : Except Err Val :=
  match (eval o ctx e []).1 with
  | .ok v => .ok v
  | .error (.py c) => if convert then .error (.expr "converted") else .error (.py c)
  | .error err => .error err

/-- an expression as the loader keeps it: text that parsed to an AST, or text that does not parse
(`parse_expression` raises ExpressionError when it is evaluated) -/
abbrev PExpr := Option Expr

def evalP (convert : Bool) (o : Oracles) (ctx : Ctx) (e : PExpr) : Except Err Val :=
  match e with
  | some x => evalRoot convert o ctx x
  | none => .error (.expr "syntax")

inductive TagSpec
  | static (text : String)          -- already stripped, non-empty
  | dynamic (e : PExpr)             -- `{expr}` with non-empty expr
  | blank                           -- empty tag or `{}`: skipped
deriving Inhabited

structure RuleX where
  rule : Rule
  lets : List (String × PExpr)
  matchE : PExpr
  tags : List TagSpec
  fields : List (String × PExpr)

/-- outcome of one evaluation as call sites see it: value, ExpressionError (caught), or an exception
that is not caught anywhere and aborts `match` -/
inductive Caught (α : Type)
  | val (a : α)
  | skipped
  | abort (e : Err)

def caught {α : Type} (x : Except Err α) : Caught α :=
  match x with
  | .ok a => .val a
  | .error (.expr _) => .skipped
  | .error e => .abort e

/-- `_evaluate_variables`: each top-level variable is evaluated against the transaction WITHOUT the
other variables; failures are skipped -/
def evalVariables (convert : Bool) (o : Oracles) (ctx : Ctx) : List (String × PExpr) → Except Err (List (String × Val))
  | [] => .ok []
  | (n, e) :: rest =>
    match caught (evalP convert o { ctx with variables := [] } e) with
    | .abort err => .error err
    | .skipped => evalVariables convert o ctx rest
    | .val v => (evalVariables convert o ctx rest).map (fun vs => (n, v) :: vs.filter (fun kv => kv.1 != n))

def setKV (k : String) (v : Val) (l : List (String × Val)) : List (String × Val) :=
  if (l.lookup k).isSome then l.map (fun kv => if kv.1 == k then (k, v) else kv) else l ++ [(k, v)]

/-- `_evaluate_let_bindings`: sequential; a failing binding is set to None -/
def evalLets (convert : Bool) (o : Oracles) (ctx : Ctx) : List (String × PExpr) → List (String × Val) → Except Err (List (String × Val))
  | [], vars => .ok vars
  | (n, e) :: rest, vars =>
    match caught (evalP convert o { ctx with variables := vars } e) with
    | .abort err => .error err
    | .skipped => evalLets convert o ctx rest (setKV n .none vars)
    | .val v => evalLets convert o ctx rest (setKV n v vars)

/-- `str(x).strip().lower()` -/
def tagOf (o : Oracles) (v : Val) : Except Err String := do
  let s ← pyStr o v
  pyLower o (pyStrip s)

/-- `_resolve_tags` (set semantics are applied by the rule-list algorithm; here: the list of values) -/
def resolveTags (convert : Bool) (o : Oracles) (ctx : Ctx) : List TagSpec → Except Err (List String)
  | [] => .ok []
  | .blank :: rest => resolveTags convert o ctx rest
  | .static t :: rest => do
    let l ← pyLower o t
    let more ← resolveTags convert o ctx rest
    pure (l :: more)
  | .dynamic e :: rest =>
    match caught (evalP convert o ctx e) with
    | .abort err => .error err
    | .skipped => resolveTags convert o ctx rest
    | .val v => do
      let here ← (if !truthy v then pure [] else
        match v with
        -- list results: every truthy item is added as is (NO emptiness test after stripping — code as written)
        | .list xs => (xs.filter truthy).foldlM (fun acc x => do
            let s ← tagOf o x
            pure (acc ++ [s])) []
        | _ => do
          let s ← tagOf o v
          pure (if s.isEmpty then [] else [s]) : Except Err (List String))
      let more ← resolveTags convert o ctx rest
      pure (here ++ more)

def canonVal : Val → String
  | .none => "NoneType:None"
  | .bool b => if b then "bool:True" else "bool:False"
  | .int i => "int:" ++ intStr i
  | .flt b => "float:" ++ toString b.toNat
  | .str s => "str:" ++ s
  | .date d => "date:" ++ d.iso
  | v => v.typeName ++ ":?"

/-- a printable tag for an evaluation outcome (used by kernel-checked examples) -/
def outcomeTag : Except Err Val → String
  | .ok v => "ok " ++ canonVal v
  | .error (.expr _) => "ExpressionError"
  | .error (.py c) => c.name
  | .error (.unmodelled w) => "unmodelled " ++ w

/-- `_evaluate_fields`: failures are omitted -/
def evalFields (convert : Bool) (o : Oracles) (ctx : Ctx) : List (String × PExpr) → Except Err (List (String × Val))
  | [] => .ok []
  | (n, e) :: rest =>
    match caught (evalP convert o ctx e) with
    | .abort err => .error err
    | .skipped => evalFields convert o ctx rest
    | .val v => (evalFields convert o ctx rest).map (fun vs => (n, v) :: vs.filter (fun kv => kv.1 != n))

structure RuleEval where
  hit : Bool
  tags : List String
  fields : List (String × Val)

/-- the rule body once its variables are known: match, then (only if it matches) tags and fields -/
def ruleBody (convert : Bool) (o : Oracles) (c : Ctx) (r : RuleX) : Except Err RuleEval :=
  match caught (evalP convert o c r.matchE) with
  | .abort err => .error err
  | .skipped => .ok ⟨false, [], []⟩
  | .val v =>
    if !truthy v then .ok ⟨false, [], []⟩ else
    match resolveTags convert o c r.tags with
    | .error e => .error e
    | .ok tags =>
      match evalFields convert o c r.fields with
      | .error e => .error e
      | .ok fields => .ok ⟨true, tags, fields⟩

/-- the body of `for rule in self.rules:` -/
def evalRule (convert : Bool) (o : Oracles) (ctx : Ctx) (globals : List (String × Val)) (r : RuleX) : Except Err RuleEval :=
  if r.lets.isEmpty then ruleBody convert o { ctx with variables := globals } r
  else
    match evalLets convert o ctx r.lets globals with
    | .error e => .error e
    | .ok vars => ruleBody convert o { ctx with variables := vars } r

def evalRules (convert : Bool) (o : Oracles) (ctx : Ctx) (globals : List (String × Val)) : List RuleX → Except Err (List (Rule × RuleEval))
  | [] => .ok []
  | r :: rest => do
    let e ← evalRule convert o ctx globals r
    let es ← evalRules convert o ctx globals rest
    pure ((r.rule, e) :: es)

def evOf (table : List (Rule × RuleEval)) (r : Rule) : Rules.Eval :=
  match table.find? (fun p => p.1.line == r.line) with
  | some p => ⟨p.2.hit, p.2.tags, p.2.fields.map (fun kv => (kv.1, canonVal kv.2))⟩
  | none => ⟨false, [], []⟩

/-- `MerchantEngine.match` -/
def matchTxn (convert fixD2 : Bool) (key : Rule → Key) (o : Oracles) (ctx : Ctx) (mode : Mode)
    (variables : List (String × PExpr)) (rules : List RuleX) : Except Err Result := do
  let globals ← evalVariables convert o ctx variables
  let table ← evalRules convert o ctx globals rules
  pure (matchEngine fixD2 key (evOf table) mode (rules.map (·.rule)))

/-- printable summary of a match outcome (for kernel-checked examples) -/
def resultTag : Except Err Result → String
  | .ok r => r.merchant ++ "|" ++ r.category ++ "|" ++ r.subcategory ++ "|" ++ String.intercalate "," r.tags
  | .error e => outcomeTag (.error e)

end TallyVerif.Engine
