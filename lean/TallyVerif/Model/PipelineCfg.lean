import TallyVerif.Model.Config
import TallyVerif.Model.Pipeline
/-!
M-PipelineCfg — `tally up` FROM THE SETTINGS OBJECT:

    report(settings) = totals (classify (concat (map parse (planSources (resolveConfig settings)))))

`Config.resolveConfig` / `Config.planSources` decide which parser calls are made with which arguments; `parsePlanned` is
one such call: `Config.readArgs` (what `parse_generic_csv` makes of the arguments), C05's tokeniser `Csv.iterRows` on the
text of the file and C05's row parser `Csv.parseFile`; the rows go to `Pipeline.upLoop` (the loop of `cmd_run`) with the
classifier the resolved config selects (rule mode, rules file, supplemental sources: `classEnv`).
Core Lean only.
-/
namespace TallyVerif.PipelineCfg
open TallyVerif.Config TallyVerif.Pipeline TallyVerif.Py


/-- a row of C05's parser as the classifier sees it (the date is the `YYYY-MM-DD` head of strptime's ISO text) -/
def rowOfTxn (t : Csv.Txn) : Row :=
  let iso := String.ofList (t.date.take 10)
  { description := String.ofList t.rawDescription
    amount := UInt64.ofNat t.amount.toBits
    date := match TallyVerif.Expr.strictIso iso with | some (some d) => some d | _ => none
    source := String.ofList t.source
    location := t.location.map String.ofList
    field := t.field.map (fun f => f.map (fun kv => (String.ofList kv.1, String.ofList kv.2))) }

/-- the files and the CPython primitives reading them needs -/
structure World where
  /-- the text of the file at a path as `open(path, 'r', encoding='utf-8')` yields it (universal newlines); `none`: opening or
  decoding raises -/
  text : Str → Option Str
  /-- `re.compile(delimiter[6:])` for a `regex:` delimiter, as the line matcher `pattern.match(line)` ↦ groups; `none`: `re.error` -/
  regex : Str → Option (Str → Option (List Str))
  /-- `float()` / `datetime.strptime` -/
  csv : Csv.Oracles
  /-- the rows `parse_amex` / `parse_boa` return (the two deprecated parsers are not modelled) -/
  special : Planned → Option (List Row)

/-- the line matcher of a planned source whose delimiter reads as `regex:` -/
def matcherOf (w : World) (g : GenericSpec) : Option (Str → Option (List Str)) :=
  match g.delimiter with
  | .str s => w.regex s
  | _ => none

/-- ONE parser call of `cmd_run`: `some rows` = the transactions it returns (before classification), `none` = it raises
(the file cannot be read, the delimiter has no `.startswith`, the pattern does not compile, a template names a column that
was not captured …) and `cmd_run` prints "Error parsing" and goes on.  `.error`: outside the model (a source name that
is not a string). -/
def parsePlanned (w : World) (p : Planned) : Except Err (Option (List Row)) :=
  match p.call with
  | .amex | .boa => .ok (w.special p)
  | .generic g nm ds =>
    match readArgs g nm ds with
    | .error _ => .ok none
    | .ok ra =>
      match ra.sourceName with
      | .str name =>
        match w.text p.path with
        | none => .ok none
        | some txt =>
          let parse (m : Str → Option (List Str)) : Option (List Row) :=
            match Csv.parseFile w.csv { spec := ra.spec, eu := ra.eu, sourceName := name }
                    (Csv.iterRows m ra.delim ra.hasHeader txt) with
            | .error _ => none
            | .ok txns => some (txns.map rowOfTxn)
          match ra.delim with
          | .csv _ => .ok (parse fun _ => none)
          | .regex =>
            match matcherOf w g with
            | none => .ok none
            | some m => .ok (parse m)
      | _ => .error (.unmodelled "source name that is not a string")

/-- a planned call as a source of the loop `Pipeline.upLoop` (never supplemental: those are not planned) -/
def toSource (w : World) (p : Planned) : Except Err Source :=
  (parsePlanned w p).map fun rows => ⟨false, rows⟩

def toSources (w : World) : List Planned → Except Err (List Source)
  | [] => .ok []
  | p :: ps =>
    match toSource w p with
    | .error e => .error e
    | .ok s =>
      match toSources w ps with
      | .error e => .error e
      | .ok ss => .ok (s :: ss)

/-- what the classifier of a run is made from: the rule mode, the rules file selected, and the supplemental sources
(whose rows the rule expressions can query) -/
structure ClassEnv where
  ruleMode : RuleMode
  rulesFile : RulesFile
  supplemental : List SourceCfg
deriving DecidableEq, Repr

def classEnv (cfg : Config) : ClassEnv :=
  ⟨cfg.ruleMode, cfg.rulesFile, cfg.sources.filter (·.supplemental.truthy)⟩

/-- how a run ends without a transaction list -/
inductive Stop
  | load (e : CfgErr)        -- `load_config` raises
  | run (e : RunErr)         -- `cmd_run` exits or raises before / in the loop
  | model (e : Err)          -- the model declines
deriving Repr

/-- **`tally up` from the settings object**: the classified transactions `cmd_run` hands to `analyze_transactions` -/
def upFromSettings (quiet : Bool) (env : Env) (w : World) (classify : ClassEnv → Row → Except Err Classified) (settings : Y) :
    Except Stop (List Classified) :=
  match resolveConfig env settings with
  | .error e => .error (.load e)
  | .ok cfg =>
    match planSources quiet env cfg with
    | .error e => .error (.run e)
    | .ok plan =>
      match toSources w plan with
      | .error e => .error (.model e)
      | .ok srcs =>
        match upLoop (classify (classEnv cfg)) srcs with
        | .error e => .error (.model e)
        | .ok cls => .ok cls

end TallyVerif.PipelineCfg
