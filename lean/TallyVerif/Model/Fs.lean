/-!
# M-Fs — file-system model of tally's migrations and commands (properties C15, C20)

* `FS κ` is an association list `Path ↦ Node κ`; a file's content is a list of *chunks*; user content
  is the opaque chunk `orig a m` (`a : κ` arbitrary, `m` the few attributes the code branches on).
* The machine `M` executes Python-level file-system *events* (`open(..,'w')`, `write`, `close`,
  `open(..,'a')`, `shutil.move`, `os.replace`, `os.makedirs`), one counter tick per event, mirroring the
  statement order of `_migrate_csv_to_rules`, `_check_merchant_migration`, `cmd_init`/`init_config`,
  `run_migrations`/`migrate_v0_to_v1` and the report writing of `cmd_run`.  Guards (`os.path.exists`, text
  tests on settings.yaml) are evaluated on the *current* state exactly where the code evaluates them.
* `crashAt k partial`: the state after `k` events of the undisturbed run, with the in-flight file
  (opened, not yet closed) holding none / half / all of what was written to it.
* `faultAt k`: event `k` raises `OSError`; the enclosing `with` closes the file, then the code's own
  `try/except` decides: the CSV migration and the views append swallow it, `init_config` propagates.
* `effectiveRules`: `load_config`'s merchants-file resolution (settings `merchants_file:` key, else
  legacy `merchant_categories.csv`, else nothing).

Variants (`CsvVariant`, `LayoutVariant`) select between the statement order of the code as it is
(`impl`) and the proposed repairs; which one is current is read off `Gen/FsSteps.lean`.
Core Lean only (linked into `tvdrv`).
-/
namespace TallyVerif.Fs

/-! ## paths -/

/-- where a budget lives relative to the working directory: `./` (old layout) or `./tally/` (new) -/
inductive Loc | top | tally
  deriving DecidableEq, Repr, Inhabited

inductive Rel
  | configDir | dataDir | outputDir | tallyDir
  | settings | rules | rulesTmp | rulesBak | rulesBak1 | rulesBak2
  | csv | csvBak | csvBak1 | csvBak2
  | views | other | schema | stmt | report | gitignore
  deriving DecidableEq, Repr, Inhabited

structure Path where
  loc : Loc
  rel : Rel
  deriving DecidableEq, Repr, Inhabited

/-- the directory (of the three a layout migration moves) a relative path lives in -/
def Rel.parent : Rel → Option Rel
  | .settings | .rules | .rulesTmp | .rulesBak | .rulesBak1 | .rulesBak2
  | .csv | .csvBak | .csvBak1 | .csvBak2 | .views | .other | .schema => some .configDir
  | .stmt => some .dataDir
  | .report => some .outputDir
  | _ => none

def Rel.toString : Rel → String
  | .configDir => "config" | .dataDir => "data" | .outputDir => "output" | .tallyDir => "tally"
  | .settings => "config/settings.yaml" | .rules => "config/merchants.rules"
  | .rulesTmp => "config/merchants.rules.tmp"
  | .rulesBak => "config/merchants.rules.bak" | .rulesBak1 => "config/merchants.rules.bak.1"
  | .rulesBak2 => "config/merchants.rules.bak.2"
  | .csv => "config/merchant_categories.csv" | .csvBak => "config/merchant_categories.csv.bak"
  | .csvBak1 => "config/merchant_categories.csv.bak.1" | .csvBak2 => "config/merchant_categories.csv.bak.2"
  | .views => "config/views.rules" | .other => "config/other.rules" | .schema => "config/.tally-schema"
  | .stmt => "data/bank.csv" | .report => "output/spending_summary.html" | .gitignore => ".gitignore"

def Path.toString (p : Path) : String :=
  match p.loc with
  | .top => p.rel.toString
  | .tally => "tally/" ++ p.rel.toString

/-! ## contents -/

inductive Kind | settings | csvRules | rulesFile | data | other
  deriving DecidableEq, Repr, Inhabited

/-- the attributes of a user file the code branches on (all other bytes are opaque) -/
structure Meta where
  kind : Kind := .other
  /-- the text `merchants_file:` occurs somewhere (possibly only in a comment) -/
  mentionsMF : Bool := false
  /-- the YAML key `merchants_file` and the file it names -/
  keyMF : Option Rel := none
  /-- the text `views_file:` occurs somewhere -/
  mentionsVF : Bool := false
  /-- a legacy CSV has at least one line that is neither blank, comment nor header -/
  hasRules : Bool := true
  /-- settings.yaml lists data sources (otherwise `tally up` stops before touching rules) -/
  hasSources : Bool := true
  deriving DecidableEq, Repr, Inhabited

inductive Starter | settings | merchants | views | gitignore | schema | report | junk
  deriving DecidableEq, Repr, Inhabited

inductive Line | mfComment | mfKey | vfComment | vfKey
  deriving DecidableEq, Repr, Inhabited

inductive Chunk (κ : Type) where
  /-- opaque user content `a` -/
  | orig (a : κ) (m : Meta)
  /-- `csv_to_merchants_content` of the CSV whose content is `a` -/
  | migrated (a : κ)
  | starter (s : Starter)
  | line (l : Line)
  /-- a proper, non-empty initial piece of a chunk (torn in-flight write) -/
  | cut (c : Chunk κ)
  deriving DecidableEq, Repr, Inhabited

abbrev Content (κ : Type) := List (Chunk κ)

inductive Node (κ : Type) where
  | dir
  | file (c : Content κ)
  deriving DecidableEq, Repr, Inhabited

abbrev FS (κ : Type) := List (Path × Node κ)

variable {κ : Type}

def lookup (fs : FS κ) (p : Path) : Option (Node κ) :=
  match fs with
  | [] => none
  | (q, n) :: rest => if q = p then some n else lookup rest p

def fileAt (fs : FS κ) (p : Path) : Option (Content κ) :=
  match lookup fs p with
  | some (.file c) => some c
  | _ => none

def isDir (fs : FS κ) (p : Path) : Bool :=
  match lookup fs p with
  | some .dir => true
  | _ => false

def pathExists (fs : FS κ) (p : Path) : Bool := (lookup fs p).isSome

def remove (fs : FS κ) (p : Path) : FS κ := fs.filter fun e => !decide (e.1 = p)

/-- set (create or replace) the node at `p`; position in the list is irrelevant for `lookup` -/
def setNode (fs : FS κ) (p : Path) (n : Node κ) : FS κ := (p, n) :: remove fs p

/-! ## content attributes (what `load_config` / the migration read out of a file) -/

def Chunk.mentionsMF : Chunk κ → Bool
  | .orig _ m => m.mentionsMF
  | .line .mfKey => true
  | .starter .settings => true
  | _ => false

def Chunk.keyMF : Chunk κ → Option Rel
  | .orig _ m => m.keyMF
  | .line .mfKey => some .rules
  | .starter .settings => some .rules
  | _ => none

def Chunk.mentionsVF : Chunk κ → Bool
  | .orig _ m => m.mentionsVF
  | .line .vfKey => true
  | .starter .settings => true          -- the starter carries `# views_file: …` as a comment
  | _ => false

def mentionsMF (c : Content κ) : Bool := c.any Chunk.mentionsMF
def mentionsVF (c : Content κ) : Bool := c.any Chunk.mentionsVF
def keyMF (c : Content κ) : Option Rel := c.findSome? Chunk.keyMF


def hasSources (c : Content κ) : Bool :=
  c.any fun ch => match ch with | .orig _ m => m.hasSources | _ => false

def csvHasRules (c : Content κ) : Bool :=
  c.any fun ch => match ch with | .orig _ m => m.hasRules | _ => false

/-- the chunk carries (some of) the user's categorisation rules -/
def Chunk.bearsRules : Chunk κ → Bool
  | .orig _ m => (m.kind = .csvRules && m.hasRules) || m.kind = .rulesFile
  | .migrated _ => true
  | .cut (.migrated _) => true
  | _ => false

/-! ## effective rules: `config_loader.load_config` -/

inductive RuleSrc (κ : Type) where
  /-- no config directory / no settings.yaml: the command stops with an error -/
  | err
  /-- "No merchant rules found" -/
  | none
  | csv (c : Content κ)
  | rules (c : Content κ)
  deriving DecidableEq, Repr, Inhabited

/-- settings.yaml parses to a mapping: not empty (`safe_load` gives `None`) and not a torn starter file -/
def loadable : Content κ → Bool
  | [] => false
  | .cut _ :: _ => false
  | _ => true

def effectiveRules (loc : Loc) (fs : FS κ) : RuleSrc κ :=
  if isDir fs ⟨loc, .configDir⟩ then
    match fileAt fs ⟨loc, .settings⟩ with
    | Option.none => .err
    | some sc =>
      if !loadable sc then .err else
      match keyMF sc with
      | some target =>
        match fileAt fs ⟨loc, target⟩ with
        | some c => .rules c
        | Option.none => .none
      | Option.none =>
        match fileAt fs ⟨loc, .csv⟩ with
        | some c => .csv c
        | Option.none => .none
  else .err

/-- `cli.find_config_dir` (without TALLY_CONFIG): `./config` first, then `./tally/config` -/
def findConfigDir (fs : FS κ) : Option Loc :=
  if isDir fs ⟨.top, .configDir⟩ then some .top
  else if isDir fs ⟨.tally, .configDir⟩ then some .tally
  else Option.none

/-- what `tally up` (run from the working directory) classifies with: rules and statement file -/
structure Eff (κ : Type) where
  rules : RuleSrc κ
  data : Option (Content κ)
  deriving DecidableEq, Repr

def effective (fs : FS κ) : Eff κ :=
  match findConfigDir fs with
  | Option.none => ⟨.err, Option.none⟩
  | some loc =>
    match fileAt fs ⟨loc, .settings⟩ with
    | Option.none => ⟨.err, Option.none⟩
    | some sc =>
      -- the statement file is found through the `data_sources` of settings.yaml, relative to the budget directory
      ⟨effectiveRules loc fs, if loadable sc && hasSources sc then fileAt fs ⟨loc, .stmt⟩ else Option.none⟩

/-- the rule set is empty: nothing found, or the file in effect carries no rule -/
def RuleSrc.isEmpty : RuleSrc κ → Bool
  | .none => true
  | .rules c => !c.any Chunk.bearsRules
  | .csv c => !c.any Chunk.bearsRules
  | .err => false

def RuleSrc.usable : RuleSrc κ → Bool
  | .csv c => c.any Chunk.bearsRules
  | .rules c => c.any Chunk.bearsRules
  | _ => false

/-- same classification: identical source, or a CSV and its complete conversion (C14) -/
def RuleSrc.equiv [DecidableEq κ] (a b : RuleSrc κ) : Bool :=
  decide (a = b) ||
  (match a, b with
   | .csv [.orig x _], .rules [.migrated y] => decide (x = y)
   | .rules [.migrated y], .csv [.orig x _] => decide (x = y)
   | _, _ => false)

def rulesOnDisk (fs : FS κ) : Bool :=
  fs.any fun e => match e.2 with
    | .file c => c.any Chunk.bearsRules
    | .dir => false

/-! ## the machine -/

structure InFlight (κ : Type) where
  path : Path
  base : Content κ
  pending : Content κ
  deriving DecidableEq, Repr

inductive Ev (κ : Type) where
  | openW (p : Path)
  | openA (p : Path)
  | write (c : Chunk κ)
  | close
  | move (a b : Path)
  | replace (a b : Path)
  | mkdir (p : Path)
  /-- `shutil.move` of one of the three budget directories from `./` to `./tally/` -/
  | moveDir (r : Rel)
  deriving DecidableEq, Repr

/-- event kinds, for comparing the model's trace with the audit / injection trace of the real run -/
def Ev.tag : Ev κ → String
  | .openW p => "openW " ++ p.toString
  | .openA p => "openA " ++ p.toString
  | .write _ => "write"
  | .close => "close"
  | .move a b => "move " ++ a.toString ++ " -> " ++ b.toString
  | .replace a b => "replace " ++ a.toString ++ " -> " ++ b.toString
  | .mkdir p => "mkdir " ++ p.toString
  | .moveDir r => "move " ++ r.toString ++ " -> tally/" ++ r.toString

/-- `close` cannot be made to fail by the injector (it is only a crash point) -/
def Ev.faultable : Ev κ → Bool
  | .close => false
  | _ => true

structure Snap (κ : Type) where
  fs : FS κ
  fl : Option (InFlight κ)

structure M (κ : Type) where
  fs : FS κ
  fl : Option (InFlight κ) := none
  /-- number of events performed (or attempted) so far -/
  n : Nat := 0
  /-- index of the event that raises `OSError` -/
  fault : Option Nat := none
  /-- snapshots after each event, oldest first -/
  hist : List (Snap κ) := []
  /-- the events, oldest first (`none` = the event that raised) -/
  evs : List (Ev κ × Bool) := []
  /-- a directory move met an existing target: outside the modelled shapes -/
  outOfModel : Bool := false

inductive Res (κ : Type) where
  | ok (m : M κ)
  /-- an `OSError` is propagating -/
  | faulted (m : M κ)

def Res.m : Res κ → M κ
  | .ok m => m
  | .faulted m => m

def Res.andThen (r : Res κ) (f : M κ → Res κ) : Res κ :=
  match r with
  | .ok m => f m
  | .faulted m => .faulted m

infixl:55 " ⊳ " => Res.andThen

/-- what is on disk once the in-flight file is closed -/
def flushed (fs : FS κ) (fl : Option (InFlight κ)) : FS κ :=
  match fl with
  | Option.none => fs
  | some f => setNode fs f.path (.file (f.base ++ f.pending))

def relUnder (d : Rel) (r : Rel) : Bool := decide (r = d) || decide (r.parent = some d)

def applyEv (fs : FS κ) (fl : Option (InFlight κ)) : Ev κ → FS κ × Option (InFlight κ) × Bool
  | .openW p => (setNode (flushed fs fl) p (.file []), some ⟨p, [], []⟩, false)
  | .openA p =>
    let fs := flushed fs fl
    let base := (fileAt fs p).getD []
    (setNode fs p (.file base), some ⟨p, base, []⟩, false)
  | .write c =>
    match fl with
    | some f => (fs, some { f with pending := f.pending ++ [c] }, false)
    | Option.none => (fs, Option.none, false)
  | .close => (flushed fs fl, Option.none, false)
  | .move a b | .replace a b =>
    match lookup fs a with
    | some n => (setNode (remove fs a) b n, fl, false)
    | Option.none => (fs, fl, false)
  | .mkdir p =>
    -- `os.makedirs(…, exist_ok=True)`: also creates `./tally` for a path below it
    let fs := if p.loc = .tally && !pathExists fs ⟨.top, .tallyDir⟩ then setNode fs ⟨.top, .tallyDir⟩ .dir else fs
    (if pathExists fs p then fs else setNode fs p .dir, fl, false)
  | .moveDir d =>
    if pathExists fs ⟨.tally, d⟩ then (fs, fl, true)
    else
      (fs.map fun e => if e.1.loc = .top && relUnder d e.1.rel then (⟨.tally, e.1.rel⟩, e.2) else e, fl, false)

/-- perform one event (or let it raise, if it is the chosen fault) -/
def ev (e : Ev κ) (m : M κ) : Res κ :=
  if m.fault = some m.n && e.faultable then
    -- OSError: the `with` block closes the file that is open
    let fs := flushed m.fs m.fl
    .faulted { m with fs := fs, fl := Option.none, n := m.n + 1, fault := Option.none,
                      hist := m.hist ++ [⟨fs, Option.none⟩], evs := m.evs ++ [(e, true)] }
  else
    let (fs, fl, oom) := applyEv m.fs m.fl e
    .ok { m with fs := fs, fl := fl, n := m.n + 1, hist := m.hist ++ [⟨fs, fl⟩], evs := m.evs ++ [(e, false)],
                 outOfModel := m.outOfModel || oom }

/-- `try: … except Exception/OSError: …` — returns the state and whether the body completed -/
def tryCatch (body : M κ → Res κ) (m : M κ) : M κ × Bool :=
  match body m with
  | .ok m' => (m', true)
  | .faulted m' => (m', false)

/-- `with open(p, 'w') as f: f.write(c)` -/
def writeFile (p : Path) (c : Chunk κ) (m : M κ) : Res κ :=
  ev (.openW p) m ⊳ ev (.write c) ⊳ ev .close

def appendLines (p : Path) (l1 l2 : Line) (m : M κ) : Res κ :=
  ev (.openA p) m ⊳ ev (.write (.line l1)) ⊳ ev (.write (.line l2)) ⊳ ev .close

/-! ## CSV → .rules migration (`cli._migrate_csv_to_rules`) -/

/-- which statement order / naming the code has (`impl` = all `false`) -/
structure CsvVariant where
  /-- write to a temporary name + `os.replace`, append the settings line, move the CSV away *last* -/
  reorder : Bool
  /-- backups go to the first free name; an existing merchants.rules is backed up, not overwritten -/
  fresh : Bool
  /-- the settings line is appended unless a `merchants_file:` *key* exists (not: the text occurs) -/
  keyCheck : Bool
  deriving DecidableEq, Repr, Inhabited

def CsvVariant.impl : CsvVariant := ⟨false, false, false⟩
def CsvVariant.repaired : CsvVariant := ⟨true, true, true⟩

def firstFree (fs : FS κ) (loc : Loc) : List Rel → Rel → Rel
  | [], d => d
  | r :: rest, d => if pathExists fs ⟨loc, r⟩ then firstFree fs loc rest d else r

def csvBackupName (v : CsvVariant) (fs : FS κ) (loc : Loc) : Rel :=
  if v.fresh then firstFree fs loc [.csvBak, .csvBak1, .csvBak2] .csvBak2 else .csvBak

def rulesBackupName (fs : FS κ) (loc : Loc) : Rel :=
  firstFree fs loc [.rulesBak, .rulesBak1, .rulesBak2] .rulesBak2

def migratedChunk (c : Option (Content κ)) : Chunk κ :=
  match c with
  | some [.orig a _] => .migrated a
  | _ => .starter .junk

def settingsAppend (v : CsvVariant) (loc : Loc) (m : M κ) : Res κ :=
  match fileAt m.fs ⟨loc, .settings⟩ with
  | Option.none => .ok m
  | some sc =>
    if (if v.keyCheck then (keyMF sc).isSome else mentionsMF sc) then .ok m
    else appendLines ⟨loc, .settings⟩ .mfComment .mfKey m

def backupCsv (v : CsvVariant) (loc : Loc) (m : M κ) : Res κ :=
  if pathExists m.fs ⟨loc, .csv⟩ then ev (.move ⟨loc, .csv⟩ ⟨loc, csvBackupName v m.fs loc⟩) m else .ok m

def migrateCsvBody (v : CsvVariant) (loc : Loc) (m : M κ) : Res κ :=
  let newC := migratedChunk (fileAt m.fs ⟨loc, .csv⟩)
  if v.reorder then
    (if v.fresh && pathExists m.fs ⟨loc, .rules⟩
      then ev (.move ⟨loc, .rules⟩ ⟨loc, rulesBackupName m.fs loc⟩) m else .ok m)
    ⊳ writeFile ⟨loc, .rulesTmp⟩ newC
    ⊳ ev (.replace ⟨loc, .rulesTmp⟩ ⟨loc, .rules⟩)
    ⊳ settingsAppend v loc
    ⊳ backupCsv v loc
  else
    (if v.fresh && pathExists m.fs ⟨loc, .rules⟩
      then ev (.move ⟨loc, .rules⟩ ⟨loc, rulesBackupName m.fs loc⟩) m else .ok m)
    ⊳ writeFile ⟨loc, .rules⟩ newC
    ⊳ backupCsv v loc
    ⊳ settingsAppend v loc

/-- `_migrate_csv_to_rules`: the body inside `try … except Exception: return False` -/
def migrateCsv (v : CsvVariant) (loc : Loc) (m : M κ) : M κ × Bool := tryCatch (migrateCsvBody v loc) m

/-! ## commands -/

/-- what the current run of `tally up` ended up classifying with -/
inductive RunOut (κ : Type) where
  | error
  | used (r : RuleSrc κ)
  deriving DecidableEq, Repr

/-- `get_all_rules(path)` after the migration step of this run -/
def rulesNow (fs : FS κ) (p : Path) (asCsv : Bool) : RuleSrc κ :=
  match fileAt fs p with
  | some c => if asCsv then .csv c else .rules c
  | Option.none => .none          -- `load_merchant_rules` of a missing path is `[]`

/-- `cmd_run` up to and including `_check_merchant_migration` (non-interactive) -/
def upRules (v : CsvVariant) (migrate : Bool) (m : M κ) : M κ × RunOut κ :=
  match findConfigDir m.fs with
  | Option.none => (m, .error)
  | some loc =>
    match effectiveRules loc m.fs with
    | .err => (m, .error)
    | .none => (m, .used .none)
    | .rules c => (m, .used (.rules c))
    | .csv c =>
      if !hasSources ((fileAt m.fs ⟨loc, .settings⟩).getD []) then (m, .error) else
      if migrate then
        let (m', ok) := migrateCsv v loc m
        if ok then (m', .used (rulesNow m'.fs ⟨loc, .rules⟩ false))
        else (m', .used (rulesNow m'.fs ⟨loc, .csv⟩ true))
      else (m, .used (.csv c))

/-- the whole of `tally up`: rules (with optional migration), then the HTML report -/
def cmdUp (v : CsvVariant) (migrate : Bool) (html : Bool) (m : M κ) : Res κ :=
  match findConfigDir m.fs with
  | Option.none => .ok m
  | some loc =>
    match fileAt m.fs ⟨loc, .settings⟩ with
    | Option.none => .ok m
    | some sc =>
      if !hasSources sc then .ok m else
      let (m', out) := upRules v migrate m
      match out with
      | .error => .ok m'
      | .used _ =>
        -- "Error: No transactions found" (exit 1) comes before any output is written
        if (fileAt m'.fs ⟨loc, .stmt⟩).isNone then .ok m' else
        if html then
          ev (.mkdir ⟨loc, .outputDir⟩) m' ⊳ writeFile ⟨loc, .report⟩ (.starter .report)
        else .ok m'

def createIfMissing (p : Path) (s : Starter) (m : M κ) : Res κ :=
  if pathExists m.fs p then .ok m else writeFile p (.starter s) m

def viewsAppendBody (loc : Loc) (m : M κ) : Res κ :=
  match fileAt m.fs ⟨loc, .settings⟩ with
  | Option.none => .ok m
  | some sc =>
    if pathExists m.fs ⟨loc, .views⟩ && !mentionsVF sc then appendLines ⟨loc, .settings⟩ .vfComment .vfKey m
    else .ok m

/-- `commands/init.cmd_init` with the budget directory `loc` as target -/
def cmdInit (v : CsvVariant) (loc : Loc) (m : M κ) : Res κ :=
  let m1 :=
    match fileAt m.fs ⟨loc, .csv⟩ with
    | some c =>
      if !pathExists m.fs ⟨loc, .rules⟩ && csvHasRules c then (migrateCsv v loc m).1 else m
    | Option.none => m
  ev (.mkdir ⟨loc, .configDir⟩) m1
    ⊳ ev (.mkdir ⟨loc, .dataDir⟩)
    ⊳ ev (.mkdir ⟨loc, .outputDir⟩)
    ⊳ createIfMissing ⟨loc, .settings⟩ .settings
    ⊳ createIfMissing ⟨loc, .rules⟩ .merchants
    ⊳ createIfMissing ⟨loc, .views⟩ .views
    ⊳ createIfMissing ⟨loc, .gitignore⟩ .gitignore
    ⊳ fun m => .ok (tryCatch (viewsAppendBody loc) m).1

inductive LayoutVariant | impl | configLast
  deriving DecidableEq, Repr, Inhabited

def schemaVersion (fs : FS κ) (loc : Loc) : Nat :=
  match fileAt fs ⟨loc, .schema⟩ with
  | some [.starter .schema] => 1
  | _ => 0

def moveIfDir (d : Rel) (m : M κ) : Res κ :=
  if isDir m.fs ⟨.top, d⟩ then ev (.moveDir d) m else .ok m

def migrateLayoutBody (v : LayoutVariant) (m : M κ) : Res κ :=
  match v with
  | .impl =>
    ev (.mkdir ⟨.top, .tallyDir⟩) m
      ⊳ ev (.moveDir .configDir)
      ⊳ moveIfDir .dataDir
      ⊳ moveIfDir .outputDir
      ⊳ writeFile ⟨.tally, .schema⟩ (.starter .schema)
  | .configLast =>
    ev (.mkdir ⟨.top, .tallyDir⟩) m
      ⊳ moveIfDir .dataDir
      ⊳ moveIfDir .outputDir
      ⊳ ev (.moveDir .configDir)
      ⊳ writeFile ⟨.tally, .schema⟩ (.starter .schema)

/-- `run_migrations(find_config_dir(), skip_confirm=True)` as `tally update --yes` calls it -/
def cmdLayout (v : LayoutVariant) (m : M κ) : Res κ :=
  match findConfigDir m.fs with
  | Option.none => .ok m
  | some loc =>
    if schemaVersion m.fs loc ≥ 1 then .ok m
    else if loc ≠ .top then .ok m            -- `dirname(old_config_dir) != os.getcwd()`: refuses
    else .ok (tryCatch (migrateLayoutBody v) m).1

/-! ## programs, crash and fault injection -/

inductive Prog
  | upMigrate        -- `tally up --migrate` (rules part; `_check_merchant_migration(…, migrate=True)`)
  | init             -- `tally init` (default target: `.` if ./config exists, else ./tally)
  | layout           -- `tally update --yes` (layout migration)
  | up               -- `tally up` (no `--migrate`), HTML report
  | upMigrateHtml    -- `tally up --migrate`, whole command with HTML report
  | readOnly         -- `explain`, `discover`, `diag`, `inspect`, `up --format summary|json|markdown`
  deriving DecidableEq, Repr, Inhabited

structure Variants where
  csv : CsvVariant
  layout : LayoutVariant
  deriving DecidableEq, Repr, Inhabited

def Variants.impl : Variants := ⟨.impl, .impl⟩
def Variants.repaired : Variants := ⟨.repaired, .configLast⟩

def runProg (v : Variants) (p : Prog) (m : M κ) : Res κ × RunOut κ :=
  match p with
  | .upMigrate => let (m', o) := upRules v.csv true m; (.ok m', o)
  | .init => (cmdInit v.csv (if isDir m.fs ⟨.top, .configDir⟩ then .top else .tally) m, .error)
  | .layout => (cmdLayout v.layout m, .error)
  | .up => (cmdUp v.csv false true m, .error)
  | .upMigrateHtml => (cmdUp v.csv true true m, .error)
  | .readOnly => (.ok m, .error)

def start (fs : FS κ) (fault : Option Nat := none) : M κ := { fs := fs, fault := fault }

/-- undisturbed run -/
def complete (v : Variants) (p : Prog) (fs : FS κ) : M κ := (runProg v p (start fs)).1.m

/-- re-running the same command on whatever is there -/
def rerun (v : Variants) (p : Prog) (fs : FS κ) : FS κ := (complete v p fs).fs

def numEvents (v : Variants) (p : Prog) (fs : FS κ) : Nat := (complete v p fs).n

inductive Partial | empty | half | full
  deriving DecidableEq, Repr, Inhabited

/-- how much of what was written to the in-flight file reached the disk -/
def applyPartial : Partial → Content κ → Content κ
  | .empty, _ => []
  | .full, l => l
  | .half, [] => []
  | .half, [c] => [.cut c]
  | .half, l => l.take (l.length / 2)

def materialize (part : Partial) (s : Snap κ) : FS κ :=
  match s.fl with
  | Option.none => s.fs
  | some f => setNode s.fs f.path (.file (f.base ++ applyPartial part f.pending))

/-- all crash snapshots: before the first event, then after each event -/
def snapshots (v : Variants) (p : Prog) (fs : FS κ) : List (Snap κ) :=
  ⟨fs, Option.none⟩ :: (complete v p fs).hist

/-- the process dies after `k` events (`k ≥` number of events: it ran to completion) -/
def crashAt (v : Variants) (p : Prog) (fs : FS κ) (k : Nat) (part : Partial) : FS κ :=
  materialize part ((snapshots v p fs).getD k ⟨(complete v p fs).fs, Option.none⟩)

/-- event `k` raises `OSError`; the code's own handlers run; `(final tree, what this run used)` -/
def faultAt (v : Variants) (p : Prog) (fs : FS κ) (k : Nat) : FS κ × RunOut κ :=
  let r := runProg v p (start fs (some k))
  (flushed r.1.m.fs r.1.m.fl, r.2)

/-! ## shapes: the initial budgets the theorems range over -/

inductive SettingsKind
  | absent
  | plain            -- no mention of `merchants_file:`
  | commentMF        -- `# merchants_file: …` only in a comment
  | keyRules         -- `merchants_file: config/merchants.rules`
  | keyOther         -- `merchants_file: config/other.rules`, and that file exists
  deriving DecidableEq, Repr, Inhabited

inductive CsvKind | absent | headerOnly | withRules
  deriving DecidableEq, Repr, Inhabited

structure Shape where
  settings : SettingsKind
  csv : CsvKind
  rules : Bool          -- config/merchants.rules exists
  csvBak : Bool         -- config/merchant_categories.csv.bak exists
  views : Bool
  mentionsVF : Bool     -- settings (if present) mentions `views_file:`
  dirs : Bool           -- data/ (with a statement) and output/ exist
  deriving DecidableEq, Repr, Inhabited

def bools : List Bool := [false, true]

def shapesOf (s : SettingsKind) : List Shape :=
  [CsvKind.absent, .headerOnly, .withRules].flatMap fun c =>
  bools.flatMap fun r => bools.flatMap fun b => bools.flatMap fun vw =>
  bools.flatMap fun mv => bools.map fun d => ⟨s, c, r, b, vw, mv, d⟩

def allShapes : List Shape :=
  shapesOf .absent ++ shapesOf .plain ++ shapesOf .commentMF ++ shapesOf .keyRules ++ shapesOf .keyOther

def settingsMeta (k : SettingsKind) (mv : Bool) : Meta :=
  match k with
  | .absent | .plain => { kind := .settings, mentionsVF := mv }
  | .commentMF => { kind := .settings, mentionsMF := true, mentionsVF := mv }
  | .keyRules => { kind := .settings, mentionsMF := true, keyMF := some .rules, mentionsVF := mv }
  | .keyOther => { kind := .settings, mentionsMF := true, keyMF := some .other, mentionsVF := mv }

def optFile (b : Bool) (p : Path) (c : Chunk κ) : FS κ := if b then [(p, .file [c])] else []

/-- the budget of shape `s` at `./`, every user file holding its own opaque content `u <path>` -/
def Shape.fs (s : Shape) (u : Rel → κ) : FS κ :=
  [(⟨.top, .configDir⟩, Node.dir)]
  ++ optFile (s.settings ≠ .absent) ⟨.top, .settings⟩ (.orig (u .settings) (settingsMeta s.settings s.mentionsVF))
  ++ optFile (s.csv ≠ .absent) ⟨.top, .csv⟩ (.orig (u .csv) { kind := .csvRules, hasRules := s.csv = .withRules })
  ++ optFile s.rules ⟨.top, .rules⟩ (.orig (u .rules) { kind := .rulesFile })
  ++ optFile s.csvBak ⟨.top, .csvBak⟩ (.orig (u .csvBak) { kind := .other })
  ++ optFile (s.settings = .keyOther) ⟨.top, .other⟩ (.orig (u .other) { kind := .rulesFile })
  ++ optFile s.views ⟨.top, .views⟩ (.orig (u .views) { kind := .other })
  ++ (if s.dirs then [(⟨.top, .dataDir⟩, Node.dir), (⟨.top, .stmt⟩, .file [.orig (u .stmt) { kind := .data }]),
                      (⟨.top, .outputDir⟩, Node.dir), (⟨.top, .report⟩, .file [.orig (u .report) { kind := .other }])]
      else [])

/-- the budget of shape `s` in a folder where the user keeps files of their own next to tally's. The one such file a tally command
    has an opinion about is `.gitignore` (`init` writes a starter one when there is none): here it is the user's, opaque content. -/
def Shape.fsWith (s : Shape) (gitignore : Bool) (u : Rel → κ) : FS κ :=
  s.fs u ++ optFile gitignore ⟨.top, .gitignore⟩ (.orig (u .gitignore) { kind := .other })

/-- old-layout budgets for the layout migration -/
structure LShape where
  data : Bool
  output : Bool
  tallyDir : Bool       -- an (empty) ./tally already exists
  schema : Bool         -- config/.tally-schema says 1 already
  csvRules : Bool       -- rules are the legacy CSV (else merchants.rules referenced from settings)
  deriving DecidableEq, Repr, Inhabited

def allLShapes : List LShape :=
  bools.flatMap fun a => bools.flatMap fun b => bools.flatMap fun c => bools.flatMap fun d =>
  bools.map fun e => ⟨a, b, c, d, e⟩

def LShape.fs (s : LShape) (u : Rel → κ) : FS κ :=
  [(⟨.top, .configDir⟩, Node.dir)]
  ++ (if s.csvRules then
        [(⟨.top, .settings⟩, Node.file [.orig (u .settings) (settingsMeta .plain false)]),
         (⟨.top, .csv⟩, .file [.orig (u .csv) { kind := .csvRules }])]
      else
        [(⟨.top, .settings⟩, Node.file [.orig (u .settings) (settingsMeta .keyRules false)]),
         (⟨.top, .rules⟩, .file [.orig (u .rules) { kind := .rulesFile }])])
  ++ (if s.schema then [(⟨.top, .schema⟩, Node.file [.starter .schema])] else [])
  ++ (if s.data then [(⟨.top, .dataDir⟩, Node.dir), (⟨.top, .stmt⟩, .file [.orig (u .stmt) { kind := .data }])] else [])
  ++ (if s.output then [(⟨.top, .outputDir⟩, Node.dir), (⟨.top, .report⟩, .file [.orig (u .report) { kind := .other }])] else [])
  ++ (if s.tallyDir then [(⟨.top, .tallyDir⟩, Node.dir)] else [])

def allPartials : List Partial := [.empty, .half, .full]

/-! ## the safety predicate of C15 -/

section Safe
variable [DecidableEq κ]

/-- every file of `fs₀` is still somewhere with its content (settings.yaml may have gained lines) -/
def preserved (fs₀ fs : FS κ) : Bool :=
  fs₀.all fun e =>
    match e.2 with
    | .dir => true
    | .file c =>
      fs.any fun e' =>
        match e'.2 with
        | .dir => false
        | .file c' => decide (c' = c) || (decide (e.1.rel = .settings) && decide (e'.1.rel = .settings) && c.isPrefixOf c')

def Eff.equiv (a b : Eff κ) : Bool := a.rules.equiv b.rules && decide (a.data = b.data)

/-- "classifying with an empty rule set while the user's rules still exist on disk" -/
def stranded (fs : FS κ) : Bool := (effective fs).rules.isEmpty && rulesOnDisk fs

/-- `Safe fs₀ fs` for the command `p`: nothing lost; classifies as before, now or after re-running `p`;
    not stranded.  The last two clauses are about budgets that classified with the user's rules before. -/
def safeB (v : Variants) (p : Prog) (fs₀ fs : FS κ) : Bool :=
  preserved fs₀ fs &&
  (!(effective fs₀).rules.usable ||
    (((effective fs₀).equiv (effective fs) || (effective fs₀).equiv (effective (rerun v p fs)))
     && !stranded fs))

/-- the run in which the fault happened either stopped or used the user's rules -/
def runOk (fs₀ fs : FS κ) (o : RunOut κ) : Bool :=
  !(effective fs₀).rules.usable ||
  (match o with
   | .error => true
   | .used r => (effective fs₀).rules.equiv r && !(r.isEmpty && rulesOnDisk fs))

end Safe

def Safe [DecidableEq κ] (v : Variants) (p : Prog) (fs₀ fs : FS κ) : Prop := safeB v p fs₀ fs = true

def SafeRun [DecidableEq κ] (v : Variants) (p : Prog) (fs₀ : FS κ) (r : FS κ × RunOut κ) : Prop :=
  safeB v p fs₀ r.1 = true ∧ (p = .upMigrate → runOk fs₀ r.1 r.2 = true)

instance [DecidableEq κ] (v : Variants) (p : Prog) (fs₀ fs : FS κ) : Decidable (Safe v p fs₀ fs) := by
  unfold Safe; infer_instance

instance [DecidableEq κ] (v : Variants) (p : Prog) (fs₀ : FS κ) (r : FS κ × RunOut κ) :
    Decidable (SafeRun v p fs₀ r) := by
  unfold SafeRun; infer_instance

/-! ## call-order signatures (tie to `Gen/FsSteps.lean`, extracted from the source by `fs_steps.py`) -/

/-- the path expressions that occur as arguments of file-system calls in the migration functions -/
inductive Target
  | rules | rulesTmp | rulesBakFresh | csv | csvBakFixed | csvBakFresh | settings | views | gitignore
  | configDir | dataDir | outputDir | tallyDir | oldConfig | newConfig | subdirOld | subdirNew | schema
  deriving DecidableEq, Repr, Inhabited

inductive Fn | migrateCsv | initConfig
  deriving DecidableEq, Repr, Inhabited

inductive FsCall
  | openW (t : Target) | openA (t : Target) | move (a b : Target) | replace (a b : Target)
  | makedirs (t : Target) | call (f : Fn)
  /-- `for subdir in ['data', 'output']:` around the calls that follow, up to `endLoop` -/
  | loopDataOutput | endLoop
  deriving DecidableEq, Repr, Inhabited

def CsvVariant.calls (v : CsvVariant) : List FsCall :=
  (if v.fresh then [.move .rules .rulesBakFresh] else []) ++
  (if v.reorder then [.openW .rulesTmp, .replace .rulesTmp .rules, .openA .settings] else [.openW .rules]) ++
  [.move .csv (if v.fresh then .csvBakFresh else .csvBakFixed)] ++
  (if v.reorder then [] else [.openA .settings])

def LayoutVariant.calls : LayoutVariant → List FsCall
  | .impl => [.makedirs .tallyDir, .move .oldConfig .newConfig, .loopDataOutput, .move .subdirOld .subdirNew, .endLoop,
              .openW .schema]
  | .configLast => [.makedirs .tallyDir, .loopDataOutput, .move .subdirOld .subdirNew, .endLoop,
                    .move .oldConfig .newConfig, .openW .schema]

def initConfigCalls : List FsCall :=
  [.makedirs .configDir, .makedirs .dataDir, .makedirs .outputDir,
   .openW .settings, .openW .rules, .openW .views, .openW .gitignore]

def cmdInitCalls : List FsCall := [.call .migrateCsv, .call .initConfig, .openA .settings]

def allCsvVariants : List CsvVariant :=
  bools.flatMap fun a => bools.flatMap fun b => bools.map fun c => ⟨a, b, c⟩

/-- which modelled variant has this call order (`mentionTest`: the code tests the *text* `'merchants_file:' in content`) -/
def detectCsv (calls : List FsCall) (mentionTest : Bool) : Option CsvVariant :=
  allCsvVariants.find? fun v => decide (v.calls = calls) && (v.keyCheck != mentionTest)

def detectLayout (calls : List FsCall) : Option LayoutVariant :=
  [LayoutVariant.impl, .configLast].find? fun v => decide (v.calls = calls)

/-- the model's own trace, projected to the calls a signature lists -/
def Ev.toCall (loc : Loc) : Ev κ → Option FsCall
  | .openW p => if p.rel = .rules then some (.openW .rules) else if p.rel = .rulesTmp then some (.openW .rulesTmp)
                else if p.rel = .schema then some (.openW .schema) else if p.rel = .settings then some (.openW .settings)
                else if p.rel = .views then some (.openW .views) else if p.rel = .gitignore then some (.openW .gitignore)
                else Option.none
  | .openA p => if p = ⟨loc, .settings⟩ then some (.openA .settings) else Option.none
  | .move a b =>
    if a.rel = .csv then some (.move .csv (if b.rel = .csvBak then .csvBakFixed else .csvBakFresh))
    else if a.rel = .rules then some (.move .rules .rulesBakFresh) else Option.none
  | .replace _ _ => some (.replace .rulesTmp .rules)
  | .mkdir p => if p.rel = .tallyDir then some (.makedirs .tallyDir) else if p.rel = .configDir then some (.makedirs .configDir)
                else if p.rel = .dataDir then some (.makedirs .dataDir) else if p.rel = .outputDir then some (.makedirs .outputDir)
                else Option.none
  | .moveDir d => if d = .configDir then some (.move .oldConfig .newConfig) else some (.move .subdirOld .subdirNew)
  | _ => Option.none

/-- unfold `for subdir in ['data', 'output']` (two iterations) in a call signature -/
def expandLoops : List FsCall → Option (List FsCall) → List FsCall
  | [], _ => []
  | .loopDataOutput :: rest, _ => expandLoops rest (some [])
  | .endLoop :: rest, some body => body ++ body ++ expandLoops rest Option.none
  | .endLoop :: rest, Option.none => expandLoops rest Option.none
  | c :: rest, some body => expandLoops rest (some (body ++ [c]))
  | c :: rest, Option.none => c :: expandLoops rest Option.none

def traceCalls (m : M κ) : List FsCall := m.evs.filterMap fun e => e.1.toCall .top

/-! ## exhaustive checks (evaluated by `decide +kernel` in `Lemmas/Fs*.lean`) -/

/-- the free content assignment: every user file holds its own distinct opaque symbol -/
abbrev Sym := Rel

def crashCheck (v : Variants) (p : Prog) (fs₀ : FS Sym) : Bool :=
  (⟨(complete v p fs₀).fs, none⟩ :: snapshots v p fs₀).all fun s =>
    match s.fl with
    | none => safeB v p fs₀ s.fs
    | some _ => allPartials.all fun part => safeB v p fs₀ (materialize part s)

def faultCheck (v : Variants) (p : Prog) (fs₀ : FS Sym) : Bool :=
  (List.range (numEvents v p fs₀)).all fun k =>
    let r := faultAt v p fs₀ k
    safeB v p fs₀ r.1 && (p != .upMigrate || runOk fs₀ r.1 r.2)

end TallyVerif.Fs
