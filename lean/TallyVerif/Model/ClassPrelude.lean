/-
Prelude shared by the two *generated* classification models
(`Gen/ClassPy.lean` from `src/tally/classification.py`, `Gen/ClassJs.lean` from the
TRANSACTION CLASSIFICATION block of `src/tally/spending_report.js`).
Core Lean only.
-/
namespace TallyVerif

/-- The only operations either program applies to an amount.  A theorem stated for every
`NumLike` holds for IEEE doubles (NaN, -0.0 included), for exact cents, for anything. -/
structure NumLike where
  α : Type
  zero : α
  gt : α → α → Bool
  lt : α → α → Bool
  ge : α → α → Bool
  le : α → α → Bool
  abs : α → α
  neg : α → α
  add : α → α → α
  sub : α → α → α

/-- The six buckets of `categorize_amount` / `categorizeAmount` (keys canonicalised:
`transferIn ↦ transfer_in`, `transferOut ↦ transfer_out`). -/
structure Buckets (α : Type) where
  income : α
  investment : α
  transfer_in : α
  transfer_out : α
  spending : α
  credits : α
deriving Repr, DecidableEq

/-- `tags or []` (Python) / `tags || []` (JavaScript): a missing tag list is the empty one. -/
def orEmpty : Option (List String) → List String
  | none => []
  | some l => l

/-- `a & b` on sets represented as lists (membership is all that is ever observed). -/
def setInter (a b : List String) : List String := a.filter (fun x => b.contains x)

/-- `bool(s)` of a set. -/
def setNonempty (s : List String) : Bool := !s.isEmpty

/-- `for (const x of xs) { … return e … } rest`: the first early return wins, otherwise the
continuation `k`. -/
def forFirst {α β : Type} (xs : List α) (f : α → Option β) (k : β) : β :=
  match xs.findSome? f with
  | some r => r
  | none => k

/-- The hypothesis about the two languages' OWN lower-casing functions under which the two
classification programs agree (C13): for each special word, a tag of the list lower-cases to it
under `lowerJs` (JavaScript `toLowerCase`) exactly when one does under `lowerPy` (Python
`str.lower`).  Weaker than `∀ t, lowerJs t = lowerPy t`, which is false for the real pair on letters
outside the older of the two runtimes' Unicode versions.  Evaluated by the driver on the recorded
images of every generated tag list. -/
def specialAgree (lowerJs lowerPy : String → String) (tags : Option (List String)) : Bool :=
  ["income", "transfer", "investment"].all fun w =>
    ((orEmpty tags).map lowerJs).contains w == ((orEmpty tags).map lowerPy).contains w

end TallyVerif
