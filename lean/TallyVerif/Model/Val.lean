/-!
M-Val — the values of the rule-expression language and CPython's operator semantics on them.

Everything here is the *Python side* of the trusted base made explicit: how `+ - * / %`, `==`,
`<`, `in`, truthiness, `str()`, `len()` behave on the value kinds the language can build,
including WHICH exception an ill-typed application raises.  It is tied to CPython by the
exhaustive operator×type table check (harness/props/c08.py) on every run.
Core Lean only.  Floats are carried as IEEE bit patterns (`UInt64`) so that values have decidable
equality; arithmetic goes through `Float.ofBits`/`toBits` (bit-exact with CPython for + − × ÷, <).
-/
namespace TallyVerif.Py

/-! ### dates (proleptic Gregorian, as `datetime.date`) -/

structure Date where
  y : Nat
  m : Nat
  d : Nat
deriving DecidableEq, Repr

def isLeap (y : Nat) : Bool := (y % 4 == 0 && y % 100 != 0) || y % 400 == 0

def daysInMonth (y m : Nat) : Nat :=
  match m with
  | 1 => 31 | 2 => if isLeap y then 29 else 28 | 3 => 31 | 4 => 30 | 5 => 31 | 6 => 30
  | 7 => 31 | 8 => 31 | 9 => 30 | 10 => 31 | 11 => 30 | 12 => 31 | _ => 0

def Date.valid (dt : Date) : Bool :=
  1 ≤ dt.y && dt.y ≤ 9999 && 1 ≤ dt.m && dt.m ≤ 12 && 1 ≤ dt.d && dt.d ≤ daysInMonth dt.y dt.m

/-- days before January 1st of year `y` (y ≥ 1) -/
def daysBeforeYear (y : Nat) : Nat :=
  let y' := y - 1
  y' * 365 + y' / 4 - y' / 100 + y' / 400

def daysBeforeMonth (y m : Nat) : Nat :=
  ((List.range (m - 1)).map (fun i => daysInMonth y (i + 1))).foldl (· + ·) 0

/-- `date.toordinal()`: 0001-01-01 is day 1 -/
def Date.ordinal (dt : Date) : Nat := daysBeforeYear dt.y + daysBeforeMonth dt.y dt.m + dt.d

/-- `date.weekday()`: Monday = 0 … Sunday = 6 -/
def Date.weekday (dt : Date) : Nat := (dt.ordinal + 6) % 7

def Date.lt (a b : Date) : Bool :=
  a.y < b.y || (a.y == b.y && (a.m < b.m || (a.m == b.m && a.d < b.d)))

/-- `date.fromordinal` by search over years/months (fuel-bounded, total) -/
def ofOrdinal (n : Nat) : Option Date :=
  if n < 1 then none else
  -- estimate the year, then adjust
  let y0 := n / 366 + 1
  let rec findYear (fuel y : Nat) : Nat :=
    match fuel with
    | 0 => y
    | fuel + 1 => if daysBeforeYear (y + 1) < n then findYear fuel (y + 1) else y
  let y := findYear 40 y0
  let rest := n - daysBeforeYear y
  let rec findMonth (fuel m rest : Nat) : Nat × Nat :=
    match fuel with
    | 0 => (m, rest)
    | fuel + 1 => if rest > daysInMonth y m then findMonth fuel (m + 1) (rest - daysInMonth y m) else (m, rest)
  let (m, d) := findMonth 12 1 rest
  let dt : Date := ⟨y, m, d⟩
  if dt.valid then some dt else none

def pad (w : Nat) (n : Nat) : String :=
  let s := toString n
  String.ofList (List.replicate (w - s.length) '0') ++ s

def Date.iso (dt : Date) : String := pad 4 dt.y ++ "-" ++ pad 2 dt.m ++ "-" ++ pad 2 dt.d

/-! ### values -/

inductive Val
  | none
  | bool (b : Bool)
  | int (i : Int)
  | flt (bits : UInt64)
  | str (s : String)
  | date (d : Date)
  | tdelta (days : Int)                       -- timedelta, whole days (only date − date builds one)
  | list (xs : List Val)
  | row (kvs : List (String × Val))           -- dict row of a supplemental source
  | gen (xs : List Val)                       -- a generator object that escaped (contents eager)
  | other (kind : String)                     -- bytes / complex / Ellipsis constants
deriving Repr

/-- Python exception classes that can come out of evaluating an expression -/
inductive PyExc
  | typeError | attributeError | valueError | keyError | indexError | zeroDivision | stopIteration
  | overflowError | reError | runtimeError
deriving DecidableEq, Repr

inductive Err
  | expr (tag : String)            -- tally's ExpressionError (the only class call sites catch, before D8's repair)
  | py (cls : PyExc)               -- any other Python exception
  | unmodelled (why : String)      -- the model does not cover this (filtered and counted by the harness)
deriving DecidableEq, Repr

def PyExc.name : PyExc → String
  | .typeError => "TypeError" | .attributeError => "AttributeError" | .valueError => "ValueError"
  | .keyError => "KeyError" | .indexError => "IndexError" | .zeroDivision => "ZeroDivisionError"
  | .stopIteration => "StopIteration" | .overflowError => "OverflowError" | .reError => "error"
  | .runtimeError => "RuntimeError"

def F (bits : UInt64) : Float := Float.ofBits bits
def B (f : Float) : UInt64 := f.toBits

def Val.typeName : Val → String
  | .none => "NoneType" | .bool _ => "bool" | .int _ => "int" | .flt _ => "float" | .str _ => "str"
  | .date _ => "date" | .tdelta _ => "timedelta" | .list _ => "list" | .row _ => "dict"
  | .gen _ => "generator" | .other k => k

/-- `bool(v)` -/
def truthy : Val → Bool
  | .none => false
  | .bool b => b
  | .int i => i != 0
  | .flt b => !(F b == 0.0)
  | .str s => !s.isEmpty
  | .date _ => true
  | .tdelta d => d != 0
  | .list xs => !xs.isEmpty
  | .row kvs => !kvs.isEmpty
  | .gen _ => true
  | .other _ => true

/-- numeric view: bool is an int -/
inductive Number | i (n : Int) | f (bits : UInt64)

def asNumber : Val → Option Number
  | .bool b => some (.i (if b then 1 else 0))
  | .int n => some (.i n)
  | .flt b => some (.f b)
  | _ => Option.none

/-- int → float as CPython does for mixed arithmetic (exact for |n| < 2^53; the harness keeps ints there) -/
def intToFloat (n : Int) : Float :=
  if n ≥ 0 then Float.ofNat n.toNat else -(Float.ofNat (-n).toNat)

def numToFloat : Number → Float
  | .i n => intToFloat n
  | .f b => F b

def intsTooBig (a b : Int) : Bool := a.natAbs ≥ 2 ^ 53 || b.natAbs ≥ 2 ^ 53

/-- Python `==` on numbers -/
def numEq (a b : Number) : Bool :=
  match a, b with
  | .i x, .i y => x == y
  | x, y => numToFloat x == numToFloat y

def numEqV (a : Number) (b : Val) : Bool :=
  match asNumber b with
  | some y => numEq a y
  | Option.none => false

def numLt (a b : Number) : Bool :=
  match a, b with
  | .i x, .i y => x < y
  | x, y => numToFloat x < numToFloat y

def numLe (a b : Number) : Bool :=
  match a, b with
  | .i x, .i y => x ≤ y
  | x, y => numToFloat x ≤ numToFloat y

mutual
/-- Python `==` (structural; strings case-SENSITIVE here — the evaluator lower-cases str/str itself) -/
def pyEq : Val → Val → Bool
  | .none, b => (match b with | .none => true | _ => false)
  | .str a, b => (match b with | .str y => a == y | _ => false)
  | .date a, b => (match b with | .date y => a == y | _ => false)
  | .tdelta a, b => (match b with | .tdelta y => a == y | _ => false)
  | .list xs, b => (match b with | .list ys => listEq xs ys | _ => false)
  | .row a, b => (match b with | .row y => a.length == y.length && rowSubset a y | _ => false)
  | .other a, b => (match b with | .other y => a == y | _ => false)
  | .gen _, _ => false                         -- generator objects compare by identity
  | .bool x, b => numEqV (.i (if x then 1 else 0)) b
  | .int x, b => numEqV (.i x) b
  | .flt x, b => numEqV (.f x) b
def listEq : List Val → List Val → Bool
  | [], ys => ys.isEmpty
  | x :: xs, ys => (match ys with | y :: ys' => pyEq x y && listEq xs ys' | [] => false)
def rowSubset : List (String × Val) → List (String × Val) → Bool
  | [], _ => true
  | (k, v) :: rest, other =>
    (match other.lookup k with
     | some w => pyEq v w
     | Option.none => false) && rowSubset rest other
end

/-- can the value be a dict key / set member / regex-cache key? -/
def hashable : Val → Bool
  | .list _ => false
  | .row _ => false
  | _ => true

/-- ordering of two scalars: `some true` if a < b, `none` = TypeError -/
def scalarLt (a b : Val) : Option Bool :=
  match a, b with
  | .str x, .str y => some (x < y)
  | .date x, .date y => some (x.lt y)
  | .tdelta x, .tdelta y => some (x < y)
  | _, _ =>
    match asNumber a, asNumber b with
    | some x, some y => some (numLt x y)
    | _, _ => Option.none

mutual
/-- Python `<` ; `none` = TypeError.  Lists compare lexicographically: the first pair of elements that
are not `==` decides (and must itself be orderable); otherwise the shorter list is smaller. -/
def pyLt : Val → Val → Option Bool
  | .list xs, b => (match b with | .list ys => listLt xs ys | _ => Option.none)
  | a, b => (match b with | .list _ => Option.none | _ => scalarLt a b)
def listLt : List Val → List Val → Option Bool
  | [], ys => some (!ys.isEmpty)
  | x :: xs, ys =>
    (match ys with
     | [] => some false
     | y :: ys' => if pyEq x y then listLt xs ys' else pyLt x y)
end

/-- Python `<=` -/
def pyLe (a b : Val) : Option Bool :=
  match a, b with
  | .list _, .list _ =>
    -- `a <= b` on lists: lexicographic; equal lists are `<=`
    (match pyLt a b with
     | some true => some true
     | some false => (match pyLt b a with
        | some true => some false
        | some false => some true      -- neither smaller: equal up to `==`… or unordered NaN-like elements (outside the model)
        | Option.none => Option.none)
     | Option.none => Option.none)
  | .str x, .str y => some (x ≤ y)
  | .date x, .date y => some (x.lt y || x == y)
  | .tdelta x, .tdelta y => some (x ≤ y)
  | _, _ =>
    match asNumber a, asNumber b with
    | some x, some y => some (numLe x y)
    | _, _ => Option.none

/-- Python float `%` (result has the sign of the divisor) -/
def floatMod (a b : Float) : Float :=
  -- C fmod is not in core; emulate with floor division on the magnitudes the harness generates
  let q := Float.floor (a / b)
  let r := a - q * b
  if r != 0.0 && ((r < 0.0) != (b < 0.0)) then r + b else r

def intMod (a b : Int) : Int := a.emod b + (if b < 0 && a.emod b != 0 then b else 0)

inductive BinOp | add | sub | mul | div | mod
deriving DecidableEq, Repr

def repeatList (xs : List Val) : Nat → List Val
  | 0 => []
  | n + 1 => xs ++ repeatList xs n

def repeatStr (s : String) : Nat → String
  | 0 => ""
  | n + 1 => s ++ repeatStr s n

/-- timedelta range check (|days| ≤ 999999999) -/
def tdOk (d : Int) : Except Err Val := if d.natAbs > 999999999 then .error (.py .overflowError) else .ok (.tdelta d)

/-- `left <op> right` for the three operators the evaluator passes straight to Python -/
def pyArith (op : BinOp) (a b : Val) : Except Err Val :=
  match op with
  | .add =>
    match a, b with
    | .str x, .str y => .ok (.str (x ++ y))
    | .list x, .list y => .ok (.list (x ++ y))
    | .date d, .tdelta n | .tdelta n, .date d =>
      let o : Int := d.ordinal + n
      if o < 1 then .error (.py .overflowError) else
      match ofOrdinal o.toNat with
      | some d' => .ok (.date d')
      | Option.none => .error (.py .overflowError)
    | .tdelta x, .tdelta y => tdOk (x + y)
    | _, _ =>
      match asNumber a, asNumber b with
      | some (.i x), some (.i y) => .ok (.int (x + y))
      | some x, some y =>
        (match x, y with
         | .i n, _ | _, .i n => if n.natAbs ≥ 2 ^ 53 then .error (.unmodelled "big int with float") else
            .ok (.flt (B (numToFloat x + numToFloat y)))
         | _, _ => .ok (.flt (B (numToFloat x + numToFloat y))))
      | _, _ => .error (.py .typeError)
  | .sub =>
    match a, b with
    | .date x, .date y => .ok (.tdelta ((x.ordinal : Int) - y.ordinal))
    | .date d, .tdelta n =>
      let o : Int := d.ordinal - n
      if o < 1 then .error (.py .overflowError) else
      match ofOrdinal o.toNat with
      | some d' => .ok (.date d')
      | Option.none => .error (.py .overflowError)
    | .tdelta x, .tdelta y => tdOk (x - y)
    | _, _ =>
      match asNumber a, asNumber b with
      | some (.i x), some (.i y) => .ok (.int (x - y))
      | some x, some y =>
        (match x, y with
         | .i n, _ | _, .i n => if n.natAbs ≥ 2 ^ 53 then .error (.unmodelled "big int with float") else
            .ok (.flt (B (numToFloat x - numToFloat y)))
         | _, _ => .ok (.flt (B (numToFloat x - numToFloat y))))
      | _, _ => .error (.py .typeError)
  | .mul =>
    match a, b with
    | .str s, n | n, .str s =>
      (match n with
       | .int k => if k > 100000 then .error (.unmodelled "huge repetition") else .ok (.str (repeatStr s k.toNat))
       | .bool k => .ok (.str (if k then s else ""))
       | _ => .error (.py .typeError))
    | .list xs, n | n, .list xs =>
      (match n with
       | .int k => if k > 100000 then .error (.unmodelled "huge repetition") else .ok (.list (repeatList xs k.toNat))
       | .bool k => .ok (.list (if k then xs else []))
       | _ => .error (.py .typeError))
    | .tdelta d, n | n, .tdelta d =>
      (match n with
       | .int k => tdOk (d * k)
       | .bool k => .ok (.tdelta (if k then d else 0))
       | .flt _ => .error (.unmodelled "timedelta * float")
       | _ => .error (.py .typeError))
    | _, _ =>
      match asNumber a, asNumber b with
      | some (.i x), some (.i y) => .ok (.int (x * y))
      | some x, some y =>
        (match x, y with
         | .i n, _ | _, .i n => if n.natAbs ≥ 2 ^ 53 then .error (.unmodelled "big int with float") else
            .ok (.flt (B (numToFloat x * numToFloat y)))
         | _, _ => .ok (.flt (B (numToFloat x * numToFloat y))))
      | _, _ => .error (.py .typeError)
  | .div =>
    match a, b with
    | .tdelta _, _ | _, .tdelta _ => .error (.unmodelled "timedelta division")
    | _, _ =>
      match asNumber a, asNumber b with
      | some x, some y =>
        (match x, y with
         | .i n, .i k => if intsTooBig n k then .error (.unmodelled "big int division") else
            .ok (.flt (B (intToFloat n / intToFloat k)))
         | .i n, _ | _, .i n => if n.natAbs ≥ 2 ^ 53 then .error (.unmodelled "big int with float") else
            .ok (.flt (B (numToFloat x / numToFloat y)))
         | _, _ => .ok (.flt (B (numToFloat x / numToFloat y))))
      | _, _ => .error (.py .typeError)
  | .mod =>
    match a, b with
    | .str _, _ => .error (.unmodelled "%-formatting")
    | .tdelta _, _ | _, .tdelta _ => .error (.unmodelled "timedelta modulo")
    | _, _ =>
      match asNumber a, asNumber b with
      | some (.i x), some (.i y) => .ok (.int (intMod x y))
      | some x, some y =>
        (match x, y with
         | .i n, _ | _, .i n => if n.natAbs ≥ 2 ^ 53 then .error (.unmodelled "big int with float") else
            .error (.unmodelled "float-mod")        -- float `%` goes through the `fmod` oracle (see Expr.eval)
         | _, _ => .error (.unmodelled "float-mod"))
      | _, _ => .error (.py .typeError)

/-- `right == 0` as the evaluator tests it before `/` and `%` (Python equality with the int 0) -/
def isZero (v : Val) : Bool :=
  match asNumber v with
  | some n => numEq n (.i 0)
  | Option.none => false

/-- unary minus -/
def pyNeg : Val → Except Err Val
  | .int i => .ok (.int (-i))
  | .bool b => .ok (.int (if b then -1 else 0))
  | .flt b => .ok (.flt (B (-(F b))))
  | .tdelta d => .ok (.tdelta (-d))
  | _ => .error (.py .typeError)

/-! ### strings -/

def isAsciiStr (s : String) : Bool := s.toList.all (fun c => c.toNat < 128)

def upperAscii (s : String) : String := s.map Char.toUpper
def lowerAscii (s : String) : String := s.map Char.toLower

/-- Python's `str.isspace` code points (what `str.strip()` removes and `\s` matches) -/
def isPySpace (c : Char) : Bool :=
  let n := c.toNat
  (9 ≤ n && n ≤ 13) || (28 ≤ n && n ≤ 32) || n == 0x85 || n == 0xa0 || n == 0x1680 ||
  (0x2000 ≤ n && n ≤ 0x200a) || n == 0x2028 || n == 0x2029 || n == 0x202f || n == 0x205f || n == 0x3000

def stripL (l : List Char) : List Char := l.dropWhile isPySpace
def pyStrip (s : String) : String := String.ofList (stripL (stripL s.toList).reverse).reverse

def isPrefixL : List Char → List Char → Bool
  | [], _ => true
  | _ :: _, [] => false
  | p :: ps, c :: cs => p == c && isPrefixL ps cs

def containsL (sub : List Char) : List Char → Bool
  | [] => sub.isEmpty
  | c :: cs => isPrefixL sub (c :: cs) || containsL sub cs

def strContains (sub s : String) : Bool := containsL sub.toList s.toList
def strStartsWith (s p : String) : Bool := isPrefixL p.toList s.toList
def strEndsWith (s p : String) : Bool := isPrefixL p.toList.reverse s.toList.reverse

/-- `s.replace(a, b)` -/
def replaceL (a b : List Char) (fuel : Nat) : List Char → List Char
  | [] => if a.isEmpty then b else []
  | c :: cs =>
    match fuel with
    | 0 => c :: cs
    | fuel + 1 =>
      if a.isEmpty then b ++ [c] ++ replaceL a b fuel cs
      else if isPrefixL a (c :: cs) then b ++ replaceL a b fuel ((c :: cs).drop a.length)
      else c :: replaceL a b fuel cs

def strReplace (s a b : String) : String := String.ofList (replaceL a.toList b.toList (s.length + 1) s.toList)

/-- `s.split(sep)` for a non-empty separator -/
def splitL (sep : List Char) (fuel : Nat) (cur : List Char) : List Char → List (List Char)
  | [] => [cur.reverse]
  | c :: cs =>
    match fuel with
    | 0 => [cur.reverse ++ (c :: cs)]
    | fuel + 1 =>
      if isPrefixL sep (c :: cs) then cur.reverse :: splitL sep fuel [] ((c :: cs).drop sep.length)
      else splitL sep fuel (c :: cur) cs

def strSplit (s sep : String) : List String := (splitL sep.toList (s.length + 1) [] s.toList).map String.ofList

/-- `s.split()` (None separator): runs of whitespace, no empty strings -/
def splitWs (cur : List Char) : List Char → List (List Char)
  | [] => if cur.isEmpty then [] else [cur.reverse]
  | c :: cs =>
    if isPySpace c then (if cur.isEmpty then splitWs [] cs else cur.reverse :: splitWs [] cs)
    else splitWs (c :: cur) cs

/-- Python slice `s[start:end]` on a list -/
def pySlice {α : Type} (l : List α) (start stop : Int) : List α :=
  let n : Int := l.length
  let norm (i : Int) : Nat := (if i < 0 then max 0 (i + n) else min i n).toNat
  let a := norm start
  let b := norm stop
  (l.drop a).take (b - a)

/-- Python index `l[i]` -/
def pyIndex {α : Type} (l : List α) (i : Int) : Option α :=
  let n : Int := l.length
  let j := if i < 0 then i + n else i
  if j < 0 || j ≥ n then Option.none else l[j.toNat]?

/-- `[\s\-'.*]+` removed (the `normalize` helper of `normalized()`), after upper-casing -/
def normalizeChars (s : String) : String :=
  String.ofList (s.toList.filter (fun c => !(isPySpace c || c == '-' || c == '\'' || c == '.' || c == '*')))

end TallyVerif.Py
