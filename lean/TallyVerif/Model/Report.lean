/-!
# Report — model of the text-level pipeline that embeds the analysed data in the HTML report (C12)

Everything is over `List Char` (a Python `str` whose code points are Unicode *scalar values*; lone
surrogates are outside the model, see notes/C12_notes.md).  Core Lean only, total functions.

Mirrors (src/tally/report.py, CPython json):
* `jsonEncodeStr`   — `json.dumps(s)` for a `str` with `ensure_ascii=True` (py_encode_basestring_ascii)
* `jsonDecodeStr`   — `json.loads` on a JSON string literal (scanstring, strict)
* `scriptDataEnds`  — does an HTML tokenizer in the script-data state see an end tag `</script` + (ws | '/' | '>')
* `embedUnrepaired` / `embedRepaired` — what report.py does to `json.dumps(spending_data)` before splicing
* `makeMerchantId`  — `name.replace("'", "").replace('"', '').replace(' ', '_')`
* `replaceAll`      — `str.replace(pat, rep)` (non-empty `pat`), `splice` — the chain of `.replace` calls
* `categoryViewSums`— the per-category accumulation of `build_category_view`
-/
namespace TallyVerif.Report

/-! ## hexadecimal -/

def hexDigit (d : Nat) : Char :=
  if d < 10 then Char.ofNat (48 + d) else Char.ofNat (87 + d)

/-- value of a hex digit as accepted by the JSON decoder (`0-9a-fA-F`) -/
def hexVal (c : Char) : Option Nat :=
  let n := c.toNat
  if 48 ≤ n ∧ n ≤ 57 then some (n - 48)
  else if 97 ≤ n ∧ n ≤ 102 then some (n - 87)
  else if 65 ≤ n ∧ n ≤ 70 then some (n - 55)
  else none

/-- `'{0:04x}'.format(n)` for `n < 65536` -/
def hex4 (n : Nat) : List Char :=
  [hexDigit (n / 4096 % 16), hexDigit (n / 256 % 16), hexDigit (n / 16 % 16), hexDigit (n % 16)]

def parseHex4 : List Char → Option (Nat × List Char)
  | a :: b :: c :: d :: rest =>
    match hexVal a, hexVal b, hexVal c, hexVal d with
    | some va, some vb, some vc, some vd => some (va * 4096 + vb * 256 + vc * 16 + vd, rest)
    | _, _, _, _ => none
  | _ => none

/-! ## json.dumps on a string (ensure_ascii=True) -/

/-- ESCAPE_ASCII = `([\\"]|[^\ -~])`; ESCAPE_DCT; otherwise `\uXXXX` / surrogate pair -/
def escChar (c : Char) : List Char :=
  if c = '"' then ['\\', '"']
  else if c = '\\' then ['\\', '\\']
  else if c = '\n' then ['\\', 'n']
  else if c = '\r' then ['\\', 'r']
  else if c = '\t' then ['\\', 't']
  else if c = '\x08' then ['\\', 'b']
  else if c = '\x0c' then ['\\', 'f']
  else if 32 ≤ c.toNat ∧ c.toNat ≤ 126 then [c]
  else if c.toNat < 65536 then '\\' :: 'u' :: hex4 c.toNat
  else
    let v := c.toNat - 65536
    ('\\' :: 'u' :: hex4 (55296 + v / 1024)) ++ ('\\' :: 'u' :: hex4 (56320 + v % 1024))

def encBody (s : List Char) : List Char := s.flatMap escChar

def jsonEncodeStr (s : List Char) : List Char := '"' :: (encBody s ++ ['"'])

/-! ## json.loads on a string literal -/

/-- BACKSLASH table of json.decoder -/
def simpleEsc (e : Char) : Option Char :=
  if e = '"' then some '"' else if e = '\\' then some '\\' else if e = '/' then some '/'
  else if e = 'b' then some '\x08' else if e = 'f' then some '\x0c' else if e = 'n' then some '\n'
  else if e = 'r' then some '\r' else if e = 't' then some '\t' else none

/-- `\uXXXX` expected at the head (the low half of a surrogate pair) -/
def parseLow : List Char → Option (Nat × List Char)
  | b :: u :: rest =>
    if b = '\\' ∧ u = 'u' then
      match parseHex4 rest with
      | some (m, rest') => if 56320 ≤ m ∧ m ≤ 57343 then some (m, rest') else none
      | none => none
    else none
  | _ => none

/-- scanstring after the opening quote. `fuel` bounds the number of decoded characters (+1).
Result `none` = JSONDecodeError **or** a result that is not a list of scalar values (lone surrogate). -/
def decAux : Nat → List Char → Option (List Char)
  | 0, _ => none
  | fuel + 1, input =>
    match input with
    | [] => none
    | c :: rest =>
      if c = '"' then (if rest.isEmpty then some [] else none)
      else if c = '\\' then
        match rest with
        | [] => none
        | e :: rest2 =>
          if e = 'u' then
            match parseHex4 rest2 with
            | none => none
            | some (n, rest3) =>
              if 55296 ≤ n ∧ n ≤ 56319 then
                match parseLow rest3 with
                | some (m, rest4) =>
                  (decAux fuel rest4).map (Char.ofNat (65536 + ((n - 55296) * 1024 + (m - 56320))) :: ·)
                | none => none
              else if 56320 ≤ n ∧ n ≤ 57343 then none
              else (decAux fuel rest3).map (Char.ofNat n :: ·)
          else
            match simpleEsc e with
            | some ch => (decAux fuel rest2).map (ch :: ·)
            | none => none
      else if c.toNat < 32 then none
      else (decAux fuel rest).map (c :: ·)

def jsonDecodeStr : List Char → Option (List Char)
  | c :: rest => if c = '"' then decAux (rest.length + 1) rest else none
  | [] => none

/-! ## the HTML tokenizer's script-data end rule -/

def asciiLowerC (c : Char) : Char :=
  if 65 ≤ c.toNat ∧ c.toNat ≤ 90 then Char.ofNat (c.toNat + 32) else c

/-- characters that end a tag name: TAB LF FF CR SPACE '/' '>' -/
def isTagEnd (c : Char) : Bool :=
  c = '\t' || c = '\n' || c = '\x0c' || c = '\r' || c = ' ' || c = '/' || c = '>'

/-- `<`, `/`, the letters of `script` in either case, then a tag-name terminator -/
def endTagAt : List Char → Bool
  | a :: b :: s :: c :: r :: i :: p :: t :: e :: _ =>
    a = '<' && b = '/' && asciiLowerC s = 's' && asciiLowerC c = 'c' && asciiLowerC r = 'r' &&
    asciiLowerC i = 'i' && asciiLowerC p = 'p' && asciiLowerC t = 't' && isTagEnd e
  | _ => false

/-- would the text, put inside `<script>…</script>`, end the element early? -/
def scriptDataEnds : List Char → Bool
  | [] => false
  | c :: rest => endTagAt (c :: rest) || scriptDataEnds rest

/-! ## what report.py does to the JSON text before splicing it into the template -/

/-- unchanged tree: `f'window.spendingData = {json.dumps(spending_data)};'` — nothing -/
def embedUnrepaired (t : List Char) : List Char := t

def ltEscape : List Char := ['\\', 'u', '0', '0', '3', 'c']

/-- repaired (D12b): `.replace('<', '\\u003c')` -/
def embedRepaired (t : List Char) : List Char :=
  t.flatMap fun c => if c = '<' then ltEscape else [c]

/-! ## merchant ids -/

/-- `name.replace("'", "").replace('"', '').replace(' ', '_')` -/
def makeMerchantId (name : List Char) : List Char :=
  ((name.filter (· ≠ '\'')).filter (· ≠ '"')).map fun c => if c = ' ' then '_' else c

/-- the class on which `makeMerchantId` is the identity on distinguishing characters -/
def idSafe (name : List Char) : Bool :=
  name.all fun c => c ≠ '\'' && c ≠ '"' && c ≠ '_'

/-! ## unique merchant ids (the repaired allocation of `write_summary_file_vue`, D12c)

```
merchant_ids = {}
def make_merchant_id(name):
    if name not in merchant_ids:
        base = <makeMerchantId name>
        candidate, n = base, 1
        while candidate in merchant_ids.values():
            n += 1
            candidate = f"{base}_{n}"
        merchant_ids[name] = candidate
    return merchant_ids[name]
```
The table is an association list in insertion order. The `while` loop is a structural recursion on fuel;
`|merchant_ids|` iterations always suffice (`firstFree_not_mem`), so the fuel never runs out. -/

/-- the n-th candidate: `base` for n ≤ 1, `f"{base}_{n}"` (decimal, no padding) from 2 on -/
def idCandidate (base : List Char) (n : Nat) : List Char :=
  if n ≤ 1 then base else base ++ '_' :: Nat.toDigits 10 n

/-- the `while candidate in merchant_ids.values()` loop, standing at candidate number `n` -/
def firstFree (used : List (List Char)) (base : List Char) : Nat → Nat → List Char
  | 0, n => idCandidate base n
  | fuel + 1, n =>
    if idCandidate base n ∈ used then firstFree used base fuel (n + 1) else idCandidate base n

abbrev IdTable := List (List Char × List Char)

/-- one call `make_merchant_id(name)`: memoised on the NAME; a new name gets the first candidate that no other
name owns, whether that owner got it as its natural id or as a generated `_n` one -/
def allocOne (tbl : IdTable) (name : List Char) : IdTable :=
  if name ∈ tbl.map (·.1) then tbl
  else tbl ++ [(name, firstFree (tbl.map (·.2)) (makeMerchantId name) tbl.length 1)]

/-- the table after `make_merchant_id` has been called on `names` in that order (repeats allowed) -/
def allocIds (names : List (List Char)) : IdTable := names.foldl allocOne []

/-- `merchant_ids[name]` -/
def idOf (tbl : IdTable) (name : List Char) : Option (List Char) :=
  (tbl.find? (·.1 == name)).map (·.2)

/-! ## str.replace and the placeholder chain -/

/-- `hay.replace(pat, rep)` for non-empty `pat`: leftmost non-overlapping matches, the replacement is
never rescanned. `skip` = characters of the current match still to drop. -/
def replaceGo (pat rep : List Char) : List Char → Nat → List Char
  | [], _ => []
  | _ :: rest, skip + 1 => replaceGo pat rep rest skip
  | c :: rest, 0 =>
    if pat.isPrefixOf (c :: rest) then rep ++ replaceGo pat rep rest (pat.length - 1)
    else c :: replaceGo pat rep rest 0

def replaceAll (pat rep hay : List Char) : List Char :=
  if pat.isEmpty then hay else replaceGo pat rep hay 0

/-- index of the first occurrence of `pat` in `hay` -/
def findAt (pat : List Char) : List Char → Option Nat
  | [] => if pat.isEmpty then some 0 else none
  | c :: rest => if pat.isPrefixOf (c :: rest) then some 0 else (findAt pat rest).map (· + 1)

/-- `t.replace(p₁, r₁).replace(p₂, r₂)…` in list order -/
def splice (steps : List (List Char × List Char)) (template : List Char) : List Char :=
  steps.foldl (fun t (p, r) => replaceAll p r t) template

def cssPh : List Char := "/* CSS_PLACEHOLDER */".toList
def dataPh : List Char := "/* DATA_PLACEHOLDER */".toList
def jsPh : List Char := "/* JS_PLACEHOLDER */".toList

/-- the order on the unchanged tree: CSS, DATA, JS -/
def spliceUnrepaired (template css data js : List Char) : List Char :=
  splice [(cssPh, css), (dataPh, data), (jsPh, js)] template

/-- repaired order (D12d): CSS, JS, DATA -/
def spliceRepaired (template css data js : List Char) : List Char :=
  splice [(cssPh, css), (jsPh, js), (dataPh, data)] template

/-! ## category view sums (build_category_view) -/

/-- one merchant as the category view sees it: id, category, subcategory, ytd (cents), count -/
structure MRow where
  id : List Char
  cat : List Char
  sub : List Char
  ytd : Int
  count : Nat
deriving DecidableEq, Repr

/-- `all_merchants[merchant_id] = …` — a Python dict: a later equal key overwrites in place -/
def dictSet (d : List (List Char × MRow)) (k : List Char) (v : MRow) : List (List Char × MRow) :=
  match d with
  | [] => [(k, v)]
  | (k', v') :: rest => if k' = k then (k', v) :: rest else (k', v') :: dictSet rest k v

def allMerchants (rows : List MRow) : List (List Char × MRow) :=
  rows.foldl (fun d r => dictSet d r.id r) []

/-- Σ ytd over the merchants that reached the category view -/
def categoryViewTotal (rows : List MRow) : Int :=
  ((allMerchants rows).map (·.2.ytd)).sum

def categoryViewCount (rows : List MRow) : Nat :=
  ((allMerchants rows).map (·.2.count)).sum

/-- per-category totals: `categories[cat]['total'] += merchant['ytd']` in dict order -/
def addTo (acc : List (List Char × Int)) (k : List Char) (v : Int) : List (List Char × Int) :=
  match acc with
  | [] => [(k, v)]
  | (k', t) :: rest => if k' = k then (k', t + v) :: rest else (k', t) :: addTo rest k v

def categoryViewSums (rows : List MRow) : List (List Char × Int) :=
  (allMerchants rows).foldl (fun acc kv => addTo acc kv.2.cat kv.2.ytd) []

/-- what the sums should add up to: Σ by_merchant.total -/
def analysedTotal (rows : List MRow) : Int := (rows.map (·.ytd)).sum

/-- no two merchants share an id -/
def idsDistinct : List MRow → Bool
  | [] => true
  | r :: rest => rest.all (fun r' => r'.id ≠ r.id) && idsDistinct rest

/-- the rows `build_category_view` works on when the ids come from the allocation table; `data name` = what
`by_merchant[name]` holds (its `id` field is ignored) -/
def rowsOf (names : List (List Char)) (data : List Char → MRow) : List MRow :=
  (allocIds names).map fun p => { data p.1 with id := p.2 }

/-! ## the figures: transaction-level flow (analyze_transactions) vs export_json's merchant-level summary -/

/-- a transaction as the summary computations see it (amount in cents; flags = lower-cased tag present) -/
structure FTxn where
  merchant : List Char
  amount : Int
  income : Bool
  transfer : Bool
  investment : Bool
deriving DecidableEq, Repr

def absI (a : Int) : Int := if a < 0 then -a else a

/-- `normalize_amount` -/
def eff (t : FTxn) : Int := if t.income || t.investment then absI t.amount else t.amount

/-- `income_total`, `spending_total`, `credits_total` of `analyze_transactions` (per transaction) -/
def flowIncome (ts : List FTxn) : Int := ((ts.filter (·.income)).map (absI ·.amount)).sum
def plain (t : FTxn) : Bool := !t.income && !t.investment && !t.transfer
def flowSpending (ts : List FTxn) : Int := ((ts.filter fun t => plain t && decide (t.amount > 0)).map (·.amount)).sum
def flowCredits (ts : List FTxn) : Int := ((ts.filter fun t => plain t && !decide (t.amount > 0)).map (absI ·.amount)).sum
def flowCash (ts : List FTxn) : Int := flowIncome ts - flowSpending ts + flowCredits ts

/-- merchant names in first-appearance order (keys of `by_merchant`) -/
def merchantsOf : List FTxn → List (List Char)
  | [] => []
  | t :: rest => t.merchant :: (merchantsOf rest).filter (· ≠ t.merchant)

def merchantTotal (ts : List FTxn) (m : List Char) : Int := ((ts.filter (·.merchant = m)).map eff).sum
def merchantIncome (ts : List FTxn) (m : List Char) : Bool := (ts.filter (·.merchant = m)).any (·.income)

/-- export_json on the unchanged tree: `sum(d['total'] for d in by_merchant.values() if 'income' in tags)` -/
def jsonIncome (ts : List FTxn) : Int :=
  (((merchantsOf ts).filter (merchantIncome ts)).map (merchantTotal ts)).sum
/-- `abs(sum(d['total'] … if d['total'] < 0))` -/
def jsonCredits (ts : List FTxn) : Int :=
  absI ((((merchantsOf ts).map (merchantTotal ts)).filter (· < 0)).sum)
/-- `income_total - stats['total'] if income_total > 0 else None` -/
def jsonNet (ts : List FTxn) : Option Int :=
  if jsonIncome ts > 0 then some (jsonIncome ts - (ts.map (·.amount)).sum) else none

/-! ## dates: the calendar, and the two texts the analysis keeps of a transaction's day

`analyze_transactions` keeps `txn['date'].strftime('%Y-%m')` (the month key: `by_month`, `num_months`, per-merchant months, the
monthly table, views by month / year) and `txn['date'].strftime('%m/%d')` (the day shown with a transaction; `dataThrough`).
Days are triples of naturals `(y, m, d)`; the model is glibc's `strftime` for 1000 ≤ y ≤ 9999. -/

def isLeap (y : Nat) : Bool := y % 4 == 0 && (y % 100 != 0 || y % 400 == 0)

def daysIn (y m : Nat) : Nat :=
  if m = 2 then (if isLeap y then 29 else 28)
  else if m = 4 ∨ m = 6 ∨ m = 9 ∨ m = 11 then 30 else 31

/-- `datetime(y, m, d)` does not raise (for 1 ≤ y ≤ 9999) -/
def validDay (y m d : Nat) : Bool := decide (1 ≤ m) && decide (m ≤ 12) && decide (1 ≤ d) && decide (d ≤ daysIn y m)

def dch (n : Nat) : Char :=
  match n with
  | 0 => '0' | 1 => '1' | 2 => '2' | 3 => '3' | 4 => '4' | 5 => '5' | 6 => '6' | 7 => '7' | 8 => '8' | _ => '9'

def pad2 (n : Nat) : List Char := [dch (n / 10 % 10), dch (n % 10)]
def pad4 (n : Nat) : List Char := [dch (n / 1000 % 10), dch (n / 100 % 10), dch (n / 10 % 10), dch (n % 10)]

/-- `strftime('%Y-%m')` -/
def monthKey (y m : Nat) : List Char := pad4 y ++ '-' :: pad2 m
/-- `strftime('%m/%d')` -/
def dayKey (m d : Nat) : List Char := pad2 m ++ '/' :: pad2 d

/-- the distinct month keys in first-appearance order (keys of `by_month`) -/
def monthsSeen : List (Nat × Nat × Nat) → List (List Char)
  | [] => []
  | (y, m, _) :: rest => monthKey y m :: (monthsSeen rest).filter (· ≠ monthKey y m)

/-- `num_months` of `analyze_transactions` (for a non-empty list) -/
def numMonths (days : List (Nat × Nat × Nat)) : Nat := (monthsSeen days).length


end TallyVerif.Report
