/-!
M-History — the process-wide mutable state that classification goes through:
`merchant_utils._cached_engine`, `expr_parser._expression_cache`, `expr_parser._regex_cache`,
as an explicit state machine over operations {load rule file, classify, evaluate}.

Everything domain-specific is abstract: `World` gives the stateless meaning of parsing,
compiling, engine classification and legacy (tuple-list) classification.  The theorems hold for
every world.  `fixD7 = true` is `get_all_rules` after the repair (the cached engine is reset at the
start of every load); `false` is the code as pinned.  Core Lean only.
-/
namespace TallyVerif.History

structure World where
  RulesFile : Type          -- content of a .rules file
  CsvFile : Type            -- content of a legacy CSV rule file
  Txn : Type
  Ast : Type
  Rx : Type
  Res : Type
  parse : String → Ast                          -- ast.parse + validate_ast (a function of the text)
  compile : String → Rx                         -- re.compile(pattern, IGNORECASE)
  classifyEngine : RulesFile → Txn → Res        -- engine built from the file, `engine.match` + wrapper
  classifyLegacy : CsvFile → Txn → Res          -- the tuple loop on the tuples loaded from the file
  evalAst : Ast → (String → Rx) → Txn → Res     -- evaluation of a parsed expression, regexes obtained through the given compiler

inductive Load (W : World)
  | rules (f : W.RulesFile)
  | csv (f : W.CsvFile)

inductive Op (W : World)
  | load (l : Load W)
  | classify (t : W.Txn)
  | eval (e : String) (t : W.Txn)

structure State (W : World) where
  cachedEngine : Option W.RulesFile                 -- `_cached_engine` (identified with the file it was built from)
  lastLoad : Option (Load W)                        -- what the caller's `rules` list came from
  exprCache : List (String × W.Ast)                 -- `_expression_cache`
  regexCache : List (String × W.Rx)                 -- `_regex_cache`

def init (W : World) : State W := ⟨none, none, [], []⟩

/-- `parse_expression`: cache lookup by the exact text, fill on miss -/
def parseCached (W : World) (s : State W) (e : String) : W.Ast × State W :=
  match s.exprCache.lookup e with
  | some a => (a, s)
  | none => (W.parse e, { s with exprCache := (e, W.parse e) :: s.exprCache })

/-- the compiler `_fn_regex` uses: lookup in the cache as it is at evaluation time, else compile
(the fill of the cache is modelled by `regexFill`) -/
def compileCached (W : World) (s : State W) (p : String) : W.Rx :=
  match s.regexCache.lookup p with
  | some r => r
  | none => W.compile p

/-- patterns compiled during an evaluation are added to the cache (which ones: any list) -/
def regexFill (W : World) (s : State W) (ps : List String) : State W :=
  { s with regexCache := ps.foldl (fun c p => if (c.lookup p).isSome then c else (p, W.compile p) :: c) s.regexCache }

inductive Out (W : World)
  | none
  | res (r : W.Res)
  | noRules

/-- one operation. `used` = the patterns the evaluation happened to compile (arbitrary). -/
def step (W : World) (fixD7 : Bool) (used : List String) (s : State W) : Op W → State W × Out W
  | .load (.rules f) => ({ s with cachedEngine := some f, lastLoad := some (.rules f) }, .none)
  | .load (.csv f) =>
    ({ s with cachedEngine := if fixD7 then none else s.cachedEngine, lastLoad := some (.csv f) }, .none)
  | .classify t =>
    -- `normalize_merchant(…, rules)`: the cached engine wins whenever it is not None
    match s.cachedEngine with
    | some f => (s, .res (W.classifyEngine f t))
    | none =>
      match s.lastLoad with
      | some (.csv f) => (s, .res (W.classifyLegacy f t))
      | some (.rules f) => (s, .res (W.classifyEngine f t))      -- unreachable under the invariant
      | none => (s, .noRules)
  | .eval e t =>
    let (a, s1) := parseCached W s e
    (regexFill W s1 used, .res (W.evalAst a (compileCached W s1) t))

/-- what a fresh process answers: only the last load matters -/
def spec (W : World) (last : Option (Load W)) : Op W → Out W
  | .load _ => .none
  | .classify t =>
    match last with
    | some (.rules f) => .res (W.classifyEngine f t)
    | some (.csv f) => .res (W.classifyLegacy f t)
    | none => .noRules
  | .eval e t => .res (W.evalAst (W.parse e) W.compile t)

def lastLoadOf (W : World) : List (Op W) → Option (Load W)
  | [] => none
  | op :: rest =>
    match lastLoadOf W rest with
    | some l => some l
    | none => match op with
      | .load l => some l
      | _ => none

/-- run a history (oldest first); `useds` supplies the patterns each step compiled -/
def run (W : World) (fixD7 : Bool) : State W → List (Op W × List String) → State W
  | s, [] => s
  | s, (op, used) :: rest => run W fixD7 (step W fixD7 used s op).1 rest

end TallyVerif.History
