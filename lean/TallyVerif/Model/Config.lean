/-
M-Config — from `settings.yaml` to what `tally up` parses (property C11, settings resolution).

`resolveSource`  mirrors `config_loader.resolve_source_format`
`resolveConfig`  mirrors `config_loader.load_config` (after `yaml.safe_load`, which stays a trusted parser: the loaded
                 object arrives as a value of `Y`)
`planSources`    mirrors the way `commands/run.cmd_run` consumes the resolved config: the removed-setting exit, the
                 "no data sources" exit, the crash conditions of `load_supplemental_sources`, then `for source in
                 data_sources:` — supplemental sources skipped, `source['file']` resolved against the budget directory,
                 missing files skipped, the parser chosen — i.e. EXACTLY the calls `parse_amex` / `parse_boa` /
                 `parse_generic_csv` that are made, in order, with their arguments
`readArgs`       mirrors what `parse_generic_csv` / `_iter_rows_with_delimiter` / `parse_amount` make of those arguments
                 (Python truthiness of `has_header` / `negate_amount`, the spellings of `delimiter`, `decimal_separator == ','`)

The code is dynamically typed and the model keeps that: a setting is ANY YAML value; where the code copies a value
verbatim (`format_spec.delimiter = source['delimiter']`) the model carries the value, where it tests truthiness the model
tests `Y.truthy`, where Python raises (`.lower()` on a number, `os.path.join` with a list, `.split` on null, iterating an
int) the model returns that exception as an error VALUE.  Constants (removed keys, rule modes, defaults, the legacy CSV
name, the special parser types) come from `Gen/ConfigTables.lean`, REGENERATED from the sources on every run.

Parameters (not tally code): `Fmt.Ext` (what CPython does to non-ASCII text in `str.lower` / `\w` / `isspace`),
`exists` (`os.path.exists`), `viewsLoad` (does `section_engine.load_sections` accept the views file — modelled in C10/C17),
the absolute path of the config directory.  `posixpath.join / dirname / normpath` are modelled (`pjoin2`, `dirname`,
`normpath`) and tied to CPython by a dense correspondence stream.
Core Lean only (linked into `tvdrv`).
-/
import TallyVerif.Model.Fmt
import TallyVerif.Model.Csv
import TallyVerif.Gen.ConfigTables

namespace TallyVerif.Config
open TallyVerif.Gen

abbrev Str := List Char

/-! ### YAML values, as `yaml.safe_load` returns them -/

/-- `None | bool | int | float (IEEE bits) | str | list | dict` (insertion-ordered).  A mapping key that is not a string
(YAML allows `1:`, `true:`, `~:`) is shipped as a string that starts with U+0000 — a character no YAML stream can contain — so
it is different from every key the code looks up, as in Python. -/
inductive Y
  | null
  | bool (b : Bool)
  | int (n : Int)
  | float (bits : Nat)
  | str (s : Str)
  | list (xs : List Y)
  | map (kvs : List (Str × Y))
deriving Repr, Inhabited

mutual
def Y.beq : Y → Y → Bool
  | .null, .null => true
  | .bool a, .bool b => a == b
  | .int a, .int b => a == b
  | .float a, .float b => a == b
  | .str a, .str b => a == b
  | .list a, .list b => Y.beqList a b
  | .map a, .map b => Y.beqMap a b
  | _, _ => false
def Y.beqList : List Y → List Y → Bool
  | [], [] => true
  | x :: xs, y :: ys => Y.beq x y && Y.beqList xs ys
  | _, _ => false
def Y.beqMap : List (Str × Y) → List (Str × Y) → Bool
  | [], [] => true
  | (k, x) :: xs, (l, y) :: ys => k == l && Y.beq x y && Y.beqMap xs ys
  | _, _ => false
end

mutual
theorem Y.eq_of_beq : ∀ a b : Y, Y.beq a b = true → a = b
  | .null, b, h => by cases b <;> simp_all [Y.beq]
  | .bool x, b, h => by cases b <;> simp_all [Y.beq]
  | .int x, b, h => by cases b <;> simp_all [Y.beq]
  | .float x, b, h => by cases b <;> simp_all [Y.beq]
  | .str x, b, h => by cases b <;> simp_all [Y.beq]
  | .list x, b, h => by
    cases b <;> simp only [Y.beq, Bool.false_eq_true] at h
    rw [Y.eq_of_beqList x _ h]
  | .map x, b, h => by
    cases b <;> simp only [Y.beq, Bool.false_eq_true] at h
    rw [Y.eq_of_beqMap x _ h]
theorem Y.eq_of_beqList : ∀ a b : List Y, Y.beqList a b = true → a = b
  | [], b, h => by cases b <;> simp_all [Y.beqList]
  | x :: xs, b, h => by
    cases b with
    | nil => simp [Y.beqList] at h
    | cons y ys =>
      simp only [Y.beqList, Bool.and_eq_true] at h
      rw [Y.eq_of_beq x y h.1, Y.eq_of_beqList xs ys h.2]
theorem Y.eq_of_beqMap : ∀ a b : List (Str × Y), Y.beqMap a b = true → a = b
  | [], b, h => by cases b <;> simp_all [Y.beqMap]
  | (k, x) :: xs, b, h => by
    cases b with
    | nil => simp [Y.beqMap] at h
    | cons p ys =>
      obtain ⟨l, y⟩ := p
      simp only [Y.beqMap, Bool.and_eq_true, beq_iff_eq] at h
      rw [h.1.1, Y.eq_of_beq x y h.1.2, Y.eq_of_beqMap xs ys h.2]
end

mutual
theorem Y.beq_refl : ∀ a : Y, Y.beq a a = true
  | .null => rfl
  | .bool _ => by simp [Y.beq]
  | .int _ => by simp [Y.beq]
  | .float _ => by simp [Y.beq]
  | .str _ => by simp [Y.beq]
  | .list x => by simp only [Y.beq]; exact Y.beqList_refl x
  | .map x => by simp only [Y.beq]; exact Y.beqMap_refl x
theorem Y.beqList_refl : ∀ a : List Y, Y.beqList a a = true
  | [] => rfl
  | x :: xs => by simp only [Y.beqList, Y.beq_refl x, Y.beqList_refl xs, Bool.and_self]
theorem Y.beqMap_refl : ∀ a : List (Str × Y), Y.beqMap a a = true
  | [] => rfl
  | (k, x) :: xs => by simp only [Y.beqMap, Y.beq_refl x, Y.beqMap_refl xs, beq_self_eq_true, Bool.and_self]
end

instance : DecidableEq Y := fun a b =>
  if h : Y.beq a b = true then isTrue (Y.eq_of_beq a b h)
  else isFalse (fun e => h (e ▸ Y.beq_refl a))

/-- `bool(v)`: None, False, 0, ±0.0, '', [] and {} are false; everything else (NaN included) is true -/
def Y.truthy : Y → Bool
  | .null => false
  | .bool b => b
  | .int n => n != 0
  | .float bits => !(bits == 0 || bits == 2 ^ 63)
  | .str s => !s.isEmpty
  | .list xs => !xs.isEmpty
  | .map kvs => !kvs.isEmpty

/-! ### dicts -/

abbrev Dict := List (Str × Y)

/-- `d.get(k)` (`none`: the key is absent).  A loaded mapping has no key twice; on a list that has, the first entry counts. -/
def get (k : Str) : Dict → Option Y
  | [] => none
  | (k', v) :: r => if k' = k then some v else get k r

/-- `k in d` -/
def has (k : Str) (d : Dict) : Bool := (get k d).isSome

/-- `d` without the key `k` -/
def erase (k : Str) (d : Dict) : Dict := d.filter (fun p => p.1 != k)

/-- `d` with `k: v` (wherever it stands: the code only looks keys up) -/
def insert (k : Str) (v : Y) (d : Dict) : Dict := (k, v) :: erase k d

/-! ### the keys the code reads (pinned against the regenerated tables at the end of the file) -/

def kName : Str := ['n', 'a', 'm', 'e']
def kFile : Str := ['f', 'i', 'l', 'e']
def kFormat : Str := ['f', 'o', 'r', 'm', 'a', 't']
def kType : Str := ['t', 'y', 'p', 'e']
def kColumns : Str := ['c', 'o', 'l', 'u', 'm', 'n', 's']
def kDescription : Str := ['d', 'e', 's', 'c', 'r', 'i', 'p', 't', 'i', 'o', 'n']
def kDelimiter : Str := ['d', 'e', 'l', 'i', 'm', 'i', 't', 'e', 'r']
def kHasHeader : Str := ['h', 'a', 's', '_', 'h', 'e', 'a', 'd', 'e', 'r']
def kNegateAmount : Str := ['n', 'e', 'g', 'a', 't', 'e', '_', 'a', 'm', 'o', 'u', 'n', 't']
def kSupplemental : Str := ['s', 'u', 'p', 'p', 'l', 'e', 'm', 'e', 'n', 't', 'a', 'l']
def kDecimalSeparator : Str := ['d', 'e', 'c', 'i', 'm', 'a', 'l', '_', 's', 'e', 'p', 'a', 'r', 'a', 't', 'o', 'r']
def kDataSources : Str := ['d', 'a', 't', 'a', '_', 's', 'o', 'u', 'r', 'c', 'e', 's']
def kRuleMode : Str := ['r', 'u', 'l', 'e', '_', 'm', 'o', 'd', 'e']
def kMerchantsFile : Str := ['m', 'e', 'r', 'c', 'h', 'a', 'n', 't', 's', '_', 'f', 'i', 'l', 'e']
def kViewsFile : Str := ['v', 'i', 'e', 'w', 's', '_', 'f', 'i', 'l', 'e']
def kDescriptionCleaning : Str :=
  ['d', 'e', 's', 'c', 'r', 'i', 'p', 't', 'i', 'o', 'n', '_', 'c', 'l', 'e', 'a', 'n', 'i', 'n', 'g']
def sAmex : Str := ['a', 'm', 'e', 'x']
def sBoa : Str := ['b', 'o', 'a']
def sFirstMatch : Str := ['f', 'i', 'r', 's', 't', '_', 'm', 'a', 't', 'c', 'h']
def sMostSpecific : Str := ['m', 'o', 's', 't', '_', 's', 'p', 'e', 'c', 'i', 'f', 'i', 'c']

/-! ### `posixpath` -/

/-- `os.path.join(a, b)` -/
def pjoin2 (a b : Str) : Str :=
  if b.head? = some '/' then b
  else if a.isEmpty || a.getLast? = some '/' then a ++ b
  else a ++ '/' :: b

/-- `os.path.join(a, *ps)` -/
def pjoin (a : Str) (ps : List Str) : Str := ps.foldl pjoin2 a

/-- `s.rstrip('/')` -/
def rstripSlash (s : Str) : Str := (s.reverse.dropWhile (· == '/')).reverse

/-- `os.path.dirname(p)` -/
def dirname (p : Str) : Str :=
  let head := (p.reverse.dropWhile (· != '/')).reverse
  if !head.isEmpty && !head.all (· == '/') then rstripSlash head else head

/-- `p.split('/')` -/
def splitSlash : Str → List Str
  | [] => [[]]
  | c :: cs =>
    match splitSlash cs with
    | [] => [[]]
    | p :: ps => if c = '/' then [] :: p :: ps else (c :: p) :: ps

/-- `'/'.join(parts)` -/
def joinSlash : List Str → Str
  | [] => []
  | [p] => p
  | p :: q :: r => p ++ '/' :: joinSlash (q :: r)

def dotdot : Str := ['.', '.']

/-- one iteration of `for comp in comps:` of `normpath` -/
def normStep (rooted : Bool) (acc : List Str) (comp : Str) : List Str :=
  if comp.isEmpty || comp = ['.'] then acc
  else if comp ≠ dotdot || (!rooted && acc.isEmpty) || acc.getLast? = some dotdot then acc ++ [comp]
  else acc.dropLast

/-- `os.path.normpath(p)` (lexical: `a/../b` is `b` whatever `a` is on disk) -/
def normpath (p : Str) : Str :=
  if p.isEmpty then ['.'] else
  let slashes : Nat :=
    if p.head? = some '/' then (if p.take 2 = ['/', '/'] && p.take 3 ≠ ['/', '/', '/'] then 2 else 1) else 0
  let comps := (splitSlash p).foldl (normStep (slashes != 0)) []
  let r := List.replicate slashes '/' ++ joinSlash comps
  if r.isEmpty then ['.'] else r

/-! ### the errors the code raises, by raise site -/

inductive CfgErr
  | notAMapping                       -- AttributeError: `.get` / `.copy` on something that is not a dict
  | removedKey (k : Str)              -- ValueError: `account_type` / `skip_negative`
  | formatNotStr                      -- AttributeError: `format_str.split(',')`
  | badFormat (e : Fmt.Err)           -- ValueError: "Invalid format for source …" (a KeyError for `Fmt.Err.keyError`)
  | templateNotStr                    -- TypeError: `re.findall(…, description_template)` on a truthy non-string
  | typeNotStr                        -- AttributeError: `source['type'].lower()`
  | unknownType                       -- ValueError: "Unknown source type"
  | noFormat                          -- ValueError: "must specify 'format'"
  | sourcesNotIterable                -- TypeError: `for source in <truthy int / float / bool>`
  | pathNotStr (key : Str)            -- TypeError: `os.path.join(budget_dir, <truthy non-string>)`
  | viewsRaises (cls : Str)           -- `load_sections` raises something that is not SectionParseError (a directory, bytes that are not UTF-8)
deriving DecidableEq, Repr

inductive PyExc | valueError | attributeError | typeError | keyError | systemExit | other (cls : Str)
deriving DecidableEq, Repr

/-- the Python exception class of an error -/
def CfgErr.cls : CfgErr → PyExc
  | .notAMapping | .formatNotStr | .typeNotStr => .attributeError
  | .removedKey _ | .unknownType | .noFormat => .valueError
  | .badFormat e => if e = .keyError then .keyError else .valueError
  | .templateNotStr | .sourcesNotIterable | .pathNotStr _ => .typeError
  | .viewsRaises c => .other c

/-! ### `resolve_source_format` -/

/-- the `FormatSpec` of a `format:` source after "Apply explicit settings": what `parse_format_string` returned (`base`)
and the values copied VERBATIM from the source dict — whatever their type -/
structure GenericSpec where
  base : Fmt.FormatSpec
  /-- `format_spec.description_template` as stored (`columns.description`, any value; `null` when there is none) -/
  template : Y
  /-- `format_spec.delimiter`: `source['delimiter']` if the key is there, else None -/
  delimiter : Y
  /-- `format_spec.has_header`: `source['has_header']` if the key is there, else True -/
  hasHeader : Y
  /-- `format_spec.negate_amount`: `source['negate_amount']` if the key is there, else what `{-amount}` said -/
  negateAmount : Y
deriving DecidableEq, Repr

inductive Parser
  | special (type : Str)              -- `_parser_type` = the lower-cased `type:`; `_format_spec` = None
  | generic (g : GenericSpec)         -- `_parser_type` = 'generic'
deriving DecidableEq, Repr

/-- a resolved data source: everything `cmd_run` / `load_supplemental_sources` later read from the dict -/
structure SourceCfg where
  /-- `source['name']` (`none`: the key is absent — the call sites have three different defaults) -/
  name : Option Y
  /-- `source['file']` -/
  file : Option Y
  parser : Parser
  /-- `_supplemental` = `source.get('supplemental', False)`: any value; consumers test its truthiness -/
  supplemental : Y
  /-- `source.get('decimal_separator', '.')` -/
  decimalSeparator : Y
deriving DecidableEq, Repr

/-- `columns.get('description') if isinstance(columns, dict) else None` -/
def templateOf (src : Dict) : Y :=
  match get kColumns src with
  | some (.map m) => (get kDescription m).getD .null
  | _ => .null

/-- the `ValueError`s `parse_format_string` raises BEFORE it looks into the description template -/
def errBeforeTemplate : Fmt.Err → Bool
  | .invalidToken _ | .dupField _ | .dupCustom _ | .noDescription => true
  | _ => false

/-- `parse_format_string(source['format'], description_template)` for ARBITRARY values: the format must be a string
(`.split`); a template that is a string goes to the C18 model; a falsy non-string (None, False, 0, [], {}) is "no
template"; a truthy non-string passes every `not description_template` test and then breaks `re.findall` (TypeError) —
unless one of the earlier checks has already raised -/
def parseFormatY (e : Fmt.Ext) (fmt tmpl : Y) : Except CfgErr Fmt.FormatSpec :=
  match fmt with
  | .str f =>
    match tmpl with
    | .str t => (Fmt.Impl.parseFormat e f (some t)).mapError .badFormat
    | _ =>
      if tmpl.truthy then
        match Fmt.Impl.parseFormat e f (some ['x']) with
        | .error err => if errBeforeTemplate err then .error (.badFormat err) else .error .templateNotStr
        | .ok _ => .error .templateNotStr
      else (Fmt.Impl.parseFormat e f none).mapError .badFormat
  | _ => .error .formatNotStr

/-- the `if 'format' in source:` branch -/
def resolveGeneric (e : Fmt.Ext) (src : Dict) (fmt : Y) : Except CfgErr GenericSpec :=
  (parseFormatY e fmt (templateOf src)).map fun spec =>
    { base := spec
      template := templateOf src
      delimiter := (get kDelimiter src).getD .null
      hasHeader := (get kHasHeader src).getD (.bool ConfigTables.SPEC_HAS_HEADER_DEFAULT)
      negateAmount := (get kNegateAmount src).getD (.bool spec.negateAmount) }

/-- the `elif 'type' in source:` branch: `source['type'].lower()`, then `is_special_parser_type` (which lower-cases again) -/
def resolveSpecial (e : Fmt.Ext) : Y → Except CfgErr Parser
  | .str t =>
    let lt := e.lower t
    if ConfigTables.SPECIAL_PARSERS.contains (e.lower lt) then .ok (.special lt) else .error .unknownType
  | _ => .error .typeNotStr

def mkSource (src : Dict) (p : Parser) : SourceCfg :=
  { name := get kName src, file := get kFile src, parser := p,
    supplemental := (get kSupplemental src).getD (.bool false),
    decimalSeparator := (get kDecimalSeparator src).getD (.str ConfigTables.DECIMAL_DEFAULT) }

/-- `resolve_source_format(source)` -/
def resolveSource (e : Fmt.Ext) : Y → Except CfgErr SourceCfg
  | .map src =>
    match ConfigTables.REMOVED_SOURCE_KEYS.find? (fun k => has k src) with
    | some k => .error (.removedKey k)
    | none =>
      match get kFormat src with
      | some fmt => (resolveGeneric e src fmt).map fun g => mkSource src (.generic g)
      | none =>
        match get kType src with
        | some t => (resolveSpecial e t).map fun p => mkSource src p
        | none => .error .noFormat
  | _ => .error .notAMapping

/-! ### `load_config` -/

inductive RuleMode | firstMatch | mostSpecific
deriving DecidableEq, Repr

/-- `_merchants_file` / `_merchants_format` -/
inductive RulesFile
  | new (path : Str)                  -- `merchants_file:` names a file that exists: format 'new'
  | csv (path : Str)                  -- no `merchants_file:` and `config/merchant_categories.csv` exists: format 'csv'
  | none                              -- (None, None)
deriving DecidableEq, Repr

/-- the entries of `config['_warnings']` -/
inductive Warning
  | deprecatedParser (type : Str)     -- type 'deprecated': a `type: amex|boa` source
  | removedSettings (keys : List Str) -- type 'deprecated': home_locations / home_state / travel_labels
  | invalidRuleMode                   -- type 'warning'
  | merchantsNotFound                 -- type 'warning'
  | viewsError                        -- type 'error': the views file does not parse
  | viewsNotFound                     -- type 'warning'
deriving DecidableEq, Repr

/-- `warning['type']` -/
def Warning.type : Warning → Str
  | .deprecatedParser _ | .removedSettings _ => ['d', 'e', 'p', 'r', 'e', 'c', 'a', 't', 'e', 'd']
  | .invalidRuleMode | .merchantsNotFound | .viewsNotFound => ['w', 'a', 'r', 'n', 'i', 'n', 'g']
  | .viewsError => ['e', 'r', 'r', 'o', 'r']

/-- `load_sections(path)`: the views, a `SectionParseError` (caught: a warning), or any other exception (not caught) -/
inductive ViewsOutcome | loaded | parseError | raises (cls : Str)
deriving DecidableEq, Repr

/-- the world outside the settings object -/
structure Env where
  ext : Fmt.Ext
  /-- `os.path.abspath(config_dir)` -/
  cfgDir : Str
  /-- `os.path.exists` -/
  pathExists : Str → Bool
  /-- what `load_sections(path)` does with a file that exists -/
  viewsLoad : Str → ViewsOutcome

structure Config where
  sources : List SourceCfg
  ruleMode : RuleMode
  rulesFile : RulesFile
  /-- `_views_file` (`some`: the views were loaded from that path) -/
  viewsFile : Option Str
  warnings : List Warning
  /-- `config.get('description_cleaning')` (None when absent): a truthy value ends `cmd_run` before it reads anything -/
  descriptionCleaning : Y
deriving DecidableEq, Repr

/-- `[resolve_source_format(source) for source in …]`: the first source that raises aborts the comprehension -/
def resolveAll (e : Fmt.Ext) : List Y → Except CfgErr (List SourceCfg)
  | [] => .ok []
  | y :: ys =>
    match resolveSource e y with
    | .error err => .error err
    | .ok s =>
      match resolveAll e ys with
      | .error err => .error err
      | .ok ss => .ok (s :: ss)

/-- `if config.get('data_sources'): [… for source in config['data_sources']] else: []`.  Iterating a dict or a string yields
strings (`.copy()`: AttributeError); a truthy number or `true` is not iterable (TypeError) -/
def resolveSources (e : Fmt.Ext) (ds : Option Y) : Except CfgErr (List SourceCfg) :=
  match ds with
  | none => .ok []
  | some v =>
    if !v.truthy then .ok [] else
    match v with
    | .list xs => resolveAll e xs
    | .map _ | .str _ => .error .notAMapping
    | _ => .error .sourcesNotIterable

/-- the `deprecated` warnings `resolve_source_format` appends, in source order -/
def parserWarnings (ss : List SourceCfg) : List Warning :=
  ss.filterMap fun s => match s.parser with
    | .special t => some (.deprecatedParser t)
    | .generic _ => none

def removedWarnings (c : Dict) : List Warning :=
  match ConfigTables.REMOVED_SETTINGS.filter (fun k => has k c) with
  | [] => []
  | ks => [.removedSettings ks]

/-- `rule_mode = config.get('rule_mode', 'first_match')`; anything that is not one of the two strings: a warning, and
`first_match` -/
def resolveRuleMode (c : Dict) : RuleMode × List Warning :=
  match get kRuleMode c with
  | none => (.firstMatch, [])
  | some (.str s) =>
    if s = sMostSpecific then (.mostSpecific, [])
    else if s = sFirstMatch then (.firstMatch, [])
    else (.firstMatch, [.invalidRuleMode])
  | some _ => (.firstMatch, [.invalidRuleMode])

/-- the `merchants_file` block -/
def resolveRulesFile (env : Env) (c : Dict) : Except CfgErr (RulesFile × List Warning) :=
  let mf := (get kMerchantsFile c).getD .null
  if mf.truthy then
    match mf with
    | .str s =>
      let p := pjoin2 (dirname env.cfgDir) s
      if env.pathExists p then .ok (.new p, []) else .ok (.none, [.merchantsNotFound])
    | _ => .error (.pathNotStr kMerchantsFile)
  else
    let p := pjoin2 env.cfgDir ConfigTables.LEGACY_CSV_NAME
    if env.pathExists p then .ok (.csv p, []) else .ok (.none, [])

/-- the `views_file` block -/
def resolveViewsFile (env : Env) (c : Dict) : Except CfgErr (Option Str × List Warning) :=
  let vf := (get kViewsFile c).getD .null
  if vf.truthy then
    match vf with
    | .str s =>
      let p := pjoin2 (dirname env.cfgDir) s
      if env.pathExists p then
        match env.viewsLoad p with
        | .loaded => .ok (some p, [])
        | .parseError => .ok (none, [.viewsError])
        | .raises cls => .error (.viewsRaises cls)
      else .ok (none, [.viewsNotFound])
    | _ => .error (.pathNotStr kViewsFile)
  else .ok (none, [])

/-- `load_config(config_dir)` on the loaded settings object -/
def resolveConfig (env : Env) : Y → Except CfgErr Config
  | .map c =>
    match resolveSources env.ext (get kDataSources c) with
    | .error err => .error err
    | .ok ss =>
      let (mode, wm) := resolveRuleMode c
      match resolveRulesFile env c with
      | .error err => .error err
      | .ok (rf, wr) =>
        match resolveViewsFile env c with
        | .error err => .error err
        | .ok (vf, wv) =>
          .ok { sources := ss, ruleMode := mode, rulesFile := rf, viewsFile := vf,
                warnings := parserWarnings ss ++ removedWarnings c ++ wm ++ wr ++ wv,
                descriptionCleaning := (get kDescriptionCleaning c).getD .null }
  | _ => .error .notAMapping

/-- `get_all_rules` / `get_transforms` decide by the NAME of the file, not by `_merchants_format`: a path that ends in
`.rules` is loaded by the rule engine, any other file is read as a legacy CSV -/
def endsWithRules (p : Str) : Bool := ['.', 'r', 'u', 'l', 'e', 's'].isSuffixOf p

inductive RulesKind | engine (path : Str) | legacyCsv (path : Str) | noRules
deriving DecidableEq, Repr

def RulesFile.kind : RulesFile → RulesKind
  | .new p => if endsWithRules p then .engine p else .legacyCsv p
  | .csv p => if endsWithRules p then .engine p else .legacyCsv p
  | .none => .noRules

/-! ### `cmd_run`: what is parsed -/

/-- how a run of `tally up` ends before (or instead of) producing a report, as far as the settings decide it -/
inductive RunErr
  | descriptionCleaning               -- the removed setting is there: message, exit 1
  | noDataSources                     -- "Error: No data sources configured", exit 1
  | keyError (k : Str)                -- `source['file']` (`source['name']` on a progress line: repaired in /repo aa7bfcd, F11-name)
  | typeError                         -- `os.path.join(config_dir, '..', <not a string>)`
  | attributeError                    -- `source.get('name', '').lower()` on a supplemental source whose name is no string
deriving DecidableEq, Repr

def RunErr.cls : RunErr → PyExc
  | .descriptionCleaning | .noDataSources => .systemExit
  | .keyError _ => .keyError
  | .typeError => .typeError
  | .attributeError => .attributeError

/-- `_check_deprecated_description_cleaning`: a truthy `description_cleaning` prints migration advice for `patterns[:3]` (each
pattern through `str.replace`) and exits; a value that cannot be sliced or whose first entries are not strings raises instead
(slicing a dict: KeyError on CPython ≥ 3.12, where slices are hashable) -/
def cleaningOutcome (v : Y) : Option RunErr :=
  if !v.truthy then none else
  match v with
  | .str _ => some .descriptionCleaning
  | .list xs => if (xs.take 3).all (fun x => match x with | .str _ => true | _ => false) then some .descriptionCleaning
                else some .attributeError
  | .map _ => some (.keyError [])
  | _ => some .typeError

/-- a parser call `cmd_run` makes -/
inductive Call
  | amex                              -- `parse_amex(filepath, rules)`
  | boa                               -- `parse_boa(filepath, rules)`
  /-- `parse_generic_csv(filepath, format_spec, rules, source_name=source.get('name', 'CSV'),
  decimal_separator=source.get('decimal_separator', '.'), …)` -/
  | generic (g : GenericSpec) (sourceName : Y) (decimalSeparator : Y)
deriving DecidableEq, Repr

structure Planned where
  /-- position of the source in `data_sources` -/
  index : Nat
  /-- the `filepath` argument -/
  path : Str
  call : Call
deriving DecidableEq, Repr

/-- the file a source's `file:` names: `normpath(join(config_dir, '..', file))`, and when nothing is there
`join(dirname(config_dir), file)`; `none`: neither exists -/
def resolvePath (env : Env) (file : Str) : Option Str :=
  let p1 := normpath (pjoin env.cfgDir [ConfigTables.PARENT_DIR, file])
  if env.pathExists p1 then some p1 else
  let p2 := pjoin2 (dirname env.cfgDir) file
  if env.pathExists p2 then some p2 else none

/-- what `load_supplemental_sources` needs of a source NOT to raise: a supplemental source's name must be a string
(`.lower()`), and unless that name is empty it must have a `file` that is a string.  (Everything after that is inside
`try … except Exception: continue`.) -/
def suppCheck (s : SourceCfg) : Except RunErr Unit :=
  if !s.supplemental.truthy then .ok () else
  match s.name with
  | none => .ok ()
  | some (.str n) =>
    if n.isEmpty then .ok () else
    match s.file with
    | none => .error (.keyError kFile)
    | some (.str _) => .ok ()
    | some _ => .error .typeError
  | some _ => .error .attributeError

def suppCheckAll : List SourceCfg → Except RunErr Unit
  | [] => .ok ()
  | s :: ss =>
    match suppCheck s with
    | .error e => .error e
    | .ok () => suppCheckAll ss

/-- one iteration of `for source in data_sources:` — `none`: the source is skipped (supplemental, file not found, a special
parser type the chain does not know).  Every source that gets past the file lookup is reported on a progress line that
prints the source's name (`source.get('name', 'CSV')` since the F11-name repair) — unless `--quiet` — whatever happens to it:
`quiet` no longer changes the plan (`Props.C11.plan_quiet_irrelevant`). -/
def planOne (quiet : Bool) (env : Env) (idx : Nat) (s : SourceCfg) : Except RunErr (Option Planned) :=
  if s.supplemental.truthy then .ok none else
  match s.file with
  | none => .error (.keyError kFile)
  | some (.str f) =>
    match resolvePath env f with
    | none => .ok none
    | some p =>
      match s.parser with
      | .special t =>
        if t = sAmex then .ok (some ⟨idx, p, .amex⟩)
        else if t = sBoa then .ok (some ⟨idx, p, .boa⟩)
        else .ok none
      | .generic g =>
        .ok (some ⟨idx, p, .generic g (s.name.getD (.str ConfigTables.NAME_DEFAULT)) s.decimalSeparator⟩)
  | some _ => .error .typeError

/-- the loop, from position `idx` on -/
def planFrom (quiet : Bool) (env : Env) : Nat → List SourceCfg → Except RunErr (List Planned)
  | _, [] => .ok []
  | idx, s :: ss =>
    match planOne quiet env idx s with
    | .error e => .error e
    | .ok here =>
      match planFrom quiet env (idx + 1) ss with
      | .error e => .error e
      | .ok rest => .ok (here.toList ++ rest)

/-- **what `tally up` parses**: the parser calls of `cmd_run`, in order, with their arguments — or how the run ends
before the report -/
def planSources (quiet : Bool) (env : Env) (cfg : Config) : Except RunErr (List Planned) :=
  match cleaningOutcome cfg.descriptionCleaning with
  | some e => .error e
  | none =>
    if cfg.sources.isEmpty then .error .noDataSources
    else
      match suppCheckAll cfg.sources with
      | .error e => .error e
      | .ok () => planFrom quiet env 0 cfg.sources

/-! ### what the parser makes of its arguments -/

/-- `_iter_rows_with_delimiter`'s reading of `delimiter`: falsy values are "no delimiter" (`if delimiter and …`), a
string goes to `Csv.delimOf`, any other truthy value has no `.startswith` (AttributeError: the source yields nothing) -/
def delimArg (d : Y) : Except PyExc Csv.Delim :=
  if !d.truthy then .ok (Csv.delimOf none) else
  match d with
  | .str s => .ok (Csv.delimOf (some s))
  | _ => .error .attributeError

/-- `FormatSpec` → the row parser's view of it (C05's `Csv.Spec`); the template is consulted in Mode 2 only, where
`parse_format_string` has made sure it is a non-empty string -/
def toCsvSpec (g : GenericSpec) : Csv.Spec :=
  { dateCol := g.base.dateColumn, dateFormat := g.base.dateFormat, amountCol := g.base.amountColumn,
    descCol := g.base.descriptionColumn, customCaptures := g.base.customCaptures,
    template := match g.template with | .str t => some t | _ => none,
    extraFields := g.base.extraFields, locationCol := g.base.locationColumn, sourceName := none,
    negateAmount := g.negateAmount.truthy, absAmount := g.base.absAmount }

/-- everything `parse_generic_csv` derives from its arguments before it reads a row -/
structure ReadArgs where
  delim : Csv.Delim
  /-- `if has_header:` -/
  hasHeader : Bool
  /-- `decimal_separator == ','` -/
  eu : Bool
  spec : Csv.Spec
  /-- `format_spec.source_name or source_name` (the format never sets a source name) -/
  sourceName : Y

def readArgs (g : GenericSpec) (sourceName decimalSeparator : Y) : Except PyExc ReadArgs :=
  (delimArg g.delimiter).map fun dl =>
    { delim := dl, hasHeader := g.hasHeader.truthy,
      eu := decimalSeparator = .str ConfigTables.EU_SEPARATOR,
      spec := toCsvSpec g, sourceName := sourceName }

/-! ### the model is written over the constants the sources have NOW (a change there stops the build) -/

example : ConfigTables.REMOVED_SOURCE_KEYS.length = 2 ∧ "account_type".toList ∈ ConfigTables.REMOVED_SOURCE_KEYS ∧
    "skip_negative".toList ∈ ConfigTables.REMOVED_SOURCE_KEYS := by decide +kernel
example : ConfigTables.APPLIED_KEYS = [kDelimiter, kHasHeader, kNegateAmount, "tags_from_fields".toList] := by decide +kernel
example : ConfigTables.SOURCE_KEYS_READ = ["account_type".toList, kColumns, kDelimiter, kFile, kFormat, kHasHeader, kName,
    kNegateAmount, "skip_negative".toList, kSupplemental, "tags_from_fields".toList, kType] := by decide +kernel
example : ConfigTables.CONFIG_KEYS_READ = ["currency_format".toList, kDataSources, "home_locations".toList, "home_state".toList,
    kMerchantsFile, kRuleMode, "travel_labels".toList, kViewsFile] := by decide +kernel
example : ConfigTables.RULE_MODES = [sFirstMatch, sMostSpecific] ∧ ConfigTables.DEFAULT_RULE_MODE = sFirstMatch ∧
    ConfigTables.FALLBACK_RULE_MODE = sFirstMatch := by decide +kernel
example : ConfigTables.RUN_PARSER_CHAIN = [sAmex, sBoa, "generic".toList] := by decide +kernel
example : ConfigTables.RUN_SOURCE_KEYS_READ = ["_format_spec".toList, "_parser_type".toList, "_supplemental".toList,
    kDecimalSeparator, kFile, kName, kType] := by decide +kernel
example : ConfigTables.SUPPLEMENTAL_DEFAULT_FALSE = true ∧ ConfigTables.SPEC_DELIMITER_DEFAULT_NONE = true ∧
    ConfigTables.PARENT_DIR = dotdot := by decide

end TallyVerif.Config
