import TallyVerif.Model.Num
import TallyVerif.Gen.ClassPy
/-!
M-Totals — `analyzer.analyze_transactions` (the figures part) as the fold it is.

The per-transaction classification is NOT hand-written: it is `Gen.ClassPy.categorize_amount`
and `Gen.ClassPy.normalize_amount`, regenerated from `classification.py` on every run.
Dictionaries (`defaultdict`) are association lists in first-insertion order (Python dicts keep
insertion order); `upsert` is `d[k] += v` on a defaultdict.
-/
namespace TallyVerif.Totals
open TallyVerif TallyVerif.Gen

structure Txn (α : Type) where
  amount : α
  tags : Option (List String)      -- `txn.get('tags', [])`
  merchant : String
  category : String
  subcategory : String
  month : String                   -- `txn['date'].strftime('%Y-%m')`
deriving Repr

/-- `d[k] = f(d[k])` on a `defaultdict` whose default is `dflt`. -/
def upsert {κ β : Type} [BEq κ] (k : κ) (dflt : β) (f : β → β) : List (κ × β) → List (κ × β)
  | [] => [(k, f dflt)]
  | (k', v) :: rest => if k' == k then (k', f v) :: rest else (k', v) :: upsert k dflt f rest

structure Stats (α : Type) where
  income : α
  spending : α
  credits : α
  transfersIn : α
  transfersOut : α
  investment : α
  byCategory : List ((String × String) × (Nat × α))
  byMerchant : List (String × (Nat × α))
  byMonth : List (String × α)
  count : Nat
  total : α                        -- Σ raw amounts
deriving Repr

def init (N : NumLike) : Stats N.α :=
  { income := N.zero, spending := N.zero, credits := N.zero, transfersIn := N.zero,
    transfersOut := N.zero, investment := N.zero, byCategory := [], byMerchant := [], byMonth := [],
    count := 0, total := N.zero }

/-- one iteration of `for txn in transactions:` -/
def step (N : NumLike) (lower : String → String) (s : Stats N.α) (t : Txn N.α) : Stats N.α :=
  let eff := ClassPy.normalize_amount N lower t.amount t.tags
  let cat := ClassPy.categorize_amount N lower t.amount t.tags
  { income := N.add s.income cat.income
    investment := N.add s.investment cat.investment
    spending := N.add s.spending cat.spending
    credits := N.add s.credits cat.credits
    transfersIn := N.add s.transfersIn cat.transfer_in
    transfersOut := N.add s.transfersOut cat.transfer_out
    byCategory := upsert (t.category, t.subcategory) (0, N.zero) (fun p => (p.1 + 1, N.add p.2 eff)) s.byCategory
    byMerchant := upsert t.merchant (0, N.zero) (fun p => (p.1 + 1, N.add p.2 eff)) s.byMerchant
    byMonth := upsert t.month N.zero (fun x => N.add x eff) s.byMonth
    count := s.count + 1
    total := N.add s.total t.amount }

def analyze (N : NumLike) (lower : String → String) (txns : List (Txn N.α)) : Stats N.α :=
  txns.foldl (step N lower) (init N)

def cashFlow (N : NumLike) (lower : String → String) (s : Stats N.α) : N.α :=
  ClassPy.calculate_cash_flow N lower s.income s.spending s.credits

def transfersNet (N : NumLike) (lower : String → String) (s : Stats N.α) : N.α :=
  ClassPy.calculate_transfers_net N lower s.transfersIn s.transfersOut

/-- `total_transactions = sum(d['total'] for d in by_merchant.values())` (Python `sum` starts at int 0). -/
def totalTransactions (N : NumLike) (s : Stats N.α) : N.α :=
  s.byMerchant.foldl (fun acc kv => N.add acc kv.2.2) N.zero

end TallyVerif.Totals
