/-
M-Fmt — format strings, header auto-detection and inspect's suggestion (property C18).

`Impl.parseFormat`  mirrors `format_parser.parse_format_string`          (hand model, tied by correspondence)
`Impl.detect`       mirrors `parsers.auto_detect_csv_format` after the header row has been read
`Impl.suggest`      mirrors the "Build suggested format string" block of `commands/inspect.cmd_inspect`

Constant tables (reserved names, required fields, default date formats, header keyword tables) come from
`Gen/FmtTables.lean`, REGENERATED from the sources on every run.

Strings are `List Char`.  What Python does to non-ASCII text is a parameter (`Ext`): `str.isspace`,
`\w` and `str.lower` are consulted only for non-ASCII characters / strings; ASCII is handled natively.
The two regular expressions are hand-written matchers:
  `matchTok`      = `re.compile(r'\{([-+]?)(\w+|\*)(?::([^}]+))?\}').match`   (PREFIX match, like `re.match`)
  `templateRefs`  = `re.findall(r'\{(\w+)\}', ·)`
Core Lean only (linked into `tvdrv`).
-/
import TallyVerif.Gen.FmtTables

namespace TallyVerif.Fmt
open TallyVerif.Gen

abbrev Str := List Char

/-! ### characters and Python string primitives -/

/-- what CPython does with non-ASCII text: parameters, quantified universally in every theorem -/
structure Ext where
  /-- `c.isspace()` for a non-ASCII character -/
  spaceNA : Char → Bool
  /-- `re.match(r'\w', c)` for a non-ASCII character -/
  wordNA : Char → Bool
  /-- `s.lower()` for a string that contains a non-ASCII character -/
  lowerNA : Str → Str

def isAscii (c : Char) : Bool := c.toNat < 128

/-- ASCII characters with `str.isspace()` true: TAB LF VT FF CR, FS GS RS US, SPACE -/
def asciiSpace (c : Char) : Bool :=
  (9 ≤ c.toNat && c.toNat ≤ 13) || (28 ≤ c.toNat && c.toNat ≤ 32)

/-- ASCII `\w`: letters, digits, underscore -/
def asciiWord (c : Char) : Bool :=
  (48 ≤ c.toNat && c.toNat ≤ 57) || (65 ≤ c.toNat && c.toNat ≤ 90) || (97 ≤ c.toNat && c.toNat ≤ 122) || c.toNat == 95

def asciiLower (c : Char) : Char :=
  if 65 ≤ c.toNat && c.toNat ≤ 90 then Char.ofNat (c.toNat + 32) else c

def Ext.isSpace (e : Ext) (c : Char) : Bool := if isAscii c then asciiSpace c else e.spaceNA c
def Ext.isWord (e : Ext) (c : Char) : Bool := if isAscii c then asciiWord c else e.wordNA c
/-- `str.lower()` -/
def Ext.lower (e : Ext) (s : Str) : Str := if s.all isAscii then s.map asciiLower else e.lowerNA s

/-- `str.strip()` -/
def strip (e : Ext) (s : Str) : Str :=
  (((s.dropWhile e.isSpace).reverse).dropWhile e.isSpace).reverse

/-- `str.split(',')`: never empty, `"".split(',') == ['']` -/
def splitComma : Str → List Str
  | [] => [[]]
  | c :: cs =>
    match splitComma cs with
    | [] => [[]]            -- unreachable (`splitComma_ne_nil`)
    | p :: ps => if c = ',' then [] :: p :: ps else (c :: p) :: ps

/-- `','.join(parts)` -/
def joinComma : List Str → Str
  | [] => []
  | [p] => p
  | p :: q :: r => p ++ ',' :: joinComma (q :: r)

/-- `sep.join(parts)` -/
def joinWith (sep : Str) : List Str → Str
  | [] => []
  | [p] => p
  | p :: q :: r => p ++ sep ++ joinWith sep (q :: r)

/-- `needle in hay` -/
def isInfix (needle : Str) : Str → Bool
  | [] => needle.isEmpty
  | c :: cs => needle.isPrefixOf (c :: cs) || isInfix needle cs

def lookup (k : Str) : List (Str × Nat) → Option Nat
  | [] => none
  | (k', v) :: r => if k' = k then some v else lookup k r

def keys (d : List (Str × Nat)) : List Str := d.map Prod.fst

/-! ### the token regex, as a prefix matcher -/

structure RawTok where
  /-- group 1: `'-'`, `'+'` or nothing -/
  sign : Option Char
  /-- group 2: `\w+` or `*` (as written, not yet lower-cased) -/
  name : Str
  /-- group 3: the text after `:` (never empty), if present -/
  spec : Option Str
deriving DecidableEq, Repr

/-- `([-+]?)` -/
def takeSign : Str → Option Char × Str
  | [] => (none, [])
  | c :: r => if c = '-' || c = '+' then (some c, r) else (none, c :: r)

/-- `(\w+|\*)`: greedy word, or a single star (`*` is not a word character, so the alternatives are disjoint) -/
def takeName (e : Ext) : Str → Option (Str × Str)
  | [] => none
  | c :: r =>
    if c = '*' then some (['*'], r)
    else if ((c :: r).takeWhile e.isWord).isEmpty then none
    else some ((c :: r).takeWhile e.isWord, (c :: r).dropWhile e.isWord)

/-- `(?::([^}]+))?\}`: `none` = no match, `some none` = `}` follows directly, `some (some f)` = `:f}` -/
def takeSpec : Str → Option (Option Str)
  | [] => none
  | c :: r =>
    if c = '}' then some none
    else if c = ':' then
      if (r.takeWhile (· != '}')).isEmpty then none
      else match r.dropWhile (· != '}') with
        | [] => none                 -- ran to the end of the string: no closing brace
        | _ :: _ => some (some (r.takeWhile (· != '}')))
    else none

/-- `\{([-+]?)(\w+|\*)(?::([^}]+))?\}` matched at the start of `s` (anything may follow the `}`).
The greedy choices are the only ones that can succeed (no backtracking is ever useful): a shorter `\w+`
is followed by a word character, which is neither `:` nor `}`; skipping `[-+]?` leaves `-`/`+`, which is
not a word character nor `*`; a shorter `[^}]+` is followed by a non-`}`; and skipping the optional group
leaves `:`, which is not `}`. -/
def matchTok (e : Ext) (s : Str) : Option RawTok :=
  match s with
  | [] => none
  | c :: r =>
    if c = '{' then
      match takeName e (takeSign r).2 with
      | none => none
      | some (name, r2) =>
        match takeSpec r2 with
        | none => none
        | some sp => some ⟨(takeSign r).1, name, sp⟩
    else none

/-- scanner state of `re.findall(r'\{(\w+)\}', t)`: outside, or inside `{` with the word read so far -/
def refsGo (e : Ext) : Option Str → Str → List Str
  | _, [] => []
  | none, c :: cs => if c = '{' then refsGo e (some []) cs else refsGo e none cs
  | some acc, c :: cs =>
    if e.isWord c then refsGo e (some (acc ++ [c])) cs
    else if c = '}' && !acc.isEmpty then acc :: refsGo e none cs
    else if c = '{' then refsGo e (some []) cs
    else refsGo e none cs

/-- `re.findall(r'\{(\w+)\}', t)` -/
def templateRefs (e : Ext) (t : Str) : List Str := refsGo e none t

/-! ### parse_format_string -/

def sDate : Str := ['d', 'a', 't', 'e']
def sAmount : Str := ['a', 'm', 'o', 'u', 'n', 't']
def sDescription : Str := ['d', 'e', 's', 'c', 'r', 'i', 'p', 't', 'i', 'o', 'n']
def sLocation : Str := ['l', 'o', 'c', 'a', 't', 'i', 'o', 'n']
def sUnderscore : Str := ['_']
def sStar : Str := ['*']

structure FormatSpec where
  dateColumn : Nat
  dateFormat : Str
  amountColumn : Nat
  descriptionColumn : Option Nat
  customCaptures : Option (List (Str × Nat))
  descriptionTemplate : Option Str
  extraFields : Option (List (Str × Nat))
  locationColumn : Option Nat
  negateAmount : Bool
  absAmount : Bool
deriving DecidableEq, Repr

/-- the `ValueError`s of `parse_format_string`, by raise site -/
inductive Err
  | invalidToken (idx : Nat)      -- "Invalid format at column idx"
  | dupField (idx : Nat)          -- "Duplicate field"
  | dupCustom (idx : Nat)         -- "Duplicate custom capture"
  | noDescription                 -- "Format must include {description} or custom captures"
  | needTemplate                  -- "Custom captures require a description template"
  | uncapturedRef (ref : Str)     -- "Description template references '{ref}' but it's not captured"
  | missingRequired               -- "Missing required fields"
  | keyError                      -- field_positions['date'] with 'date' not required (never with the current tables)
deriving DecidableEq, Repr

/-- the loop's mutable locals -/
structure St where
  fields : List (Str × Nat)       -- field_positions (insertion order)
  customs : List (Str × Nat)      -- custom_captures (insertion order)
  dateFormat : Str
  negate : Bool
  abs : Bool
deriving DecidableEq, Repr

def St.init : St := ⟨[], [], FmtTables.DEFAULT_DATE_FORMAT, false, false⟩

namespace Impl

/-- the body of `for idx, part in enumerate(parts)` after a successful match -/
def step (e : Ext) (idx : Nat) (st : St) (t : RawTok) : Except Err St :=
  let fname := e.lower t.name
  if fname = sUnderscore || fname = sStar then .ok st
  else if FmtTables.RESERVED_NAMES.contains fname then
    if (keys st.fields).contains fname then .error (.dupField idx)
    else
      let st := { st with fields := st.fields ++ [(fname, idx)] }
      let st := if fname = sDate then
          (match t.spec with
           | some f => if f.isEmpty then st else { st with dateFormat := f }
           | none => st)
        else st
      let st := if fname = sAmount then
          (if t.sign = some '-' then { st with negate := true }
           else if t.sign = some '+' then { st with abs := true } else st)
        else st
      .ok st
  else
    if (keys st.customs).contains fname then .error (.dupCustom idx)
    else .ok { st with customs := st.customs ++ [(fname, idx)] }

/-- `for idx, part in enumerate(parts)`: `parts` are the UNSTRIPPED pieces; strip, match, step -/
def loop (e : Ext) : Nat → St → List Str → Except Err St
  | _, st, [] => .ok st
  | idx, st, p :: ps =>
    match matchTok e (strip e p) with
    | none => .error (.invalidToken idx)
    | some t =>
      match step e idx st t with
      | .error err => .error err
      | .ok st' => loop e (idx + 1) st' ps

/-- `not description_template` -/
def tmplAbsent : Option Str → Bool
  | none => true
  | some t => t.isEmpty

/-- everything after the loop -/
def finish (e : Ext) (st : St) (tmpl : Option Str) : Except Err FormatSpec :=
  let hasDescription := (keys st.fields).contains sDescription
  let hasCustom0 := !st.customs.isEmpty
  let extra : Option (List (Str × Nat)) := if hasDescription && hasCustom0 then some st.customs else none
  let customs := if hasDescription && hasCustom0 then [] else st.customs
  let hasCustom := if hasDescription && hasCustom0 then false else hasCustom0
  if !hasDescription && !hasCustom then .error .noDescription
  else if hasCustom && tmplAbsent tmpl then .error .needTemplate
  else
    let refs := if tmplAbsent tmpl then [] else templateRefs e (tmpl.getD [])
    match refs.find? (fun r => !(keys customs).contains r) with
    | some r => .error (.uncapturedRef r)
    | none =>
      if FmtTables.REQUIRED.any (fun k => !(keys st.fields).contains k) then .error .missingRequired
      else
        match lookup sDate st.fields, lookup sAmount st.fields with
        | some d, some a =>
          .ok { dateColumn := d, dateFormat := st.dateFormat, amountColumn := a,
                descriptionColumn := lookup sDescription st.fields,
                customCaptures := if customs.isEmpty then none else some customs,
                descriptionTemplate := tmpl,
                extraFields := extra,
                locationColumn := lookup sLocation st.fields,
                negateAmount := st.negate, absAmount := st.abs }
        | _, _ => .error .keyError

/-- `parse_format_string(format_str, description_template)` -/
def parseFormat (e : Ext) (s : Str) (tmpl : Option Str) : Except Err FormatSpec :=
  match loop e 0 St.init (splitComma s) with
  | .error err => .error err
  | .ok st => finish e st tmpl

/-! ### auto_detect_csv_format (after `headers = next(csv.reader(f), None)`) -/

/-- `match_header(header, patterns)` -/
def matchHeader (e : Ext) (header : Str) (patterns : List Str) : Bool :=
  let h := strip e (e.lower header)
  patterns.any (fun p => isInfix p h)

structure Detected where
  date : Option Nat
  desc : Option Nat
  amount : Option Nat
  location : Option Nat
deriving DecidableEq, Repr

/-- one iteration of `for idx, header in enumerate(headers)`: the if/elif chain -/
def detectStep (e : Ext) (idx : Nat) (d : Detected) (h : Str) : Detected :=
  if d.date.isNone && matchHeader e h FmtTables.DATE_PATTERNS then { d with date := some idx }
  else if d.desc.isNone && matchHeader e h FmtTables.DESC_PATTERNS then { d with desc := some idx }
  else if d.amount.isNone && matchHeader e h FmtTables.AMOUNT_PATTERNS then { d with amount := some idx }
  else if d.location.isNone && matchHeader e h FmtTables.LOCATION_PATTERNS then { d with location := some idx }
  else d

def detectLoop (e : Ext) : Nat → Detected → List Str → Detected
  | _, d, [] => d
  | idx, d, h :: hs => detectLoop e (idx + 1) (detectStep e idx d h) hs

inductive DetectErr | empty | missing
deriving DecidableEq, Repr

/-- what inspect reads off the detected `FormatSpec` -/
structure DetectSpec where
  dateColumn : Nat
  dateFormat : Str
  descriptionColumn : Nat
  amountColumn : Nat
  locationColumn : Option Nat
deriving DecidableEq, Repr

def detect (e : Ext) (headers : List Str) : Except DetectErr DetectSpec :=
  if headers.isEmpty then .error .empty
  else
    match detectLoop e 0 ⟨none, none, none, none⟩ headers with
    | ⟨some d, some s, some a, l⟩ => .ok ⟨d, FmtTables.DETECT_DATE_FORMAT, s, a, l⟩
    | _ => .error .missing

/-! ### inspect: "Build suggested format string" -/

def tokDate (fmt : Str) : Str := ['{', 'd', 'a', 't', 'e', ':'] ++ fmt ++ ['}']
def tokDescription : Str := '{' :: sDescription ++ ['}']
def tokAmount : Str := '{' :: sAmount ++ ['}']
def tokLocation : Str := '{' :: sLocation ++ ['}']
def tokSkip : Str := ['{', '_', '}']

/-- the if/elif chain inside `for i in range(max_col + 1)` -/
def suggestTok (sp : DetectSpec) (i : Nat) : Str :=
  if i = sp.dateColumn then tokDate sp.dateFormat
  else if i = sp.descriptionColumn then tokDescription
  else if i = sp.amountColumn then tokAmount
  else if sp.locationColumn = some i then tokLocation
  else tokSkip

/-- `[f(i) for i in range(start, start + n)]` -/
def rangeMap {α : Type} (f : Nat → α) : Nat → Nat → List α
  | _, 0 => []
  | start, n + 1 => f start :: rangeMap f (start + 1) n

def maxCol (sp : DetectSpec) : Nat :=
  let m := max (max sp.dateColumn sp.descriptionColumn) sp.amountColumn
  match sp.locationColumn with
  | some l => max m l
  | none => m

/-- `', '.join(cols)` -/
def suggest (sp : DetectSpec) : Str :=
  joinWith [',', ' '] (rangeMap (suggestTok sp) 0 (maxCol sp + 1))

end Impl
/-! ### the property's vocabulary: column arrangements, spellings, the intended reading -/
namespace Spec

inductive Sign | asIs | negate | abs
deriving DecidableEq, Repr

/-- one column of an arrangement -/
inductive Col
  | date (fmt : Option Str)      -- `{date}` / `{date:fmt}`
  | description
  | amount (sign : Sign)         -- `{amount}` / `{-amount}` / `{+amount}`
  | location
  | custom (name : Str)          -- a named capture; `name` is the (lower-case) name it is known by
  | skip                         -- `{_}` / `{*}`
deriving DecidableEq, Repr

/-- how one column is written: blanks before the `{`, an ignored `-`/`+` (columns other than amount), the name as
written (letter case; `_` or `*` for a skipped column), an ignored `:spec` (columns other than date), and arbitrary
text after the `}` -/
structure Sp where
  pre : Str
  sign : Option Char
  name : Str
  spec : Option Str
  rest : Str
deriving DecidableEq, Repr

def Col.isDate : Col → Bool | .date _ => true | _ => false
def Col.isAmount : Col → Bool | .amount _ => true | _ => false
def Col.isDescription : Col → Bool | .description => true | _ => false
def Col.isLocation : Col → Bool | .location => true | _ => false

/-- the reserved field a column stands for -/
def Col.fieldName : Col → Option Str
  | .date _ => some sDate
  | .description => some sDescription
  | .amount _ => some sAmount
  | .location => some sLocation
  | _ => none

def Col.customName : Col → Option Str
  | .custom n => some n
  | _ => none

def fieldNames (cols : List Col) : List Str := cols.filterMap Col.fieldName
def customNames (cols : List Col) : List Str := cols.filterMap Col.customName

def Col.signOf (c : Col) (sp : Sp) : Option Char :=
  match c with
  | .amount .asIs => none
  | .amount .negate => some '-'
  | .amount .abs => some '+'
  | _ => sp.sign

def Col.specOf (c : Col) (sp : Sp) : Option Str :=
  match c with
  | .date f => f
  | _ => sp.spec

def signChars : Option Char → Str
  | none => []
  | some c => [c]

def specChars : Option Str → Str
  | none => []
  | some f => ':' :: f

/-- `{` sign name `:`spec `}` -/
def tokText (sign : Option Char) (name : Str) (spec : Option Str) : Str :=
  '{' :: (signChars sign ++ (name ++ (specChars spec ++ ['}'])))

def renderCol (p : Col × Sp) : Str := p.2.pre ++ (tokText (p.1.signOf p.2) p.2.name (p.1.specOf p.2) ++ p.2.rest)

/-- the format string that lists the columns in order -/
def render (scs : List (Col × Sp)) : Str := joinComma (scs.map renderCol)

def okSign (s : Option Char) : Bool := s = none || s = some '-' || s = some '+'
/-- a `:spec` (in particular a date format) that can be written at all: non-empty, without `}` and `,` -/
def okSpec : Option Str → Bool
  | none => true
  | some f => !f.isEmpty && !f.contains '}' && !f.contains ','
/-- `written` is a spelling of `canon`: word characters that lower-case to it -/
def okName (e : Ext) (written canon : Str) : Bool :=
  !written.isEmpty && written.all e.isWord && e.lower written == canon

/-- the spelling class (decidable): blanks are Python whitespace, the trailing text has no comma, names are case
variants, `{_}`/`{*}` for a skipped column, date formats are writable -/
def SpOK (e : Ext) (p : Col × Sp) : Bool :=
  p.2.pre.all e.isSpace && !p.2.rest.contains ',' && okSign p.2.sign && okSpec (p.1.specOf p.2) &&
  (match p.1 with
   | .date _ => okName e p.2.name sDate
   | .description => okName e p.2.name sDescription
   | .amount _ => okName e p.2.name sAmount
   | .location => okName e p.2.name sLocation
   | .custom n => okName e p.2.name n
   | .skip => p.2.name == sStar || okName e p.2.name sUnderscore)

/-- the references of a template that is present -/
def refsOf (e : Ext) (tmpl : Option Str) : List Str :=
  if Impl.tmplAbsent tmpl then [] else templateRefs e (tmpl.getD [])

/-- a well-formed arrangement (decidable): no reserved field and no capture name twice, capture names are not
reserved words, date and amount present, a description column or (captures and a template), and the template
only names captured columns (none at all when there is a description column) -/
def WellFormed (e : Ext) (cols : List Col) (tmpl : Option Str) : Prop :=
  (fieldNames cols).Nodup ∧ (customNames cols).Nodup ∧
  (∀ n ∈ customNames cols, FmtTables.RESERVED_NAMES.contains n = false) ∧
  cols.any Col.isDate = true ∧ cols.any Col.isAmount = true ∧
  (cols.any Col.isDescription = true ∨ (customNames cols ≠ [] ∧ Impl.tmplAbsent tmpl = false)) ∧
  (∀ r ∈ refsOf e tmpl, cols.any Col.isDescription = false ∧ r ∈ customNames cols)

instance (e : Ext) (cols : List Col) (tmpl : Option Str) : Decidable (WellFormed e cols tmpl) := by
  unfold WellFormed; infer_instance

/-- `(name, position)` of the capture columns, in order -/
def customsFrom : Nat → List Col → List (Str × Nat)
  | _, [] => []
  | i, .custom n :: cs => (n, i) :: customsFrom (i + 1) cs
  | i, _ :: cs => customsFrom (i + 1) cs

def dateFmtOf (cols : List Col) : Str :=
  match cols.find? Col.isDate with
  | some (.date (some f)) => f
  | _ => FmtTables.DEFAULT_DATE_FORMAT

def signModeOf (cols : List Col) : Sign :=
  match cols.find? Col.isAmount with
  | some (.amount s) => s
  | _ => .asIs

/-- the intended reading of an arrangement: every position is the column's index in the list -/
def specOf (cols : List Col) (tmpl : Option Str) : FormatSpec :=
  let hasDesc := cols.any Col.isDescription
  let cs := customsFrom 0 cols
  { dateColumn := (cols.findIdx? Col.isDate).getD 0
    dateFormat := dateFmtOf cols
    amountColumn := (cols.findIdx? Col.isAmount).getD 0
    descriptionColumn := cols.findIdx? Col.isDescription
    customCaptures := if hasDesc || cs.isEmpty then none else some cs
    descriptionTemplate := tmpl
    extraFields := if hasDesc && !cs.isEmpty then some cs else none
    locationColumn := cols.findIdx? Col.isLocation
    negateAmount := signModeOf cols == .negate
    absAmount := signModeOf cols == .abs }

end Spec

end TallyVerif.Fmt
