import TallyVerif.Model.Csv
import TallyVerif.Model.Engine
import TallyVerif.Model.Totals
import TallyVerif.Model.Migrate
/-!
M-Pipeline — `tally up` as the composition it is:

    report = analyze (concat (map parseAndClassify (non-supplemental sources)))

`parseSource` is `Csv.parseFile` (C05) on that source's own rows / format / settings; each parsed row is
classified by `classifyRow` = `normalize_merchant` on the engine path: field transforms
(`apply_transforms`), then `Engine.matchTxn` (C01/C02/C08/C09) with the supplemental rows, then the
Unknown fallback; the classified transactions are totalled by `Totals.analyze` (C06).
Core Lean only.

A budget's rules are one of three things (`Rulebook`): a `.rules` file (the engine, `hasEngine`), a LEGACY
`merchant_categories.csv` (`legacy := some …`: the tuple loop `Rules.legacy` of C01 over the per-tuple test of
`normalize_merchant` — expression-shaped patterns through the evaluator, otherwise `re.search` on the upper-cased
description followed by the `[amount…]` / `[date…]` / `[month…]` modifiers `Migrate.checkAll` of C14, tags through
`_resolve_dynamic_tags`), or nothing.  `upLoop` is `cmd_run`'s loop over the configured sources, for ANY classifier.
-/
namespace TallyVerif.Pipeline
open TallyVerif.Py TallyVerif.Expr TallyVerif.Rules TallyVerif.Engine

/-- `extract_merchant_name`: collapse whitespace, blank out everything but ASCII letters, first three
words, title-cased; "Unknown" when nothing is left -/
def titleWord (w : List Char) : List Char :=
  match w with
  | [] => []
  | c :: cs => c.toUpper :: cs.map Char.toLower

def extractMerchantName (description : String) : String :=
  let cleaned := description.toList.map (fun c => if c.isAlpha || isPySpace c then c else ' ')
  let words := (splitWs [] cleaned).take 3
  if words.isEmpty then "Unknown" else String.intercalate " " (words.map (fun w => String.ofList (titleWord w)))

/-- a parsed statement row as the classifier sees it -/
structure Row where
  description : String
  amount : UInt64                 -- float bits
  date : Option Date
  source : String
  location : Option String
  field : Option (List (String × String))

structure Classified where
  merchant : String
  category : String
  subcategory : String
  tags : List String
  amount : UInt64
  month : String
deriving Repr

/-- one tuple of `get_all_rules(<merchant_categories.csv>)`:
`(pattern, merchant, category, subcategory, parsed, 'user', tags)` -/
structure LegacyRule where
  rule : LRule                     -- `idx` = position in the file; `pattern` = `parsed.regex_pattern` (modifiers cut off)
  patternE : PExpr                 -- the pattern read by `parse_expression`; `none`: it raises ExpressionError
  mods : Migrate.Parsed            -- `[amount…]` / `[date…]` / `[month…]` conditions; thresholds EXACT, in units of 2^-1074
  tags : List TagSpec              -- the `Tags` cell, split at `|`

/-- a legacy CSV rule file as loaded, and the one thing its modifiers read from the outside world -/
structure LegacyBook where
  rules : List LegacyRule
  cutoff : Nat → Option Migrate.Date      -- `date.today() - timedelta(days=n)` for the `[date:lastNdays]` conditions present

structure Rulebook where
  mode : Mode
  variables : List (String × PExpr)
  transforms : List (String × PExpr)       -- (field name without the `field.` prefix, expression)
  rules : List RuleX
  hasEngine : Bool                         -- false: no `.rules` file (`_cached_engine is None`: the tuple loop runs)
  legacy : Option LegacyBook := none       -- the tuples of a legacy CSV file; `none`: no rules file at all (no tuple)

def ctxOfRow (fnames : List String) (sources : List (String × Val)) (r : Row) : Ctx :=
  { description := r.description, amount := .flt r.amount, date := r.date, source := r.source,
    location := r.location.getD "", field := r.field.map (fun f => f.map (fun kv => (kv.1, Val.str kv.2))),
    variables := [], sources := sources, functionNames := fnames }

/-- `apply_transforms`: each transform is evaluated on the transaction as the previous ones left it;
any exception skips it; a custom-field target needs a field dict.  The context is
`TransactionContext.from_transaction(transaction)` — WITHOUT the supplemental rows: a transform that names a
supplemental source raises ExpressionError and is skipped (`transform_sees_no_supplemental` in Props/C11) -/
def applyTransforms (o : Oracles) (fnames : List String) :
    List (String × PExpr) → Row → Except Err Row
  | [], r => .ok r
  | (name, e) :: rest, r =>
    match evalP true o (ctxOfRow fnames [] r) e with
    | .error (.unmodelled w) => .error (.unmodelled w)
    | .error _ => applyTransforms o fnames rest r
    | .ok v =>
      match pyStr o v with
      | .error (.unmodelled w) => .error (.unmodelled w)
      | .error _ => applyTransforms o fnames rest r
      | .ok s =>
        if name == "description" then applyTransforms o fnames rest { r with description := s }
        else match r.field with
          | none => applyTransforms o fnames rest r          -- `transaction['field']` is None: TypeError, skipped
          | some f => applyTransforms o fnames rest { r with field := some (Rules.setField name s f) }

def monthOf (d : Option Date) : String :=
  match d with
  | some d => pad 4 d.y ++ "-" ++ pad 2 d.m
  | none => ""

/-! ### the legacy tuple loop (`merchant_categories.csv`) -/

def startsWithS (s p : List Char) : Bool := isPrefixL p s

/-- `re.match(r'^(w1|w2|…)\s*C', s)` for alternatives none of which is a prefix of another: some alternative is a
prefix of `s`, then whitespace, then a character satisfying `C` -/
def wordThen (words : List String) (next : Char → Bool) (s : List Char) : Bool :=
  words.any fun w =>
    isPrefixL w.toList s &&
      (match ((s.drop w.length).dropWhile isPySpace).head? with
       | some c => next c
       | none => false)

/-- a parenthesised pattern that is just a literal or a name (`(123)`, `(1)`, `(source)`): `ast.parse(...).body` is a
`Constant` or a `Name` — a regex group around a word, not a condition (D1b repair) -/
def isAtomE : PExpr → Bool
  | some (.const _) => true
  | some (.name _) => true
  | _ => false

/-- `_is_expression_pattern`: does the Pattern cell look like an expression rather than a regular expression.
`e` is the cell as Python parses it (`none`: it does not parse / is not in the language). -/
def isExpressionPattern (pattern : String) (e : PExpr) : Bool :=
  let s := pattern.toList
  wordThen ["contains", "normalized", "anyof", "startswith", "fuzzy", "regex", "extract", "split", "substring", "trim", "exists"]
      (· == '(') s ||
    wordThen ["amount", "month", "year", "day", "source", "description"]
      (fun c => c == '<' || c == '>' || c == '=' || c == '!') s ||
    isPrefixL "field.".toList s || containsL " and ".toList s || containsL " or ".toList s ||
    (isPrefixL ['('] s && !isAtomE e)

/-- the EXACT value of a finite double, in units of 2^-1074 (the spacing of the subnormals, so every finite double is
an integer number of units); `none` for ±inf and NaN.  Pure bit arithmetic: kernel-evaluable. -/
def unitsOfBits (b : UInt64) : Option Int :=
  let n := b.toNat
  let e := (n / 2 ^ 52) % 2048
  let m := n % 2 ^ 52
  if e == 2047 then none
  else
    let mag : Nat := if e == 0 then m else (2 ^ 52 + m) * 2 ^ (e - 1)
    some (if n / 2 ^ 63 == 1 then -(mag : Int) else (mag : Int))

/-- the double `0.01` (0x3F847AE147AE147B) in those units: the tolerance of `[amount=v]` -/
def epsUnits : Int := 0x147AE147AE147B * 2 ^ 1015

example : unitsOfBits 0x3F847AE147AE147B = some epsUnits := by decide +kernel
/-- 15.99 = 0x402FFAE147AE147B is 9001569755206779 · 2^-49 exactly; −2.5; the smallest subnormal; +inf -/
example : unitsOfBits 0x402FFAE147AE147B = some (9001569755206779 * 2 ^ (1074 - 49)) ∧
    unitsOfBits 0xC004000000000000 = some (-(5 * 2 ^ 1073)) ∧ unitsOfBits 1 = some 1 ∧
    unitsOfBits 0x7FF0000000000000 = none := by decide +kernel

def toMDate (d : Date) : Migrate.Date := ⟨d.y, d.m, d.d⟩

def needsCutoff : Migrate.DateCond → Option Nat
  | .relative n => some n
  | _ => none

/-- the regex arm of one tuple's test: `re.search(pattern, description.upper(), re.IGNORECASE)`, then — only when
the tuple carries modifiers — `check_all_conditions(parsed, amount, txn_date)`; `re.error` skips the tuple -/
def legacyRegex (o : Oracles) (cutoff : Nat → Option Migrate.Date) (row : Row) (r : LegacyRule) : Except Err LOutcome := do
  let du ← pyUpper o row.description
  match o.reSearch r.rule.pattern du with
  | none => needE "re_search" [r.rule.pattern, du]
  | some none => pure .skipped
  | some (some false) => pure .noMatch
  | some (some true) =>
    if r.mods.amount.isEmpty && r.mods.date.isEmpty then pure .matched
    else if !(r.mods.date.all fun c => match needsCutoff c with | some n => (cutoff n).isSome | none => true) then
      .error (.unmodelled "relative date modifier without a cutoff")
    else
      match unitsOfBits row.amount with
      | none => .error (.unmodelled "modifier on a non-finite amount")
      | some a =>
        pure (if Migrate.checkAll epsUnits (fun n => (cutoff n).getD ⟨0, 0, 0⟩) r.mods (some a) (row.date.map toMDate)
              then .matched else .noMatch)

/-- the test `normalize_merchant` applies to one tuple: an expression-shaped pattern is handed to
`expr_parser.matches_transaction` WITH the supplemental rows; when that raises ExpressionError (it does not parse,
names an unknown variable …) the pattern is a regular expression after all (D1 repair) -/
def legacyOutcome (o : Oracles) (fnames : List String) (cutoff : Nat → Option Migrate.Date) (sources : List (String × Val))
    (row : Row) (r : LegacyRule) : Except Err LOutcome :=
  if isExpressionPattern r.rule.pattern r.patternE then
    match caught (evalP true o (ctxOfRow fnames sources row) r.patternE) with
    | .abort e => .error e
    | .val v => pure (if truthy v then .matched else .noMatch)
    | .skipped => legacyRegex o cutoff row r
  else legacyRegex o cutoff row r

/-- `_resolve_dynamic_tags`: static tags lower-cased; `{expr}` evaluated on the transaction (no supplemental rows, no
variables), kept when truthy and not blank after `str(value).strip()`, lower-cased; ExpressionError skips the tag.
A list: duplicates stay (the loop de-duplicates at the end). -/
def resolveDynamicTags (o : Oracles) (ctx : Ctx) : List TagSpec → Except Err (List String)
  | [] => .ok []
  | .blank :: rest => resolveDynamicTags o ctx rest
  | .static t :: rest => do
    let l ← pyLower o t
    let more ← resolveDynamicTags o ctx rest
    pure (l :: more)
  | .dynamic e :: rest =>
    match caught (evalP true o ctx e) with
    | .abort err => .error err
    | .skipped => resolveDynamicTags o ctx rest
    | .val v => do
      let here ← (if !truthy v then pure [] else do
        let s ← pyStr o v
        let st := pyStrip s
        if st.isEmpty then pure [] else do
          let l ← pyLower o st
          pure [l] : Except Err (List String))
      let more ← resolveDynamicTags o ctx rest
      pure (here ++ more)

/-- the body of `for rule in rules:` for one tuple: its test, and — only if it matches — its tags -/
def legacyEvalRule (o : Oracles) (fnames : List String) (cutoff : Nat → Option Migrate.Date) (sources : List (String × Val))
    (row : Row) (r : LegacyRule) : Except Err LEval := do
  let out ← legacyOutcome o fnames cutoff sources row r
  match out with
  | .matched => do
    let tags ← resolveDynamicTags o (ctxOfRow fnames [] row) r.tags
    pure ⟨.matched, tags⟩
  | x => pure ⟨x, []⟩

def legacyEvalRules (o : Oracles) (fnames : List String) (cutoff : Nat → Option Migrate.Date) (sources : List (String × Val))
    (row : Row) : List LegacyRule → Except Err (List (LRule × LEval))
  | [] => .ok []
  | r :: rest => do
    let e ← legacyEvalRule o fnames cutoff sources row r
    let es ← legacyEvalRules o fnames cutoff sources row rest
    pure ((r.rule, e) :: es)

def levOf (table : List (LRule × LEval)) (r : LRule) : LEval :=
  match table.find? (fun p => p.1.idx == r.idx) with
  | some p => p.2
  | none => ⟨.noMatch, []⟩

/-- `normalize_merchant` on the legacy path (no cached engine) for a transaction as the transforms left it -/
def classifyLegacy (o : Oracles) (fnames : List String) (sources : List (String × Val)) (lb : LegacyBook)
    (row : Row) : Except Err LResult := do
  let table ← legacyEvalRules o fnames lb.cutoff sources row lb.rules
  pure (Rules.legacy (levOf table) (extractMerchantName row.description) (lb.rules.map (·.rule)))

/-- `normalize_merchant` for one parsed row: transforms, then the cached engine if there is one, otherwise the tuple
loop over the legacy rules (over no tuple at all when there is no rules file: the Unknown fallback) -/
def classifyRow (o : Oracles) (fnames : List String) (key : Rule → Key) (sources : List (String × Val))
    (rb : Rulebook) (r : Row) : Except Err Classified := do
  let r' ← applyTransforms o fnames rb.transforms r
  if !rb.hasEngine then
    match rb.legacy with
    | none => pure ⟨extractMerchantName r'.description, "Unknown", "Unknown", [], r.amount, monthOf r.date⟩
    | some lb =>
      let res ← classifyLegacy o fnames sources lb r'
      pure ⟨res.merchant, res.category, res.subcategory, res.tags, r.amount, monthOf r.date⟩
  else
    let res ← matchTxn true true key o (ctxOfRow fnames sources r') rb.mode rb.variables rb.rules
    let (m, c, s) := normalizeEngine res (extractMerchantName r'.description)
    pure ⟨m, c, s, res.tags, r.amount, monthOf r.date⟩

/-! ### `tally discover` on the same classification

`cmd_discover` parses and classifies every source exactly as `cmd_run` does (transaction by transaction: each one
with its own date, source, location and captured columns), keeps what is left `Unknown`, and groups it by RAW
description — first appearance first — with a count and Σ |amount| (`desc_stats[raw]['total'] += abs(amount)`). -/

/-- one classified transaction as `discover` looks at it: raw description, category, amount -/
abbrev DTxn (α : Type) := String × String × α

def discoverG (N : NumLike) (txns : List (DTxn N.α)) : List (String × (Nat × N.α)) :=
  (txns.filter (fun t => t.2.1 == "Unknown")).foldl
    (fun m t => Totals.upsert t.1 (0, N.zero) (fun p => (p.1 + 1, N.add p.2 (N.abs t.2.2))) m) []

/-- the parsed rows of all sources, each classified on its own -/
def classifyRows (o : Oracles) (fnames : List String) (key : Rule → Key) (sources : List (String × Val))
    (rb : Rulebook) : List Row → Except Err (List (Row × Classified))
  | [] => .ok []
  | r :: rest => do
    let c ← classifyRow o fnames key sources rb r
    let cs ← classifyRows o fnames key sources rb rest
    pure ((r, c) :: cs)

/-- `tally discover` for parsed rows -/
def discoverRows (o : Oracles) (fnames : List String) (key : Rule → Key) (sources : List (String × Val))
    (rb : Rulebook) (rows : List Row) : Except Err (List (String × (Nat × Float))) :=
  (classifyRows o fnames key sources rb rows).map fun cs =>
    discoverG floatNum (cs.map fun rc => (rc.1.description, rc.2.category, Float.ofBits rc.2.amount))

/-! ### `cmd_run`: the loop over the configured sources, for any classifier -/

/-- a configured data source as `cmd_run` meets it -/
structure Source where
  supplemental : Bool
  /-- the rows `parse_generic_csv` reads from the file with THIS source's format / delimiter / header / decimal /
  sign settings (before classification); `none`: the file is missing or reading it raises ("Error parsing") -/
  parsed : Option (List Row)

/-- the rows a source contributes once it is known to be an ordinary one -/
def Source.rows (s : Source) : List Row := s.parsed.getD []

/-- classify a statement row by row, in order; the first failure (the model declining) aborts -/
def classifyAll (classify : Row → Except Err Classified) : List Row → Except Err (List Classified)
  | [] => .ok []
  | r :: rest => do
    let c ← classify r
    let cs ← classifyAll classify rest
    pure (c :: cs)

/-- one iteration of `for source in data_sources:` — `all_txns.extend(txns)` unless the source is supplemental
(`continue`), missing (`continue`) or unreadable (`except Exception: continue`) -/
def upStep (classify : Row → Except Err Classified) (acc : Except Err (List Classified)) (s : Source) :
    Except Err (List Classified) := do
  let sofar ← acc
  if s.supplemental then pure sofar else
  match s.parsed with
  | none => pure sofar
  | some rows => do
    let cls ← classifyAll classify rows
    pure (sofar ++ cls)

/-- `cmd_run`'s transaction list: `classify` is `normalize_merchant` with the budget's rules (ANY of the three
kinds of `Rulebook`), transforms and supplemental rows -/
def upLoop (classify : Row → Except Err Classified) (sources : List Source) : Except Err (List Classified) :=
  sources.foldl (upStep classify) (.ok [])

/-- a classified transaction as `analyze_transactions` sees it, for any reading `amt` of the amount's bits
(`Float.ofBits` in the driver; exact cents in the theorems) -/
def toTotalsG {α : Type} (amt : UInt64 → α) (c : Classified) : Totals.Txn α :=
  { amount := amt c.amount, tags := some c.tags, merchant := c.merchant, category := c.category,
    subcategory := c.subcategory, month := c.month }

/-- the figures of the report -/
def reportG (N : NumLike) (lower : String → String) (amt : UInt64 → N.α) (cls : List Classified) : Totals.Stats N.α :=
  Totals.analyze N lower (cls.map (toTotalsG amt))

def toTotals (c : Classified) : Totals.Txn Float :=
  { amount := Float.ofBits c.amount, tags := some c.tags, merchant := c.merchant, category := c.category,
    subcategory := c.subcategory, month := c.month }

end TallyVerif.Pipeline
