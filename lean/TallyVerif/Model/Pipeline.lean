import TallyVerif.Model.Csv
import TallyVerif.Model.Engine
import TallyVerif.Model.Totals
/-!
M-Pipeline — `tally up` as the composition it is:

    report = analyze (concat (map parseAndClassify (non-supplemental sources)))

`parseSource` is `Csv.parseFile` (C05) on that source's own rows / format / settings; each parsed row is
classified by `classifyRow` = `normalize_merchant` on the engine path: field transforms
(`apply_transforms`), then `Engine.matchTxn` (C01/C02/C08/C09) with the supplemental rows, then the
Unknown fallback; the classified transactions are totalled by `Totals.analyze` (C06).
Core Lean only.  Legacy-CSV rule files are not composed here (their loop is `Rules.legacy`, C01/C14).
-/
namespace TallyVerif.Pipeline
open TallyVerif.Py TallyVerif.Expr TallyVerif.Rules TallyVerif.Engine

/-- `extract_merchant_name`: collapse whitespace, blank out everything but ASCII letters, first three
words, title-cased; "Unknown" when nothing is left -/
def titleWord (w : List Char) : List Char :=
  match w with
  | [] => []
  | c :: cs => c.toUpper :: cs.map Char.toLower

def extractMerchantName (description : String) : String :=
  let cleaned := description.toList.map (fun c => if c.isAlpha || isPySpace c then c else ' ')
  let words := (splitWs [] cleaned).take 3
  if words.isEmpty then "Unknown" else String.intercalate " " (words.map (fun w => String.ofList (titleWord w)))

/-- a parsed statement row as the classifier sees it -/
structure Row where
  description : String
  amount : UInt64                 -- float bits
  date : Option Date
  source : String
  location : Option String
  field : Option (List (String × String))

structure Classified where
  merchant : String
  category : String
  subcategory : String
  tags : List String
  amount : UInt64
  month : String
deriving Repr

structure Rulebook where
  mode : Mode
  variables : List (String × PExpr)
  transforms : List (String × PExpr)       -- (field name without the `field.` prefix, expression)
  rules : List RuleX
  hasEngine : Bool                         -- false: no rules file (everything falls back to Unknown)

def ctxOfRow (fnames : List String) (sources : List (String × Val)) (r : Row) : Ctx :=
  { description := r.description, amount := .flt r.amount, date := r.date, source := r.source,
    location := r.location.getD "", field := r.field.map (fun f => f.map (fun kv => (kv.1, Val.str kv.2))),
    variables := [], sources := sources, functionNames := fnames }

/-- `apply_transforms`: each transform is evaluated on the transaction as the previous ones left it;
any exception skips it; a custom-field target needs a field dict -/
def applyTransforms (o : Oracles) (fnames : List String) (sources : List (String × Val)) :
    List (String × PExpr) → Row → Except Err Row
  | [], r => .ok r
  | (name, e) :: rest, r =>
    match evalP true o (ctxOfRow fnames sources r) e with
    | .error (.unmodelled w) => .error (.unmodelled w)
    | .error _ => applyTransforms o fnames sources rest r
    | .ok v =>
      match pyStr o v with
      | .error (.unmodelled w) => .error (.unmodelled w)
      | .error _ => applyTransforms o fnames sources rest r
      | .ok s =>
        if name == "description" then applyTransforms o fnames sources rest { r with description := s }
        else match r.field with
          | none => applyTransforms o fnames sources rest r          -- `transaction['field']` is None: TypeError, skipped
          | some f => applyTransforms o fnames sources rest { r with field := some (Rules.setField name s f) }

def monthOf (d : Option Date) : String :=
  match d with
  | some d => pad 4 d.y ++ "-" ++ pad 2 d.m
  | none => ""

/-- `normalize_merchant` (engine path) for one parsed row -/
def classifyRow (o : Oracles) (fnames : List String) (key : Rule → Key) (sources : List (String × Val))
    (rb : Rulebook) (r : Row) : Except Err Classified := do
  let r' ← applyTransforms o fnames sources rb.transforms r
  if !rb.hasEngine then
    pure ⟨extractMerchantName r'.description, "Unknown", "Unknown", [], r.amount, monthOf r.date⟩
  else
    let res ← matchTxn true true key o (ctxOfRow fnames sources r') rb.mode rb.variables rb.rules
    let (m, c, s) := normalizeEngine res (extractMerchantName r'.description)
    pure ⟨m, c, s, res.tags, r.amount, monthOf r.date⟩

/-! ### `tally discover` on the same classification

`cmd_discover` parses and classifies every source exactly as `cmd_run` does (transaction by transaction: each one
with its own date, source, location and captured columns), keeps what is left `Unknown`, and groups it by RAW
description — first appearance first — with a count and Σ |amount| (`desc_stats[raw]['total'] += abs(amount)`). -/

/-- one classified transaction as `discover` looks at it: raw description, category, amount -/
abbrev DTxn (α : Type) := String × String × α

def discoverG (N : NumLike) (txns : List (DTxn N.α)) : List (String × (Nat × N.α)) :=
  (txns.filter (fun t => t.2.1 == "Unknown")).foldl
    (fun m t => Totals.upsert t.1 (0, N.zero) (fun p => (p.1 + 1, N.add p.2 (N.abs t.2.2))) m) []

/-- the parsed rows of all sources, each classified on its own -/
def classifyRows (o : Oracles) (fnames : List String) (key : Rule → Key) (sources : List (String × Val))
    (rb : Rulebook) : List Row → Except Err (List (Row × Classified))
  | [] => .ok []
  | r :: rest => do
    let c ← classifyRow o fnames key sources rb r
    let cs ← classifyRows o fnames key sources rb rest
    pure ((r, c) :: cs)

/-- `tally discover` for parsed rows -/
def discoverRows (o : Oracles) (fnames : List String) (key : Rule → Key) (sources : List (String × Val))
    (rb : Rulebook) (rows : List Row) : Except Err (List (String × (Nat × Float))) :=
  (classifyRows o fnames key sources rb rows).map fun cs =>
    discoverG floatNum (cs.map fun rc => (rc.1.description, rc.2.category, Float.ofBits rc.2.amount))

def toTotals (c : Classified) : Totals.Txn Float :=
  { amount := Float.ofBits c.amount, tags := some c.tags, merchant := c.merchant, category := c.category,
    subcategory := c.subcategory, month := c.month }

end TallyVerif.Pipeline
