import TallyVerif.Model.RulesFile
/-!
M-Discover — what `tally discover` proposes for an uncategorised description, and how the rules loader
and the matcher read that proposal back.

* `Impl.suggestPattern`       mirrors `commands/discover.py: suggest_pattern`
* `Impl.suggestMerchantName`  mirrors `suggest_merchant_name`
* `Impl.suggestRule`          mirrors `suggest_merchants_rule` (the `suggested_rule` of `--format json`)
* `pyStrLit`                  what CPython's tokenizer makes of the text between the quotes of `contains("…")`
* `containsCI`                `pattern.upper() in text.upper()`  (`expr_parser._fn_contains`)
* `matchesSuggested`          the suggested rule, loaded, matches the description it was suggested for
* `Fixed.*`                   the same pipeline with the repair of notes/fix_D19.diff applied

Text is `List Char`.  ASCII is handled natively; everything CPython does with non-ASCII characters is a
field of `Oracles` (the harness ships the real tables with each case; theorems hold for every value).
Each `re.sub` of the cleaning pipeline is a hand-written total function, tied to CPython by correspondence:
  `\s+\d{4,}.*$` → `cutAt numP`      `\s+[A-Z]{2}$` → `cutAt (stateP ci)`     `\s+\d{5}$` → `cutAt zipP`
  `\s+#\d+` (all occurrences) → `delStore`          `\s+DES:.*$`, `\s+ID:.*$` (IGNORECASE) → `cutAt (keyP …)`
`.` does not match `'\n'` and `$` matches at the end or just before a final `'\n'`: `lineEnd` / `tailNL`.
All of these regexes start with `\s+` followed by a non-space atom, so a match at position `i` needs the
maximal white-space run from `i`; the leftmost match is found by scanning (`cutAt`), and because the match
extends to the end of the text (or to its final newline) there is at most one replacement.
-/
namespace TallyVerif.Discover
open TallyVerif.RulesFile

/-- what CPython knows about non-ASCII characters (only ever consulted for code points ≥ 128) -/
structure Oracles where
  upNA : Char → Str            -- `str.upper()` of one character (may be several: 'ß' → "SS")
  lowNA : Char → Str           -- `str.lower()` of one character
  titleNA : Char → Str         -- title-case mapping of one character
  casedNA : Char → Bool        -- `_PyUnicode_IsCased`
  digitNA : Char → Bool        -- regex `\d`
  foldNA : Char → Option Char  -- the ASCII capital letter this character equals under `re.IGNORECASE` (ſ, K, ı, İ)

/-- the oracle for pure-ASCII text -/
def asciiOracles : Oracles :=
  { upNA := fun c => [c], lowNA := fun c => [c], titleNA := fun c => [c], casedNA := fun _ => false,
    digitNA := fun _ => false, foldNA := fun _ => none }

def isAscii (c : Char) : Bool := c.toNat < 128
def upChar (c : Char) : Char := if isLower c then Char.ofNat (c.toNat - 32) else c

def upperC (o : Oracles) (c : Char) : Str := if isAscii c then [upChar c] else o.upNA c
def lowerC (o : Oracles) (c : Char) : Str := if isAscii c then [lowerChar c] else o.lowNA c
def titleC (o : Oracles) (c : Char) : Str := if isAscii c then [upChar c] else o.titleNA c
def casedC (o : Oracles) (c : Char) : Bool := if isAscii c then isUpper c || isLower c else o.casedNA c
def digitC (o : Oracles) (c : Char) : Bool := if isAscii c then isDigit c else o.digitNA c

/-- `str.upper()` -/
def upper (o : Oracles) (s : Str) : Str := s.flatMap (upperC o)

/-- `[A-Z]`, with `re.IGNORECASE` when `ci` -/
def azC (o : Oracles) (ci : Bool) (c : Char) : Bool :=
  if isAscii c then isUpper c || (ci && isLower c) else ci && (o.foldNA c).isSome

/-- a literal capital letter (or `:`) of a pattern compiled with `re.IGNORECASE` against one character -/
def ciEq (o : Oracles) (k c : Char) : Bool :=
  if isAscii c then upChar c == k else o.foldNA c == some k

/-! ### `.*$` -/

/-- `.*$` matches all of `s`: no newline except possibly as the very last character -/
def lineEnd : Str → Bool
  | [] => true
  | [_] => true
  | c :: d :: cs => c != '\n' && lineEnd (d :: cs)

/-- what `.*$` leaves unconsumed: the final newline, if there is one -/
def tailNL (s : Str) : Str := if s.getLast? == some '\n' then ['\n'] else []

/-- scan for the leftmost position where `P` (a test on the remaining text that returns what the
substitution leaves of it) succeeds; `re.sub(pattern, '', s)` for a pattern that runs to the end -/
def cutAt (P : Str → Option Str) : Str → Str
  | [] => []
  | c :: cs =>
    match P (c :: cs) with
    | some tl => tl
    | none => c :: cutAt P cs

/-- the remaining text starts with white space; hands the text after the white-space run to `k` -/
def afterWs (s : Str) (k : Str → Option Str) : Option Str :=
  match s with
  | c :: _ => if isSpace c then k (s.dropWhile isSpace) else none
  | [] => none

def allN (p : Char → Bool) (n : Nat) (r : Str) : Bool := (r.take n).length == n && (r.take n).all p

/-- `\s+\d{4,}.*$` at the start of `s` -/
def numP (o : Oracles) (s : Str) : Option Str :=
  afterWs s fun r => if allN (digitC o) 4 r && lineEnd (r.drop 4) then some (tailNL (r.drop 4)) else none

/-- `$` after the required part: nothing, or exactly the final newline -/
def atEnd (r : Str) : Option Str :=
  match r with
  | [] => some []
  | ['\n'] => some ['\n']
  | _ => none

/-- `\s+[A-Z]{2}$` at the start of `s` -/
def stateP (o : Oracles) (ci : Bool) (s : Str) : Option Str :=
  afterWs s fun r => if allN (azC o ci) 2 r then atEnd (r.drop 2) else none

/-- `\s+\d{5}$` at the start of `s` -/
def zipP (o : Oracles) (s : Str) : Option Str :=
  afterWs s fun r => if allN (digitC o) 5 r then atEnd (r.drop 5) else none

/-- case-insensitive literal prefix -/
def ciPrefix (o : Oracles) : Str → Str → Bool
  | [], _ => true
  | _ :: _, [] => false
  | k :: ks, c :: cs => ciEq o k c && ciPrefix o ks cs

/-- `\s+KEY.*$` (IGNORECASE) at the start of `s` -/
def keyP (o : Oracles) (key : Str) (s : Str) : Option Str :=
  afterWs s fun r =>
    if ciPrefix o key r && lineEnd (r.drop key.length) then some (tailNL (r.drop key.length)) else none

/-- length of a `\s+#\d+` match at the start of `s` (0 = no match) -/
def storeLen (o : Oracles) (s : Str) : Nat :=
  match s with
  | c :: _ =>
    if isSpace c then
      match s.dropWhile isSpace with
      | '#' :: r =>
        if (r.takeWhile (digitC o)).isEmpty then 0
        else (s.takeWhile isSpace).length + 1 + (r.takeWhile (digitC o)).length
      | _ => 0
    else 0
  | [] => 0

/-- `re.sub(r'\s+#\d+', '', s)`: every occurrence, leftmost first; `skip` = characters of the current
match still to be dropped -/
def delStore (o : Oracles) : Nat → Str → Str
  | _, [] => []
  | skip + 1, _ :: cs => delStore o skip cs
  | 0, c :: cs =>
    if storeLen o (c :: cs) = 0 then c :: delStore o 0 cs else delStore o (storeLen o (c :: cs) - 1) cs

/-- `\s+#\d+.*$` at the start of `s` (the repaired store-number rule) -/
def storeCutP (o : Oracles) (s : Str) : Option Str :=
  afterWs s fun r =>
    match r with
    | '#' :: d :: rest => if digitC o d && lineEnd rest then some (tailNL rest) else none
    | _ => none

/-! ### prefixes, escaping, words -/

def patPrefixes : List Str :=
  ["APLPAY ".toList, "SQ *".toList, "TST*".toList, "SP ".toList, "PP*".toList, "GOOGLE *".toList]
def namePrefixes : List Str :=
  ["APLPAY ".toList, "SQ *".toList, "TST*".toList, "TST* ".toList, "SP ".toList, "PP*".toList, "GOOGLE *".toList]

/-- `for prefix in prefixes: if desc.startswith(prefix): desc = desc[len(prefix):]` -/
def dropPrefixes (ps : List Str) (x : Str) : Str :=
  ps.foldl (fun x p => if p.isPrefixOf x then x.drop p.length else x) x

/-- `for prefix in prefixes: if desc.upper().startswith(prefix.upper()): desc = desc[len(prefix):]`
(the prefixes are upper-case ASCII, `prefix.upper()` is the prefix) -/
def dropPrefixesCI (o : Oracles) (ps : List Str) (x : Str) : Str :=
  ps.foldl (fun x p => if p.isPrefixOf (upper o x) then x.drop p.length else x) x

/-- the class `[.*+?^${}()|[\]\\]` -/
def metaChars : Str := ['.', '*', '+', '?', '^', '$', '{', '}', '(', ')', '|', '[', ']', '\\']
def isMeta (c : Char) : Bool := metaChars.contains c

def escC (c : Char) : Str := if isMeta c then ['\\', c] else [c]
/-- `re.sub(r'([.*+?^${}()|[\]\\])', r'\\\1', desc)` -/
def escapeRe (s : Str) : Str := s.flatMap escC

def consNE (w : Str) (ws : List Str) : List Str := if w.isEmpty then ws else w :: ws

/-- (the word in progress at the head of the text, the complete words after it) -/
def splitGo : Str → Str × List Str
  | [] => ([], [])
  | c :: cs => if isSpace c then ([], consNE (splitGo cs).1 (splitGo cs).2) else (c :: (splitGo cs).1, (splitGo cs).2)

/-- `str.split()` -/
def splitWs (s : Str) : List Str := consNE (splitGo s).1 (splitGo s).2

/-- `sep.join(words)` -/
def joinWith (sep : Str) : List Str → Str
  | [] => []
  | [w] => w
  | w :: w' :: ws => w ++ sep ++ joinWith sep (w' :: ws)

def reWs : Str := ['\\', 's', '*']

/-! ### the two suggestions -/

/-- the cleaning part of `suggest_pattern`, up to and including `desc.strip()` -/
def clean (o : Oracles) (d : Str) : Str :=
  let x1 := cutAt (numP o) (upper o d)
  let x2 := cutAt (stateP o false) x1
  let x3 := cutAt (zipP o) x2
  let x4 := delStore o 0 x3
  strip (dropPrefixes patPrefixes x4)

/-- escape, `split()[:3]`, `r'\s*'.join(words)` -/
def patternOf (x : Str) : Str :=
  let e := escapeRe x
  let words := (splitWs e).take 3
  if words.isEmpty then e else joinWith reWs words

/-- `str.title()` ; `prev` = the previous character is cased -/
def titleGo (o : Oracles) : Bool → Str → Str
  | _, [] => []
  | prev, c :: cs => (if prev then lowerC o c else titleC o c) ++ titleGo o (casedC o c) cs

def unknownName : Str := "Unknown".toList

namespace Impl

/-- `suggest_pattern(description)` -/
def suggestPattern (o : Oracles) (d : Str) : Str := patternOf (clean o d)

/-- `suggest_merchant_name(description)` -/
def suggestMerchantName (o : Oracles) (d : Str) : Str :=
  let d1 := dropPrefixesCI o namePrefixes d
  let d2 := cutAt (numP o) d1
  let d3 := cutAt (stateP o true) d2
  let d4 := cutAt (zipP o) d3
  let d5 := delStore o 0 d4
  let d6 := cutAt (keyP o "DES:".toList) d5
  let d7 := cutAt (keyP o "ID:".toList) d6
  let words := (splitWs d7).take 3
  if words.isEmpty then unknownName else titleGo o false (joinWith [' '] words)

end Impl

/-! ### the rule text -/

/-- `pattern.replace('"', '\\"')` -/
def quoteEsc (p : Str) : Str := p.flatMap fun c => if c == '"' then ['\\', '"'] else [c]

/-- `contains("{escaped_pattern}")` -/
def matchExprText (p : Str) : Str :=
  ['c', 'o', 'n', 't', 'a', 'i', 'n', 's', '(', '"'] ++ quoteEsc p ++ ['"', ')']

def kMatch : Str := ['m', 'a', 't', 'c', 'h']
def kCategory : Str := ['c', 'a', 't', 'e', 'g', 'o', 'r', 'y']
def kSubcategory : Str := ['s', 'u', 'b', 'c', 'a', 't', 'e', 'g', 'o', 'r', 'y']
def kTags : Str := ['t', 'a', 'g', 's']

/-- `key: value` -/
def kwLine (key v : Str) : Str := key ++ ':' :: ' ' :: v

/-- the lines of the rule block, with the two placeholders filled in by `cat` / `sub` -/
def ruleLines (matchExpr name cat sub : Str) (tags : List Str) : List Str :=
  ['[' :: name ++ [']'], kwLine kMatch matchExpr, kwLine kCategory cat, kwLine kSubcategory sub] ++
  (if tags.isEmpty then [] else [kwLine kTags (joinWith [',', ' '] tags)])

def placeholderCat : Str := ['C', 'A', 'T', 'E', 'G', 'O', 'R', 'Y']
def placeholderSub : Str := ['S', 'U', 'B', 'C', 'A', 'T', 'E', 'G', 'O', 'R', 'Y']

/-- non-empty, no white space at either end (so `strip` leaves it alone) -/
def trimmedB (x : Str) : Bool :=
  match x.head?, x.getLast? with
  | some a, some b => !isSpace a && !isSpace b
  | _, _ => false

namespace Impl
/-- `suggest_merchants_rule(merchant_name, pattern, tags)` as the list of its lines (the text is the
lines joined by `'\n'`) -/
def suggestRule (name p : Str) (tags : List Str) : List Str :=
  ruleLines (matchExprText p) name placeholderCat placeholderSub tags
end Impl

/-- characters that, after a backslash, start an escape sequence denoting some other character
(`\n`, `\t`, `\x..`, `\N{..}`, `\u....`, octal, line continuation) -/
def escLetters : Str :=
  ['n', 't', 'r', 'a', 'b', 'f', 'v', 'x', 'N', 'u', 'U', '\n', '0', '1', '2', '3', '4', '5', '6', '7']

/-- CPython's decoding of the body of a non-raw `"…"` literal, for the escapes a suggestion can contain:
`\\` → `\`, `\"` → `"`, `\'` → `'`; a backslash before a character that starts no escape sequence is
kept (with a SyntaxWarning that `parse_expression` silences).  `esc` = the previous character was a
backslash that has not been consumed.  `none` = outside this fragment: a bare `"`, newline or NUL (the
literal would end early / the source is refused), a trailing backslash, or an escape that denotes
another character. -/
def pyLit : Bool → Str → Option Str
  | false, [] => some []
  | true, [] => none
  | false, c :: cs =>
    if c == '\\' then pyLit true cs
    else if c == '"' || c == '\n' || c == '\r' || c.toNat == 0 then none
    else (pyLit false cs).map (c :: ·)
  | true, c :: cs =>
    if c == '\\' || c == '"' || c == '\'' then (pyLit false cs).map (c :: ·)
    else if escLetters.contains c || c == '\r' || c.toNat == 0 then none
    else (pyLit false cs).map fun l => '\\' :: c :: l

def pyStrLit (s : Str) : Option Str := pyLit false s

/-- `List.isInfixOf` as a Boolean -/
def isInfixB (p : Str) : Str → Bool
  | [] => p.isEmpty
  | c :: cs => p.isPrefixOf (c :: cs) || isInfixB p cs

/-- `contains(pattern)`: `pattern.upper() in description.upper()` -/
def containsCI (o : Oracles) (p t : Str) : Bool := isInfixB (upper o p) (upper o t)

/-- the literal the loaded rule carries: the text between the quotes of `contains("…")`, decoded -/
def literalOf (p : Str) : Option Str := pyStrLit (quoteEsc p)

/-- the rule suggested for `d`, loaded, matches `d` -/
def matchesSuggested (o : Oracles) (d : Str) : Bool :=
  match literalOf (Impl.suggestPattern o d) with
  | some lit => containsCI o lit d
  | none => false


/-! ### the class of descriptions on which the unrepaired suggestion provably matches -/

/-- the description after the three "cut the tail" rules, before store numbers are deleted -/
def preStoreU (o : Oracles) (U : Str) : Str :=
  cutAt (zipP o) (cutAt (stateP o false) (cutAt (numP o) U))
def preStore (o : Oracles) (d : Str) : Str := preStoreU o (upper o d)

/-- `Plain d`: (1) deleting store numbers (`\s+#\d+`) removes nothing or only a tail — no store number in the
middle (the complement is D19b); (2) the cleaned description is a single word; (3) it contains no regex
metacharacter other than the backslash (the complement of (2), (3) is D19a) and no NUL (Python source
cannot contain one: such a rule does not load). -/
def plainB (o : Oracles) (d : Str) : Bool :=
  (delStore o 0 (preStore o d)).isPrefixOf (preStore o d) &&
  (clean o d).all fun c => !isSpace c && !(isMeta c && c != '\\') && c.toNat != 0

/-! ### the repaired pipeline (notes/fix_D19.diff)

1. the store-number rule becomes `\s+#\d+.*$` — cut at the store number like the other three rules,
   instead of deleting it from the middle;
2. a pattern that contains regex syntax (any backslash) is wrapped in `regex(r"…")`; a pattern that is a
   literal word stays `contains("…")`;
3. (`…Keep`, optional third change) upper-casing keeps the characters whose upper-case form is longer than
   one character. -/
namespace Fixed

/-- the repaired cleaning, from the upper-cased description `U` on -/
def cleanU (o : Oracles) (U : Str) : Str :=
  strip (dropPrefixes patPrefixes (cutAt (storeCutP o) (preStoreU o U)))

def clean (o : Oracles) (d : Str) : Str := cleanU o (upper o d)

def suggestPattern (o : Oracles) (d : Str) : Str := patternOf (clean o d)

/-- third change of the full repair: characters whose upper-case form is longer than one character
('ß' → "SS", ligatures, …) are kept as they are — `re.IGNORECASE` could not match the expansion back -/
def upperKeepC (o : Oracles) (c : Char) : Str := if (upperC o c).length == 1 then upperC o c else [c]
def upperKeep (o : Oracles) (s : Str) : Str := s.flatMap (upperKeepC o)
def cleanKeep (o : Oracles) (d : Str) : Str := cleanU o (upperKeep o d)
def suggestPatternKeep (o : Oracles) (d : Str) : Str := patternOf (cleanKeep o d)

def isRegexSyntax (p : Str) : Bool := p.contains '\\'

def matchExprText (p : Str) : Str :=
  if isRegexSyntax p then ['r', 'e', 'g', 'e', 'x', '(', 'r', '"'] ++ quoteEsc p ++ ['"', ')']
  else Discover.matchExprText p

def suggestRule (name p : Str) (tags : List Str) : List Str :=
  ruleLines (matchExprText p) name placeholderCat placeholderSub tags

/-- the body of a raw `r"…"` literal is kept verbatim; well-formed = every `"` is preceded by a
backslash that is not itself escaped, no newline, no dangling backslash -/
def rawLitOk : Str → Bool
  | [] => true
  | '\\' :: c :: rest => c != '\n' && c != '\r' && rawLitOk rest
  | ['\\'] => false
  | c :: rest => c != '"' && c != '\n' && c != '\r' && rawLitOk rest

/-- the rule suggested for `d`, loaded, matches `d`; `reSearch p t` = `re.compile(p, re.I).search(t)` -/
def matchesSuggested (o : Oracles) (reSearch : Str → Str → Bool) (d : Str) : Bool :=
  let p := suggestPattern o d
  if isRegexSyntax p then rawLitOk (quoteEsc p) && reSearch (quoteEsc p) d
  else match literalOf p with
    | some lit => containsCI o lit d
    | none => false

/-- the words the emitted regex is made of (before escaping) -/
def regexWords (o : Oracles) (d : Str) : List Str := (splitWs (clean o d)).take 3
def regexWordsKeep (o : Oracles) (d : Str) : List Str := (splitWs (cleanKeep o d)).take 3

/-- the text starts with a member of the language of `w1\s*w2\s*…` (each `w` read literally).  Every word
starts with a non-space character, so the greedy `\s*` consumes exactly the white-space run. -/
def langAt : List Str → Str → Bool
  | [], _ => true
  | [w], t => w.isPrefixOf t
  | w :: w' :: ws, t => w.isPrefixOf t && langAt (w' :: ws) ((t.drop w.length).dropWhile isSpace)

/-- `search`: some suffix of the text starts with a member of the language -/
def langSearch (words : List Str) : Str → Bool
  | [] => langAt words []
  | c :: cs => langAt words (c :: cs) || langSearch words cs

end Fixed

end TallyVerif.Discover
