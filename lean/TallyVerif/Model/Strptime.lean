import TallyVerif.Model.Csv
/-!
# M-Strptime — `datetime.strptime(text, format)` (CPython 3.12 `Lib/_strptime.py`), used by property C05 (and C18)

`parsers.parse_generic_csv` reads the date cell with `datetime.strptime(date_str, format_spec.date_format)`.  This file
is that function, structure for structure:

* `scan` / `compile` = `TimeRE.pattern` + `re.compile(…, IGNORECASE)`: the format becomes a sequence of `Item`s - a run of
  white space becomes `\s+`, `%x` becomes the named group of its directive (`directive`: the alternations of
  `TimeRE.__init__`, as ordered lists of fixed sequences of one-character classes), any other character a literal.  A `%` at
  the end is `stray`, a `%` before an unknown key (or before a character `pattern` has escaped / replaced) is
  `badDirective` (both `ValueError`); the same directive twice is `re.error` (*redefinition of group name* - **not** a
  `ValueError`); a directive outside the model is the explicit outcome `unsupported`.
* `matchItems` = `format_regex.match(data_string)`: a backtracking matcher for exactly this shape of pattern - alternatives
  in the order written, `\s+` greedy (longest first), the first success in that priority order wins.
  `Lemmas/Strptime.lean` proves it equal to the declarative "first choice vector in priority order that matches a prefix".
* `convert` = the `for group_key in found_dict.keys()` loop (in group order), `finish` = everything after it: defaults
  1900-01-01, the `%y` pivot, the Feb-29-without-year fix, `%j`, and the range checks of the `date` / `datetime`
  constructors.

Characters are Unicode: `\d`, `int()`, IGNORECASE and `str.lower()` consult CPython's character database.  Those tables
are the parameter `Tables` (every theorem quantifies over it; `TablesOk` says only what they do on ASCII).  White space is
`Csv.isPySpace` (compared with `str.isspace` over all code points on every run).  Month / weekday / AM-PM names are those
of the C locale (the harness asserts that this is the locale `_strptime` sees).

Core Lean only (the driver links this file).
-/
namespace TallyVerif.Strptime
open TallyVerif.Csv (Str isPySpace)

/-! ## character tables (CPython's Unicode database: parameters) -/

structure Tables where
  /-- `Py_UNICODE_TODECIMAL`: `\d` matches `c` iff this is `some _`; `int()` reads that value -/
  digitVal : Char → Option Nat
  /-- does the pattern literal `c`, compiled under `re.IGNORECASE`, match the text character `t`? -/
  ciMatch : (c t : Char) → Bool
  /-- `str.lower()` of one character (may be several characters) -/
  lower : Char → Str

def isAscii (c : Char) : Bool := c.toNat < 128

def asciiLower (c : Char) : Char := if 65 ≤ c.toNat ∧ c.toNat ≤ 90 then Char.ofNat (c.toNat + 32) else c

def asciiUpper (c : Char) : Char := if 97 ≤ c.toNat ∧ c.toNat ≤ 122 then Char.ofNat (c.toNat - 32) else c

/-- the tables restricted to what they say about ASCII (used by the concrete examples; the driver overrides them with
CPython's answers for every non-ASCII character of the case) -/
def asciiTables : Tables where
  digitVal := Csv.digitVal?
  ciMatch c t := asciiLower c == asciiLower t
  lower c := [asciiLower c]

/-- What every theorem assumes about the tables: on ASCII they are the obvious ones, and a literal matches itself. -/
structure TablesOk (T : Tables) : Prop where
  digit_ascii : ∀ c, isAscii c = true → T.digitVal c = Csv.digitVal? c
  ci_ascii : ∀ c t, isAscii c = true → isAscii t = true → T.ciMatch c t = (asciiLower c == asciiLower t)
  ci_refl : ∀ c, T.ciMatch c c = true
  space_not_digit : ∀ c, isPySpace c = true → T.digitVal c = none
  lower_ascii : ∀ c, isAscii c = true → T.lower c = [asciiLower c]

/-! ## the compiled pattern -/

/-- a one-character class -/
inductive CC
  /-- `\d` -/
  | digit
  /-- `[lo-hi]` (in `TimeRE`: ranges of ASCII digits, which have no case) -/
  | range (lo hi : Char)
  /-- a literal of a directive's own regex that has no case (a digit, the blank of `%d`) -/
  | exact (c : Char)
  /-- a literal under IGNORECASE -/
  | ci (c : Char)
deriving DecidableEq, Repr

def CC.matches (T : Tables) : CC → Char → Bool
  | .digit, t => (T.digitVal t).isSome
  | .range lo hi, t => lo.toNat ≤ t.toNat && t.toNat ≤ hi.toNat
  | .exact c, t => t == c
  | .ci c, t => T.ciMatch c t

inductive Item
  /-- `(?P<name>alt₁|alt₂|…)` -/
  | group (name : Char) (alts : List (List CC))
  /-- `\s+` (with the white space of the format it came from) -/
  | spaces (run : Str)
  /-- one literal character -/
  | lit (c : Char)
deriving DecidableEq, Repr

/-! ### C-locale names (`calendar.month_abbr` …, lower-cased by `LocaleTime`) -/

def aMonth : List Str := ["jan", "feb", "mar", "apr", "may", "jun", "jul", "aug", "sep", "oct", "nov", "dec"].map String.toList
def fMonth : List Str := ["january", "february", "march", "april", "may", "june", "july", "august", "september", "october",
  "november", "december"].map String.toList
def aWeekday : List Str := ["mon", "tue", "wed", "thu", "fri", "sat", "sun"].map String.toList
def fWeekday : List Str := ["monday", "tuesday", "wednesday", "thursday", "friday", "saturday", "sunday"].map String.toList
def amPm : List Str := ["am", "pm"].map String.toList

/-- insert keeping longer (or equally long, earlier) entries in front -/
def insertByLen (x : Str) : List Str → List Str
  | [] => [x]
  | y :: ys => if x.length ≤ y.length then y :: insertByLen x ys else x :: y :: ys

/-- `sorted(names, key=len, reverse=True)` (stable) -/
def sortByLenDesc (l : List Str) : List Str := l.foldl (fun acc x => insertByLen x acc) []

/-- `TimeRE.__seqToRE`: longest first, each name a sequence of case-insensitive literals -/
def seqToRE (names : List Str) : List (List CC) := (sortByLenDesc names).map fun n => n.map CC.ci

private def D : CC := .digit
private def R (a b : Char) : CC := .range a b
private def E (c : Char) : CC := .exact c

inductive Dir
  | group (alts : List (List CC))
  /-- `%%` -/
  | percent
  /-- a key of `TimeRE` that this model does not cover: `%c %x %X %U %W %G %V %z %Z` -/
  | unsupported
  /-- not a key of `TimeRE`: `KeyError` → `ValueError` -/
  | bad

/-- `TimeRE.__init__`: the regular expression of each directive -/
def directive : Char → Dir
  | 'd' => .group [[E '3', R '0' '1'], [R '1' '2', D], [E '0', R '1' '9'], [R '1' '9'], [E ' ', R '1' '9']]
  | 'f' => .group ((List.range 6).reverse.map fun n => List.replicate (n + 1) (R '0' '9'))      -- `[0-9]{1,6}`, greedy
  | 'H' => .group [[E '2', R '0' '3'], [R '0' '1', D], [D]]
  | 'I' => .group [[E '1', R '0' '2'], [E '0', R '1' '9'], [R '1' '9']]
  | 'j' => .group [[E '3', E '6', R '0' '6'], [E '3', R '0' '5', D], [R '1' '2', D, D], [E '0', R '1' '9', D],
                   [E '0', E '0', R '1' '9'], [R '1' '9', D], [E '0', R '1' '9'], [R '1' '9']]
  | 'm' => .group [[E '1', R '0' '2'], [E '0', R '1' '9'], [R '1' '9']]
  | 'M' => .group [[R '0' '5', D], [D]]
  | 'S' => .group [[E '6', R '0' '1'], [R '0' '5', D], [D]]
  | 'w' => .group [[R '0' '6']]
  | 'u' => .group [[R '1' '7']]
  | 'y' => .group [[D, D]]
  | 'Y' => .group [[D, D, D, D]]
  | 'A' => .group (seqToRE fWeekday)
  | 'a' => .group (seqToRE aWeekday)
  | 'B' => .group (seqToRE fMonth)
  | 'b' => .group (seqToRE aMonth)
  | 'p' => .group (seqToRE amPm)
  | '%' => .percent
  | 'c' | 'x' | 'X' | 'U' | 'W' | 'G' | 'V' | 'z' | 'Z' => .unsupported
  | _ => .bad

/-- the characters `TimeRE.pattern` escapes with a backslash before it looks for directives -/
def isRegexSpecial (c : Char) : Bool :=
  c == '\\' || c == '.' || c == '^' || c == '$' || c == '*' || c == '+' || c == '?' || c == '(' || c == ')' ||
  c == '{' || c == '}' || c == '[' || c == ']' || c == '|'

inductive StrpErr
  /-- `ValueError: stray % in format` -/
  | stray
  /-- `ValueError: 'x' is a bad directive in format` -/
  | badDirective
  /-- `re.error: redefinition of group name` - the same directive twice; NOT a `ValueError` -/
  | reError
  /-- a directive this model does not cover -/
  | unsupported
  /-- `ValueError: time data … does not match format` -/
  | noMatch
  /-- `ValueError: unconverted data remains: rest` -/
  | unconverted (rest : Str)
  /-- `ValueError: … is not in list` (a name that matched only through case folding) -/
  | notInList
  /-- `ValueError` of the `date` / `datetime` constructors and `date.fromordinal` -/
  | outOfRange
deriving DecidableEq, Repr

/-- extend the white-space run an item list begins with -/
def consSpace (c : Char) : List Item → List Item
  | .spaces run :: is => .spaces (c :: run) :: is
  | is => .spaces [c] :: is

/-- `TimeRE.pattern`: escape, white-space runs ↦ `\s+`, directives ↦ their regex, left to right -/
def scan : Str → Except StrpErr (List Item)
  | [] => .ok []
  | c :: r =>
    if c = '%' then
      match r with
      | [] => .error .stray
      | k :: r' =>
        -- after escaping / white-space replacement the character following `%` would be a backslash: `KeyError('\\')`
        if isRegexSpecial k || isPySpace k then .error .badDirective else
        match directive k with
        | .bad => .error .badDirective
        | .unsupported => .error .unsupported
        | .percent => (scan r').map (Item.lit '%' :: ·)
        | .group alts => (scan r').map (Item.group k alts :: ·)
    else if isPySpace c then (scan r).map (consSpace c) else (scan r).map (Item.lit c :: ·)

def groupNames : List Item → List Char
  | [] => []
  | .group n _ :: is => n :: groupNames is
  | _ :: is => groupNames is

def hasDup : List Char → Bool
  | [] => false
  | c :: cs => cs.contains c || hasDup cs

/-- `TimeRE.compile` -/
def compile (fmt : Str) : Except StrpErr (List Item) :=
  match scan fmt with
  | .error e => .error e
  | .ok items => if hasDup (groupNames items) then .error .reError else .ok items

/-! ## matching: `format_regex.match(data_string)` -/

/-- a fixed sequence of classes against the start of the text: (matched text, rest) -/
def matchAlt (T : Tables) : List CC → Str → Option (Str × Str)
  | [], s => some ([], s)
  | _ :: _, [] => none
  | cc :: ccs, t :: s =>
    if cc.matches T t then (matchAlt T ccs s).map fun (m, r) => (t :: m, r) else none

/-- first success, in list order -/
def firstSome {α β : Type} (f : α → Option β) : List α → Option β
  | [] => none
  | a :: as => match f a with
    | some b => some b
    | none => firstSome f as

/-- `f k` for `k = n, n-1, …, 1`: first success (`\s+` is greedy and gives back one character at a time) -/
def tryDown {β : Type} (f : Nat → Option β) : Nat → Option β
  | 0 => none
  | k + 1 => match f (k + 1) with
    | some b => some b
    | none => tryDown f k

/-- number of leading white-space characters -/
def spaceRun : Str → Nat
  | [] => 0
  | c :: s => if isPySpace c then spaceRun s + 1 else 0

abbrev Caps := List (Char × Str)

/-- the backtracking matcher: captured groups in group order, and the text after the match (`found.end()`) -/
def matchItems (T : Tables) : List Item → Str → Option (Caps × Str)
  | [], s => some ([], s)
  | .lit c :: is, s =>
    match s with
    | [] => none
    | t :: r => if T.ciMatch c t then matchItems T is r else none
  | .spaces _ :: is, s => tryDown (fun k => matchItems T is (s.drop k)) (spaceRun s)
  | .group n alts :: is, s =>
    firstSome (fun alt =>
      match matchAlt T alt s with
      | none => none
      | some (m, r) => (matchItems T is r).map fun (caps, rest) => ((n, m) :: caps, rest)) alts

/-! ## conversion -/

/-- value of a digit string (most significant first); `none` if a character is not a decimal digit or there is none -/
def natOfDigits (T : Tables) : Nat → Bool → Str → Option Nat
  | acc, any, [] => if any then some acc else none
  | acc, _, c :: s => match T.digitVal c with
    | some d => natOfDigits T (10 * acc + d) true s
    | none => none

/-- `int(text)`: surrounding white space is ignored (`%d` may capture `' 5'`); `none` = `ValueError` -/
def pyInt (T : Tables) (s : Str) : Option Nat := natOfDigits T 0 false (Csv.strip s)

/-- `text.lower()` -/
def lowerStr (T : Tables) (s : Str) : Str := s.flatMap T.lower

/-- `names.index(x)` counted from `base`; `none` = `ValueError` -/
def indexFrom (base : Nat) (x : Str) : List Str → Option Nat
  | [] => none
  | n :: ns => if n = x then some base else indexFrom (base + 1) x ns

structure Acc where
  year : Option Nat := none
  month : Nat := 1
  day : Nat := 1
  hour : Nat := 0
  minute : Nat := 0
  second : Nat := 0
  fraction : Nat := 0
  julian : Option Nat := none
deriving DecidableEq, Repr

def capOf (caps : Caps) (k : Char) : Option Str :=
  match caps with
  | [] => none
  | (n, v) :: r => if n = k then some v else capOf r k

def intOr (T : Tables) (s : Str) : Except StrpErr Nat :=
  match pyInt T s with
  | some n => .ok n
  | none => .error .outOfRange

/-- one iteration of `for group_key in found_dict.keys()` (`all` = the whole `found_dict`, for `%I`'s look at `%p`) -/
def convertOne (T : Tables) (all : Caps) (a : Acc) (k : Char) (v : Str) : Except StrpErr Acc :=
  match k with
  | 'y' => (intOr T v).map fun n => { a with year := some (if n ≤ 68 then n + 2000 else n + 1900) }
  | 'Y' => (intOr T v).map fun n => { a with year := some n }
  | 'm' => (intOr T v).map fun n => { a with month := n }
  | 'B' => match indexFrom 1 (lowerStr T v) fMonth with
    | some i => .ok { a with month := i }
    | none => .error .notInList
  | 'b' => match indexFrom 1 (lowerStr T v) aMonth with
    | some i => .ok { a with month := i }
    | none => .error .notInList
  | 'd' => (intOr T v).map fun n => { a with day := n }
  | 'H' => (intOr T v).map fun n => { a with hour := n }
  | 'I' => (intOr T v).map fun n =>
    let ampm := lowerStr T ((capOf all 'p').getD [])
    if ampm = [] ∨ ampm = "am".toList then { a with hour := if n = 12 then 0 else n }
    else if ampm = "pm".toList then { a with hour := if n = 12 then n else n + 12 }
    else { a with hour := n }
  | 'M' => (intOr T v).map fun n => { a with minute := n }
  | 'S' => (intOr T v).map fun n => { a with second := n }
  | 'f' => (intOr T (v ++ List.replicate (6 - v.length) '0')).map fun n => { a with fraction := n }
  -- the weekday is computed and then not used by `datetime.strptime` (it matters only with %U %W %G %V); the lookup can
  -- still fail
  | 'A' => match indexFrom 0 (lowerStr T v) fWeekday with
    | some _ => .ok a
    | none => .error .notInList
  | 'a' => match indexFrom 0 (lowerStr T v) aWeekday with
    | some _ => .ok a
    | none => .error .notInList
  | 'w' => (intOr T v).map fun _ => a
  | 'u' => (intOr T v).map fun _ => a
  | 'j' => (intOr T v).map fun n => { a with julian := some n }
  | _ => .ok a      -- 'p': read by 'I'

def convertGo (T : Tables) (all : Caps) : Acc → Caps → Except StrpErr Acc
  | a, [] => .ok a
  | a, (k, v) :: r => match convertOne T all a k v with
    | .error e => .error e
    | .ok a' => convertGo T all a' r

def convert (T : Tables) (caps : Caps) : Except StrpErr Acc := convertGo T caps {} caps

/-! ### the calendar (`datetime.date`) -/

def isLeap (y : Nat) : Bool := y % 4 == 0 && (y % 100 != 0 || y % 400 == 0)

def daysInMonth (y m : Nat) : Nat :=
  if m = 2 then (if isLeap y then 29 else 28)
  else if m = 4 ∨ m = 6 ∨ m = 9 ∨ m = 11 then 30 else 31

/-- `date(y, m, d)` does not raise -/
def validDate (y m d : Nat) : Bool :=
  1 ≤ y && y ≤ 9999 && 1 ≤ m && m ≤ 12 && 1 ≤ d && d ≤ daysInMonth y m

/-- day `j ≥ 1` of year `y`, walking the months `ms`: the month and day, or what is left after the last month -/
def ydayIn (y : Nat) : List Nat → Nat → Nat × Nat ⊕ Nat
  | [], j => .inr j
  | m :: ms, j => if j ≤ daysInMonth y m then .inl (m, j) else ydayIn y ms (j - daysInMonth y m)

def months : List Nat := [1, 2, 3, 4, 5, 6, 7, 8, 9, 10, 11, 12]

/-- `date.fromordinal(j - 1 + date(y, 1, 1).toordinal())` for `1 ≤ y ≤ 9999`, `j ≤ 366` (what `%j` can capture) -/
def dateOfYday (y j : Nat) : Except StrpErr (Nat × Nat × Nat) :=
  if j = 0 then (if 2 ≤ y then .ok (y - 1, 12, 31) else .error .outOfRange) else
  match ydayIn y months j with
  | .inl (m, d) => .ok (y, m, d)
  | .inr left =>
    -- beyond 31 December: day `left` of the next year (366 in a common year = 1 January)
    if y + 1 ≤ 9999 ∧ left ≤ 31 then .ok (y + 1, 1, left) else .error .outOfRange

structure DateTime where
  year : Nat
  month : Nat
  day : Nat
  hour : Nat := 0
  minute : Nat := 0
  second : Nat := 0
  micro : Nat := 0
deriving DecidableEq, Repr

/-- `datetime(y, m, d, H, M, S, us)` does not raise -/
def DateTime.valid (t : DateTime) : Bool :=
  validDate t.year t.month t.day && t.hour ≤ 23 && t.minute ≤ 59 && t.second ≤ 59 && t.micro ≤ 999999

/-- `cls(*args)`: the `datetime` constructor checks every field -/
def checked (t : DateTime) : Except StrpErr DateTime := if t.valid then .ok t else .error .outOfRange

/-- `leap_year_fix`: no year, 29 February -/
def leapFixOf (a : Acc) : Bool := a.year.isNone && a.month == 2 && a.day == 29

/-- the year the calendar computations use: the one read, else 1900 (1904 under `leap_year_fix`) -/
def yearOf (a : Acc) : Nat :=
  match a.year with
  | some y => y
  | none => if leapFixOf a then 1904 else 1900

/-- year, month, day after the `julian` computations -/
def ymdOf (year : Nat) (a : Acc) : Except StrpErr (Nat × Nat × Nat) :=
  match a.julian with
  | none =>
    -- `julian = datetime_date(year, month, day).toordinal() - …`: the constructor checks the date
    if validDate year a.month a.day then .ok (year, a.month, a.day) else .error .outOfRange
  | some j =>
    -- `datetime_date.fromordinal((julian - 1) + datetime_date(year, 1, 1).toordinal())`
    if 1 ≤ year ∧ year ≤ 9999 then dateOfYday year j else .error .outOfRange

/-- `_strptime` after the loop, then `_strptime_datetime`: `cls(*args)` -/
def finish (a : Acc) : Except StrpErr DateTime :=
  match ymdOf (yearOf a) a with
  | .error e => .error e
  | .ok (y, m, d) =>
    -- `if leap_year_fix: year = 1900`
    checked { year := if leapFixOf a then 1900 else y, month := m, day := d, hour := a.hour, minute := a.minute,
              second := a.second, micro := a.fraction }

/-- `datetime.strptime(text, fmt)` -/
def strptime (T : Tables) (fmt text : Str) : Except StrpErr DateTime :=
  match compile fmt with
  | .error e => .error e
  | .ok items =>
    match matchItems T items text with
    | none => .error .noMatch
    | some (caps, rest) =>
      if rest ≠ [] then .error (.unconverted rest) else
      match convert T caps with
      | .error e => .error e
      | .ok a => finish a

/-! ## `datetime.isoformat()` (how a transaction's date is written down when results are compared) -/

open TallyVerif.Csv (digitChar)
def pad2 (n : Nat) : Str := [digitChar (n / 10 % 10), digitChar (n % 10)]
def pad4 (n : Nat) : Str := [digitChar (n / 1000 % 10), digitChar (n / 100 % 10), digitChar (n / 10 % 10), digitChar (n % 10)]
def pad6 (n : Nat) : Str := [digitChar (n / 100000 % 10), digitChar (n / 10000 % 10), digitChar (n / 1000 % 10),
  digitChar (n / 100 % 10), digitChar (n / 10 % 10), digitChar (n % 10)]

def isoformat (t : DateTime) : Str :=
  pad4 t.year ++ '-' :: pad2 t.month ++ '-' :: pad2 t.day ++ 'T' :: pad2 t.hour ++ ':' :: pad2 t.minute ++ ':' :: pad2 t.second ++
    (if t.micro = 0 then [] else '.' :: pad6 t.micro)

/-! ## writing dates: `strftime` for the directives `%Y %y %m %d %b %B %H %M %S`

`renderItems` writes a date the way the compiled format says: a literal as itself, a white-space run as itself, a directive
as `strftime` writes it (zero padded, month names capitalised).  A `Spell` per item describes the other spellings `strptime`
accepts: a one-digit day / month / hour / minute / second, other white space, another letter case of the month name.
(`strftime` / `strftimeWith` are compared with CPython's `datetime.strftime` by the harness.) -/

def aMonthCap : List Str := ["Jan", "Feb", "Mar", "Apr", "May", "Jun", "Jul", "Aug", "Sep", "Oct", "Nov", "Dec"].map String.toList
def fMonthCap : List Str := ["January", "February", "March", "April", "May", "June", "July", "August", "September", "October",
  "November", "December"].map String.toList

/-- how one item of the format is spelled in the text -/
structure Spell where
  /-- a numeric field below 10 is written with one digit -/
  unpad : Bool := false
  /-- the white space written for a white-space run of the format (default: the run itself) -/
  blanks : Option Str := none
  /-- the month name as written (default: capitalised, as `strftime` writes it) -/
  name : Option Str := none
deriving DecidableEq, Repr

def num2 (sp : Spell) (n : Nat) : Str := if sp.unpad ∧ n < 10 then [digitChar n] else pad2 n

/-- what is written for the group `%k` -/
def renderGroup (sp : Spell) (t : DateTime) (k : Char) : Str :=
  if k = 'Y' then pad4 t.year
  else if k = 'y' then pad2 (t.year % 100)
  else if k = 'm' then num2 sp t.month
  else if k = 'd' then num2 sp t.day
  else if k = 'H' then num2 sp t.hour
  else if k = 'M' then num2 sp t.minute
  else if k = 'S' then num2 sp t.second
  else if k = 'b' then sp.name.getD (aMonthCap.getD (t.month - 1) [])
  else if k = 'B' then sp.name.getD (fMonthCap.getD (t.month - 1) [])
  else []

def renderItem (sp : Spell) (t : DateTime) : Item → Str
  | .lit c => [c]
  | .spaces run => sp.blanks.getD run
  | .group k _ => renderGroup sp t k

/-- the text of a date under the compiled format; `sps` = the spelling of each item (missing entries: the default) -/
def renderItems : List Spell → List Item → DateTime → Str
  | _, [], _ => []
  | sps, it :: is, t => renderItem (sps.headD {}) t it ++ renderItems sps.tail is t

/-- `t.strftime(fmt)` in the spelling `sps` -/
def strftimeWith (sps : List Spell) (fmt : Str) (t : DateTime) : Str :=
  match compile fmt with
  | .ok items => renderItems sps items t
  | .error _ => []

/-- `t.strftime(fmt)` -/
def strftime (fmt : Str) (t : DateTime) : Str := strftimeWith [] fmt t

def renderable (k : Char) : Bool :=
  k == 'Y' || k == 'y' || k == 'm' || k == 'd' || k == 'b' || k == 'B' || k == 'H' || k == 'M' || k == 'S'

/-- the directives of the format are among `%Y %y %m %d %b %B %H %M %S`, and year, month and day are all there -/
def namesOk (ns : List Char) : Bool :=
  ns.all renderable && (ns.contains 'Y' || ns.contains 'y') && (ns.contains 'm' || ns.contains 'b' || ns.contains 'B') &&
    ns.contains 'd'

/-- **`FmtOk`**: the format compiles (no stray `%`, no unknown or repeated directive), its directives are among
`%Y %y %m %d %b %B %H %M %S`, and it names the year, the month and the day.  Nothing is asked of the separators: `%Y%m%d` is fine. -/
def FmtOk (fmt : Str) : Bool :=
  match compile fmt with
  | .ok items => namesOk (groupNames items)
  | .error _ => false

/-- a two-digit year can only say 1969..2068 -/
def yearFits (ns : List Char) (t : DateTime) : Bool :=
  if ns.contains 'y' then 1969 ≤ t.year && t.year ≤ 2068 else true

def YearFits (fmt : Str) (t : DateTime) : Bool :=
  match compile fmt with
  | .ok items => yearFits (groupNames items) t
  | .error _ => false

/-- what the text says about the date: the time fields the format does not mention are 0 -/
def restrict (ns : List Char) (t : DateTime) : DateTime :=
  { year := t.year, month := t.month, day := t.day, hour := if ns.contains 'H' then t.hour else 0,
    minute := if ns.contains 'M' then t.minute else 0, second := if ns.contains 'S' then t.second else 0, micro := 0 }

def readBack (fmt : Str) (t : DateTime) : DateTime :=
  match compile fmt with
  | .ok items => restrict (groupNames items) t
  | .error _ => t

/-- a numeric field that may be written with one or two digits -/
def numericVar (k : Char) : Bool := k == 'm' || k == 'd' || k == 'H' || k == 'M' || k == 'S'

/-- what follows does not begin with a digit: the end, a literal that is not a digit, white space, a month name -/
def nextNonDigit (T : Tables) : List Item → Bool
  | [] => true
  | .lit c :: _ => (T.digitVal c).isNone
  | .spaces _ :: _ => true
  | .group k _ :: _ => k == 'b' || k == 'B'

/-- `w` is a spelling of the (lower-case) name `name`: the same letters in any letter case -/
def nameOk (w name : Str) : Bool :=
  w.map asciiLower == name && w.all (fun c => isAscii c && !isPySpace c && (Csv.digitVal? c).isNone) && !w.isEmpty

/-- the spelling `sp` of the item `it` (followed by the items `next`) is one `strptime` reads back:
* a one-digit numeric field must not be followed by a digit (the ONLY separation condition, and only for this spelling);
* white space is written as white space;
* a month name is written with its own letters. -/
def spellOk (T : Tables) (sp : Spell) (t : DateTime) (it : Item) (next : List Item) : Bool :=
  match it with
  | .lit _ => true
  | .spaces _ => match sp.blanks with
    | none => true
    | some ws => !ws.isEmpty && ws.all isPySpace
  | .group k _ =>
    (if sp.unpad && numericVar k then nextNonDigit T next else true) &&
    (match sp.name with
     | none => true
     | some w => if k = 'b' then nameOk w (aMonth.getD (t.month - 1) [])
                 else if k = 'B' then nameOk w (fMonth.getD (t.month - 1) []) else true)

def spellsOk (T : Tables) : List Spell → List Item → DateTime → Bool
  | _, [], _ => true
  | sps, it :: is, t => spellOk T (sps.headD {}) t it is && spellsOk T sps.tail is t

def SpellsOk (T : Tables) (sps : List Spell) (fmt : Str) (t : DateTime) : Bool :=
  match compile fmt with
  | .ok items => spellsOk T sps items t
  | .error _ => false

/-! ## the date oracle of `Csv.parseRow`, instantiated: no date oracle is left -/

def StrpErr.toDateErr : StrpErr → Csv.DateErr
  | .reError => .reError
  | .unsupported => .unsupported
  | _ => .valueError

/-- `datetime.strptime(tok, fmt)` as `Csv.parseRow` consumes it -/
def dateOracle (T : Tables) (fmt tok : Str) : Except Csv.DateErr Str :=
  match strptime T fmt tok with
  | .ok t => .ok (isoformat t)
  | .error e => .error e.toDateErr

/-- the oracles of `Csv.parseRow` with `strptime` answered by this model: only `float()` and the character tables remain -/
def oracles (T : Tables) (pyFloat : Str → Option Csv.F64) : Csv.Oracles := { pyFloat := pyFloat, strptime := dateOracle T }

end TallyVerif.Strptime
