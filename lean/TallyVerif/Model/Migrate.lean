import TallyVerif.Model.RulesFile
import TallyVerif.Model.Rules
/-!
M-Migrate — migrating `merchant_categories.csv` to `merchants.rules` (property C14).

Mirrors, structure for structure:
* `merchant_engine._modifier_to_expr`            → `modifierExpr`   (list of conjuncts, joined by " and ")
* `merchant_engine.csv_to_merchants_content`     → `matchText`, `ruleLines`, `render`
* `modifier_parser.check_all_conditions` (+ `evaluate_amount_condition`, `evaluate_date_condition`) → `checkAll`
* what CPython's tokenizer does to the body of a `"…"` literal   → `pyUnescape`
* the evaluation of the generated match expression by `expr_parser` (only the fragment the converter can
  generate: `regex("…")`, comparisons on `amount` / `date` / `month`, `abs(amount - v) < 0.01`, joined by `and`)
  → `Atom.eval`, `evalConj`, `engineHit`
* the per-tuple test of the legacy loop in `merchant_utils.normalize_merchant` → `legacyOutcome`

Two flags select the code as pinned (`false`) or with the candidate repairs (`true`):
* `fixA` (D14a): the converter escapes `\` and `"` before writing the pattern inside `regex("…")`
* `fixB` (D14b): `[amount=v]` becomes `abs(amount - v) < 0.01` instead of `amount == v`
* `fixE` (D14e): tuples with neither category nor tags are not written (a section for them does not load)

Numbers are exact: an amount is an `Int` in a unit chosen by the harness (a common power-of-two
denominator of every double in the case), so comparisons are exact; float rounding of `amount - v` is
modelled away (trusted base).  Text is `List Char`.  External functions are fields of `Oracles`.
Core Lean only.
-/
namespace TallyVerif.Migrate
open TallyVerif.RulesFile (Str isSpace strip)

/-! ## 1. Python string-literal decoding (body of a `"…"` literal, not raw, not bytes) -/

inductive LitErr
  | malformed      -- CPython raises SyntaxError for the literal
  | unsupported    -- the model declines: `\N{…}`, surrogate code points, backslash-newline
deriving DecidableEq, Repr

instance {ε α : Type} [DecidableEq ε] [DecidableEq α] : DecidableEq (Except ε α) := fun a b =>
  match a, b with
  | .ok x, .ok y => if h : x = y then isTrue (by rw [h]) else isFalse (fun e => h (Except.ok.inj e))
  | .error x, .error y => if h : x = y then isTrue (by rw [h]) else isFalse (fun e => h (Except.error.inj e))
  | .ok _, .error _ => isFalse (fun e => by cases e)
  | .error _, .ok _ => isFalse (fun e => by cases e)

inductive Mode
  | plain
  | bs                          -- a backslash was just read
  | oct (k : Nat) (v : Nat)     -- inside `\ooo`: at most `k` more octal digits, value so far `v`
  | hex (k : Nat) (v : Nat)     -- inside `\x`/`\u`/`\U`: exactly `k` more hex digits, value so far `v`
deriving DecidableEq, Repr

def isOct (c : Char) : Bool := '0' ≤ c && c ≤ '7'
def octVal (c : Char) : Nat := c.toNat - 48
def hexVal? (c : Char) : Option Nat :=
  if '0' ≤ c && c ≤ '9' then some (c.toNat - 48)
  else if 'a' ≤ c && c ≤ 'f' then some (c.toNat - 87)
  else if 'A' ≤ c && c ≤ 'F' then some (c.toNat - 55)
  else none

/-- characters that cannot occur raw inside a one-line `"…"` literal given to `ast.parse` -/
def isBreak (c : Char) : Bool := c == '\n' || c == '\r' || c.toNat == 0

inductive PlainAct | startEsc | bad | keep
deriving DecidableEq, Repr

def plainAct (c : Char) : PlainAct :=
  if c == '\\' then .startEsc else if c == '"' || isBreak c then .bad else .keep

def push (c : Char) : Except LitErr Str → Except LitErr Str
  | .ok s => .ok (c :: s)
  | .error e => .error e

def mkChar (v : Nat) : Except LitErr Char :=
  if v > 0x10FFFF then .error .malformed
  else if 0xD800 ≤ v && v ≤ 0xDFFF then .error .unsupported
  else .ok (Char.ofNat v)

def simpleEsc? (c : Char) : Option Char :=
  if c == '\\' then some '\\' else if c == '\'' then some '\'' else if c == '"' then some '"'
  else if c == 'a' then some (Char.ofNat 7) else if c == 'b' then some (Char.ofNat 8)
  else if c == 'f' then some (Char.ofNat 12) else if c == 'n' then some '\n'
  else if c == 'r' then some '\r' else if c == 't' then some '\t'
  else if c == 'v' then some (Char.ofNat 11) else none

/-- the decoder as a state machine over the characters of the body -/
def go : Mode → Str → Except LitErr Str
  | .plain, [] => .ok []
  | .plain, c :: cs =>
    match plainAct c with
    | .startEsc => go .bs cs
    | .bad => .error .malformed
    | .keep => push c (go .plain cs)
  | .bs, [] => .error .malformed                       -- the backslash would escape the closing quote
  | .bs, c :: cs =>
    match simpleEsc? c with
    | some e => push e (go .plain cs)
    | none =>
      if isOct c then go (.oct 2 (octVal c)) cs
      else if c == 'x' then go (.hex 2 0) cs
      else if c == 'u' then go (.hex 4 0) cs
      else if c == 'U' then go (.hex 8 0) cs
      else if c == 'N' then .error .unsupported
      else if c == '\n' || c == '\r' then .error .unsupported
      else if c.toNat == 0 then .error .malformed
      else push '\\' (push c (go .plain cs))           -- unknown escape: kept as written
  | .oct _ v, [] => .ok [Char.ofNat v]
  | .oct k v, c :: cs =>
    if k > 0 && isOct c then go (.oct (k - 1) (v * 8 + octVal c)) cs
    else
      match plainAct c with
      | .startEsc => push (Char.ofNat v) (go .bs cs)
      | .bad => .error .malformed
      | .keep => push (Char.ofNat v) (push c (go .plain cs))
  | .hex _ _, [] => .error .malformed
  | .hex k v, c :: cs =>
    match hexVal? c with
    | none => .error .malformed
    | some d =>
      if k ≤ 1 then
        match mkChar (v * 16 + d) with
        | .ok ch => push ch (go .plain cs)
        | .error e => .error e
      else go (.hex (k - 1) (v * 16 + d)) cs

/-- value of the Python literal `"` ++ body ++ `"` -/
def pyUnescape (body : Str) : Except LitErr Str := go .plain body

/-- `str.replace(a, r)` for a one-character needle -/
def replaceChar (a : Char) (r : Str) (s : Str) : Str := s.flatMap fun c => if c == a then r else [c]

/-- what the converter does to a pattern before writing it between `regex("` and `")`.
Pinned code: nothing.  With the D14a repair: `pattern.replace('\\', '\\\\').replace('"', '\\"')`. -/
def pyEscape (fixA : Bool) (p : Str) : Str :=
  if fixA then replaceChar '"' ['\\', '"'] (replaceChar '\\' ['\\', '\\'] p) else p

/-- patterns that can be written on one line of a `.rules` file at all -/
def LineSafe (p : Str) : Bool := p.all fun c => !isBreak c

/-! ## 2. Modifiers -/

/-- a float literal: its exact value (in the case's unit) and its `repr()` text -/
structure NumLit where
  val : Int
  text : Str
deriving DecidableEq, Repr

structure Date where
  y : Nat
  m : Nat
  d : Nat
deriving DecidableEq, Repr

/-- order-isomorphic to chronological order for month, day < 100 -/
def Date.key (a : Date) : Nat := (a.y * 100 + a.m) * 100 + a.d

inductive AmountCond
  | gt (v : NumLit) | ge (v : NumLit) | lt (v : NumLit) | le (v : NumLit)
  | eq (v : NumLit)
  | range (lo hi : NumLit)
deriving DecidableEq, Repr

inductive DateCond
  | on (d : Date)                 -- [date=YYYY-MM-DD]
  | range (a b : Date)            -- [date:A..B]
  | month (m : Nat)               -- [month=N]
  | relative (days : Nat)         -- [date:lastNdays]
deriving DecidableEq, Repr

/-- `ParsedPattern` without the regex -/
structure Parsed where
  amount : List AmountCond
  date : List DateCond
deriving DecidableEq, Repr

def DateCond.isRelative : DateCond → Bool
  | .relative _ => true
  | _ => false

def Parsed.noRelative (p : Parsed) : Bool := p.date.all fun c => !c.isRelative

/-- what `_parse_month_modifier` guarantees -/
def DateCond.valid : DateCond → Bool
  | .month m => decide (1 ≤ m) && decide (m ≤ 12)
  | _ => true

def Parsed.valid (p : Parsed) : Bool := p.date.all DateCond.valid

def iabs (x : Int) : Int := if x < 0 then -x else x

/-- `evaluate_amount_condition`; `eps` = the double 0.01 in the case's unit -/
def evalAmountCond (eps : Int) (a : Int) : AmountCond → Bool
  | .gt v => decide (a > v.val)
  | .ge v => decide (a ≥ v.val)
  | .lt v => decide (a < v.val)
  | .le v => decide (a ≤ v.val)
  | .eq v => decide (iabs (a - v.val) < eps)
  | .range lo hi => decide (lo.val ≤ a) && decide (a ≤ hi.val)

/-- `evaluate_date_condition`; `cutoff n` = `date.today() - timedelta(days=n)` -/
def evalDateCond (cutoff : Nat → Date) (d : Date) : DateCond → Bool
  | .on v => d.key == v.key
  | .range a b => decide (a.key ≤ d.key) && decide (d.key ≤ b.key)
  | .relative n => decide ((cutoff n).key ≤ d.key)
  | .month m => d.m == m

/-- `check_all_conditions(parsed, amount, txn_date)` — both loops with their `is None` guards -/
def checkAll (eps : Int) (cutoff : Nat → Date) (p : Parsed) (amount : Option Int) (date : Option Date) : Bool :=
  (p.amount.all fun c => match amount with
    | none => false
    | some a => evalAmountCond eps a c) &&
  (p.date.all fun c => match date with
    | none => false
    | some d => evalDateCond cutoff d c)

/-! ### the expression fragment `_modifier_to_expr` generates -/

inductive Cmp | gt | ge | lt | le | eq
deriving DecidableEq, Repr

def Cmp.text : Cmp → Str
  | .gt => ['>'] | .ge => ['>', '='] | .lt => ['<'] | .le => ['<', '='] | .eq => ['=', '=']

def Cmp.onInt (op : Cmp) (a b : Int) : Bool :=
  match op with
  | .gt => decide (a > b) | .ge => decide (a ≥ b) | .lt => decide (a < b) | .le => decide (a ≤ b) | .eq => a == b

def Cmp.onNat (op : Cmp) (a b : Nat) : Bool :=
  match op with
  | .gt => decide (a > b) | .ge => decide (a ≥ b) | .lt => decide (a < b) | .le => decide (a ≤ b) | .eq => a == b

/-- one conjunct of the generated modifier expression -/
inductive Atom
  | amountCmp (op : Cmp) (v : NumLit)         -- `amount <op> <v>`
  | amountNear (v : NumLit) (eps : NumLit)    -- `abs(amount - <v>) < 0.01`
  | dateCmp (op : Cmp) (d : Date)             -- `date <op> "<iso>"`
  | monthEq (m : Nat)                         -- `month == <m>`
  | note (days : Nat)                         -- `# Note: was last<N>days` (not an expression at all)
deriving DecidableEq, Repr

def Atom.isNote : Atom → Bool
  | .note _ => true
  | _ => false

def amountAtoms (fixB : Bool) (eps : NumLit) : AmountCond → List Atom
  | .range lo hi => [.amountCmp .ge lo, .amountCmp .le hi]
  | .eq v => if fixB then [.amountNear v eps] else [.amountCmp .eq v]
  | .gt v => [.amountCmp .gt v]
  | .ge v => [.amountCmp .ge v]
  | .lt v => [.amountCmp .lt v]
  | .le v => [.amountCmp .le v]

def dateAtoms : DateCond → List Atom
  | .on d => [.dateCmp .eq d]
  | .range a b => [.dateCmp .ge a, .dateCmp .le b]
  | .month m => [.monthEq m]
  | .relative n => [.note n]

/-- `_modifier_to_expr`: the conjuncts, in the order the code appends them -/
def modifierExpr (fixB : Bool) (eps : NumLit) (p : Parsed) : List Atom :=
  p.amount.flatMap (amountAtoms fixB eps) ++ p.date.flatMap dateAtoms

def digits (n : Nat) : Str := Nat.toDigits 10 n
def pad (w : Nat) (s : Str) : Str := List.replicate (w - s.length) '0' ++ s
/-- `date.isoformat()` -/
def iso (d : Date) : Str := pad 4 (digits d.y) ++ ['-'] ++ pad 2 (digits d.m) ++ ['-'] ++ pad 2 (digits d.d)

def Atom.text : Atom → Str
  | .amountCmp op v => "amount ".toList ++ op.text ++ [' '] ++ v.text
  | .amountNear v eps => "abs(amount - ".toList ++ v.text ++ ") < ".toList ++ eps.text
  | .dateCmp op d => "date ".toList ++ op.text ++ [' ', '"'] ++ iso d ++ ['"']
  | .monthEq m => "month == ".toList ++ digits m
  | .note n => "# Note: was last".toList ++ digits n ++ "days".toList

def andSep : Str := " and ".toList

/-- `" and ".join(parts)` -/
def joinAnd : List Str → Str
  | [] => []
  | [x] => x
  | x :: y :: rest => x ++ andSep ++ joinAnd (y :: rest)

def atomsText (l : List Atom) : Str := joinAnd (l.map Atom.text)

/-! ### evaluation of that fragment by the expression evaluator -/

/-- the transaction as `normalize_merchant` receives it -/
structure Txn where
  desc : Str
  amount : Option Int
  date : Option Date
deriving DecidableEq, Repr

/-- `transaction['amount'] = amount or 0` -/
def Txn.engineAmount (t : Txn) : Int := t.amount.getD 0

/-- value of one conjunct; `error` = a Python exception that the evaluator turns into ExpressionError -/
def Atom.eval (t : Txn) : Atom → Except Unit Bool
  | .amountCmp op v => .ok (op.onInt t.engineAmount v.val)
  | .amountNear v eps => .ok (decide (iabs (t.engineAmount - v.val) < eps.val))
  | .dateCmp op d =>
    match t.date with
    | some td => .ok (op.onNat td.key d.key)
    | none => if op == .eq then .ok false else .error ()      -- `None >= date` raises TypeError
  | .monthEq m => .ok ((match t.date with | some td => td.m | none => 0) == m)
  | .note _ => .error ()

/-- `BoolOp(And)`: left to right, stops at the first falsy value -/
def evalConj (t : Txn) : List Atom → Except Unit Bool
  | [] => .ok true
  | a :: rest =>
    match a.eval t with
    | .error e => .error e
    | .ok false => .ok false
    | .ok true => evalConj t rest

/-- the rule counts as matching: evaluated without error to a truthy value -/
def hitConj (t : Txn) (l : List Atom) : Bool :=
  match evalConj t l with
  | .ok true => true
  | _ => false

/-! ## 3. The generated file -/

/-- one tuple returned by `load_merchant_rules` -/
structure CsvRule where
  pattern : Str            -- `parsed.regex_pattern`
  merchant : Str
  category : Str
  subcategory : Str
  parsed : Parsed
  tags : List Str
deriving DecidableEq, Repr

def regexCall (fixA : Bool) (p : Str) : Str := "regex(\"".toList ++ pyEscape fixA p ++ "\")".toList

def modText (fixB : Bool) (eps : NumLit) (c : CsvRule) : Str := atomsText (modifierExpr fixB eps c.parsed)

/-- `parts` of `csv_to_merchants_content` -/
def matchParts (fixA fixB : Bool) (eps : NumLit) (c : CsvRule) : List Str :=
  (if c.pattern.isEmpty then [] else [regexCall fixA c.pattern]) ++
  (if !(modText fixB eps c).isEmpty && (modText fixB eps c).head? != some '#' then [modText fixB eps c] else [])

def matchText (fixA fixB : Bool) (eps : NumLit) (c : CsvRule) : Str :=
  if (matchParts fixA fixB eps c).isEmpty then "true".toList else joinAnd (matchParts fixA fixB eps c)

def commaSep : Str := [',', ' ']
def joinComma : List Str → Str
  | [] => []
  | [x] => x
  | x :: y :: rest => x ++ commaSep ++ joinComma (y :: rest)

/-- the block written for one rule -/
def ruleLines (fixA fixB : Bool) (eps : NumLit) (c : CsvRule) : List Str :=
  [['['] ++ c.merchant ++ [']'],
   "match: ".toList ++ matchText fixA fixB eps c,
   "category: ".toList ++ c.category,
   "subcategory: ".toList ++ c.subcategory] ++
  (if c.tags.isEmpty then [] else ["tags: ".toList ++ joinComma c.tags]) ++
  [[]]

def headerLines : List Str :=
  ["# Tally Merchant Rules".toList, "# Migrated from merchant_categories.csv".toList, "#".toList,
   "# Format:".toList, "#   [Rule Name]".toList, "#   match: <expression>".toList,
   "#   category: <category>".toList, "#   subcategory: <subcategory>".toList,
   "#   tags: tag1, tag2  # optional".toList, []]

/-- the lines of `csv_to_merchants_content(csv_rules)` (the content is `"\n".join` of them) -/
def render (fixA fixB : Bool) (eps : NumLit) (cs : List CsvRule) : List Str :=
  headerLines ++ cs.flatMap (ruleLines fixA fixB eps)

/-- the tuples for which a section is written.  Pinned code: all of them.  With the D14e repair: a tuple
with neither category nor tags (it never had any effect on the CSV side) is skipped. -/
def kept (fixE : Bool) (cs : List CsvRule) : List CsvRule :=
  if fixE then cs.filter (fun c => !(c.category.isEmpty && c.tags.isEmpty)) else cs

/-- `set(...)` of a tag list, first-insertion order -/
def dedupTags (tags : List Str) : List Str := tags.foldl (fun acc t => RulesFile.setAdd t acc) []

/-- the `MerchantRule` the migrated section is expected to parse to -/
def toRule (fixA fixB : Bool) (eps : NumLit) (c : CsvRule) : RulesFile.Rule :=
  { name := c.merchant, merchant := c.merchant, category := c.category, subcategory := c.subcategory,
    tags := dedupTags c.tags, priority := 50, matchExpr := matchText fixA fixB eps c, lets := [], fields := [] }

/-- `s.strip() == s`, stated on the two ends -/
def trimmed (s : Str) : Bool :=
  (match s.head? with | some c => !isSpace c | none => true) &&
  (match s.getLast? with | some c => !isSpace c | none => true)
def tagOk (t : Str) : Bool :=
  trimmed t && !t.isEmpty && t.all (fun c => c != ',' && c != '(' && c != ')' && c != '\n') &&
  !(t.head? == some '{' && t.getLast? == some '}')

/-- well-formedness of one CSV tuple (decidable).  Each excluded class is run on the real code by the
harness and listed in notes/C14_notes.md. -/
def CsvRuleOk (c : CsvRule) : Bool :=
  LineSafe c.pattern &&
  trimmed c.merchant && !c.merchant.isEmpty && !c.merchant.contains '\n' &&
  trimmed c.category && !c.category.contains '\n' &&
  trimmed c.subcategory && !c.subcategory.contains '\n' &&
  c.tags.all tagOk &&
  (!c.category.isEmpty || !c.tags.isEmpty) &&
  c.parsed.noRelative && c.parsed.valid

/-! ## 4. The two classifiers, per rule -/

structure Oracles where
  /-- `re.compile(p, re.IGNORECASE).search(subject) is not None`; `none` = `re.error` -/
  reSearch : Str → Str → Option Bool
  /-- `str.upper` -/
  upper : Str → Str
  /-- `str.lower` (tags) -/
  lowerTag : Str → Str
  /-- CSV path only: the pattern is expression-shaped (`_is_expression_pattern`) AND evaluates without
  ExpressionError on the transaction at hand — then its truth value; otherwise `none` (regex path) -/
  legacyExpr : Str → Option Bool
  /-- `date.today() - timedelta(days=n)` -/
  cutoff : Nat → Date
  /-- `{expr}` tags on the two paths -/
  dynLegacy : Str → List Str
  dynEngine : Str → List Str

/-- "case-insensitive regex search is unchanged by upper-casing the subject" -/
def H_upper (o : Oracles) : Prop := ∀ p d, o.reSearch p (o.upper d) = o.reSearch p d
/-- the empty regex matches everywhere -/
def H_empty (o : Oracles) : Prop := ∀ d, o.reSearch [] d = some true

def isDynamic (t : Str) : Bool := t.head? == some '{' && t.getLast? == some '}'

/-- `_resolve_dynamic_tags` / `_resolve_tags` on the tags of one rule -/
def resolveTags (lower : Str → Str) (dyn : Str → List Str) (tags : List Str) : List Str :=
  tags.flatMap fun t =>
    if (strip t).isEmpty then [] else if isDynamic (strip t) then dyn (strip t) else [lower (strip t)]

/-- the test `normalize_merchant` applies to one CSV tuple (after the D1 repair) -/
def legacyOutcome (o : Oracles) (eps : Int) (c : CsvRule) (t : Txn) : Rules.LOutcome :=
  match o.legacyExpr c.pattern with
  | some b => if b then .matched else .noMatch
  | none =>
    match o.reSearch c.pattern (o.upper t.desc) with
    | none => .skipped
    | some false => .noMatch
    | some true =>
      if c.parsed.amount.isEmpty && c.parsed.date.isEmpty then .matched
      else if checkAll eps o.cutoff c.parsed t.amount t.date then .matched else .noMatch

def legacyEval (o : Oracles) (eps : Int) (c : CsvRule) (t : Txn) : Rules.LEval :=
  { outcome := legacyOutcome o eps c t
    tags := (resolveTags o.lowerTag o.dynLegacy c.tags).map String.ofList }

/-- value of the `regex("…")` conjunct of the migrated rule: decode the literal, search the description -/
def regexPart (o : Oracles) (fixA : Bool) (c : CsvRule) (t : Txn) : Except Unit Bool :=
  if c.pattern.isEmpty then .ok true
  else
    match pyUnescape (pyEscape fixA c.pattern) with
    | .error _ => .error ()
    | .ok q =>
      match o.reSearch q t.desc with
      | some b => .ok b
      | none => .error ()

/-- the modifier part of the generated match line, as `csv_to_merchants_content` writes it -/
def modsHit (t : Txn) : List Atom → Bool
  | [] => true
  | a :: rest =>
    if a.isNote then true                       -- text starts with '#': the whole modifier part is dropped
    else if rest.any Atom.isNote then false     -- `… and # Note…`: the file does not even load
    else hitConj t (a :: rest)

/-- does the migrated rule match (`expr_parser.matches_transaction` without ExpressionError, truthy) -/
def engineHit (o : Oracles) (fixA fixB : Bool) (eps : NumLit) (c : CsvRule) (t : Txn) : Bool :=
  match regexPart o fixA c t with
  | .ok true => modsHit t (modifierExpr fixB eps c.parsed)
  | _ => false

def engineEval (o : Oracles) (fixA fixB : Bool) (eps : NumLit) (c : CsvRule) (t : Txn) : Rules.Eval :=
  { hit := engineHit o fixA fixB eps c t
    tags := (resolveTags o.lowerTag o.dynEngine (dedupTags c.tags)).map String.ofList
    fields := [] }

/-! ### the two rule lists handed to the list algorithms of M-Rules -/

def lruleOf (i : Nat) (c : CsvRule) : Rules.LRule :=
  { idx := i, pattern := String.ofList c.pattern, merchant := String.ofList c.merchant,
    category := String.ofList c.category, subcategory := String.ofList c.subcategory, source := "user" }

def eruleOf (fixA fixB : Bool) (eps : NumLit) (i : Nat) (c : CsvRule) : Rules.Rule :=
  { line := i, name := String.ofList c.merchant, merchant := String.ofList c.merchant,
    category := String.ofList c.category, subcategory := String.ofList c.subcategory, priority := 50,
    matchExpr := String.ofList (matchText fixA fixB eps c) }

def lrules (cs : List CsvRule) : List Rules.LRule := cs.zipIdx.map fun p => lruleOf p.2 p.1
def erules (fixA fixB : Bool) (eps : NumLit) (cs : List CsvRule) : List Rules.Rule :=
  cs.zipIdx.map fun p => eruleOf fixA fixB eps p.2 p.1

def noLEval : Rules.LEval := { outcome := .noMatch, tags := [] }
def noEval : Rules.Eval := { hit := false, tags := [], fields := [] }

/-- per-rule evaluation of the legacy loop, keyed by the tuple's index -/
def legacyEv (o : Oracles) (eps : Int) (cs : List CsvRule) (t : Txn) (r : Rules.LRule) : Rules.LEval :=
  match cs[r.idx]? with
  | some c => legacyEval o eps c t
  | none => noLEval

/-- per-rule evaluation of the engine on the migrated file, keyed by the rule's index -/
def engineEv (o : Oracles) (fixA fixB : Bool) (eps : NumLit) (cs : List CsvRule) (t : Txn) (r : Rules.Rule) : Rules.Eval :=
  match cs[r.line]? with
  | some c => engineEval o fixA fixB eps c t
  | none => noEval

/-- `normalize_merchant(description, get_all_rules(csv))` -/
def classifyLegacy (o : Oracles) (eps : Int) (fallback : String) (cs : List CsvRule) (t : Txn) : Rules.LResult :=
  Rules.legacy (legacyEv o eps cs t) fallback (lrules cs)

/-- `MerchantEngine.match` on the rules of the migrated file (first_match mode) -/
def classifyEngine (o : Oracles) (fixA fixB : Bool) (eps : NumLit) (key : Rules.Rule → Rules.Key)
    (cs : List CsvRule) (t : Txn) : Rules.Result :=
  Rules.matchEngine true key (engineEv o fixA fixB eps cs t) .firstMatch (erules fixA fixB eps cs)

/-! ### the migrated pipeline as the code runs it: generate the file, parse it, match -/

def ruleOfParsed (i : Nat) (r : RulesFile.Rule) : Rules.Rule :=
  { line := i, name := String.ofList r.name, merchant := String.ofList r.merchant,
    category := String.ofList r.category, subcategory := String.ofList r.subcategory, priority := r.priority,
    matchExpr := String.ofList r.matchExpr }

/-- per-rule evaluation on the PARSED file: the i-th section carries the i-th tuple's match expression;
names and tags are the ones the parser extracted -/
def migratedEv (o : Oracles) (fixA fixB : Bool) (eps : NumLit) (cs : List CsvRule) (prs : List RulesFile.Rule)
    (t : Txn) (r : Rules.Rule) : Rules.Eval :=
  match cs[r.line]?, prs[r.line]? with
  | some c, some pr =>
    { hit := engineHit o fixA fixB eps c t
      tags := (resolveTags o.lowerTag o.dynEngine pr.tags).map String.ofList
      fields := [] }
  | _, _ => noEval

namespace Impl
/-- `csv_to_merchants_content` → `MerchantEngine.parse` → `MerchantEngine.match`; `validExpr` as in M-RulesFile.
An error is the `MerchantParseError` raised while loading the generated file. -/
def classifyMigrated (o : Oracles) (validExpr : Str → Bool) (fixA fixB fixE : Bool) (eps : NumLit)
    (key : Rules.Rule → Rules.Key) (cs : List CsvRule) (t : Txn) :
    Except (Nat × RulesFile.MErr) Rules.Result :=
  match RulesFile.Impl.parseRulesFile validExpr (render fixA fixB eps (kept fixE cs)) with
  | .error e => .error e
  | .ok res =>
    .ok (Rules.matchEngine true key (migratedEv o fixA fixB eps (kept fixE cs) res.rules t) .firstMatch
          (res.rules.zipIdx.map fun p => ruleOfParsed p.2 p.1))
end Impl

end TallyVerif.Migrate
