import TallyVerif.Model.Rules
/-!
`calculate_specificity` / `_extract_pattern_length` on the rule text (as `List Char`).
The two keyword tables are parameters (regenerated from source into `Gen/Specificity.lean`).
-/
namespace TallyVerif.Rules

def asciiLowerC (c : Char) : Char := if 'A' ≤ c ∧ c ≤ 'Z' then Char.ofNat (c.toNat + 32) else c

def isPrefix : List Char → List Char → Bool
  | [], _ => true
  | _ :: _, [] => false
  | p :: ps, c :: cs => p == c && isPrefix ps cs

/-- Python `s.count(sub)` (non-overlapping, left to right) for non-empty `sub` -/
def countSub (sub : List Char) (s : List Char) : Nat :=
  go s.length s
where
  go : Nat → List Char → Nat
  | 0, _ => 0
  | _, [] => 0
  | fuel + 1, c :: cs =>
    if isPrefix sub (c :: cs) then 1 + go fuel ((c :: cs).drop sub.length)
    else go fuel cs

/-- Python `sub in s` -/
def containsSub (sub : List Char) : List Char → Bool
  | [] => sub.isEmpty
  | c :: cs => isPrefix sub (c :: cs) || containsSub sub cs

/-- `sum(len(m) for m in re.findall(q + '([^' + q + ']*)' + q, s))`, as a scanner:
`cur = some n` while inside a quoted string of `n` characters so far; an unterminated quote
contributes nothing (the regex cannot match without the closing quote). -/
def qscan (q : Char) : Option Nat → List Char → Nat
  | _, [] => 0
  | none, c :: cs => if c == q then qscan q (some 0) cs else qscan q none cs
  | some n, c :: cs => if c == q then n + qscan q none cs else qscan q (some (n + 1)) cs

def quotedLen (q : Char) (l : List Char) : Nat := qscan q none l

def specificity (funcs kws : List String) (prio : Int) (matchExpr : String) : Key :=
  let raw := matchExpr.toList
  let low := raw.map asciiLowerC
  { prio := prio
    pats := (funcs.map (fun f => countSub f.toList low)).foldl (· + ·) 0
    kinds := (kws.filter (fun k => containsSub k.toList low)).length
    len := quotedLen '"' raw + quotedLen '\'' raw }

end TallyVerif.Rules
