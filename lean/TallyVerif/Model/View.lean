import TallyVerif.Model.Expr
import TallyVerif.Model.Totals
/-!
M-View — the VIEW (section) evaluator and the view classification.

* `Impl.eval`           `expr_parser.ExpressionEvaluator` method by method (`_eval_Name`, `_eval_BoolOp`,
                        `_eval_BinOp`, `_eval_UnaryOp`, `_eval_Compare` with its `left = right` chain,
                        `_eval_Call`, `_eval_IfExp`); every other node kind ⇒ ExpressionError.
* context primitives    `ExpressionContext.get_payments / get_months / get_tags / get_category /
                        get_subcategory / get_merchant / get_cv / get_total / get_by`, the aggregate
                        functions with their auto-map over nested lists, `period`, `max_val`, `min_val`.
* `evalRoot`            `_eval_Expression`: `convert = true` is the code after the D8 repair (any Python
                        exception raised inside evaluation surfaces as ExpressionError), `false` the code
                        as pinned.
* `evalVariables`, `sectionHoldsE`, `classifyMerchants`   `section_engine.evaluate_variables`,
                        `evaluate_section_filter`, `classify_merchants`.
* `classifyViews`, `sectionTotal`                          `analyzer.classify_by_sections`,
                        `compute_section_totals`.

Python operator semantics are NOT re-modelled here: `+ - * / %` go through `Expr.eval` on constants
(the same `_eval_BinOp` text in both evaluators), ordering / equality through `Py.pyLt / pyLe / pyEq`,
`sum()` through `Expr.sumStep` (CPython 3.12 compensated float sum), `min/max` through `Expr.consume`,
`abs/round` through `Expr.callFn`.  What is new: the SET value (`tags`), the aggregate functions, the
date bucketing, `cv`.  External primitives are oracle fields: `statistics.stdev`, `x ** 2`, `x ** 0.5`
(libm `pow`), plus the inherited ones (`str.lower` on non-ASCII text, `round`, float `%`).
Core Lean only.
-/
namespace TallyVerif.View
open TallyVerif.Py TallyVerif.Expr

/-- a view value: any `Val`, or a set of strings (`tags`, and `tags - tags`); sets are kept sorted and
duplicate-free so that equality is list equality.  A set never ends up inside a list: no function
returns a list holding one and there are no list literals in the language. -/
inductive VVal
  | v (x : Val)
  | set (xs : List String)
deriving Repr

structure Oracles where
  base : Expr.Oracles
  /-- `statistics.stdev(values)` on int / float / bool values; inner error = the exception class raised -/
  stdev : List Val → Option (Except PyExc UInt64)
  /-- float `x ** 2` (`pow(x, 2.0)`); inner `none` = OverflowError -/
  sq : UInt64 → Option (Option UInt64)
  /-- float `x ** 0.5` (`pow(x, 0.5)`); inner `none` = not a float result -/
  sqrt : UInt64 → Option (Option UInt64)

structure Txn where
  amount : Val
  date : Option Date               -- `'date' in t`
  category : String                -- `t.get('category', '')`
  subcategory : String
  merchant : String
  tags : List String               -- `t.get('tags', [])`
deriving Repr

abbrev Vars := List (String × VVal)

structure Ctx where
  txns : List Txn
  variables : Vars
  period : List (String × Val)     -- `period_data`

abbrev E := Except Err

def exprErr {α : Type} (tag : String) : E α := .error (.expr tag)
def pyErr {α : Type} (c : PyExc) : E α := .error (.py c)
def need {α : Type} (prim : String) (args : List String) : E α :=
  .error (.unmodelled ("need\u0001" ++ prim ++ String.join (args.map (fun a => "\u0001" ++ a))))

def mapE {α β : Type} (f : α → E β) : List α → E (List β)
  | [] => .ok []
  | x :: xs =>
    match f x with
    | .error e => .error e
    | .ok y =>
      match mapE f xs with
      | .error e => .error e
      | .ok ys => .ok (y :: ys)

/-! ### reuse of the validated operator semantics -/

def dummyCtx : Expr.Ctx :=
  { description := "", amount := .none, date := none, source := "", location := "", field := none,
    variables := [], sources := [], functionNames := [] }

/-- `left <op> right` exactly as `_eval_BinOp` does it (the method text is the same in both evaluators:
`/` and `%` return 0 when `right == 0`) -/
def pyBin (o : Oracles) (op : BinOp) (a b : Val) : E Val :=
  Expr.run o.base dummyCtx (.binop op (.const a) (.const b))

/-- the builtins `abs` / `round` on evaluated arguments -/
def pyBuiltin (o : Oracles) (fname : String) (args : List Val) : E Val :=
  Expr.callFn o.base dummyCtx fname args

/-- `str.lower()` (ASCII natively, otherwise the `lower` oracle) — the transaction evaluator's primitive -/
def pyLowerE (o : Oracles) (s : String) : E String := Expr.pyLower o.base s

/-! ### values -/

def truthyV : VVal → Bool
  | .v x => truthy x
  | .set xs => !xs.isEmpty

/-- sorted duplicate-free insertion -/
def setInsert (s : String) : List String → List String
  | [] => [s]
  | x :: xs => if s == x then x :: xs else if s < x then s :: x :: xs else x :: setInsert s xs

def subsetL (a b : List String) : Bool := a.all (fun x => b.contains x)

/-- what `for x in v` yields; `none` = not iterable (TypeError) -/
def iterOf : VVal → Option (List Val)
  | .v (.list xs) => some xs
  | .v (.str s) => some (s.toList.map (fun c => Val.str (String.singleton c)))
  | .set xs => some (xs.map Val.str)
  | _ => none

/-- `len(v)`; `none` = TypeError -/
def lenOf : VVal → Option Nat
  | .v (.list xs) => some xs.length
  | .v (.str s) => some s.length
  | .set xs => some xs.length
  | _ => none

def vEq : VVal → VVal → Bool
  | .v a, .v b => pyEq a b
  | .set a, .set b => a == b
  | _, _ => false

/-- `<` ; sets: proper subset; `none` = TypeError -/
def vLt : VVal → VVal → Option Bool
  | .v a, .v b => pyLt a b
  | .set a, .set b => some (subsetL a b && a.length < b.length)
  | _, _ => none

def vLe : VVal → VVal → Option Bool
  | .v a, .v b => pyLe a b
  | .set a, .set b => some (subsetL a b)
  | _, _ => none

/-! ### `sum`, `min`, `max`, `len`, `statistics.stdev` of CPython on a list of values -/

def sumGo : List Val → Acc → E Val
  | [], acc => .ok (sumFinish acc)
  | x :: rest, acc =>
    match sumStep acc x with
    | .ok a => sumGo rest a
    | .error e => .error e

/-- `sum(xs)` (start = int 0) -/
def pySum (xs : List Val) : E Val := sumGo xs (emptyAcc (.int 0))

def extGo (c : Consumer) : List Val → Acc → E Val
  | [], acc => if acc.has then .ok acc.cur else pyErr .valueError
  | x :: rest, acc =>
    match consume c acc x with
    | .ok (.more a) => extGo c rest a
    | .ok (.done a) => .ok a.cur
    | .error e => .error e

/-- `max(xs)` / `min(xs)` of a non-empty iterable (`c` = `.max` / `.min`) -/
def pyExt (c : Consumer) (xs : List Val) : E Val := extGo c xs (emptyAcc .none)

def isNum : Val → Bool
  | .int _ | .flt _ | .bool _ => true
  | _ => false

def encNum : Val → String
  | .int i => "i" ++ intStr i
  | .flt b => "f" ++ toString b.toNat
  | .bool b => if b then "b1" else "b0"
  | _ => "?"

/-- `statistics.stdev(xs)` for `len(xs) >= 2` -/
def pyStdev (o : Oracles) (xs : List Val) : E Val :=
  if xs.all isNum then
    match o.stdev xs with
    | some (.ok r) => .ok (.flt r)
    | some (.error c) => pyErr c
    | none => need "stdev" (xs.map encNum)
  else pyErr .typeError          -- `_coerce` refuses str / list / None data

/-! ### the aggregate functions (`_fn_sum` …): auto-map over a list whose FIRST element is a list -/

/-- `sum(g) if g else 0` -/
def aggSum (v : VVal) : E Val :=
  if !truthyV v then .ok (.int 0) else
  match iterOf v with
  | some xs => pySum xs
  | none => pyErr .typeError

/-- `len(g)` -/
def aggCount (v : VVal) : E Val :=
  match lenOf v with
  | some n => .ok (.int n)
  | none => pyErr .typeError

/-- `sum(g) / len(g) if g else 0` -/
def aggAvg (v : VVal) : E Val :=
  if !truthyV v then .ok (.int 0) else
  match iterOf v with
  | some xs =>
    (match pySum xs with
     | .ok s => pyArith .div s (.int xs.length)
     | .error e => .error e)
  | none => pyErr .typeError

/-- `max(g) if g else 0` / `min(g) if g else 0` -/
def aggExt (c : Consumer) (v : VVal) : E Val :=
  if !truthyV v then .ok (.int 0) else
  match iterOf v with
  | some xs => pyExt c xs
  | none => pyErr .typeError

/-- `statistics.stdev(g) if len(g) >= 2 else 0` -/
def aggStddev (o : Oracles) (v : VVal) : E Val :=
  match lenOf v with
  | none => pyErr .typeError
  | some n =>
    if n < 2 then .ok (.int 0) else
    match iterOf v with
    | some xs => pyStdev o xs
    | none => pyErr .typeError

/-- `_is_nested(values)` then the per-group comprehension, else the flat branch -/
def autoMap (f : VVal → E Val) (v : VVal) : E VVal :=
  match v with
  | .v (.list (.list g :: gs)) =>
    (match mapE (fun x => f (.v x)) (.list g :: gs) with
     | .ok rs => .ok (.v (.list rs))
     | .error e => .error e)
  | _ =>
    match f v with
    | .ok r => .ok (.v r)
    | .error e => .error e

/-! ### dates: the four grouping keys -/

def fmtY (d : Date) : String := pad 4 d.y
def fmtYm (d : Date) : String := pad 4 d.y ++ "-" ++ pad 2 d.m
def fmtYmd (d : Date) : String := d.iso
/-- `%W`: week of the year, Monday first; days before the first Monday are week 0 -/
def weekNo (d : Date) : Nat := (daysBeforeMonth d.y d.m + d.d - 1 + 7 - d.weekday) / 7
def fmtYW (d : Date) : String := pad 4 d.y ++ "-W" ++ pad 2 (weekNo d)

def groupKey (field : String) (d : Date) : Option String :=
  match field with
  | "month" => some (fmtYm d)
  | "year" => some (fmtY d)
  | "day" => some (fmtYmd d)
  | "week" => some (fmtYW d)
  | _ => none

def insertByKey {β : Type} (kv : String × β) : List (String × β) → List (String × β)
  | [] => [kv]
  | x :: xs => if kv.1 < x.1 then kv :: x :: xs else x :: insertByKey kv xs

/-- `sorted(groups.keys())` (keys are distinct) -/
def sortByKey {β : Type} (l : List (String × β)) : List (String × β) :=
  l.foldr insertByKey []

/-- the loop of `get_by`: undated transactions are skipped; an unknown field raises only when a dated
transaction is reached -/
def groupGo (field : String) : List Txn → List (String × List Val) → E (List (String × List Val))
  | [], g => .ok g
  | t :: rest, g =>
    match t.date with
    | none => groupGo field rest g
    | some d =>
      match groupKey field d with
      | none => exprErr "Unknown grouping field"
      | some k => groupGo field rest (Totals.upsert k [] (fun l => l ++ [t.amount]) g)

def getBy (ctx : Ctx) (field : String) : E Val :=
  match groupGo field ctx.txns [] with
  | .ok g => .ok (.list ((sortByKey g).map (fun kv => Val.list kv.2)))
  | .error e => .error e

/-! ### context primitives -/

def getPayments (ctx : Ctx) : List Val := ctx.txns.map (·.amount)

def addNew (k : String) (l : List String) : List String := if l.contains k then l else l ++ [k]

/-- `months = set(); for t: if 'date' in t: months.add(strftime('%Y-%m'))` (first-seen order) -/
def monthSet (txns : List Txn) : List String :=
  txns.foldl (fun acc t => match t.date with | some d => addNew (fmtYm d) acc | none => acc) []

/-- `len(months) if months else 1` -/
def getMonths (ctx : Ctx) : Int :=
  let ms := monthSet ctx.txns
  if ms.isEmpty then 1 else ms.length

def tagsGo (o : Oracles) : List String → List String → E (List String)
  | [], acc => .ok acc
  | t :: rest, acc =>
    match pyLowerE o t with
    | .ok l => tagsGo o rest (setInsert l acc)
    | .error e => .error e

def getTags (o : Oracles) (ctx : Ctx) : E (List String) :=
  tagsGo o (ctx.txns.flatMap (·.tags)) []

def getCategory (ctx : Ctx) : String := match ctx.txns with | t :: _ => t.category | [] => ""
def getSubcategory (ctx : Ctx) : String := match ctx.txns with | t :: _ => t.subcategory | [] => ""
def getMerchant (ctx : Ctx) : String := match ctx.txns with | t :: _ => t.merchant | [] => ""

/-- `get_total`: `sum(payments)` -/
def getTotal (ctx : Ctx) : E Val := pySum (getPayments ctx)

def setKey {β : Type} (k : String) (v : β) (l : List (String × β)) : List (String × β) :=
  if (l.lookup k).isSome then l.map (fun kv => if kv.1 == k then (k, v) else kv) else l ++ [(k, v)]

/-- `monthly_totals[key] = monthly_totals.get(key, 0) + t['amount']` over the dated transactions -/
def monthlyGo : List Txn → List (String × Val) → E (List (String × Val))
  | [], d => .ok d
  | t :: rest, d =>
    match t.date with
    | none => monthlyGo rest d
    | some dt =>
      let k := fmtYm dt
      match pyArith .add ((d.lookup k).getD (.int 0)) t.amount with
      | .ok v => monthlyGo rest (setKey k v d)
      | .error e => .error e

def powSq (o : Oracles) : Val → E Val
  | .flt b =>
    (match o.sq b with
     | some (some r) => .ok (.flt r)
     | some none => pyErr .overflowError
     | none => need "sq" [toString b.toNat])
  | v => .error (.unmodelled ("** 2 of " ++ v.typeName))

def powHalf (o : Oracles) : Val → E Val
  | .flt b =>
    (match o.sqrt b with
     | some (some r) => .ok (.flt r)
     | some none => .error (.unmodelled "** 0.5 is not a float")
     | none => need "sqrt" [toString b.toNat])
  | v => .error (.unmodelled ("** 0.5 of " ++ v.typeName))

/-- the tail of `get_cv` on the list of monthly totals (at least two of them) -/
def cvOfTotals (o : Oracles) (values : List Val) : E Val := do
  let n : Val := .int values.length
  let s ← pySum values
  let avg ← pyArith .div s n                                   -- `sum(values) / len(values)`
  if isZero avg then pure (.flt (B 0.0)) else do
    let sqs ← mapE (fun x => do let d ← pyArith .sub x avg; powSq o d) values
    let ss ← pySum sqs
    let variance ← pyArith .div ss n
    let sd ← powHalf o variance
    pyArith .div sd avg

/-- `get_cv`: population σ/μ of the monthly totals; 0.0 for fewer than two months or mean 0 -/
def getCv (o : Oracles) (ctx : Ctx) : E Val :=
  match monthlyGo ctx.txns [] with
  | .error e => .error e
  | .ok d => if d.length < 2 then .ok (.flt (B 0.0)) else cvOfTotals o (d.map (·.2))

/-! ### the function table (`ExpressionContext.functions`) on evaluated arguments -/

def knownFns : List String :=
  ["sum", "count", "avg", "max", "min", "stddev", "abs", "round", "by", "period", "max_val", "min_val"]

def strArg (o : Oracles) : VVal → E String
  | .v (.str s) => pyLowerE o s                    -- `field.lower()`
  | _ => pyErr .attributeError

def callFn (o : Oracles) (ctx : Ctx) (fname : String) (args : List VVal) : E VVal :=
  match fname, args with
  | "sum", [a] => autoMap aggSum a
  | "count", [a] => autoMap aggCount a
  | "avg", [a] => autoMap aggAvg a
  | "max", [a] => autoMap (aggExt .max) a
  | "min", [a] => autoMap (aggExt .min) a
  | "stddev", [a] => autoMap (aggStddev o) a
  | "abs", [.v x] => (pyBuiltin o "abs" [x]).map .v
  | "round", [.v x] => (pyBuiltin o "round" [x]).map .v
  | "round", [.v x, .v n] => (pyBuiltin o "round" [x, n]).map .v
  | "by", [a] =>
    (match strArg o a with
     | .ok f => (getBy ctx f).map .v
     | .error e => .error e)
  | "period", [a] =>
    (match strArg o a with
     | .ok f =>
       (match ctx.period.lookup f with
        | some v => .ok (.v v)
        | none => if f == "month" then .ok (.v (.int 12)) else if f == "year" then .ok (.v (.int 1))
                  else exprErr "Unknown period field")
     | .error e => .error e)
  | "max_val", [a, b] =>                          -- `max(a, b)`: b if b > a else a
    (match vLt a b with
     | some r => .ok (if r then b else a)
     | none => pyErr .typeError)
  | "min_val", [a, b] =>                          -- `min(a, b)`: b if b < a else a
    (match vLt b a with
     | some r => .ok (if r then b else a)
     | none => pyErr .typeError)
  | _, _ => pyErr .typeError                      -- wrong arity, or abs/round of a set

/-! ### operators -/

def binV (o : Oracles) (op : BinOp) (a b : VVal) : E VVal :=
  match a, b with
  | .v x, .v y => (pyBin o op x y).map .v
  | _, _ =>
    -- a set is involved: only `set - set` is defined; `x / 0`, `x % 0` still return 0 first
    if (op == .div || op == .mod) && (match b with | .v y => isZero y | _ => false) then .ok (.v (.int 0))
    else match op, a, b with
      | .sub, .set x, .set y => .ok (.set (x.filter (fun s => !y.contains s)))
      | .mod, .v (.str _), _ => .error (.unmodelled "%-formatting")
      | _, _, _ => pyErr .typeError

def negV : VVal → E VVal
  | .v x => (pyNeg x).map .v
  | .set _ => pyErr .typeError

def optB (x : Option Bool) : E Bool :=
  match x with
  | some b => .ok b
  | none => pyErr .typeError

/-- `left in right` -/
def inV (o : Oracles) (left right : VVal) : E Bool :=
  match right with
  | .set xs =>
    (match left with
     | .v (.str s) =>
       (match pyLowerE o s with                    -- `left.lower() in right`
        | .ok l => .ok (xs.contains l)
        | .error e => .error e)
     | .v x => if hashable x then .ok false else pyErr .typeError
     | .set _ => .ok false)
  | .v (.str rs) =>
    (match left with
     | .v (.str ls) => .ok (strContains ls rs)      -- plain Python `in`: case-SENSITIVE here
     | _ => pyErr .typeError)
  | .v (.list ys) =>
    (match left with
     | .v x => .ok (ys.any (fun y => pyEq x y))
     | .set _ => .ok false)
  | _ => pyErr .typeError

def cmpLinkV (o : Oracles) (op : CmpOp) (left right : VVal) : E Bool :=
  match op with
  | .eq | .ne =>
    let r : E Bool :=
      (match left, right with
       | .v (.str a), .v (.str b) =>
         (match pyLowerE o a with
          | .ok x => (match pyLowerE o b with
            | .ok y => .ok (x == y)
            | .error e => .error e)
          | .error e => .error e)
       | _, _ => .ok (vEq left right))
    r.map (fun b => if op == .eq then b else !b)
  | .lt => optB (vLt left right)
  | .le => optB (vLe left right)
  | .gt => optB (vLt right left)
  | .ge => optB (vLe right left)
  | .isIn => inV o left right
  | .notIn => (inV o left right).map (fun b => !b)

/-! ### the interpreter -/

/-- `_eval_Name`: user variables (looked up with the LOWER-CASED name) first, then the primitives -/
def lookupName (o : Oracles) (ctx : Ctx) (id : String) : E VVal :=
  let n := lowerName id
  match ctx.variables.lookup n with
  | some v => .ok v
  | none =>
    match n with
    | "payments" => .ok (.v (.list (getPayments ctx)))
    | "months" => .ok (.v (.int (getMonths ctx)))
    | "category" => .ok (.v (.str (getCategory ctx)))
    | "subcategory" => .ok (.v (.str (getSubcategory ctx)))
    | "merchant" => .ok (.v (.str (getMerchant ctx)))
    | "tags" => (getTags o ctx).map .set
    | "cv" => (getCv o ctx).map .v
    | "total" => (getTotal ctx).map .v
    | "true" => .ok (.v (.bool true))
    | "false" => .ok (.v (.bool false))
    | _ => exprErr "Unknown variable"

mutual
def eval (o : Oracles) (ctx : Ctx) : Expr → E VVal
  | .const c =>
    (match c with
     | .other k => .error (.unmodelled ("constant of type " ++ k))
     | _ => .ok (.v c))
  | .name id => lookupName o ctx id
  | .callName f args =>
    let fn := lowerName f
    if knownFns.contains fn then
      (match evalArgs o ctx args with
       | .ok vs => callFn o ctx fn vs
       | .error e => .error e)
    else exprErr "Unknown function"
  | .callNameGen f _ _ _ =>
    -- the function is looked up first; then the first argument (a GeneratorExp) cannot be evaluated
    if knownFns.contains (lowerName f) then exprErr "Cannot evaluate node type" else exprErr "Unknown function"
  | .callAttr _ _ _ => exprErr "Only simple function calls are supported"
  | .callOther _ _ => exprErr "Only simple function calls are supported"
  | .boolop isAnd es =>
    (match evalBool o ctx isAnd es with
     | .ok b => .ok (.v (.bool b))
     | .error e => .error e)
  | .unop op e =>
    (match eval o ctx e with
     | .ok x =>
       (match op with
        | .not => .ok (.v (.bool (!truthyV x)))
        | .neg => negV x)
     | .error err => .error err)
  | .binop op l r =>
    (match eval o ctx l with
     | .ok a =>
       (match eval o ctx r with
        | .ok b => binV o op a b
        | .error e => .error e)
     | .error e => .error e)
  | .cmp l links =>
    (match eval o ctx l with
     | .ok left =>
       (match evalLinks o ctx left links with
        | .ok b => .ok (.v (.bool b))
        | .error e => .error e)
     | .error e => .error e)
  | .ifexp c t e =>
    (match eval o ctx c with
     | .ok cv => if truthyV cv then eval o ctx t else eval o ctx e
     | .error err => .error err)
  | .attr _ _ => exprErr "Cannot evaluate node type"
  | .attrName _ _ => exprErr "Cannot evaluate node type"
  | .listcomp _ _ => exprErr "Cannot evaluate node type"
  | .genexp _ _ => exprErr "Cannot evaluate node type"
  | .subscript _ _ => exprErr "Cannot evaluate node type"
  | .walrus _ _ => exprErr "Cannot evaluate node type"

def evalArgs (o : Oracles) (ctx : Ctx) : List Expr → E (List VVal)
  | [] => .ok []
  | e :: es =>
    match eval o ctx e with
    | .ok x =>
      (match evalArgs o ctx es with
       | .ok xs => .ok (x :: xs)
       | .error err => .error err)
    | .error err => .error err

/-- `and` / `or`: left to right, first decisive operand, result is a Python bool -/
def evalBool (o : Oracles) (ctx : Ctx) (isAnd : Bool) : List Expr → E Bool
  | [] => .ok isAnd
  | e :: es =>
    match eval o ctx e with
    | .ok x =>
      if isAnd then (if truthyV x then evalBool o ctx isAnd es else .ok false)
      else (if truthyV x then .ok true else evalBool o ctx isAnd es)
    | .error err => .error err

/-- the comparison chain: stop at the first false link, continue with `left = right` -/
def evalLinks (o : Oracles) (ctx : Ctx) (left : VVal) : List Link → E Bool
  | [] => .ok true
  | .mk op e :: rest =>
    match eval o ctx e with
    | .ok right =>
      (match cmpLinkV o op left right with
       | .ok b => if b then evalLinks o ctx right rest else .ok false
       | .error err => .error err)
    | .error err => .error err
end

/-- `_eval_Expression`: after the D8 repair (`convert = true`) every Python exception raised inside
evaluation is re-raised as ExpressionError; `convert = false` is the code as pinned -/
def evalRoot (convert : Bool) (o : Oracles) (ctx : Ctx) (e : Expr) : E VVal :=
  match eval o ctx e with
  | .ok x => .ok x
  | .error (.py c) => if convert then .error (.expr "converted") else .error (.py c)
  | .error err => .error err

/-! ### `section_engine` -/

structure Section where
  name : String
  filter : Expr
  variables : List (String × Expr)      -- section-local variables, file order

structure Config where
  globals : List (String × Expr)
  sections : List Section

/-- `evaluate_variables`: in order, each sees the earlier ones; `result[name] = value` keeps the name
as written (lookups lower-case the name: a variable written with an upper-case letter is
unreachable); ExpressionError ⇒ `None`; anything else is not caught -/
def evalVariables (convert : Bool) (o : Oracles) (txns : List Txn) (pd : List (String × Val)) :
    List (String × Expr) → Vars → E Vars
  | [], res => .ok res
  | (name, e) :: rest, res =>
    match evalRoot convert o { txns := txns, variables := res, period := pd } e with
    | .ok x => evalVariables convert o txns pd rest (setKey name x res)
    | .error (.expr _) => evalVariables convert o txns pd rest (setKey name (.v .none) res)
    | .error err => .error err

/-- `evaluate_section_filter`: local variables on top of the globals, then `bool(filter)`;
ExpressionError ⇒ False; anything else is not caught -/
def sectionHoldsE (convert : Bool) (o : Oracles) (pd : List (String × Val)) (txns : List Txn)
    (globals : Vars) (s : Section) : E Bool :=
  match (if s.variables.isEmpty then .ok globals else evalVariables convert o txns pd s.variables globals) with
  | .error e => .error e
  | .ok vars =>
    match evalRoot convert o { txns := txns, variables := vars, period := pd } s.filter with
    | .ok x => .ok (truthyV x)
    | .error (.expr _) => .ok false
    | .error err => .error err

/-- one merchant against one view: globals for this merchant's transactions, then the view -/
def holdsE (convert : Bool) (o : Oracles) (globals : List (String × Expr)) (pd : List (String × Val))
    (txns : List Txn) (s : Section) : E Bool :=
  match evalVariables convert o txns pd globals [] with
  | .error e => .error e
  | .ok g => sectionHoldsE convert o pd txns g s

/-- the membership test as a total function: an evaluation that does not produce `True` — including
the outcomes on which the unrepaired code would abort, and the model's own give-up — is `false`;
`aborts` below says when the real run does not continue -/
def holds (convert : Bool) (o : Oracles) (globals : List (String × Expr)) (pd : List (String × Val))
    (txns : List Txn) (s : Section) : Bool :=
  match holdsE convert o globals pd txns s with
  | .ok b => b
  | .error _ => false

/-- `result[name].append(x)` — the key always exists (the dict is initialised with every view name) -/
def appendAt {α : Type} (name : String) (x : α) : List (String × List α) → List (String × List α)
  | [] => []
  | (k, xs) :: rest => if k == name then (k, xs ++ [x]) :: rest else (k, xs) :: appendAt name x rest

/-- `{section.name: [] for section in config.sections}`: equal names share one entry -/
def initResult {α : Type} (names : List String) : List (String × List α) :=
  names.foldl (fun acc n => if (acc.lookup n).isSome then acc else acc ++ [(n, [])]) []

/-- `classify_merchants`: for each merchant, for each view in file order, append on a true filter -/
def classifyMerchants {μ : Type} (test : μ → Section → Bool) (sections : List Section) (ms : List μ) :
    List (String × List μ) :=
  ms.foldl (fun acc m => sections.foldl (fun acc s => if test m s then appendAt s.name m acc else acc) acc)
    (initResult (sections.map (·.name)))

/-! ### `analyzer.classify_by_sections` / `compute_section_totals` -/

structure MTxn where
  y : Nat                     -- `txn['month']` = "%Y-%m"
  m : Nat
  amount : Val
deriving Repr

structure Merchant where
  name : String
  category : String
  subcategory : String
  tags : List String          -- merchant-level tags
  txns : List MTxn
  total : Val                 -- `data.get('total', 0)`
deriving Repr

/-- the transactions handed to the view engine: every payment is re-dated to the 15th of its month -/
def sectionTxns (m : Merchant) : List Txn :=
  m.txns.map (fun t => { amount := t.amount, date := some ⟨t.y, t.m, 15⟩, category := m.category,
                          subcategory := m.subcategory, merchant := m.name, tags := m.tags })

/-- `is_excluded_from_spending(list(data.get('tags', [])))` — the GENERATED definition -/
def excluded (lower : String → String) (m : Merchant) : Bool :=
  TallyVerif.Gen.ClassPy.is_excluded_from_spending intNum lower (some m.tags)

def keptMerchants (lower : String → String) (ms : List Merchant) : List Merchant :=
  ms.filter (fun m => !excluded lower m)

/-- `period_data`: distinct months / years over the kept merchants' payments -/
def periodData (numMonths : Nat) (kept : List Merchant) : List (String × Val) :=
  let months := (kept.flatMap (fun m => m.txns.map (fun t => (t.y, t.m)))).eraseDups
  let years := (kept.flatMap (fun m => m.txns.map (fun t => t.y))).eraseDups
  [("month", .int (if months.isEmpty then numMonths else months.length)),
   ("year", .int (if years.isEmpty then 1 else years.length))]

/-- membership test of `classify_by_sections` for one merchant and one view -/
def merchantHolds (convert : Bool) (o : Oracles) (cfg : Config) (pd : List (String × Val))
    (m : Merchant) (s : Section) : Bool :=
  holds convert o cfg.globals pd (sectionTxns m) s

/-- `classify_by_sections`: view name ↦ the member merchants, in `by_merchant` order -/
def classifyViews (convert : Bool) (o : Oracles) (lower : String → String) (cfg : Config) (numMonths : Nat)
    (ms : List Merchant) : List (String × List Merchant) :=
  let kept := keptMerchants lower ms
  classifyMerchants (merchantHolds convert o cfg (periodData numMonths kept)) cfg.sections kept

/-- the first evaluation outcome on which the real run does NOT continue: an exception that no call
site catches (only with `convert = false`), or the model's own give-up / oracle request -/
def aborts (convert : Bool) (o : Oracles) (lower : String → String) (cfg : Config) (numMonths : Nat)
    (ms : List Merchant) : Option Err :=
  let kept := keptMerchants lower ms
  let pd := periodData numMonths kept
  (kept.flatMap (fun m => cfg.sections.map (fun s => holdsE convert o cfg.globals pd (sectionTxns m) s))).findSome?
    (fun r => match r with | .error e => some e | .ok _ => none)

/-- `compute_section_totals(...)['total']`: `sum(data.get('total', 0) for _, data in members)` -/
def sectionTotal (members : List Merchant) : E Val := pySum (members.map (·.total))

def members {α : Type} (r : List (String × List α)) (name : String) : List α := (r.lookup name).getD []

/-! ### the views in the HTML report's data (`report.write_summary_file_vue`) -/

/-- `for name, data in stats['sections'].items(): if not merchants: continue; sections[id(name)] = {'title': name,
'merchants': …}` - a Python dict keyed by an id derived from the view's NAME.  `idOf` is that id function, an
external parameter (as pinned: `name.lower().replace(' ', '_')`; the harness observes it on the real report).
An entry is (id, (title, merchants)); a later view with the same id takes the earlier one's place. -/
def htmlSections {α : Type} (idOf : String → String) (r : List (String × List α)) :
    List (String × (String × List α)) :=
  r.foldl (fun d p => if p.2.isEmpty then d else setKey (idOf p.1) (p.1, p.2) d) []

/-- the merchants the data lists under the entry titled `title` (none if there is no such entry) -/
def htmlMembers {α : Type} (h : List (String × (String × List α))) (title : String) : List α :=
  ((h.map (·.2)).lookup title).getD []

end TallyVerif.View
