import TallyVerif.Model.Csv
import TallyVerif.Model.Migrate
/-!
M-Legacy — the LEGACY CSV RULE LOADER and the MODIFIER TEXT PARSER (properties C14 and C01).

Mirrors, structure for structure:
* `modifier_parser.parse_pattern_with_modifiers`        → `parsePattern` (`loop`: the `while True`, `lastHit`: the `finditer` pass)
* `modifier_parser._parse_amount_modifier`              → `parseAmountMod`
* `modifier_parser._parse_date_modifier`                → `parseDateMod`
* `modifier_parser._parse_month_modifier`               → `parseMonthMod`
* the eleven regular expressions of `modifier_parser`   → explicit scanners (`matchAt`, `matchOpNum`, `matchRange`, `matchDateEq`,
  `matchDateRange`, `matchRelative`, `matchMonth`); the table `regexTable` names the expression each scanner implements and is
  compared with the table regenerated from the source (`Gen/ModifierTables.lean`) by a kernel-decided obligation in Props/C14
* `merchant_utils.load_merchant_rules`                  → `loadRules` (`univNl`: text-mode newline translation, `physLines`: the file
  iterator, `keepLine`: the comment / blank filter, `Csv.readCsv`: `csv.reader`, `rowDict` / `dictGet`: what `csv.DictReader`
  builds, `rowRule`: the loop body, `loadRows`: the loop)
* the 6-tuple → `Migrate.CsvRule`                       → `toCsvRule`

What stays a parameter (`Oracles`; every theorem quantifies over all of them): `float()` on the captured `[\d.]+` text, the Unicode
decimal value of a NON-ASCII character (`\d`, `int()`), `datetime.strptime(…, '%Y-%m-%d')` on a date text that contains a non-ASCII
digit (for ASCII digits the calendar is modelled here: year ≥ 1, month 1..12, day within the month, leap years), and
`sys.get_int_max_str_digits()`.  Python's `\s` for `str` patterns is `Csv.isPySpace` (29 code points, compared with CPython on
every run).  Errors the code raises are error values: `ModErr` (= `ModifierParseError`), `LoadErr` (`AttributeError`, `KeyError`).
Core Lean only.
-/
namespace TallyVerif.Legacy
open TallyVerif.Csv (Str isPySpace strip lstrip readCsv)
open TallyVerif.Migrate (NumLit Date AmountCond DateCond Parsed CsvRule)

/-! ## 0. the regular expressions the scanners below implement (source text of the constants, flags) -/

/-- `cs("abc")` is the character list `['a', 'b', 'c']`, expanded when the file is elaborated (a `String` literal would have to be
decoded by the kernel, character by character, inside every `decide +kernel`) -/
macro "cs(" s:str ")" : term => do
  let chars : Array (Lean.TSyntax `term) :=
    (s.getString.toList.map fun c => (Lean.Syntax.mkCharLit c : Lean.TSyntax `term)).toArray
  `(([$chars,*] : List Char))

/-- `(name, pattern, flags)` of every `re.compile` constant of `modifier_parser.py`, in source order -/
def regexTable : List (List Char × List Char × List (List Char)) :=
  [(cs("MODIFIER_BLOCK_PATTERN"), cs("\\[(amount|date|month)([^\\]]*)\\]"), []),
   (cs("AMOUNT_GT"), cs("^\\s*>\\s*([\\d.]+)\\s*$"), []),
   (cs("AMOUNT_LT"), cs("^\\s*<\\s*([\\d.]+)\\s*$"), []),
   (cs("AMOUNT_EQ"), cs("^\\s*=\\s*([\\d.]+)\\s*$"), []),
   (cs("AMOUNT_GTE"), cs("^\\s*>=\\s*([\\d.]+)\\s*$"), []),
   (cs("AMOUNT_LTE"), cs("^\\s*<=\\s*([\\d.]+)\\s*$"), []),
   (cs("AMOUNT_RANGE"), cs("^\\s*:\\s*([\\d.]+)\\s*-\\s*([\\d.]+)\\s*$"), []),
   (cs("DATE_EQ"), cs("^\\s*=\\s*(\\d{4}-\\d{2}-\\d{2})\\s*$"), []),
   (cs("DATE_RANGE"), cs("^\\s*:\\s*(\\d{4}-\\d{2}-\\d{2})\\s*\\.\\.\\s*(\\d{4}-\\d{2}-\\d{2})\\s*$"), []),
   (cs("DATE_RELATIVE"), cs("^\\s*:\\s*last(\\d+)days\\s*$"), [cs("IGNORECASE")]),
   (cs("MONTH_EQ"), cs("^\\s*=\\s*(\\d{1,2})\\s*$"), [])]

/-- which constant each function consults, with which method, in source order -/
def useTable : List (List Char × List (List Char × List Char)) :=
  [(cs("parse_pattern_with_modifiers"), [(cs("MODIFIER_BLOCK_PATTERN"), cs("finditer"))]),
   (cs("_parse_amount_modifier"), [(cs("AMOUNT_GT"), cs("match")), (cs("AMOUNT_GTE"), cs("match")), (cs("AMOUNT_LT"), cs("match")),
                                   (cs("AMOUNT_LTE"), cs("match")), (cs("AMOUNT_EQ"), cs("match")), (cs("AMOUNT_RANGE"), cs("match"))]),
   (cs("_parse_date_modifier"), [(cs("DATE_EQ"), cs("match")), (cs("DATE_RANGE"), cs("match")), (cs("DATE_RELATIVE"), cs("match"))]),
   (cs("_parse_month_modifier"), [(cs("MONTH_EQ"), cs("match"))])]

/-! ## 1. external functions -/

structure Oracles where
  /-- decimal value of a NON-ASCII character of Unicode category Nd (what `\d` matches and `int()` / `float()` read);
  `none` = not a decimal digit -/
  digitNA : Char → Option Nat
  /-- `float(text)` of a captured `[\d.]+` text; `none` = `ValueError` -/
  pyFloat : Str → Option NumLit
  /-- `datetime.strptime(text, '%Y-%m-%d').date()` of a `\d{4}-\d{2}-\d{2}` text with at least one non-ASCII digit;
  `none` = `ValueError` -/
  strptimeNA : Str → Option Date
  /-- `sys.get_int_max_str_digits()`; 0 = no limit -/
  maxStrDigits : Nat

def isAsciiDigit (c : Char) : Bool := 48 ≤ c.toNat && c.toNat ≤ 57

/-- the decimal value of a character matched by `\d` (`str` pattern: Unicode category Nd) -/
def digitVal (o : Oracles) (c : Char) : Option Nat :=
  if isAsciiDigit c then some (c.toNat - 48) else if c.toNat < 128 then none else o.digitNA c

/-- `\d` -/
def isD (o : Oracles) (c : Char) : Bool := (digitVal o c).isSome
/-- `[\d.]` -/
def isNumChar (o : Oracles) (c : Char) : Bool := isD o c || c == '.'

/-- `int(text)` of a text of `\d` characters (value only; the length limit is `intOf`) -/
def natOf (o : Oracles) (s : Str) : Nat := s.foldl (fun a c => 10 * a + (digitVal o c).getD 0) 0

inductive ModErr
  | syntax    -- no form of the keyword matches the value text: `raise ModifierParseError` of the sub-parser
  | value     -- `float()` / `strptime` / `int()` raised ValueError, re-raised as ModifierParseError by `except Exception`
  | month     -- `[month=N]` with N outside 1..12
deriving DecidableEq, Repr

/-- `int(m.group(1))`: CPython refuses decimal texts longer than `sys.get_int_max_str_digits()` -/
def intOf (o : Oracles) (s : Str) : Except ModErr Nat :=
  if o.maxStrDigits > 0 && s.length > o.maxStrDigits then .error .value else .ok (natOf o s)

def floatOf (o : Oracles) (t : Str) : Except ModErr NumLit :=
  match o.pyFloat t with
  | some v => .ok v
  | none => .error .value

/-! ## 2. scanners for the value patterns -/

/-- a literal prefix: the text after it -/
def eat : Str → Str → Option Str
  | [], s => some s
  | _ :: _, [] => none
  | p :: ps, c :: cs => if p == c then eat ps cs else none

/-- `re.IGNORECASE` on one lower-case ASCII letter of a pattern: the letter, its capital, and for `s` also U+017F (LATIN SMALL
LETTER LONG S) — CPython's case-insensitive matching of the letters that occur in `last…days` (compared on every run) -/
def ciMatch (a c : Char) : Bool := c == a || c.toNat + 32 == a.toNat || (a == 's' && c.toNat == 0x17f)

/-- a literal prefix under `re.IGNORECASE` (pattern letters lower-case ASCII) -/
def eatCI : Str → Str → Option Str
  | [], s => some s
  | _ :: _, [] => none
  | p :: ps, c :: cs => if ciMatch p c then eatCI ps cs else none

/-- `\s*$` -/
def allSpace (s : Str) : Bool := s.all isPySpace

/-- `([\d.]+)` (greedy): the maximal run and what follows; `none` = the run is empty -/
def takeNum (o : Oracles) (s : Str) : Option (Str × Str) :=
  if (s.takeWhile (isNumChar o)).isEmpty then none else some (s.takeWhile (isNumChar o), s.dropWhile (isNumChar o))

/-- `^\s*OP\s*([\d.]+)\s*$` (AMOUNT_GT, AMOUNT_GTE, AMOUNT_LT, AMOUNT_LTE, AMOUNT_EQ): the captured text -/
def matchOpNum (o : Oracles) (op : Str) (v : Str) : Option Str :=
  match eat op (lstrip v) with
  | none => none
  | some r =>
    match takeNum o (lstrip r) with
    | none => none
    | some (num, rest) => if allSpace rest then some num else none

/-- AMOUNT_RANGE `^\s*:\s*([\d.]+)\s*-\s*([\d.]+)\s*$` -/
def matchRange (o : Oracles) (v : Str) : Option (Str × Str) :=
  match eat [':'] (lstrip v) with
  | none => none
  | some r =>
    match takeNum o (lstrip r) with
    | none => none
    | some (lo, r2) =>
      match eat ['-'] (lstrip r2) with
      | none => none
      | some r3 =>
        match takeNum o (lstrip r3) with
        | none => none
        | some (hi, r4) => if allSpace r4 then some (lo, hi) else none

/-- `\d{k}`: exactly `k` digit characters -/
def takeDigits (o : Oracles) : Nat → Str → Option (Str × Str)
  | 0, s => some ([], s)
  | _ + 1, [] => none
  | k + 1, c :: cs =>
    if isD o c then
      match takeDigits o k cs with
      | some (d, r) => some (c :: d, r)
      | none => none
    else none

/-- the three digit groups of a date text -/
structure DateText where
  y : Str
  m : Str
  d : Str
deriving DecidableEq, Repr

def DateText.text (t : DateText) : Str := t.y ++ '-' :: t.m ++ '-' :: t.d

/-- `(\d{4}-\d{2}-\d{2})` -/
def takeDate (o : Oracles) (s : Str) : Option (DateText × Str) :=
  match takeDigits o 4 s with
  | none => none
  | some (y, r1) =>
    match eat ['-'] r1 with
    | none => none
    | some r2 =>
      match takeDigits o 2 r2 with
      | none => none
      | some (m, r3) =>
        match eat ['-'] r3 with
        | none => none
        | some r4 =>
          match takeDigits o 2 r4 with
          | none => none
          | some (d, r5) => some (⟨y, m, d⟩, r5)

/-- DATE_EQ `^\s*=\s*(\d{4}-\d{2}-\d{2})\s*$` -/
def matchDateEq (o : Oracles) (v : Str) : Option DateText :=
  match eat ['='] (lstrip v) with
  | none => none
  | some r =>
    match takeDate o (lstrip r) with
    | none => none
    | some (t, rest) => if allSpace rest then some t else none

/-- DATE_RANGE `^\s*:\s*(\d{4}-\d{2}-\d{2})\s*\.\.\s*(\d{4}-\d{2}-\d{2})\s*$` -/
def matchDateRange (o : Oracles) (v : Str) : Option (DateText × DateText) :=
  match eat [':'] (lstrip v) with
  | none => none
  | some r =>
    match takeDate o (lstrip r) with
    | none => none
    | some (a, r2) =>
      match eat ['.', '.'] (lstrip r2) with
      | none => none
      | some r3 =>
        match takeDate o (lstrip r3) with
        | none => none
        | some (b, r4) => if allSpace r4 then some (a, b) else none

/-- DATE_RELATIVE `^\s*:\s*last(\d+)days\s*$` with `re.IGNORECASE`: the digits -/
def matchRelative (o : Oracles) (v : Str) : Option Str :=
  match eat [':'] (lstrip v) with
  | none => none
  | some r =>
    match eatCI ['l', 'a', 's', 't'] (lstrip r) with
    | none => none
    | some r2 =>
      if (r2.takeWhile (isD o)).isEmpty then none else
      match eatCI ['d', 'a', 'y', 's'] (r2.dropWhile (isD o)) with
      | none => none
      | some r3 => if allSpace r3 then some (r2.takeWhile (isD o)) else none

/-- MONTH_EQ `^\s*=\s*(\d{1,2})\s*$`: the digits -/
def matchMonth (o : Oracles) (v : Str) : Option Str :=
  match eat ['='] (lstrip v) with
  | none => none
  | some r =>
    let ds := (lstrip r).takeWhile (isD o)
    if (ds.length == 1 || ds.length == 2) && allSpace ((lstrip r).dropWhile (isD o)) then some ds else none

/-! ### `datetime.strptime(text, '%Y-%m-%d').date()` -/

def isLeap (y : Nat) : Bool := y % 4 == 0 && (y % 100 != 0 || y % 400 == 0)

def daysIn (y m : Nat) : Nat :=
  if m == 2 then (if isLeap y then 29 else 28)
  else if m == 4 || m == 6 || m == 9 || m == 11 then 30 else 31

/-- a calendar date `datetime.date` accepts -/
def validYmd (y m d : Nat) : Bool := 1 ≤ y && y ≤ 9999 && 1 ≤ m && m ≤ 12 && 1 ≤ d && d ≤ daysIn y m

def DateText.ascii (t : DateText) : Bool := t.y.all isAsciiDigit && t.m.all isAsciiDigit && t.d.all isAsciiDigit

/-- ASCII digits: modelled (year ≥ 1, month 1..12, day within the month).  A text with a non-ASCII digit goes to the oracle
(`_strptime` mixes `\d` with the ASCII ranges `[0-2]`, `[1-9]`). -/
def dateOf (o : Oracles) (t : DateText) : Except ModErr Date :=
  if t.ascii then
    if validYmd (natOf o t.y) (natOf o t.m) (natOf o t.d) then .ok ⟨natOf o t.y, natOf o t.m, natOf o t.d⟩
    else .error .value
  else
    match o.strptimeNA t.text with
    | some d => .ok d
    | none => .error .value

/-! ## 3. the three sub-parsers -/

/-- `_parse_amount_modifier`: the forms are tried in the order GT, GTE, LT, LTE, EQ, RANGE -/
def parseAmountMod (o : Oracles) (v : Str) : Except ModErr AmountCond :=
  match matchOpNum o ['>'] v with
  | some t => (floatOf o t).map .gt
  | none =>
  match matchOpNum o ['>', '='] v with
  | some t => (floatOf o t).map .ge
  | none =>
  match matchOpNum o ['<'] v with
  | some t => (floatOf o t).map .lt
  | none =>
  match matchOpNum o ['<', '='] v with
  | some t => (floatOf o t).map .le
  | none =>
  match matchOpNum o ['='] v with
  | some t => (floatOf o t).map .eq
  | none =>
  match matchRange o v with
  | some (lo, hi) =>
    match floatOf o lo with
    | .error e => .error e
    | .ok a => (floatOf o hi).map (.range a)
  | none => .error .syntax

/-- `_parse_date_modifier`: DATE_EQ, DATE_RANGE, DATE_RELATIVE -/
def parseDateMod (o : Oracles) (v : Str) : Except ModErr DateCond :=
  match matchDateEq o v with
  | some t => (dateOf o t).map .on
  | none =>
  match matchDateRange o v with
  | some (a, b) =>
    match dateOf o a with
    | .error e => .error e
    | .ok da => (dateOf o b).map (.range da)
  | none =>
  match matchRelative o v with
  | some ds => (intOf o ds).map .relative
  | none => .error .syntax

/-- `_parse_month_modifier` -/
def parseMonthMod (o : Oracles) (v : Str) : Except ModErr DateCond :=
  match matchMonth o v with
  | some ds => if 1 ≤ natOf o ds && natOf o ds ≤ 12 then .ok (.month (natOf o ds)) else .error .month
  | none => .error .syntax

/-! ## 4. `MODIFIER_BLOCK_PATTERN.finditer` and the loop of `parse_pattern_with_modifiers` -/

inductive Kw | amount | date | month
deriving DecidableEq, Repr

def Kw.text : Kw → Str
  | .amount => ['a', 'm', 'o', 'u', 'n', 't']
  | .date => ['d', 'a', 't', 'e']
  | .month => ['m', 'o', 'n', 't', 'h']

/-- `(amount|date|month)`: the alternatives in the order written -/
def kwAt (s : Str) : Option (Kw × Str) :=
  match eat Kw.amount.text s with
  | some r => some (.amount, r)
  | none =>
    match eat Kw.date.text s with
    | some r => some (.date, r)
    | none =>
      match eat Kw.month.text s with
      | some r => some (.month, r)
      | none => none

/-- `([^\]]*)\]`: the text up to the first `]` and what follows it; `none` = there is no `]` -/
def untilClose : Str → Option (Str × Str)
  | [] => none
  | c :: cs =>
    if c == ']' then some ([], cs)
    else match untilClose cs with
      | some (v, r) => some (c :: v, r)
      | none => none

structure Block where
  kw : Kw
  value : Str
deriving DecidableEq, Repr

/-- the text of a block -/
def Block.text (b : Block) : Str := '[' :: b.kw.text ++ b.value ++ [']']

/-- MODIFIER_BLOCK_PATTERN tried AT the head of `s` (no flags: the keyword is lower case only) -/
def matchAt (s : Str) : Option (Block × Str) :=
  match s with
  | '[' :: r =>
    match kwAt r with
    | some (k, r2) =>
      match untilClose r2 with
      | some (v, rest) => some (⟨k, v⟩, rest)
      | none => none
    | none => none
  | _ => none

/-- one match of `finditer`: the text before it, the block, the text after it -/
structure Hit where
  pre : Str
  blk : Block
  rest : Str
deriving DecidableEq, Repr

/-- `for m in MODIFIER_BLOCK_PATTERN.finditer(remaining): match = m` — one pass from the left, matches do not overlap:
`inside` = the scan is inside the current match (which ends at the first `]`), `pre` = the text already passed,
`last` = the latest match so far -/
def lastHit (inside : Bool) (pre : Str) (last : Option Hit) : Str → Option Hit
  | [] => last
  | c :: cs =>
    if inside then lastHit (c != ']') (pre ++ [c]) last cs
    else
      match matchAt (c :: cs) with
      | some (b, rest) => lastHit true (pre ++ [c]) (some ⟨pre, b, rest⟩) cs
      | none => lastHit false (pre ++ [c]) last cs

/-- the body of `try:` — dispatch on the keyword; a condition is inserted at the FRONT of its list -/
def addBlock (o : Oracles) (b : Block) (p : Parsed) : Except ModErr Parsed :=
  match b.kw with
  | .amount => (parseAmountMod o b.value).map fun c => { p with amount := c :: p.amount }
  | .date => (parseDateMod o b.value).map fun c => { p with date := c :: p.date }
  | .month => (parseMonthMod o b.value).map fun c => { p with date := c :: p.date }

/-- the `while True:` loop.  Every iteration cuts a non-empty block off `remaining`, so `remaining.length` iterations always
suffice (`Lemmas.Legacy.loop_fuel`: with at least that much fuel the result does not depend on the fuel). -/
def loop (o : Oracles) : Nat → Str → Parsed → Except ModErr (Str × Parsed)
  | 0, rem, p => .ok (rem, p)
  | n + 1, rem, p =>
    match lastHit false [] none rem with
    | none => .ok (rem, p)
    | some h =>
      if !h.rest.isEmpty then .ok (rem, p)          -- `match.end() != len(remaining)`
      else
        match addBlock o h.blk p with
        | .error e => .error e
        | .ok p' => loop o n h.pre p'

/-- `parse_pattern_with_modifiers(pattern_str)`: the regex and the conditions, or `ModifierParseError` -/
def parsePattern (o : Oracles) (s : Str) : Except ModErr (Str × Parsed) :=
  if s.isEmpty then .ok ([], ⟨[], []⟩) else loop o s.length s ⟨[], []⟩

/-! ## 5. `load_merchant_rules` -/

/-- `open(path, 'r')`: universal newlines — `\r\n` and a lone `\r` are read as `\n` -/
def univNl : Str → Str
  | [] => []
  | '\r' :: '\n' :: r => '\n' :: univNl r
  | '\r' :: r => '\n' :: univNl r
  | c :: r => c :: univNl r

/-- `for line in f`: the physical lines, each WITH its `\n` (the last one may lack it) -/
def physLines : Str → List Str
  | [] => []
  | c :: cs =>
    if c == '\n' then ['\n'] :: physLines cs
    else match physLines cs with
      | [] => [[c]]
      | l :: ls => (c :: l) :: ls

/-- `line.strip() and not line.strip().startswith('#')` -/
def keepLine (l : Str) : Bool := !(strip l).isEmpty && (strip l).head? != some '#'

/-- the dict `DictReader.__next__` builds, as the sequence of its assignments: `dict(zip(fieldnames, row))`, then
`d[key] = None` for every name beyond the row (`restval`); the `None: row[lf:]` entry of a long row has no string key -/
def rowDict (names : List Str) (row : List Str) : List (Str × Option Str) :=
  (names.zip row).map (fun kv => (kv.1, some kv.2)) ++ (names.drop row.length).map (fun k => (k, none))

/-- lookup in a dict given by its assignments: the LAST assignment of the key.  `none` = no such key,
`some none` = the value `None` -/
def dictGet (d : List (Str × Option Str)) (k : Str) : Option (Option Str) :=
  match d.reverse.find? (fun kv => kv.1 == k) with
  | some kv => some kv.2
  | none => none

/-- `s.split(sep)` for a one-character separator (always at least one piece) -/
def splitOn (sep : Char) : Str → List Str
  | [] => [[]]
  | c :: cs =>
    if c == sep then [] :: splitOn sep cs
    else match splitOn sep cs with
      | [] => [[c]]
      | p :: ps => (c :: p) :: ps

/-- `tags_str = tags_str.strip()`; `[t.strip() for t in tags_str.split('|') if t.strip()] if tags_str else []` -/
def tagsOf (tagsStr : Str) : List Str :=
  if (strip tagsStr).isEmpty then [] else ((splitOn '|' (strip tagsStr)).map strip).filter (fun x => !x.isEmpty)

/-- `tags_str = row.get('Tags') or ''` (no such column, `None` and `''` all give `''`), then `tagsOf` -/
def parseTags (cell : Option (Option Str)) : List Str :=
  tagsOf (match cell with
    | some (some v) => v
    | _ => [])

inductive LoadErr
  | attributeError     -- `None.strip()`: the row is too short to reach the (last) `Pattern` column
  | keyError           -- `row['Merchant']` / `row['Category']` / `row['Subcategory']`: no such column
deriving DecidableEq, Repr

/-- one tuple `load_merchant_rules` returns; a name is `none` (Python `None`) when the row ends before its column -/
structure Loaded where
  pattern : Str
  merchant : Option Str
  category : Option Str
  subcategory : Option Str
  parsed : Parsed
  tags : List Str
deriving DecidableEq, Repr

def kPattern : Str := ['P', 'a', 't', 't', 'e', 'r', 'n']
def kMerchant : Str := ['M', 'e', 'r', 'c', 'h', 'a', 'n', 't']
def kCategory : Str := ['C', 'a', 't', 'e', 'g', 'o', 'r', 'y']
def kSubcategory : Str := ['S', 'u', 'b', 'c', 'a', 't', 'e', 'g', 'o', 'r', 'y']
def kTags : Str := ['T', 'a', 'g', 's']

/-- `try: parsed = parse_pattern_with_modifiers(pattern_str) except ModifierParseError: parsed = ParsedPattern(pattern_str)` -/
def parseCell (o : Oracles) (p : Str) : Str × Parsed :=
  match parsePattern o p with
  | .ok r => r
  | .error _ => (p, ⟨[], []⟩)

/-- body of `for row in reader:` — `ok none` = `continue` -/
def rowRule (o : Oracles) (names row : List Str) : Except LoadErr (Option Loaded) :=
  let d := rowDict names row
  match dictGet d kPattern with
  | none => .ok none                          -- `row.get('Pattern', '')` = '' → skipped
  | some none => .error .attributeError       -- `None.strip()`
  | some (some cell) =>
    if (strip cell).isEmpty then .ok none else
    let rp := parseCell o (strip cell)
    let tags := parseTags (dictGet d kTags)
    match dictGet d kMerchant, dictGet d kCategory, dictGet d kSubcategory with
    | some m, some c, some s => .ok (some ⟨rp.1, m, c, s, rp.2, tags⟩)
    | _, _, _ => .error .keyError

/-- one iteration of the loop: append, `continue`, or propagate the exception -/
def loadStep (o : Oracles) (names : List Str) (st : Except LoadErr (List Loaded)) (row : List Str) :
    Except LoadErr (List Loaded) :=
  match st with
  | .error e => .error e
  | .ok acc =>
    match rowRule o names row with
    | .error e => .error e
    | .ok none => .ok acc
    | .ok (some r) => .ok (acc ++ [r])

/-- `for row in reader:` over the data records -/
def loadRows (o : Oracles) (names : List Str) (rows : List (List Str)) : Except LoadErr (List Loaded) :=
  rows.foldl (loadStep o names) (.ok [])

/-- `load_merchant_rules` from the physical lines on: the comment / blank filter (`lines = [line for line in f if …]`),
`csv.DictReader(lines)` — first record = field names, records `[]` skipped —, the row loop -/
def loadLines (o : Oracles) (lines : List Str) : Except LoadErr (List Loaded) :=
  match readCsv ',' (lines.filter keepLine).flatten with
  | [] => .ok []
  | names :: rows => loadRows o names (rows.filter fun r => !r.isEmpty)

/-- … on the text as the file object delivers it (newlines already translated) -/
def loadText (o : Oracles) (text : Str) : Except LoadErr (List Loaded) := loadLines o (physLines text)

/-- `load_merchant_rules(path)` for an existing file with the decoded content `raw` -/
def loadRules (o : Oracles) (raw : Str) : Except LoadErr (List Loaded) := loadText o (univNl raw)

/-- the loader's tuple as the `CsvRule` of M-Migrate; `none` when a name is `None` (row shorter than the header) -/
def toCsvRule (l : Loaded) : Option CsvRule :=
  match l.merchant, l.category, l.subcategory with
  | some m, some c, some s => some ⟨l.pattern, m, c, s, l.parsed, l.tags⟩
  | _, _, _ => none

end TallyVerif.Legacy
