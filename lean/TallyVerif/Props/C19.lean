import TallyVerif.Model.Discover
import TallyVerif.Lemmas.Discover
/-!
# C19 — every rule that `tally discover` suggests matches the transaction it was suggested for

FULL STATEMENT (all descriptions `d`, all oracles `o`):
  (1) the rule text proposed for `d` is accepted by the rules loader, and
  (2) once given a category it matches `d`  [`matchesSuggested o d = true`], hence
  (3) appending the suggested rules strictly shrinks the Unknown list.

What is proved here, over `Model/Discover.lean` (`Impl.*` mirrors commands/discover.py as it is; `Fixed.*` is the
same pipeline with the repair of notes/fix_D19.diff) and the C17 model of the rules parser:

* (1) `suggestion_loads` / `Fixed.suggestion_loads` — for ALL descriptions: the block is read as exactly one rule
  carrying the suggested name, the match expression as written and the category given, under decidable
  side conditions on the merchant name (`NameOk`: no white space at its ends — the model cannot rule that out for
  arbitrary non-ASCII title-casing tables) and with "the expression parser accepts `contains("…")`" as the
  parameter `ve` of the C17 model.  `literal_of_suggestion` complements it: for ALL NUL-free descriptions the text
  between the quotes is a well-formed Python string literal and its value is given in closed form — the words of
  the cleaned description, metacharacters still carrying their backslash, joined by the three characters `\s*`.
  That closed form is D19a made visible: `contains` looks for those characters literally.
* (2) is FALSE for the code as it is.  `counterexample_D19a_multiword`, `counterexample_D19a_dotted`,
  `counterexample_D19b_store_number` are kernel-checked on the pre-registered witnesses (and replayed on the real
  code by the harness); `D19a_is_only_the_wrapper` / `D19b_regex_reading_fails_too` separate the two defects.
  `suggestion_matches_partial` proves (2) on `Plain` descriptions — no store number deleted from the middle, the
  cleaned description is one word without regex metacharacters other than the backslash.  What is missing for the
  full statement is exactly the complement: D19a and D19b.
* For the REPAIRED pipeline (2) is proved for all descriptions in this form: `Fixed.suggestion_matches` — the
  upper-cased description contains a member of the language `w1 ws* w2 ws* w3` of the emitted regex
  (`Fixed.pattern_is_escaped_words`: the pattern is those words, escaped, joined by `\s*`).  That CPython's
  `re.search(…, re.IGNORECASE)` decides membership in that language is the remaining tie, checked by correspondence
  on every run (it fails only for the 102 characters whose `str.upper()` is longer than one character — D19c).
* (3) is not a Lean theorem: it follows from (2) for any non-empty Unknown list and is checked by the oracle.
-/
namespace TallyVerif.Discover.C19
open TallyVerif.RulesFile TallyVerif.Discover

/-- decidable side condition of clause (1): the suggested merchant name has no white space at its ends
(it is `' '.join(words).title()`, so this can only fail through an exotic title-casing table) -/
def NameOk (o : Oracles) (d : Str) : Prop := trimmedB (Impl.suggestMerchantName o d) = true
instance (o : Oracles) (d : Str) : Decidable (NameOk o d) := by unfold NameOk; infer_instance

/-- `Plain d` (decidable): deleting store numbers removes at most a tail of the description, and the cleaned
description is a single word without NUL and without regex metacharacters other than the backslash -/
def Plain (o : Oracles) (d : Str) : Prop := plainB o d = true
instance (o : Oracles) (d : Str) : Decidable (Plain o d) := by unfold Plain; infer_instance

/-- Clause (1), code as it is: for every description, the proposed block with `cat` / `sub` filled in (the
placeholders `CATEGORY` / `SUBCATEGORY` included) is accepted by the rules parser and read as exactly one rule:
the suggested name, `contains("…")` as written, the category given.  `ve` = "parse_expression accepts". -/
theorem suggestion_loads (o : Oracles) (ve : Str → Bool) (d cat sub : Str) (tags : List Str)
    (hname : NameOk o d) (hve : ve (matchExprText (Impl.suggestPattern o d)) = true)
    (hc : trimmedB cat = true) (hs : trimmedB sub = true)
    (ht : tags.isEmpty = true ∨ trimmedB (joinWith [',', ' '] tags) = true) :
    RulesFile.Impl.parseRulesFile ve
        (ruleLines (matchExprText (Impl.suggestPattern o d)) (Impl.suggestMerchantName o d) cat sub tags) =
      .ok { rules := [loadedRule (matchExprText (Impl.suggestPattern o d)) (Impl.suggestMerchantName o d) cat sub tags],
            variables := [], transforms := [] } :=
  ruleLines_load ve _ _ cat sub tags (matchExprText_trimmed _) hve hname hc hs ht

/-- Clause (1), repaired code (`regex(r"…")` or `contains("…")`). -/
theorem Fixed.suggestion_loads (o : Oracles) (ve : Str → Bool) (d cat sub : Str) (tags : List Str)
    (hname : NameOk o d) (hve : ve (Fixed.matchExprText (Fixed.suggestPattern o d)) = true)
    (hc : trimmedB cat = true) (hs : trimmedB sub = true)
    (ht : tags.isEmpty = true ∨ trimmedB (joinWith [',', ' '] tags) = true) :
    RulesFile.Impl.parseRulesFile ve
        (ruleLines (Fixed.matchExprText (Fixed.suggestPattern o d)) (Impl.suggestMerchantName o d) cat sub tags) =
      .ok { rules := [loadedRule (Fixed.matchExprText (Fixed.suggestPattern o d)) (Impl.suggestMerchantName o d) cat sub tags],
            variables := [], transforms := [] } :=
  ruleLines_load ve _ _ cat sub tags (Discover.Fixed.matchExprText_trimmed _) hve hname hc hs ht

/-- Clause (1), the literal: for every NUL-free description the text between the quotes of `contains("…")` is a
well-formed string literal, and the loaded rule looks for: the first three words of the cleaned description,
each metacharacter but the backslash still preceded by a backslash, joined by the characters `\s*`. -/
theorem literal_of_suggestion (o : Oracles) (d : Str) (h0 : NoNul (clean o d)) :
    literalOf (Impl.suggestPattern o d) =
      some (joinWith reWs (((splitWs (clean o d)).take 3).map litWord)) := by
  unfold Impl.suggestPattern
  by_cases hne : (splitWs (clean o d)).take 3 = []
  · have hs : splitWs (clean o d) = [] := by
      cases h : splitWs (clean o d) with
      | nil => rfl
      | cons a as => rw [h] at hne; simp at hne
    have hnil : clean o d = [] := strip_all_space_nil _ (splitWs_nil_all_space _ hs)
    rw [hnil]; rfl
  · exact literalOf_patternOf _ h0 hne

/-- Clause (2), partial — the code as it is: on `Plain` descriptions the suggested rule matches the description
it was suggested for.  (`UpperIdem`: `str.upper()` is idempotent — a law of the oracle, checked over all code
points on every run; it holds outright for ASCII, see `upperIdem_ascii`.)
FULL statement `∀ d, matchesSuggested o d = true` is false: see the counterexamples below. -/
theorem suggestion_matches_partial (o : Oracles) (hU : UpperIdem o) (d : Str) (hp : Plain o d) :
    matchesSuggested o d = true := by
  unfold Plain plainB at hp
  simp only [Bool.and_eq_true] at hp
  obtain ⟨hstore, hall⟩ := hp
  rw [List.all_eq_true] at hall
  have hch : ∀ c ∈ clean o d, isSpace c = false ∧ (isMeta c && c != '\\') = false ∧ c.toNat ≠ 0 := by
    intro c hc
    have := hall c hc
    simp only [Bool.and_eq_true, Bool.not_eq_true', bne_iff_ne, ne_eq] at this
    exact ⟨this.1.1, this.1.2, this.2⟩
  have h0 : NoNul (clean o d) := fun c hc => (hch c hc).2.2
  have hlit := literal_of_suggestion o d h0
  obtain ⟨a, b, hinf⟩ := clean_infix o d hstore
  unfold matchesSuggested
  rw [hlit]
  by_cases hnil : clean o d = []
  · rw [hnil]
    show containsCI o [] d = true
    unfold containsCI; exact isInfixB_nil _
  · have hns : NoSpace (clean o d) := by
      unfold NoSpace; rw [List.all_eq_true]
      intro c hc; simp [(hch c hc).1]
    rw [splitWs_single _ hnil hns]
    have hw : litWord (clean o d) = clean o d := litWord_plain _ (fun c hc => (hch c hc).2.1)
    show containsCI o (litWord (clean o d)) d = true
    rw [hw]
    exact containsCI_of_infix o hU _ d a b hinf

/-- the repaired pipeline emits the words of the cleaned description, escaped, joined by `\s*` -/
theorem Fixed.pattern_is_escaped_words (o : Oracles) (d : Str) (h : Fixed.regexWords o d ≠ []) :
    Fixed.suggestPattern o d = joinWith reWs ((Fixed.regexWords o d).map escapeRe) :=
  patternOf_words _ h

/-- Clause (2), repaired code, ALL descriptions: the upper-cased description contains a member of the language
`w1 ws* w2 ws* w3` of the regex that is emitted (each word read literally, `\s*` = a white-space run). -/
theorem Fixed.suggestion_matches (o : Oracles) (d : Str) :
    Fixed.langSearch (Fixed.regexWords o d) (upper o d) = true := by
  obtain ⟨a, b, h⟩ := Discover.Fixed.clean_infix o d
  exact langSearch_of_infix 3 _ a _ b h

/-- the same with the optional third change (upper-casing keeps 'ß' & co.): the description, upper-cased that
way, contains a member of the language of the emitted regex — and for THAT upper-casing `re.IGNORECASE` equates
every character with its image, so the tie to CPython's `re` has no exception left -/
theorem Fixed.suggestion_matches_keep (o : Oracles) (d : Str) :
    Fixed.langSearch (Fixed.regexWordsKeep o d) (Fixed.upperKeep o d) = true := by
  obtain ⟨a, b, h⟩ := Discover.Fixed.cleanU_infix o (Fixed.upperKeep o d)
  exact langSearch_of_infix 3 _ a _ b h

/-- the repaired pipeline keeps a contiguous piece of the upper-cased description (no deletion from the middle) -/
theorem Fixed.cleaned_is_a_piece (o : Oracles) (d : Str) : ∃ a b, upper o d = a ++ Fixed.clean o d ++ b :=
  Discover.Fixed.clean_infix o d

/-! ## the code as it is violates clause (2): kernel-checked witnesses (D19a, D19b) -/

/-- D19a: `contains("STARBUCKS\s*STORE")` does not match `STARBUCKS STORE 12345 SEATTLE WA` -/
theorem counterexample_D19a_multiword :
    Impl.suggestPattern asciiOracles "STARBUCKS STORE 12345 SEATTLE WA".toList = "STARBUCKS\\s*STORE".toList ∧
    matchesSuggested asciiOracles "STARBUCKS STORE 12345 SEATTLE WA".toList = false := by decide +kernel

/-- D19a: `contains("NETFLIX\.COM")` does not match `NETFLIX.COM` -/
theorem counterexample_D19a_dotted :
    Impl.suggestPattern asciiOracles "NETFLIX.COM".toList = "NETFLIX\\.COM".toList ∧
    matchesSuggested asciiOracles "NETFLIX.COM".toList = false := by decide +kernel

/-- D19b: the store number is deleted from the middle: `contains("SHOP\s*MAIN")` does not match `SHOP #12 MAIN` -/
theorem counterexample_D19b_store_number :
    Impl.suggestPattern asciiOracles "SHOP #12 MAIN".toList = "SHOP\\s*MAIN".toList ∧
    matchesSuggested asciiOracles "SHOP #12 MAIN".toList = false := by decide +kernel

/-- for the D19a witnesses a regex reading of the very same pattern would match: the defect is the `contains` wrapper -/
theorem D19a_is_only_the_wrapper :
    Fixed.langSearch ((splitWs (clean asciiOracles "STARBUCKS STORE 12345 SEATTLE WA".toList)).take 3)
      (upper asciiOracles "STARBUCKS STORE 12345 SEATTLE WA".toList) = true ∧
    Fixed.langSearch ((splitWs (clean asciiOracles "NETFLIX.COM".toList)).take 3)
      (upper asciiOracles "NETFLIX.COM".toList) = true := by decide +kernel

/-- for the D19b witness even a regex reading of the pattern fails; the repaired pipeline proposes `SHOP` -/
theorem D19b_regex_reading_fails_too :
    Fixed.langSearch ((splitWs (clean asciiOracles "SHOP #12 MAIN".toList)).take 3)
      (upper asciiOracles "SHOP #12 MAIN".toList) = false ∧
    Fixed.suggestPattern asciiOracles "SHOP #12 MAIN".toList = "SHOP".toList := by decide +kernel

/-! ## non-vacuity: the hypotheses hold on concrete inputs -/

private instance exceptDecEq {ε α : Type} [DecidableEq ε] [DecidableEq α] : DecidableEq (Except ε α) := fun a b =>
  match a, b with
  | .ok x, .ok y => if h : x = y then isTrue (by rw [h]) else isFalse (by intro e; cases e; exact h rfl)
  | .error x, .error y => if h : x = y then isTrue (by rw [h]) else isFalse (by intro e; cases e; exact h rfl)
  | .ok _, .error _ => isFalse (by intro e; cases e)
  | .error _, .ok _ => isFalse (by intro e; cases e)

example : UpperIdem asciiOracles := upperIdem_ascii
example : Plain asciiOracles "SQ *Joe\"s #12".toList := by decide +kernel
example : matchesSuggested asciiOracles "SQ *Joe\"s #12".toList = true := by decide +kernel
example : Plain asciiOracles "C:\\FEE 12345".toList ∧ literalOf (Impl.suggestPattern asciiOracles "C:\\FEE 12345".toList) = some "C:\\FEE".toList := by
  decide +kernel
example : ¬ Plain asciiOracles "SHOP #12 MAIN".toList ∧ ¬ Plain asciiOracles "NETFLIX.COM".toList := by decide +kernel
example : NameOk asciiOracles "STARBUCKS STORE 12345 SEATTLE WA".toList ∧ NameOk asciiOracles "".toList := by decide +kernel
example : NoNul (clean asciiOracles "STARBUCKS STORE 12345 SEATTLE WA".toList) := by
  intro c hc
  have : ∀ c ∈ clean asciiOracles "STARBUCKS STORE 12345 SEATTLE WA".toList, c.toNat ≠ 0 := by decide +kernel
  exact this c hc
example : trimmedB placeholderCat = true ∧ trimmedB placeholderSub = true ∧
    trimmedB (joinWith [',', ' '] ["refund".toList]) = true := by decide +kernel
/-- the block proposed for the D19a witness, as the parser reads it (the placeholders are a category too) -/
example : RulesFile.Impl.parseRulesFile (fun _ => true)
    (Impl.suggestRule (Impl.suggestMerchantName asciiOracles "STARBUCKS STORE 12345 SEATTLE WA".toList)
      (Impl.suggestPattern asciiOracles "STARBUCKS STORE 12345 SEATTLE WA".toList) ["refund".toList]) =
    .ok { rules := [{ name := "Starbucks Store".toList, merchant := "Starbucks Store".toList,
                      category := "CATEGORY".toList, subcategory := "SUBCATEGORY".toList, tags := ["refund".toList],
                      priority := 50, matchExpr := "contains(\"STARBUCKS\\s*STORE\")".toList, lets := [], fields := [] }],
          variables := [], transforms := [] } := by decide +kernel
example : Fixed.matchExprText (Fixed.suggestPattern asciiOracles "STARBUCKS STORE 12345 SEATTLE WA".toList) =
    "regex(r\"STARBUCKS\\s*STORE\")".toList ∧
    Fixed.matchExprText (Fixed.suggestPattern asciiOracles "Joe\"s".toList) = "contains(\"JOE\\\"S\")".toList ∧
    Fixed.regexWords asciiOracles "STARBUCKS STORE 12345 SEATTLE WA".toList = ["STARBUCKS".toList, "STORE".toList] := by
  decide +kernel

end TallyVerif.Discover.C19
