/-
C07 — classification depends only on the current rules and the transaction, not on history.

Model: `History.step` (the process-wide caches as an explicit state machine) for an ARBITRARY
world (any parser, regex compiler, engine, legacy classifier, evaluator).  `fixD7 = true` is
`get_all_rules` after the repair.
-/
import TallyVerif.Model.History

namespace TallyVerif.Props.C07
open TallyVerif.History

/-- the invariants that make the caches transparent -/
structure Inv (W : World) (s : State W) : Prop where
  engine : s.cachedEngine = (match s.lastLoad with | some (.rules f) => some f | _ => none)
  exprs : ∀ e a, s.exprCache.lookup e = some a → a = W.parse e
  regexes : ∀ p r, s.regexCache.lookup p = some r → r = W.compile p

theorem inv_init (W : World) : Inv W (init W) :=
  ⟨rfl, by intro e a h; simp [init] at h, by intro p r h; simp [init] at h⟩

private theorem lookup_cons_cases {β : Type} (k k' : String) (v : β) (l : List (String × β)) (r : β)
    (h : ((k', v) :: l).lookup k = some r) : (k = k' ∧ r = v) ∨ l.lookup k = some r := by
  simp only [List.lookup_cons] at h
  by_cases hk : (k == k') = true
  · simp only [hk] at h; exact Or.inl ⟨by simpa using hk, by simpa using h.symm⟩
  · have : (k == k') = false := by simpa using hk
    simp only [this] at h; exact Or.inr h

private theorem regexFill_inv (W : World) (ps : List String) (c : List (String × W.Rx))
    (h : ∀ p r, c.lookup p = some r → r = W.compile p) :
    ∀ p r, (ps.foldl (fun c p => if (c.lookup p).isSome then c else (p, W.compile p) :: c) c).lookup p = some r →
      r = W.compile p := by
  induction ps generalizing c with
  | nil => simpa using h
  | cons q ps ih =>
    simp only [List.foldl_cons]
    apply ih
    by_cases hq : (c.lookup q).isSome = true
    · simpa [hq] using h
    · simp only [hq, Bool.false_eq_true, if_false]
      intro p r hl
      rcases lookup_cons_cases p q _ c r hl with ⟨e1, e2⟩ | h2
      · subst e1; exact e2
      · exact h p r h2

/-- every operation preserves the invariants (with the repair) -/
theorem inv_step (W : World) (used : List String) (s : State W) (op : Op W) (h : Inv W s) :
    Inv W (step W true used s op).1 := by
  cases op with
  | load l =>
    cases l with
    | rules f => exact ⟨rfl, h.exprs, h.regexes⟩
    | csv f => exact ⟨rfl, h.exprs, h.regexes⟩
  | classify t =>
    simp only [step]
    cases hc : s.cachedEngine with
    | some f => simpa [hc] using h
    | none =>
      cases hl : s.lastLoad with
      | none => simpa [hc, hl] using h
      | some l => cases l <;> simpa [hc, hl] using h
  | eval e t =>
    simp only [step, parseCached]
    cases hc : s.exprCache.lookup e with
    | some a =>
      refine ⟨h.engine, h.exprs, ?_⟩
      exact regexFill_inv W used s.regexCache h.regexes
    | none =>
      refine ⟨h.engine, ?_, ?_⟩
      · intro e' a hl
        rcases lookup_cons_cases e' e _ _ a hl with ⟨e1, e2⟩ | h2
        · subst e1; exact e2
        · exact h.exprs e' a h2
      · exact regexFill_inv W used s.regexCache h.regexes

theorem inv_run (W : World) (s : State W) (hist : List (Op W × List String)) (h : Inv W s) :
    Inv W (run W true s hist) := by
  induction hist generalizing s with
  | nil => exact h
  | cons x rest ih => exact ih _ (inv_step W x.2 s x.1 h)

private theorem compileCached_eq (W : World) (s : State W) (h : ∀ p r, s.regexCache.lookup p = some r → r = W.compile p) :
    compileCached W s = W.compile := by
  funext p
  unfold compileCached
  cases hl : s.regexCache.lookup p with
  | none => rfl
  | some r => exact h p r hl

/-- in any state satisfying the invariants, an operation answers what a fresh process that only
performed the last load would answer -/
theorem step_eq_spec (W : World) (used : List String) (s : State W) (op : Op W) (h : Inv W s) :
    (step W true used s op).2 = spec W s.lastLoad op := by
  cases op with
  | load l => cases l <;> rfl
  | classify t =>
    simp only [step, spec]
    have he := h.engine
    cases hl : s.lastLoad with
    | none => simp [hl] at he; simp [he]
    | some l =>
      cases l with
      | rules f => simp [hl] at he; simp [he]
      | csv f => simp [hl] at he; simp [he]
  | eval e t =>
    simp only [step, spec, parseCached]
    cases hc : s.exprCache.lookup e with
    | some a =>
      have := h.exprs e a hc
      subst this
      simp [compileCached_eq W s h.regexes]
    | none =>
      simp only
      rw [compileCached_eq W _ (by simpa using h.regexes)]

/-- **History independence.** After ANY history of loads, classifications and evaluations (in any
order, any number of times, whatever patterns were compiled on the way), the next operation gives
exactly the answer of a fresh process that performed only the most recent load. -/
theorem history_independent (W : World) (hist : List (Op W × List String)) (used : List String) (op : Op W) :
    (step W true used (run W true (init W) hist) op).2 = spec W (run W true (init W) hist).lastLoad op :=
  step_eq_spec W used _ op (inv_run W _ hist (inv_init W))

/-- classifying or evaluating never changes which rules are current -/
theorem classify_keeps_rules (W : World) (fix : Bool) (used : List String) (s : State W) (t : W.Txn) :
    (step W fix used s (.classify t)).1.lastLoad = s.lastLoad ∧
    (step W fix used s (.classify t)).1.cachedEngine = s.cachedEngine := by
  simp only [step]
  cases hc : s.cachedEngine with
  | some f => simp [hc]
  | none =>
    cases hl : s.lastLoad with
    | none => simp [hc, hl]
    | some l => cases l <;> simp [hc, hl]

/-- The code AS PINNED (`fixD7 = false`) is history dependent: load a .rules file, load a CSV file,
classify — the answer still comes from the .rules engine. (DESIGN.md §6 D7) -/
theorem stale_engine_unrepaired :
    let W : World := ⟨String, String, Unit, String, String, String, id, id, fun f _ => "engine:" ++ f,
      fun f _ => "legacy:" ++ f, fun a _ _ => a⟩
    let s := run W false (init W) [(.load (.rules "A"), []), (.load (.csv "B"), [])]
    (match (step W false [] s (.classify ())).2 with | .res r => r | _ => "") = "engine:A" ∧
    (match spec W s.lastLoad (.classify ()) with | .res r => r | _ => "") = "legacy:B" ∧
    (match (step W true [] (run W true (init W) [(.load (.rules "A"), []), (.load (.csv "B"), [])]) (.classify ())).2 with
      | .res r => r | _ => "") = "legacy:B" := by
  decide +kernel

end TallyVerif.Props.C07
