import TallyVerif.Model.Fs
import TallyVerif.Gen.FsSteps
import TallyVerif.Lemmas.FsBase
import TallyVerif.Lemmas.FsUpCrash
import TallyVerif.Lemmas.FsUpFault
import TallyVerif.Lemmas.FsInitCrashAbsent
import TallyVerif.Lemmas.FsInitCrashPlain
import TallyVerif.Lemmas.FsInitCrashCommentMF
import TallyVerif.Lemmas.FsInitCrashKeyRules
import TallyVerif.Lemmas.FsInitCrashKeyOther
import TallyVerif.Lemmas.FsInitFaultAbsent
import TallyVerif.Lemmas.FsInitFaultPlain
import TallyVerif.Lemmas.FsInitFaultCommentMF
import TallyVerif.Lemmas.FsInitFaultKeyRules
import TallyVerif.Lemmas.FsInitFaultKeyOther
import TallyVerif.Lemmas.FsLayout
/-!
# C15 — an interrupted or failing migration never loses rules or strands the budget

`Safe v p fs₀ fs` (Model/Fs.lean, `safeB`):
  (1) every file of `fs₀` is still somewhere in `fs` with its content (settings.yaml may have gained lines);
  and, when the budget classified with the user's rules before (`(effective fs₀).rules.usable`),
  (2) `effective fs ≃ effective fs₀`  ∨  `effective (rerun p fs) ≃ effective fs₀`   (rules *and* statement file),
  (3) ¬ (the rule set in effect is empty ∧ rules exist on disk).
`SafeRun` adds, for a fault inside `tally up --migrate`: the run itself stopped or used rules ≃ the user's.

Budgets: `Shape` (5 settings kinds × 3 CSV kinds × merchants.rules? × .bak? × views.rules? × `views_file:`
mentioned? × data/output present?) = 480 shapes, `LShape` = 32 old-layout shapes; every user file holds an
opaque symbol of its own (`Shape.fs id : FS Sym`) — the model is polymorphic in the content type and never
inspects a symbol, so the symbols stand for arbitrary contents.  [Not mechanised: the parametricity step
from the free assignment `id` to an arbitrary `u : Rel → κ`.]

**On the code as it is (`Variants.impl`) the property is FALSE** — counterexamples `D15a … D15e` below,
each replayed on the real code by harness/props/c15.py.  The `…_safe` theorems are about the repaired
statement order (`Variants.repaired` = notes/fix_D15*.diff); which variant the code currently has is
read off `Gen/FsSteps.lean` (`extracted_order_is_modelled`).

PARTIAL w.r.t. the OS: crashes between Python-level file-system calls, torn in-flight files at
write()-call granularity (a single `write` may be cut anywhere) and single-call `OSError`s are covered
exhaustively; fsync/durability, power-loss reordering and a tear *inside* the second of two `write()` calls
of the settings append are not modelled.
-/
namespace TallyVerif.Fs
open TallyVerif.Gen

/-! ## tie: the extracted call order is a modelled one -/

/-- translator obligation: the statement order of file-system calls extracted from `_migrate_csv_to_rules`,
    `migrate_v0_to_v1`, `init_config`, `cmd_init` is the order of one of the modelled variants -/
theorem extracted_order_is_modelled :
    (detectCsv FsSteps.migrateCsv FsSteps.migrateCsvMentionTest).isSome = true ∧
    (detectLayout FsSteps.migrateLayout).isSome = true ∧
    FsSteps.initConfig = initConfigCalls ∧ FsSteps.cmdInit = cmdInitCalls := by decide

/-- a budget on which every guard of the CSV migration fires -/
def fullShape : Shape := ⟨.plain, .withRules, true, true, true, false, true⟩

/-- the model's own event trace has the call order of its signature (code as it is) -/
theorem model_trace_is_signature_impl :
    traceCalls (complete .impl .upMigrate (fullShape.fs id : FS Sym)) = CsvVariant.impl.calls ∧
    traceCalls (complete .impl .layout ((⟨true, true, false, false, false⟩ : LShape).fs id : FS Sym))
      = expandLoops LayoutVariant.impl.calls none := by decide +kernel

/-- the model's own event trace has the call order of its signature (repaired order) -/
theorem model_trace_is_signature_repaired :
    traceCalls (complete .repaired .upMigrate (fullShape.fs id : FS Sym)) = CsvVariant.repaired.calls ∧
    traceCalls (complete .repaired .layout ((⟨true, true, false, false, false⟩ : LShape).fs id : FS Sym))
      = expandLoops LayoutVariant.configLast.calls none := by decide +kernel

/-! ## the property, for the repaired statement order -/

/-- C15, CSV→.rules migration via `tally up --migrate`, interruption clause: for every budget shape, every
    prefix of `k` file-system events and every state of the in-flight file, `Safe` holds. -/
theorem csv_migration_safe (s : Shape) (k : Nat) (part : Partial) :
    Safe .repaired .upMigrate (s.fs id) (crashAt .repaired .upMigrate (s.fs id) k part) :=
  crash_safe_of_check
    (all_shapes_of_kinds (fun s => crashCheck .repaired .upMigrate (s.fs id))
      upCrash_absent upCrash_plain upCrash_commentMF upCrash_keyRules upCrash_keyOther s) k part

/-- C15, CSV migration via `tally up --migrate`, I/O-error clause: an `OSError` at any single event leaves a
    `Safe` tree, and the run in which it happened stopped or classified with rules ≃ the user's. -/
theorem csv_migration_fault_safe (s : Shape) (k : Nat) (hk : k < numEvents .repaired .upMigrate (s.fs id)) :
    SafeRun .repaired .upMigrate (s.fs id) (faultAt .repaired .upMigrate (s.fs id) k) :=
  fault_safe_of_check
    (all_shapes_of_kinds (fun s => faultCheck .repaired .upMigrate (s.fs id))
      upFault_absent upFault_plain upFault_commentMF upFault_keyRules upFault_keyOther s) k hk

/-- C15, CSV migration via `tally init` (migration, then `init_config`, then the views line), interruption clause -/
theorem init_migration_safe (s : Shape) (k : Nat) (part : Partial) :
    Safe .repaired .init (s.fs id) (crashAt .repaired .init (s.fs id) k part) :=
  crash_safe_of_check
    (all_shapes_of_kinds (fun s => crashCheck .repaired .init (s.fs id))
      initCrash_absent initCrash_plain initCrash_commentMF initCrash_keyRules initCrash_keyOther s) k part

/-- C15, `tally init`, I/O-error clause -/
theorem init_migration_fault_safe (s : Shape) (k : Nat) (hk : k < numEvents .repaired .init (s.fs id)) :
    SafeRun .repaired .init (s.fs id) (faultAt .repaired .init (s.fs id) k) :=
  fault_safe_of_check
    (all_shapes_of_kinds (fun s => faultCheck .repaired .init (s.fs id))
      initFault_absent initFault_plain initFault_commentMF initFault_keyRules initFault_keyOther s) k hk

/-- C15, folder-layout migration (`tally update --yes`), interruption clause (config/ moved last) -/
theorem layout_migration_safe (s : LShape) (k : Nat) (part : Partial) :
    Safe .repaired .layout (s.fs id) (crashAt .repaired .layout (s.fs id) k part) :=
  crash_safe_of_check (List.all_eq_true.mp layoutCrash_all s (mem_allLShapes s)) k part

/-- C15, folder-layout migration, I/O-error clause -/
theorem layout_migration_fault_safe (s : LShape) (k : Nat) (hk : k < numEvents .repaired .layout (s.fs id)) :
    SafeRun .repaired .layout (s.fs id) (faultAt .repaired .layout (s.fs id) k) :=
  fault_safe_of_check (List.all_eq_true.mp layoutFault_all s (mem_allLShapes s)) k hk

set_option maxRecDepth 100000 in
/-- what holds for the layout migration *as it is*: safe whenever there is no data/ to strand or nothing to do.
    Full statement (`∀ s`) is false: `D15d_layout_crash_strands_data`. -/
theorem layout_migration_impl_safe_partial (s : LShape) (h : s.data = false ∨ s.schema = true)
    (k : Nat) (part : Partial) :
    Safe .impl .layout (s.fs id) (crashAt .impl .layout (s.fs id) k part) := by
  have hall : (allLShapes.all fun s => (s.data && !s.schema) || crashCheck .impl .layout (s.fs id)) = true := by
    decide +kernel
  have hs := List.all_eq_true.mp hall s (mem_allLShapes s)
  refine crash_safe_of_check ?_ k part
  rcases h with h | h <;> simp [h] at hs <;> exact hs

/-! ## counterexamples on the code as it is (`Variants.impl`) -/

/-- the plain legacy budget: settings.yaml without `merchants_file:`, a CSV with rules, nothing else in the way -/
def legacy : Shape := ⟨.plain, .withRules, false, false, false, false, true⟩

/-- **D15a**: crash right after `shutil.move(csv, csv.bak)` (4 events) — "No merchant rules found" although the
    rules are on disk twice, and re-running `tally up --migrate` changes nothing. -/
theorem D15a_crash_after_move_strands :
    ¬ Safe .impl .upMigrate (legacy.fs id) (crashAt .impl .upMigrate (legacy.fs id) 4 .full) ∧
    effective (crashAt .impl .upMigrate (legacy.fs id : FS Sym) 4 .full)
      = ⟨.none, some [.orig .stmt { kind := .data }]⟩ ∧
    rerun .impl .upMigrate (crashAt .impl .upMigrate (legacy.fs id : FS Sym) 4 .full)
      = crashAt .impl .upMigrate (legacy.fs id) 4 .full := by decide +kernel

/-- **D15b**: `OSError` when opening settings.yaml for append (event 4): the same stranded tree, and the very run
    goes on with the moved-away CSV path, i.e. with an empty rule set. -/
theorem D15b_fault_in_settings_append :
    ¬ SafeRun .impl .upMigrate (legacy.fs id) (faultAt .impl .upMigrate (legacy.fs id) 4) ∧
    (faultAt .impl .upMigrate (legacy.fs id : FS Sym) 4).2 = .used .none := by decide +kernel

/-- **D15c**: an existing `merchant_categories.csv.bak` is silently replaced (uninterrupted run). -/
theorem D15c_existing_bak_clobbered :
    preserved ({ legacy with csvBak := true }.fs id : FS Sym)
      (complete .impl .upMigrate ({ legacy with csvBak := true }.fs id)).fs = false := by decide +kernel

/-- **D15c'**: `tally up --migrate` overwrites an existing (unreferenced) `config/merchants.rules`. -/
theorem D15c_existing_rules_overwritten :
    preserved ({ legacy with rules := true }.fs id : FS Sym)
      (complete .impl .upMigrate ({ legacy with rules := true }.fs id)).fs = false := by decide +kernel

/-- **D15d**: layout migration interrupted after `config/` moved (2 events): the statements stay behind in
    `./data`, and `tally update` refuses to continue (`dirname(config) ≠ cwd`). -/
theorem D15d_layout_crash_strands_data :
    ¬ Safe .impl .layout ((⟨true, true, false, false, false⟩ : LShape).fs id)
        (crashAt .impl .layout ((⟨true, true, false, false, false⟩ : LShape).fs id) 2 .full) ∧
    (effective (crashAt .impl .layout ((⟨true, true, false, false, false⟩ : LShape).fs id : FS Sym) 2 .full)).data = none ∧
    rerun .impl .layout (crashAt .impl .layout ((⟨true, true, false, false, false⟩ : LShape).fs id : FS Sym) 2 .full)
      = crashAt .impl .layout ((⟨true, true, false, false, false⟩ : LShape).fs id) 2 .full := by decide +kernel

/-- **D15e**: settings.yaml mentions `merchants_file:` only in a comment — the *uninterrupted* migration moves the
    CSV away and appends nothing: the budget ends with "No merchant rules found". -/
theorem D15e_comment_only_mention_strands :
    ¬ Safe .impl .upMigrate ({ legacy with settings := .commentMF }.fs id)
        (complete .impl .upMigrate ({ legacy with settings := .commentMF }.fs id : FS Sym)).fs := by decide +kernel

/-! ## non-vacuity -/

example : (effective (legacy.fs id : FS Sym)).rules.usable = true := by decide
example : numEvents .repaired .upMigrate (legacy.fs id : FS Sym) = 9 := by decide +kernel
example : numEvents .repaired .init (legacy.fs id : FS Sym) = 22 := by decide +kernel
example : (effective (complete .repaired .upMigrate (legacy.fs id : FS Sym)).fs).rules = .rules [.migrated .csv] := by
  decide +kernel
/-- the repaired order at the D15a point: still classifying with the CSV -/
example : (effective (crashAt .repaired .upMigrate (legacy.fs id : FS Sym) 4 .half)).rules
    = .csv [.orig .csv { kind := .csvRules }] := by decide +kernel

end TallyVerif.Fs
