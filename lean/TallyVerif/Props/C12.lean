/-
C12 — all output formats render and carry the same data (the text-level part that is in the model).

Model: `Model/Report.lean` (hand model of json.dumps' string escaping, json.loads' scanstring, the HTML
script-data end rule, report.py's embedding + placeholder chain + merchant ids + category view), tied to
the code by the correspondence streams of harness/props/c12.py.  Strings are lists of Unicode scalar
values (`List Char`); lone surrogates are outside the model.

Clauses and their status on the UNCHANGED tree:
  * round trip of every string through json.dumps / json.loads            — proved (`json_string_roundtrip`)
  * the embedded data cannot end the <script> element                      — FALSE (D12b): `embed_unsafe_unrepaired`;
                                                                             proved for the repaired embed (`embed_safe`, `embed_decodes`)
  * merchant ids are injective                                             — FALSE (D12c): `merchant_id_not_injective`;
                                                                             `merchant_id_injective_partial` on quote/underscore-free names;
                                                                             proved for the repaired allocation table, for EVERY list of
                                                                             names (`merchant_ids_unique`, `merchant_ids_injective`,
                                                                             `first_free_is_least`)
  * the data is spliced in verbatim                                        — FALSE (D12d): `placeholder_order_unrepaired_rescans`;
                                                                             proved when data is substituted last (`placeholder_order`)
  * per-category sums add up to the analysed total                         — `category_view_sums` under distinct ids (fails with D12c:
                                                                             `category_view_loses_merchant`); with the repaired ids no
                                                                             hypothesis is left (`category_view_sums_unique_ids`)
  * the per-category `typeTotals` add up to the analysed bucket totals     — `type_income_eq`, `type_investment_eq`, `type_transfer_eq`,
                                                                             `type_spending_eq` (the report's own chain, REGENERATED from
                                                                             report.py, against the regenerated `categorize_amount`, every
                                                                             number system) and `type_totals_add_up` (whole reports, exact)
  * all formats report the same figures                                    — FALSE for JSON (D12e): `json_summary_disagrees`
"Renders without error" (D12a, D12f) is a totality statement about the implementation; it is checked by the
oracle of the harness, not modelled here.
-/
import TallyVerif.Lemmas.Report
import TallyVerif.Lemmas.ReportTypes
import TallyVerif.Props.C06

namespace TallyVerif.Props.C12
open TallyVerif.Report

/-! ### JSON string round trip -/

/-- every string (list of scalar values) survives `json.loads(json.dumps(s))`, whatever it contains -/
theorem json_string_roundtrip (s : List Char) : jsonDecodeStr (jsonEncodeStr s) = some s := by
  simp only [jsonEncodeStr, jsonDecodeStr, if_true]
  apply decAux_encBody
  have := length_le_encBody s
  simp only [List.length_append, List.length_cons, List.length_nil]
  omega

/-- `json.dumps` output is printable ASCII (so the bytes of the HTML file do not depend on an encoding) and
the only way a `<` gets into it is a raw `<` of the input: json.dumps does NOT escape `<`. -/
theorem encode_ascii_only (s : List Char) :
    (∀ x ∈ jsonEncodeStr s, 32 ≤ x.toNat ∧ x.toNat ≤ 126) ∧ ('<' ∈ jsonEncodeStr s ↔ '<' ∈ s) := by
  have key : ∀ x ∈ encBody s, (32 ≤ x.toNat ∧ x.toNat ≤ 126) ∧ (x = '<' → '<' ∈ s) := by
    intro x hx
    simp only [encBody, List.mem_flatMap] at hx
    obtain ⟨c, hc, hxc⟩ := hx
    rcases escChar_cases c with h | h
    · rw [h.1] at hxc
      simp only [List.mem_cons, List.not_mem_nil, or_false] at hxc
      subst hxc; exact ⟨h.2, fun e => e ▸ hc⟩
    · have := h x hxc; exact ⟨⟨this.1, this.2.1⟩, fun e => absurd e this.2.2⟩
  constructor
  · intro x hx
    simp only [jsonEncodeStr, List.mem_cons, List.mem_append, List.not_mem_nil, or_false] at hx
    rcases hx with hx | hx | hx
    · subst hx; decide
    · exact (key x hx).1
    · subst hx; decide
  · constructor
    · intro hx
      simp only [jsonEncodeStr, List.mem_cons, List.mem_append, List.not_mem_nil, or_false] at hx
      rcases hx with hx | hx | hx
      · exact absurd hx (by decide)
      · exact (key _ hx).2 rfl
      · exact absurd hx (by decide)
    · intro hs
      simp only [jsonEncodeStr, List.mem_cons, List.mem_append]
      right; left
      simp only [encBody, List.mem_flatMap]
      exact ⟨'<', hs, by decide⟩

/-! ### embedding in `<script>` (D12b) -/

/-- REPAIRED embed (`.replace('<', '\\u003c')`): whatever JSON text is embedded, the HTML tokenizer never sees
an end tag inside the data script — indeed no `<` at all (so no `<!--` / `<script` escapes either). -/
theorem embed_safe (t : List Char) : scriptDataEnds (embedRepaired t) = false ∧ '<' ∉ embedRepaired t := by
  refine ⟨?_, embedRepaired_no_lt t⟩
  cases h : scriptDataEnds (embedRepaired t) with
  | false => rfl
  | true => exact absurd (scriptDataEnds_lt h) (embedRepaired_no_lt t)

/-- UNREPAIRED embed (the unchanged tree): the description `X </script><b>` ends the script element. -/
theorem embed_unsafe_unrepaired :
    scriptDataEnds (embedUnrepaired (jsonEncodeStr "X </script><b>".toList)) = true := by decide +kernel

/-- the extra `\u003c` escape of the repaired embed still decodes to `<`: every string survives
dumps → embed → loads -/
theorem embed_decodes (s : List Char) : jsonDecodeStr (embedRepaired (jsonEncodeStr s)) = some s := by
  have e : embedRepaired (jsonEncodeStr s) = '"' :: (s.flatMap escCharLt ++ ['"']) := by
    have h1 : jsonEncodeStr s = ['"'] ++ encBody s ++ ['"'] := by simp [jsonEncodeStr]
    rw [h1, embedRepaired_append, embedRepaired_append, embedRepaired_encBody]
    rfl
  rw [e]
  simp only [jsonDecodeStr, if_true]
  apply decAux_flatMap_lt
  have := length_le_flatMap_lt s
  simp only [List.length_append, List.length_cons, List.length_nil]
  omega

/-! ### merchant ids (D12c) -/

/-- full statement `∀ a b, makeMerchantId a = makeMerchantId b → a = b` is FALSE on the unchanged tree -/
theorem merchant_id_not_injective :
    (makeMerchantId "Joe's".toList = makeMerchantId "Joes".toList ∧ "Joe's".toList ≠ "Joes".toList) ∧
    (makeMerchantId "A B".toList = makeMerchantId "A_B".toList ∧ "A B".toList ≠ "A_B".toList) := by
  decide +kernel

/-- ids are injective on names without quotes and underscores (spaces allowed) -/
theorem merchant_id_injective_partial (a b : List Char) (ha : idSafe a = true) (hb : idSafe b = true)
    (h : makeMerchantId a = makeMerchantId b) : a = b := by
  rw [makeMerchantId_safe ha, makeMerchantId_safe hb] at h
  exact map_idMap_inj a b ha hb h

/-! ### placeholder substitution order (D12d) -/

/-- `str.replace` never rescans what it inserted: when the template has exactly one occurrence of the
pattern, the result is the template with the replacement spliced in verbatim — for EVERY replacement text. -/
theorem replace_verbatim (pat rep hay : List Char) (k : Nat) (hp : 1 ≤ pat.length)
    (h1 : findAt pat hay = some k) (h2 : findAt pat (hay.drop (k + pat.length)) = none) :
    replaceAll pat rep hay = hay.take k ++ rep ++ hay.drop (k + pat.length) := by
  have : pat.isEmpty = false := by cases pat <;> simp_all
  simp only [replaceAll, this, Bool.false_eq_true, if_false]
  rw [replaceGo_some pat rep hp hay k h1, replaceGo_none pat rep _ h2]

/-- REPAIRED order (CSS, JS, DATA): whatever the data contains (placeholders included) it appears verbatim,
exactly where the data placeholder was. Hypothesis (decidable, checked on the real template every run):
after CSS and JS are in, the data placeholder occurs exactly once. -/
theorem placeholder_order (template css js data : List Char) (k : Nat)
    (h1 : findAt dataPh (replaceAll jsPh js (replaceAll cssPh css template)) = some k)
    (h2 : findAt dataPh ((replaceAll jsPh js (replaceAll cssPh css template)).drop (k + dataPh.length)) = none) :
    spliceRepaired template css data js =
      (replaceAll jsPh js (replaceAll cssPh css template)).take k ++ data ++
      (replaceAll jsPh js (replaceAll cssPh css template)).drop (k + dataPh.length) := by
  simp only [spliceRepaired, splice, List.foldl_cons, List.foldl_nil]
  exact replace_verbatim dataPh data _ k (by decide) h1 h2

def miniTemplate : List Char :=
  "<style>/* CSS_PLACEHOLDER */</style><script>/* DATA_PLACEHOLDER */</script><script>/* JS_PLACEHOLDER */</script>".toList

/-- UNCHANGED order (CSS, DATA, JS): data that contains the JS placeholder is rescanned — the program text is
spliced into the data. -/
theorem placeholder_order_unrepaired_rescans :
    spliceUnrepaired miniTemplate "c".toList "d=\"/* JS_PLACEHOLDER */\";".toList "J".toList
      = "<style>c</style><script>d=\"J\";</script><script>J</script>".toList := by decide +kernel

/-! ### unique merchant ids (the repaired allocation, D12c) -/

/-- **ids are injective for EVERY list of names** — any characters, any order, repeats allowed, including names
whose natural id equals an id generated for another name (`Joe's`, `Joes`, `Joes 2`, `Joes_2`, …):
no two names share an id, no name is listed twice, and every name has an id. -/
theorem merchant_ids_unique (names : List (List Char)) :
    ((allocIds names).map (·.2)).Nodup ∧ ((allocIds names).map (·.1)).Nodup ∧
    ∀ n ∈ names, n ∈ (allocIds names).map (·.1) :=
  have ok := foldl_allocOne_ok names [] ⟨List.nodup_nil, List.nodup_nil⟩
  ⟨ok.1, ok.2, fun n hn => foldl_allocOne_total names [] n hn⟩

/-- the same, as injectivity of the map name ↦ id -/
theorem merchant_ids_injective (names : List (List Char)) (a b i : List Char)
    (ha : (a, i) ∈ allocIds names) (hb : (b, i) ∈ allocIds names) : a = b :=
  nodup_map_snd_inj (merchant_ids_unique names).1 ha hb

/-- distinct names (the keys of `by_merchant`) come out in the same order: the table drops and reorders nothing -/
theorem merchant_ids_keys (names : List (List Char)) (h : names.Nodup) : (allocIds names).map (·.1) = names := by
  have := foldl_allocOne_keys_nodup names [] h (by simp)
  simpa [allocIds] using this

/-- the model's bounded loop IS the `while candidate in merchant_ids.values()` loop: started with as much fuel as
there are ids, it returns candidate number `k` where every candidate `1 … k-1` is taken and candidate `k` is free
(so the fuel bound is never what stops it) -/
theorem first_free_is_least (used : List (List Char)) (base : List Char) :
    ∃ k, 1 ≤ k ∧ firstFree used base used.length 1 = idCandidate base k ∧
      (∀ j, 1 ≤ j → j < k → idCandidate base j ∈ used) ∧ idCandidate base k ∉ used := by
  obtain ⟨k, h1, _, h3, h4⟩ := firstFree_spec used base used.length 1
  exact ⟨k, h1, h3, h4, h3 ▸ firstFree_not_mem used base⟩

/-- a generated id can coincide with another name's natural id — the allocation must look at the ids handed out,
not only at the bases seen: with `Joe's`, `Joes`, `Joes 2` the third name cannot keep `Joes_2` -/
theorem merchant_ids_generated_vs_natural :
    allocIds ["Joe's".toList, "Joes".toList, "Joes 2".toList] =
      [("Joe's".toList, "Joes".toList), ("Joes".toList, "Joes_2".toList), ("Joes 2".toList, "Joes_2_2".toList)] ∧
    allocIds ["Joes 2".toList, "Joe's".toList, "Joes".toList] =
      [("Joes 2".toList, "Joes_2".toList), ("Joe's".toList, "Joes".toList), ("Joes".toList, "Joes_3".toList)] := by
  decide +kernel

/-! ### category view (build_category_view) -/

/-- with pairwise distinct merchant ids every merchant reaches the category view and the per-category sums add
up to Σ by_merchant.total -/
theorem category_view_sums (rows : List MRow) (h : idsDistinct rows = true) :
    (allMerchants rows).map (·.2) = rows ∧
    categoryViewTotal rows = analysedTotal rows ∧
    ((categoryViewSums rows).map (·.2)).sum = analysedTotal rows := by
  have e := allMerchants_distinct h
  refine ⟨?_, ?_, ?_⟩
  · rw [e, List.map_map]; simp [Function.comp_def]
  · simp only [categoryViewTotal, analysedTotal, e, List.map_map]; rfl
  · simp only [categoryViewSums, foldl_addTo_sum, analysedTotal, e, List.map_map]
    simp only [List.map_nil, List.sum_nil, Int.zero_add]; rfl

/-- with the ids of the allocation table NO hypothesis is left: for every list of merchant names and whatever
`by_merchant` holds for them, every merchant reaches the category view and the sums add up; when the names are
distinct (dict keys) the view lists exactly the analysed totals, merchant by merchant, in order -/
theorem category_view_sums_unique_ids (names : List (List Char)) (data : List Char → MRow) :
    (allMerchants (rowsOf names data)).map (·.2) = rowsOf names data ∧
    categoryViewTotal (rowsOf names data) = analysedTotal (rowsOf names data) ∧
    ((categoryViewSums (rowsOf names data)).map (·.2)).sum = analysedTotal (rowsOf names data) ∧
    (names.Nodup → (rowsOf names data).map (·.ytd) = names.map fun n => (data n).ytd) := by
  have hd : idsDistinct (rowsOf names data) = true := by
    apply idsDistinct_of_nodup
    have : (rowsOf names data).map (·.id) = (allocIds names).map (·.2) := by
      simp [rowsOf, List.map_map, Function.comp_def]
    rw [this]; exact (merchant_ids_unique names).1
  obtain ⟨h1, h2, h3⟩ := category_view_sums _ hd
  refine ⟨h1, h2, h3, fun hn => ?_⟩
  have hk := merchant_ids_keys names hn
  have : (rowsOf names data).map (·.ytd) = ((allocIds names).map (·.1)).map fun n => (data n).ytd := by
    simp [rowsOf, List.map_map, Function.comp_def]
  rw [this, hk]

def joeRows : List MRow :=
  [⟨makeMerchantId "Joe's".toList, "Food".toList, "R".toList, 1000, 1⟩,
   ⟨makeMerchantId "Joes".toList, "Food".toList, "R".toList, 250, 1⟩]

/-- D12c consequence: with colliding ids one merchant is lost and the sums no longer add up -/
theorem category_view_loses_merchant :
    (allMerchants joeRows).length = 1 ∧ categoryViewTotal joeRows = 250 ∧ analysedTotal joeRows = 1250 := by
  decide +kernel

/-! #### amounts that are not whole cents
`ytd` is an `Int` number of an ARBITRARY unit, so `category_view_sums` covers amounts with any number of decimals (the harness
scales a case by the power of ten at which all its amounts are whole: cents, or 10⁻³ … 10⁻⁶ for fuel / converted-currency /
per-mille-fee amounts).  What it needs is that the view holds each merchant's total AS ANALYSED.  A report that re-rounds the
embedded totals (say to the cent, "for display") has distinct ids and all merchants and still does not add up: -/

/-- embed each merchant's ytd rounded to a multiple of `q` units -/
def reRound (q : Int) (rows : List MRow) : List MRow := rows.map fun r => { r with ytd := (r.ytd + q / 2) / q * q }

/-- unit 10⁻⁴: a 0.004 fee, a 0.0049 fee, 183.4449 of fuel -/
def feeRows : List MRow :=
  [⟨"Fee_A".toList, "Fees".toList, "Bank".toList, 40, 1⟩, ⟨"Fee_B".toList, "Fees".toList, "Bank".toList, 49, 1⟩,
   ⟨"Fuel".toList, "Transport".toList, "Fuel".toList, 1834449, 1⟩]

example : idsDistinct feeRows = true ∧ categoryViewTotal feeRows = 1834538 ∧ analysedTotal feeRows = 1834538 := by decide +kernel

/-- totals re-rounded to the cent (100 units of 10⁻⁴): every merchant is there, the ids are distinct, and the category sums give
183.44 where 183.4538 was analysed — the clause "per-category sums add up to the analysed totals" needs the totals unrounded -/
theorem rerounded_totals_do_not_add_up :
    idsDistinct (reRound 100 feeRows) = true ∧ (allMerchants (reRound 100 feeRows)).length = 3 ∧
    categoryViewTotal (reRound 100 feeRows) = 1834400 ∧ analysedTotal feeRows = 1834538 := by
  decide +kernel

/-! ### figures (D12e) -/

def d12eWitness : List FTxn :=
  [⟨"M".toList, 1000, false, false, false⟩, ⟨"M".toList, -300, false, false, false⟩,
   ⟨"Emp".toList, -10000, true, false, false⟩, ⟨"Emp".toList, 2000, false, false, false⟩]

/-- export_json's summary (recomputed from merchant totals and merchant-level tags) disagrees with the
transaction-level figures every other format prints: income 120 vs 100, credits 0 vs 3, cash flow 193 vs 73 -/
theorem json_summary_disagrees :
    flowIncome d12eWitness = 10000 ∧ flowCredits d12eWitness = 300 ∧ flowCash d12eWitness = 7300 ∧
    jsonIncome d12eWitness = 12000 ∧ jsonCredits d12eWitness = 0 ∧ jsonNet d12eWitness = some 19300 := by
  decide +kernel

/-! ## dates (the calendar stream of the check)

"Renders without error for any analysable set of transactions" is a totality statement about the implementation (oracle
only).  What the model contributes is the two calendar facts every date position of the report rests on. -/

private theorem dch_inj : ∀ i, i < 10 → ∀ j, j < 10 → dch i = dch j → i = j := by decide

/-- Month keys separate calendar months: two days have the same `'%Y-%m'` key only if they are in the same month OF THE SAME
YEAR (years up to 9999).  So `num_months`, `by_month` and the monthly table never merge December 2024 with December 2025,
nor 29 Feb 2000 with 29 Feb 2400. -/
theorem month_key_injective (y m y' m' : Nat) (hy : y < 10000) (hy' : y' < 10000) (hm : m < 100) (hm' : m' < 100)
    (h : monthKey y m = monthKey y' m') : y = y' ∧ m = m' := by
  simp only [monthKey, pad4, pad2, List.cons_append, List.nil_append, List.cons.injEq, and_true, true_and] at h
  obtain ⟨h3, h2, h1, h0, g1, g0⟩ := h
  have e3 := dch_inj _ (Nat.mod_lt _ (by decide)) _ (Nat.mod_lt _ (by decide)) h3
  have e2 := dch_inj _ (Nat.mod_lt _ (by decide)) _ (Nat.mod_lt _ (by decide)) h2
  have e1 := dch_inj _ (Nat.mod_lt _ (by decide)) _ (Nat.mod_lt _ (by decide)) h1
  have e0 := dch_inj _ (Nat.mod_lt _ (by decide)) _ (Nat.mod_lt _ (by decide)) h0
  have f1 := dch_inj _ (Nat.mod_lt _ (by decide)) _ (Nat.mod_lt _ (by decide)) g1
  have f0 := dch_inj _ (Nat.mod_lt _ (by decide)) _ (Nat.mod_lt _ (by decide)) g0
  constructor <;> omega

/-- The day text `'%m/%d'` has forgotten the year, and the year matters: every day that exists in SOME year exists in the
year `y0` exactly when `y0` is a leap year.  Reading `'MM/DD'` back as a date under a fixed non-leap year (strptime's
default is 1900) is therefore partial - it has no answer for `02/29` - while any leap default is total. -/
theorem day_key_needs_leap_year (y0 : Nat) :
    (∀ y m d, validDay y m d = true → validDay y0 m d = true) ↔ isLeap y0 = true := by
  constructor
  · intro h
    have h29 := h 2000 2 29 (by decide)
    simp only [validDay, daysIn, Bool.and_eq_true, decide_eq_true_eq, if_true] at h29
    cases hl : isLeap y0 with
    | true => rfl
    | false => simp [hl] at h29
  · intro hl y m d hv
    have key : daysIn y m ≤ daysIn y0 m := by
      unfold daysIn
      by_cases h2 : m = 2
      · simp only [h2, if_true, hl]; split <;> omega
      · simp only [h2, if_false]; exact Nat.le_refl _
    simp only [validDay, Bool.and_eq_true, decide_eq_true_eq] at hv ⊢
    exact ⟨hv.1, Nat.le_trans hv.2 key⟩

/-- 1900 - the year `strptime` assumes when the format has none - is not a leap year, 2024 is: 29 Feb 2024 is a day, its
`'02/29'` is not a day of 1900 -/
theorem leap_day_witness : validDay 2024 2 29 = true ∧ dayKey 2 29 = "02/29".toList ∧ validDay 1900 2 29 = false ∧
    isLeap 1900 = false ∧ isLeap 2000 = true ∧ isLeap 2100 = false := by decide

/-- a statement across a year end: two month keys, in order of appearance; all transactions in one month: one -/
example : monthsSeen [(2024, 12, 31), (2025, 1, 1), (2024, 12, 1)] = ["2024-12".toList, "2025-01".toList] ∧
    numMonths [(2024, 2, 29), (2024, 2, 1), (2024, 2, 29)] = 1 ∧ numMonths [(2000, 2, 29), (2400, 2, 29)] = 2 := by decide +kernel

/-! ### non-vacuity -/

example : jsonEncodeStr "a\"\\\n<é😀".toList = "\"a\\\"\\\\\\n<\\u00e9\\ud83d\\ude00\"".toList := by decide +kernel
example : jsonDecodeStr "\"\\u003c\\/\\ud83d\\ude00\"".toList = some "</😀".toList := by decide +kernel
example : jsonDecodeStr "\"\\ud83d\"".toList = none := by decide +kernel
example : scriptDataEnds "x</SCRIPT >".toList = true ∧ scriptDataEnds "x</scripts>".toList = false := by decide +kernel
example : idSafe "Whole Foods".toList = true ∧ idSafe "Joe's".toList = false := by decide +kernel
example : idsDistinct [⟨"A".toList, "F".toList, [], 5, 1⟩, ⟨"B".toList, "G".toList, [], -7, 2⟩] = true := by decide +kernel
example : findAt dataPh (replaceAll jsPh "J".toList (replaceAll cssPh "c".toList miniTemplate)) = some 24 ∧
    findAt dataPh ((replaceAll jsPh "J".toList (replaceAll cssPh "c".toList miniTemplate)).drop (24 + dataPh.length)) = none := by
  decide +kernel
example : spliceRepaired miniTemplate "c".toList "d=\"/* JS_PLACEHOLDER */\";".toList "J".toList
    = "<style>c</style><script>d=\"/* JS_PLACEHOLDER */\";</script><script>J</script>".toList := by decide +kernel

/-! ### the per-category `typeTotals` (report.py carries its own copy of the classification)

`Gen.ReportTypes.type_contrib` is REGENERATED from the if/elif chain of `build_category_view`'s transaction loop on every run
(harness/translate/report_types.py), `Gen.ClassPy.categorize_amount` from classification.py.  The first four theorems hold for
every number system (IEEE doubles included), amount and tag list; `type_totals_add_up` lifts them to whole reports over exact
amounts: the per-category sums of the report data add up to the analysed totals. -/
section typeTotals
open TallyVerif TallyVerif.Gen TallyVerif.Gen.ReportTypes TallyVerif.ReportTypes TallyVerif.Totals
variable (N : NumLike) (lower : String → String) (amount : N.α) (tags : Option (List String))

/-- the report's income decision is `categorize_amount`'s, for every number system, amount and tag list -/
theorem type_income_eq :
    (type_contrib N lower amount tags).income = (ClassPy.categorize_amount N lower amount tags).income := by
  simp only [type_contrib, ClassPy.categorize_amount, ClassPy.get_tags_lower, ClassPy.INCOME_TAG, ClassPy.INVESTMENT_TAG,
    ClassPy.TRANSFER_TAG]
  repeat' split
  all_goals rfl

/-- … and so is its investment decision (investment before transfer, as in `categorize_amount`) -/
theorem type_investment_eq :
    (type_contrib N lower amount tags).investment = (ClassPy.categorize_amount N lower amount tags).investment := by
  simp only [type_contrib, ClassPy.categorize_amount, ClassPy.get_tags_lower, ClassPy.INCOME_TAG, ClassPy.INVESTMENT_TAG,
    ClassPy.TRANSFER_TAG]
  repeat' split
  all_goals rfl

/-- the transfer figure of the report is `transfer_in` for a positive amount and `transfer_out` otherwise - given that `abs`
is the identity on positive amounts (true of doubles and of exact amounts) -/
theorem type_transfer_eq (habs : ∀ a : N.α, N.gt a N.zero = true → N.abs a = a) :
    (type_contrib N lower amount tags).transfer =
      if N.gt amount N.zero = true then (ClassPy.categorize_amount N lower amount tags).transfer_in
      else (ClassPy.categorize_amount N lower amount tags).transfer_out := by
  simp only [type_contrib, ClassPy.categorize_amount, ClassPy.get_tags_lower, ClassPy.INCOME_TAG, ClassPy.INVESTMENT_TAG,
    ClassPy.TRANSFER_TAG]
  repeat' split
  all_goals first | rfl | (simp_all; done)

/-- spending: the report tests `amount >= 0`, the analysis `amount > 0`; they add the same figure given that an amount that
is `>= 0` and not `> 0` IS zero and that `> 0` implies `>= 0` -/
theorem type_spending_eq (hz : ∀ a : N.α, N.ge a N.zero = true → N.gt a N.zero = false → a = N.zero)
    (hge : ∀ a : N.α, N.gt a N.zero = true → N.ge a N.zero = true) :
    (type_contrib N lower amount tags).spending = (ClassPy.categorize_amount N lower amount tags).spending := by
  simp only [type_contrib, ClassPy.categorize_amount, ClassPy.get_tags_lower, ClassPy.INCOME_TAG, ClassPy.INVESTMENT_TAG,
    ClassPy.TRANSFER_TAG]
  repeat' split
  all_goals first | rfl | (simp_all; done) | (simp_all; exact hz _ ‹_› ‹_›)

private theorem int_transfer (lower : String → String) (a : Int) (tags : Option (List String)) :
    (type_contrib intNum lower a tags).transfer =
      (ClassPy.categorize_amount intNum lower a tags).transfer_in + (ClassPy.categorize_amount intNum lower a tags).transfer_out := by
  simp only [type_contrib, ClassPy.categorize_amount, ClassPy.get_tags_lower, ClassPy.INCOME_TAG, ClassPy.INVESTMENT_TAG,
    ClassPy.TRANSFER_TAG]
  repeat' split
  all_goals simp_all <;> omega

/-- **The per-category `typeTotals` of the report data add up to the analysed totals** (exact amounts, every list of
transactions, every assignment of categories, every lower-casing function): income to income, investment to investment,
transfer to transfers in + transfers out, spending to spending - the report's own chain (regenerated from report.py) against
`analyze_transactions` over `categorize_amount` (regenerated from classification.py). -/
theorem type_totals_add_up (lower : String → String) (l : List T) :
    ttSum (·.income) (typeTotalsByCat intNum lower l) = (analyze intNum lower l).income ∧
    ttSum (·.investment) (typeTotalsByCat intNum lower l) = (analyze intNum lower l).investment ∧
    ttSum (·.transfer) (typeTotalsByCat intNum lower l) = (analyze intNum lower l).transfersIn + (analyze intNum lower l).transfersOut ∧
    ttSum (·.spending) (typeTotalsByCat intNum lower l) = (analyze intNum lower l).spending := by
  have hf := TallyVerif.Props.C06.flow_totals lower l
  simp only [TallyVerif.Props.C06.flowOf, TallyVerif.Props.C06.flowSpec, TallyVerif.Props.C06.Flow.mk.injEq,
    TallyVerif.Props.C06.cat] at hf
  obtain ⟨h1, h2, -, h4, h5, h6, -, -⟩ := hf
  refine ⟨?_, ?_, ?_, ?_⟩
  · rw [type_totals_regroup lower _ rfl (fun _ _ => rfl), h1]
    exact sumBy_congr _ _ l fun t => type_income_eq intNum lower t.amount t.tags
  · rw [type_totals_regroup lower _ rfl (fun _ _ => rfl), h6]
    exact sumBy_congr _ _ l fun t => type_investment_eq intNum lower t.amount t.tags
  · rw [type_totals_regroup lower _ rfl (fun _ _ => rfl), h4, h5, ← sumBy_add]
    exact sumBy_congr _ _ l fun t => int_transfer lower t.amount t.tags
  · rw [type_totals_regroup lower _ rfl (fun _ _ => rfl), h2]
    exact sumBy_congr _ _ l fun t => type_spending_eq intNum lower t.amount t.tags
      (fun a h1 h2 => by simp only [decide_eq_true_eq, decide_eq_false_iff_not] at h1 h2 ⊢; omega)
      (fun a h => by simp only [decide_eq_true_eq] at h ⊢; omega)

def sampleTxns : List T :=
  [⟨-2000, some ["Income"], "Emp", "Income", "Salary", "2025-01"⟩, ⟨500, some ["transfer", "INVESTMENT"], "Broker", "Savings", "", "2025-01"⟩,
   ⟨-300, some ["Transfer"], "Bank", "Savings", "", "2025-02"⟩, ⟨1250, none, "Shop", "Food", "G", "2025-02"⟩, ⟨-40, some [], "Shop", "Food", "G", "2025-02"⟩,
   ⟨0, some ["x"], "Zero", "Food", "G", "2025-03"⟩]

/-- non-vacuity, with a transaction tagged both transfer and investment (investment wins on both sides) -/
example : typeTotalsByCat intNum asciiLower sampleTxns =
    [("Income", ⟨0, 2000, 0, 0⟩), ("Savings", ⟨0, 0, 500, 300⟩), ("Food", ⟨1250, 0, 0, 0⟩)] ∧
    (analyze intNum asciiLower sampleTxns).investment = 500 ∧ (analyze intNum asciiLower sampleTxns).transfersOut = 300 := by
  decide +kernel

end typeTotals

end TallyVerif.Props.C12
