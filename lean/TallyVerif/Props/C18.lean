/-
C18 — a format string maps columns by position, and inspect's suggestion round-trips.
-/
import TallyVerif.Lemmas.FmtInspect

namespace TallyVerif.Props.C18
open TallyVerif.Fmt TallyVerif.Fmt.Spec TallyVerif.Gen

/-- Clause 1. For EVERY arrangement `cols` (any width) of date / description / amount / location / custom / skipped
columns that is well-formed, and EVERY spelling of it in the class `SpOK` (blanks before the brace, letter case,
`{_}`/`{*}`, ignored `+`/`-` prefixes and `:spec`s, any comma-free text after the closing brace, any writable
date format), and for whatever CPython does with non-ASCII text (`e`), the format string that lists the columns in
order parses to exactly the arrangement's positions, date format and sign mode. -/
theorem parse_render (e : Ext) (scs : List (Col × Sp)) (tmpl : Option Str)
    (hsp : ∀ p ∈ scs, SpOK e p = true) (hwf : WellFormed e (scs.map Prod.fst) tmpl) :
    Impl.parseFormat e (render scs) tmpl = .ok (specOf (scs.map Prod.fst) tmpl) := by
  have hne : scs.map renderCol ≠ [] := by
    intro h
    have : scs = [] := by simpa using h
    subst this
    have := hwf.2.2.2.1
    simp at this
  have hsplit : splitComma (render scs) = scs.map renderCol := by
    apply splitComma_joinComma _ hne
    intro s hs
    obtain ⟨p, hp, rfl⟩ := List.mem_map.mp hs
    exact renderCol_no_comma e p (hsp p hp)
  have hloop := loop_render e scs 0 St.init hsp hwf.2.2.1
    (by simpa [St.init, keys] using hwf.1) (by simpa [St.init, keys] using hwf.2.1)
  unfold Impl.parseFormat
  rw [hsplit, hloop]
  exact finish_spec e _ tmpl hwf

/-! ### rejection: stated for ARBITRARY format strings `s` (not only rendered arrangements).
`tokName e p` is the lower-cased name the parser reads in the comma-separated piece `p` (if it matches at all). -/

/-- the parser raises `ValueError` -/
def Rejected (r : Except Err FormatSpec) : Prop := ∃ err, r = .error err

private theorem rejected_of_not_ok {r : Except Err FormatSpec} (h : ∀ spec, r ≠ .ok spec) : Rejected r := by
  cases r with
  | error err => exact ⟨err, rfl⟩
  | ok spec => exact absurd rfl (h spec)

private theorem parse_ok_elim {e : Ext} {s : Str} {tmpl : Option Str} {spec : FormatSpec}
    (h : Impl.parseFormat e s tmpl = .ok spec) :
    ∃ st, Impl.loop e 0 St.init (splitComma s) = .ok st ∧ Impl.finish e st tmpl = .ok spec := by
  unfold Impl.parseFormat at h
  split at h
  · cases h
  · rename_i st hl; exact ⟨st, hl, h⟩

/-- Clause 2a. A string with a missing required field is rejected: if no piece is a `date` token, or no piece is an
`amount` token, `parse_format_string` raises — whatever else the string contains. -/
theorem rejects_missing_required (e : Ext) (s : Str) (tmpl : Option Str)
    (h : (∀ p ∈ splitComma s, tokName e p ≠ some sDate) ∨ (∀ p ∈ splitComma s, tokName e p ≠ some sAmount)) :
    Rejected (Impl.parseFormat e s tmpl) := by
  apply rejected_of_not_ok
  intro spec hok
  obtain ⟨st, hl, hf⟩ := parse_ok_elim hok
  obtain ⟨hd, ha, _, _⟩ := finish_ok hf
  have ho := loop_origin _ hl
  rcases h with h | h
  · rcases ho.1 sDate hd with h0 | ⟨p, hp, hn⟩
    · simp [St.init, keys] at h0
    · exact h p hp hn
  · rcases ho.1 sAmount ha with h0 | ⟨p, hp, hn⟩
    · simp [St.init, keys] at h0
    · exact h p hp hn

/-- Clause 2b. A duplicate is rejected: two pieces (anywhere in the string) that read as the same name — a reserved
field or a custom capture, in any letter case — make the parser raise. Only `{_}` / `{*}` may repeat. -/
theorem rejects_duplicate (e : Ext) (s : Str) (tmpl : Option Str) (A B C : List Str) (p q : Str) (n : Str)
    (hs : splitComma s = A ++ p :: (B ++ q :: C))
    (hp : tokName e p = some n) (hq : tokName e q = some n) (hn1 : n ≠ sUnderscore) (hn2 : n ≠ sStar) :
    Rejected (Impl.parseFormat e s tmpl) := by
  apply rejected_of_not_ok
  intro spec hok
  obtain ⟨st, hl, _⟩ := parse_ok_elim hok
  rw [hs] at hl
  exact loop_duplicate A B C p q n 0 St.init hp hq (by rintro (h | h); exact hn1 h; exact hn2 h) st hl

/-- Clause 2c. A description template naming an uncaptured column is rejected: if the template (present and
non-empty) references `{r}` and either no piece of the format string is named `r`, or the string has a
`{description}` column (then captures are extra fields, not template captures), the parser raises. -/
theorem rejects_uncaptured_template_ref (e : Ext) (s : Str) (tmpl : Option Str) (r : Str)
    (hr : r ∈ refsOf e tmpl)
    (h : (∀ p ∈ splitComma s, tokName e p ≠ some r) ∨ (∃ p ∈ splitComma s, tokName e p = some sDescription)) :
    Rejected (Impl.parseFormat e s tmpl) := by
  apply rejected_of_not_ok
  intro spec hok
  obtain ⟨st, hl, hf⟩ := parse_ok_elim hok
  obtain ⟨_, _, _, hrefs⟩ := finish_ok hf
  obtain ⟨hrc, hnd⟩ := hrefs r hr
  rcases h with h | ⟨p, hp, hn⟩
  · rcases (loop_origin _ hl).2 r hrc with h0 | ⟨p, hp, hn⟩
    · simp [St.init, keys] at h0
    · exact h p hp hn
  · have := (loop_records _ hl p hp sDescription hn (by rintro (h | h) <;> revert h <;> decide)).1 (by decide)
    exact hnd this

/-- Clause 2d. Custom captures without a description template are rejected — in fact any string without a
`description` token is rejected when the template is missing or empty. -/
theorem rejects_custom_without_template (e : Ext) (s : Str) (tmpl : Option Str)
    (ht : Impl.tmplAbsent tmpl = true) (h : ∀ p ∈ splitComma s, tokName e p ≠ some sDescription) :
    Rejected (Impl.parseFormat e s tmpl) := by
  apply rejected_of_not_ok
  intro spec hok
  obtain ⟨st, hl, hf⟩ := parse_ok_elim hok
  obtain ⟨_, _, hdesc, _⟩ := finish_ok hf
  rcases hdesc with hd | ⟨_, hta⟩
  · rcases (loop_origin _ hl).1 sDescription hd with h0 | ⟨p, hp, hn⟩
    · simp [St.init, keys] at h0
    · exact h p hp hn
  · rw [ht] at hta; cases hta

/-- A piece that is not a token at all is rejected (the "bad token" class): the whole string is. -/
theorem rejects_invalid_token (e : Ext) (s : Str) (tmpl : Option Str) (p : Str)
    (hp : p ∈ splitComma s) (hbad : tokName e p = none) : Rejected (Impl.parseFormat e s tmpl) := by
  apply rejected_of_not_ok
  intro spec hok
  obtain ⟨st, hl, _⟩ := parse_ok_elim hok
  obtain ⟨A, R, hsplit⟩ := List.append_of_mem hp
  rw [hsplit] at hl
  obtain ⟨st1, _, h1⟩ := loop_ok_append A hl
  obtain ⟨t, _, hm, _, _⟩ := loop_ok_cons h1
  simp [tokName, hm] at hbad

/-- Clause 1, converse direction, for ARBITRARY format strings: whenever `parse_format_string` accepts a string, every
position in the returned spec is the index of the comma-separated piece that carries that name — the date column is a
piece that reads `date`, the amount column one that reads `amount`, likewise description, location, and every
`(name, index)` among the custom captures / extra fields. (`NamedAt e parts i k`: piece `i` exists and reads `k`.) -/
theorem parse_positions (e : Ext) (s : Str) (tmpl : Option Str) (spec : FormatSpec)
    (h : Impl.parseFormat e s tmpl = .ok spec) :
    NamedAt e (splitComma s) spec.dateColumn sDate ∧ NamedAt e (splitComma s) spec.amountColumn sAmount ∧
    (∀ i, spec.descriptionColumn = some i → NamedAt e (splitComma s) i sDescription) ∧
    (∀ i, spec.locationColumn = some i → NamedAt e (splitComma s) i sLocation) ∧
    (∀ d, spec.customCaptures = some d → ∀ n i, (n, i) ∈ d → NamedAt e (splitComma s) i n) ∧
    (∀ d, spec.extraFields = some d → ∀ n i, (n, i) ∈ d → NamedAt e (splitComma s) i n) := by
  obtain ⟨st, hl, hf⟩ := parse_ok_elim h
  obtain ⟨hd, ha, hs, hloc, hcc, hef⟩ := finish_fields hf
  have hv := loop_vals _ hl
  have fld : ∀ k v, (k, v) ∈ st.fields → NamedAt e (splitComma s) v k := by
    intro k v hkv
    rcases hv.1 k v hkv with h0 | ⟨_, h1⟩
    · simp [St.init] at h0
    · simpa using h1
  have cst : ∀ k v, (k, v) ∈ st.customs → NamedAt e (splitComma s) v k := by
    intro k v hkv
    rcases hv.2 k v hkv with h0 | ⟨_, h1⟩
    · simp [St.init] at h0
    · simpa using h1
  refine ⟨fld _ _ (lookup_mem hd), fld _ _ (lookup_mem ha), ?_, ?_, ?_, ?_⟩
  · intro i hi; rw [hs] at hi; exact fld _ _ (lookup_mem hi)
  · intro i hi; rw [hloc] at hi; exact fld _ _ (lookup_mem hi)
  · intro d hdd n i hni; exact cst _ _ (hcc d hdd _ hni)
  · intro d hdd n i hni; exact cst _ _ (hef d hdd _ hni)


/-! ### clause 3: inspect's suggestion round-trips -/

/-- The suggestion builder alone: for ANY detected spec whose columns are pairwise distinct and whose date format is
writable (non-empty, no `}` / `,`), the suggested format string is accepted (no template needed) and selects exactly
the date / description / amount / location columns and the date format it was built from. -/
theorem suggest_roundtrip (e : Ext) (sp : Impl.DetectSpec) (hd : Distinct sp)
    (hfmt : okSpec (some sp.dateFormat) = true) :
    ∃ spec, Impl.parseFormat e (Impl.suggest sp) none = .ok spec ∧
      spec.dateColumn = sp.dateColumn ∧ spec.dateFormat = sp.dateFormat ∧
      spec.descriptionColumn = some sp.descriptionColumn ∧ spec.amountColumn = sp.amountColumn ∧
      spec.locationColumn = sp.locationColumn := by
  have hwf := wellFormed_suggest e sp hd
  rw [← cols_scsOf] at hwf
  have hp := parse_render e (scsOf sp) none (SpOK_scsOf e sp hfmt) hwf
  rw [← suggest_eq_render, cols_scsOf] at hp
  exact ⟨_, hp, specOf_suggest sp hd⟩

/-- Clause 3. For EVERY header row (any number of headers, any text, whatever CPython's `lower`/`strip` do to
non-ASCII headers): if auto-detection succeeds and reports `sp`, then the format string `tally inspect` suggests
is accepted by the parser and selects the same date, description and amount columns (and location column and date
format) that inspect reported. -/
theorem inspect_roundtrip (e : Ext) (headers : List Str) (sp : Impl.DetectSpec)
    (h : Impl.detect e headers = .ok sp) :
    ∃ spec, Impl.parseFormat e (Impl.suggest sp) none = .ok spec ∧
      spec.dateColumn = sp.dateColumn ∧ spec.descriptionColumn = some sp.descriptionColumn ∧
      spec.amountColumn = sp.amountColumn ∧ spec.locationColumn = sp.locationColumn ∧
      spec.dateFormat = sp.dateFormat := by
  obtain ⟨hd, hf⟩ := detect_distinct e headers sp h
  obtain ⟨spec, h1, h2, h3, h4, h5, h6⟩ := suggest_roundtrip e sp hd (by rw [hf]; decide)
  exact ⟨spec, h1, h2, h4, h5, h6, h3⟩

/-- the detected columns are pairwise distinct (one role per header: the `elif` chain) -/
theorem detect_columns_distinct (e : Ext) (headers : List Str) (sp : Impl.DetectSpec)
    (h : Impl.detect e headers = .ok sp) :
    sp.dateColumn ≠ sp.descriptionColumn ∧ sp.dateColumn ≠ sp.amountColumn ∧
    sp.descriptionColumn ≠ sp.amountColumn := by
  obtain ⟨hd, _⟩ := detect_distinct e headers sp h
  exact ⟨hd.1, hd.2.1, hd.2.2.1⟩

/-! ### what inspect may put into its suggestion: a date format with a comma can never round-trip

`tally inspect` reports a date format and writes it into the suggested format string.  The round trip of clause 3 needs that
format to be WRITABLE (`suggest_roundtrip`'s hypothesis; the detected constant is, by computation, in `inspect_roundtrip`).
The converse, for every format string whatsoever: no accepted string carries a date format with a comma in it, because
the string is cut at every comma before any token is read.  So a suggestion built around `%b %d, %Y` (the shape
`Jan 05, 2025` of card and brokerage exports) cannot give that format back, whatever else it contains. -/

private theorem splitComma_no_comma : ∀ (s : Str) (p : Str), p ∈ splitComma s → ',' ∉ p
  | [], p, h => by
    simp [splitComma] at h; subst h; simp
  | c :: cs, p, h => by
    have ih := splitComma_no_comma cs
    unfold splitComma at h
    cases hsp : splitComma cs with
    | nil => simp [hsp] at h; subst h; simp
    | cons q qs =>
      simp only [hsp] at h
      have hq : ',' ∉ q := ih q (by simp [hsp])
      have hqs : ∀ x ∈ qs, ',' ∉ x := fun x hx => ih x (by simp [hsp, hx])
      by_cases hc : c = ','
      · simp [hc] at h
        rcases h with rfl | rfl | h
        · simp
        · exact hq
        · exact hqs _ h
      · simp [hc] at h
        rcases h with rfl | h
        · intro hm
          rcases List.mem_cons.mp hm with hm | hm
          · exact hc hm.symm
          · exact hq hm
        · exact hqs _ h

private theorem strip_subset (e : Ext) (s : Str) : ∀ c ∈ strip e s, c ∈ s := by
  intro c hc
  unfold strip at hc
  have h1 := (List.dropWhile_sublist e.isSpace).subset (List.mem_reverse.mp hc)
  exact (List.dropWhile_sublist e.isSpace).subset (List.mem_reverse.mp h1)

private theorem takeSign_subset (r : Str) : ∀ c ∈ (takeSign r).2, c ∈ r := by
  intro c hc
  cases r with
  | nil => simp [takeSign] at hc
  | cons a t =>
    simp only [takeSign] at hc
    by_cases h : (a = '-' || a = '+') = true
    · rw [if_pos h] at hc; exact List.mem_cons_of_mem _ hc
    · rw [if_neg h] at hc; exact hc

private theorem takeName_subset (e : Ext) (r : Str) (name rest : Str) (h : takeName e r = some (name, rest)) :
    ∀ c ∈ rest, c ∈ r := by
  intro c hc
  cases r with
  | nil => simp [takeName] at h
  | cons a t =>
    simp only [takeName] at h
    by_cases h1 : a = '*'
    · rw [if_pos h1] at h
      cases h; exact List.mem_cons_of_mem _ hc
    · rw [if_neg h1] at h
      by_cases h2 : ((a :: t).takeWhile e.isWord).isEmpty = true
      · rw [if_pos h2] at h; cases h
      · rw [if_neg h2] at h
        cases h; exact (List.dropWhile_sublist e.isWord).subset hc

private theorem takeSpec_subset (r : Str) (f : Str) (h : takeSpec r = some (some f)) : ∀ c ∈ f, c ∈ r := by
  intro c hc
  cases r with
  | nil => simp [takeSpec] at h
  | cons a t =>
    simp only [takeSpec] at h
    by_cases h1 : a = '}'
    · rw [if_pos h1] at h; cases h
    · rw [if_neg h1] at h
      by_cases h2 : a = ':'
      · rw [if_pos h2] at h
        by_cases h3 : (t.takeWhile (· != '}')).isEmpty = true
        · rw [if_pos h3] at h; cases h
        · rw [if_neg h3] at h
          cases hd : t.dropWhile (· != '}') with
          | nil => rw [hd] at h; cases h
          | cons x xs =>
            rw [hd] at h
            cases h
            exact List.mem_cons_of_mem _ ((List.takeWhile_sublist _).subset hc)
      · rw [if_neg h2] at h; cases h

private theorem matchTok_spec_subset (e : Ext) (s : Str) (t : RawTok) (f : Str) (h : matchTok e s = some t)
    (hf : t.spec = some f) : ∀ c ∈ f, c ∈ s := by
  intro c hc
  cases s with
  | nil => simp [matchTok] at h
  | cons a r =>
    simp only [matchTok] at h
    by_cases ha : a = '{'
    · rw [if_pos ha] at h
      cases hn : takeName e (takeSign r).2 with
      | none => rw [hn] at h; cases h
      | some nr =>
        obtain ⟨name, r2⟩ := nr
        rw [hn] at h
        simp only at h
        cases hs : takeSpec r2 with
        | none => rw [hs] at h; cases h
        | some sp =>
          rw [hs] at h
          cases h
          simp only at hf
          subst hf
          have h1 := takeSpec_subset r2 f hs c hc
          have h2 := takeName_subset e _ name r2 hn c h1
          exact List.mem_cons_of_mem _ (takeSign_subset r c h2)
    · rw [if_neg ha] at h; cases h

private theorem step_dateFormat {e : Ext} {idx : Nat} {st st' : St} {t : RawTok} (h : Impl.step e idx st t = .ok st')
    (hst : ',' ∉ st.dateFormat) (ht : ∀ f, t.spec = some f → ',' ∉ f) : ',' ∉ st'.dateFormat := by
  unfold Impl.step at h
  simp only at h
  repeat' split at h
  all_goals first | (cases h; done) | skip
  all_goals cases h
  all_goals first | exact hst | exact ht _ (by assumption)

private theorem loop_dateFormat {e : Ext} : ∀ (parts : List Str) {idx : Nat} {st st' : St},
    Impl.loop e idx st parts = .ok st' → ',' ∉ st.dateFormat → (∀ p ∈ parts, ',' ∉ p) → ',' ∉ st'.dateFormat
  | [], idx, st, st', h, hst, _ => by
    simp only [Impl.loop] at h; cases h; exact hst
  | p :: ps, idx, st, st', h, hst, hp => by
    simp only [Impl.loop] at h
    cases hm : matchTok e (strip e p) with
    | none => rw [hm] at h; cases h
    | some t =>
      rw [hm] at h
      simp only at h
      cases hs : Impl.step e idx st t with
      | error err => rw [hs] at h; cases h
      | ok st1 =>
        rw [hs] at h
        simp only at h
        have ht : ∀ f, t.spec = some f → ',' ∉ f := by
          intro f hf hc
          exact hp p (List.mem_cons_self) (strip_subset e p _ (matchTok_spec_subset e _ t f hm hf _ hc))
        exact loop_dateFormat ps h (step_dateFormat hs hst ht) (fun q hq => hp q (List.mem_cons_of_mem _ hq))

private theorem finish_dateFormat {e : Ext} {st : St} {tmpl : Option Str} {spec : FormatSpec}
    (h : Impl.finish e st tmpl = .ok spec) : spec.dateFormat = st.dateFormat := by
  unfold Impl.finish at h
  simp only at h
  repeat' split at h
  all_goals first | (cases h; done) | skip
  all_goals cases h
  all_goals rfl


/-- **No format string yields a date format that contains a comma** (any string, any template, any `Ext`): the date format of an
accepted string is the default or the `:spec` of one comma-separated piece. -/
theorem accepted_date_format_has_no_comma (e : Ext) (s : Str) (tmpl : Option Str) (spec : FormatSpec)
    (h : Impl.parseFormat e s tmpl = .ok spec) : ',' ∉ spec.dateFormat := by
  obtain ⟨st, hl, hf⟩ := parse_ok_elim h
  rw [finish_dateFormat hf]
  exact loop_dateFormat _ hl (by decide) (splitComma_no_comma s)

/-- **A reported date format with a comma never round-trips**: for EVERY detected spec (any columns) whose date format contains a
comma, no parse of the suggested format string gives that date format back — the suggestion is rejected or reads another
format.  (On the real parser it is rejected: the example `{date:%b %d, %Y}, {description}, {amount}` below.) -/
theorem comma_date_format_never_roundtrips (e : Ext) (sp : Impl.DetectSpec) (hc : ',' ∈ sp.dateFormat) :
    ¬ ∃ spec, Impl.parseFormat e (Impl.suggest sp) none = .ok spec ∧ spec.dateFormat = sp.dateFormat := by
  rintro ⟨spec, hok, hfmt⟩
  exact accepted_date_format_has_no_comma e _ none spec hok (hfmt ▸ hc)

/-! ### non-vacuity: concrete inputs satisfying the hypotheses (and the excluded region, on the model) -/

instance {ε α : Type} [DecidableEq ε] [DecidableEq α] : DecidableEq (Except ε α) := fun a b =>
  match a, b with
  | .ok x, .ok y => if h : x = y then isTrue (by rw [h]) else isFalse (fun h' => h (Except.ok.inj h'))
  | .error x, .error y => if h : x = y then isTrue (by rw [h]) else isFalse (fun h' => h (Except.error.inj h'))
  | .ok _, .error _ => isFalse (fun h => by cases h)
  | .error _, .ok _ => isFalse (fun h => by cases h)

/-- CPython restricted to ASCII input (nothing non-ASCII is consulted in the examples) -/
def asciiExt : Ext := ⟨fun _ => false, fun _ => false, id⟩

/-- `  {Date:%Y-%m-%d} x,\t{*},{-AMOUNT:ignored},{+merchant} ,{_} tail,{Type},{LOCATION}` with template `{merchant} ({type})` -/
def sampleArrangement : List (Col × Sp) :=
  [(.date (some "%Y-%m-%d".toList), ⟨[' ', ' '], none, "Date".toList, none, " x".toList⟩),
   (.skip, ⟨['\t'], none, ['*'], none, []⟩),
   (.amount .negate, ⟨[], none, "AMOUNT".toList, some "ignored".toList, []⟩),
   (.custom "merchant".toList, ⟨[], some '+', "merchant".toList, none, [' ']⟩),
   (.skip, ⟨[], none, ['_'], none, " tail".toList⟩),
   (.custom "type".toList, ⟨[], none, "Type".toList, none, []⟩),
   (.location, ⟨[], none, "LOCATION".toList, none, []⟩)]

def sampleTemplate : Option Str := some "{merchant} ({type})".toList

example : (∀ p ∈ sampleArrangement, SpOK asciiExt p = true) := by decide +kernel
example : WellFormed asciiExt (sampleArrangement.map Prod.fst) sampleTemplate := by decide +kernel
example : String.ofList (render sampleArrangement) =
    "  {Date:%Y-%m-%d} x,\t{*},{-AMOUNT:ignored},{+merchant} ,{_} tail,{Type},{LOCATION}" := by decide +kernel
example : Impl.parseFormat asciiExt (render sampleArrangement) sampleTemplate =
    .ok { dateColumn := 0, dateFormat := "%Y-%m-%d".toList, amountColumn := 2, descriptionColumn := none,
          customCaptures := some [("merchant".toList, 3), ("type".toList, 5)], descriptionTemplate := sampleTemplate,
          extraFields := none, locationColumn := some 6, negateAmount := true, absAmount := false } := by
  decide +kernel

/-- rejections on concrete strings (each hypothesis is satisfiable) -/
example : Impl.parseFormat asciiExt "{date}, {description}".toList none = .error .missingRequired := by decide +kernel
example : Impl.parseFormat asciiExt "{date}, {amount}, {Date}, {description}".toList none = .error (.dupField 2) := by
  decide +kernel
example : Impl.parseFormat asciiExt "{date}, {amount}, {a}, {A}".toList (some "{a}".toList) = .error (.dupCustom 3) := by
  decide +kernel
example : Impl.parseFormat asciiExt "{date}, {amount}, {merchant}".toList (some "{merchant} {type}".toList)
    = .error (.uncapturedRef "type".toList) := by decide +kernel
example : Impl.parseFormat asciiExt "{date}, {amount}, {merchant}".toList none = .error .needTemplate := by decide +kernel
example : tokName asciiExt " {Description:x} junk".toList = some sDescription := by decide +kernel
example : (Impl.parseFormat asciiExt "{_}, {Amount}, {*}, {DATE}, {description}".toList none).toOption.map
    (fun s => (s.dateColumn, s.amountColumn, s.descriptionColumn)) = some (3, 1, some 4) := by decide +kernel

/-- the excluded date formats, on the model: a `,` splits the token (rejected); a `}` silently ends the format -/
example : Impl.parseFormat asciiExt "{date:%b %d, %Y}, {description}, {amount}".toList none = .error (.invalidToken 0) := by
  decide +kernel
example : (Impl.parseFormat asciiExt "{date:a}b}, {description}, {amount}".toList none).toOption.map (·.dateFormat)
    = some ['a'] := by decide +kernel

/-- the hypothesis of `comma_date_format_never_roundtrips` on the witness of the class: dates like `Jan 05, 2025`; the suggestion
built for columns (0, 1, 2) is the string of the example above, and it is rejected -/
example : ',' ∈ (⟨0, "%b %d, %Y".toList, 1, 2, none⟩ : Impl.DetectSpec).dateFormat := by decide +kernel
example : Impl.parseFormat asciiExt (Impl.suggest ⟨0, "%b %d, %Y".toList, 1, 2, none⟩) none = .error (.invalidToken 0) := by
  decide +kernel

/-- header detection and the suggestion on a concrete header row -/
def sampleHeaders : List Str :=
  ["Posting Date", "Reference", "Merchant Name", "City/State", "Transaction Amount"].map String.toList

example : Impl.detect asciiExt sampleHeaders = .ok ⟨0, FmtTables.DETECT_DATE_FORMAT, 2, 4, some 3⟩ := by decide +kernel
example : String.ofList (Impl.suggest ⟨0, FmtTables.DETECT_DATE_FORMAT, 2, 4, some 3⟩)
    = "{date:%m/%d/%Y}, {_}, {description}, {location}, {amount}" := by decide +kernel

end TallyVerif.Props.C18
