/-
C18 — a format string maps columns by position, and inspect's suggestion round-trips.
-/
import TallyVerif.Lemmas.FmtInspect

namespace TallyVerif.Props.C18
open TallyVerif.Fmt TallyVerif.Fmt.Spec TallyVerif.Gen

/-- Clause 1. For EVERY arrangement `cols` (any width) of date / description / amount / location / custom / skipped
columns that is well-formed, and EVERY spelling of it in the class `SpOK` (blanks before the brace, letter case,
`{_}`/`{*}`, ignored `+`/`-` prefixes and `:spec`s, any comma-free text after the closing brace, any writable
date format), and for whatever CPython does with non-ASCII text (`e`), the format string that lists the columns in
order parses to exactly the arrangement's positions, date format and sign mode. -/
theorem parse_render (e : Ext) (scs : List (Col × Sp)) (tmpl : Option Str)
    (hsp : ∀ p ∈ scs, SpOK e p = true) (hwf : WellFormed e (scs.map Prod.fst) tmpl) :
    Impl.parseFormat e (render scs) tmpl = .ok (specOf (scs.map Prod.fst) tmpl) := by
  have hne : scs.map renderCol ≠ [] := by
    intro h
    have : scs = [] := by simpa using h
    subst this
    have := hwf.2.2.2.1
    simp at this
  have hsplit : splitComma (render scs) = scs.map renderCol := by
    apply splitComma_joinComma _ hne
    intro s hs
    obtain ⟨p, hp, rfl⟩ := List.mem_map.mp hs
    exact renderCol_no_comma e p (hsp p hp)
  have hloop := loop_render e scs 0 St.init hsp hwf.2.2.1
    (by simpa [St.init, keys] using hwf.1) (by simpa [St.init, keys] using hwf.2.1)
  unfold Impl.parseFormat
  rw [hsplit, hloop]
  exact finish_spec e _ tmpl hwf

/-! ### rejection: stated for ARBITRARY format strings `s` (not only rendered arrangements).
`tokName e p` is the lower-cased name the parser reads in the comma-separated piece `p` (if it matches at all). -/

/-- the parser raises `ValueError` -/
def Rejected (r : Except Err FormatSpec) : Prop := ∃ err, r = .error err

private theorem rejected_of_not_ok {r : Except Err FormatSpec} (h : ∀ spec, r ≠ .ok spec) : Rejected r := by
  cases r with
  | error err => exact ⟨err, rfl⟩
  | ok spec => exact absurd rfl (h spec)

private theorem parse_ok_elim {e : Ext} {s : Str} {tmpl : Option Str} {spec : FormatSpec}
    (h : Impl.parseFormat e s tmpl = .ok spec) :
    ∃ st, Impl.loop e 0 St.init (splitComma s) = .ok st ∧ Impl.finish e st tmpl = .ok spec := by
  unfold Impl.parseFormat at h
  split at h
  · cases h
  · rename_i st hl; exact ⟨st, hl, h⟩

/-- Clause 2a. A string with a missing required field is rejected: if no piece is a `date` token, or no piece is an
`amount` token, `parse_format_string` raises — whatever else the string contains. -/
theorem rejects_missing_required (e : Ext) (s : Str) (tmpl : Option Str)
    (h : (∀ p ∈ splitComma s, tokName e p ≠ some sDate) ∨ (∀ p ∈ splitComma s, tokName e p ≠ some sAmount)) :
    Rejected (Impl.parseFormat e s tmpl) := by
  apply rejected_of_not_ok
  intro spec hok
  obtain ⟨st, hl, hf⟩ := parse_ok_elim hok
  obtain ⟨hd, ha, _, _⟩ := finish_ok hf
  have ho := loop_origin _ hl
  rcases h with h | h
  · rcases ho.1 sDate hd with h0 | ⟨p, hp, hn⟩
    · simp [St.init, keys] at h0
    · exact h p hp hn
  · rcases ho.1 sAmount ha with h0 | ⟨p, hp, hn⟩
    · simp [St.init, keys] at h0
    · exact h p hp hn

/-- Clause 2b. A duplicate is rejected: two pieces (anywhere in the string) that read as the same name — a reserved
field or a custom capture, in any letter case — make the parser raise. Only `{_}` / `{*}` may repeat. -/
theorem rejects_duplicate (e : Ext) (s : Str) (tmpl : Option Str) (A B C : List Str) (p q : Str) (n : Str)
    (hs : splitComma s = A ++ p :: (B ++ q :: C))
    (hp : tokName e p = some n) (hq : tokName e q = some n) (hn1 : n ≠ sUnderscore) (hn2 : n ≠ sStar) :
    Rejected (Impl.parseFormat e s tmpl) := by
  apply rejected_of_not_ok
  intro spec hok
  obtain ⟨st, hl, _⟩ := parse_ok_elim hok
  rw [hs] at hl
  exact loop_duplicate A B C p q n 0 St.init hp hq (by rintro (h | h); exact hn1 h; exact hn2 h) st hl

/-- Clause 2c. A description template naming an uncaptured column is rejected: if the template (present and
non-empty) references `{r}` and either no piece of the format string is named `r`, or the string has a
`{description}` column (then captures are extra fields, not template captures), the parser raises. -/
theorem rejects_uncaptured_template_ref (e : Ext) (s : Str) (tmpl : Option Str) (r : Str)
    (hr : r ∈ refsOf e tmpl)
    (h : (∀ p ∈ splitComma s, tokName e p ≠ some r) ∨ (∃ p ∈ splitComma s, tokName e p = some sDescription)) :
    Rejected (Impl.parseFormat e s tmpl) := by
  apply rejected_of_not_ok
  intro spec hok
  obtain ⟨st, hl, hf⟩ := parse_ok_elim hok
  obtain ⟨_, _, _, hrefs⟩ := finish_ok hf
  obtain ⟨hrc, hnd⟩ := hrefs r hr
  rcases h with h | ⟨p, hp, hn⟩
  · rcases (loop_origin _ hl).2 r hrc with h0 | ⟨p, hp, hn⟩
    · simp [St.init, keys] at h0
    · exact h p hp hn
  · have := (loop_records _ hl p hp sDescription hn (by rintro (h | h) <;> revert h <;> decide)).1 (by decide)
    exact hnd this

/-- Clause 2d. Custom captures without a description template are rejected — in fact any string without a
`description` token is rejected when the template is missing or empty. -/
theorem rejects_custom_without_template (e : Ext) (s : Str) (tmpl : Option Str)
    (ht : Impl.tmplAbsent tmpl = true) (h : ∀ p ∈ splitComma s, tokName e p ≠ some sDescription) :
    Rejected (Impl.parseFormat e s tmpl) := by
  apply rejected_of_not_ok
  intro spec hok
  obtain ⟨st, hl, hf⟩ := parse_ok_elim hok
  obtain ⟨_, _, hdesc, _⟩ := finish_ok hf
  rcases hdesc with hd | ⟨_, hta⟩
  · rcases (loop_origin _ hl).1 sDescription hd with h0 | ⟨p, hp, hn⟩
    · simp [St.init, keys] at h0
    · exact h p hp hn
  · rw [ht] at hta; cases hta

/-- A piece that is not a token at all is rejected (the "bad token" class): the whole string is. -/
theorem rejects_invalid_token (e : Ext) (s : Str) (tmpl : Option Str) (p : Str)
    (hp : p ∈ splitComma s) (hbad : tokName e p = none) : Rejected (Impl.parseFormat e s tmpl) := by
  apply rejected_of_not_ok
  intro spec hok
  obtain ⟨st, hl, _⟩ := parse_ok_elim hok
  obtain ⟨A, R, hsplit⟩ := List.append_of_mem hp
  rw [hsplit] at hl
  obtain ⟨st1, _, h1⟩ := loop_ok_append A hl
  obtain ⟨t, _, hm, _, _⟩ := loop_ok_cons h1
  simp [tokName, hm] at hbad

/-- Clause 1, converse direction, for ARBITRARY format strings: whenever `parse_format_string` accepts a string, every
position in the returned spec is the index of the comma-separated piece that carries that name — the date column is a
piece that reads `date`, the amount column one that reads `amount`, likewise description, location, and every
`(name, index)` among the custom captures / extra fields. (`NamedAt e parts i k`: piece `i` exists and reads `k`.) -/
theorem parse_positions (e : Ext) (s : Str) (tmpl : Option Str) (spec : FormatSpec)
    (h : Impl.parseFormat e s tmpl = .ok spec) :
    NamedAt e (splitComma s) spec.dateColumn sDate ∧ NamedAt e (splitComma s) spec.amountColumn sAmount ∧
    (∀ i, spec.descriptionColumn = some i → NamedAt e (splitComma s) i sDescription) ∧
    (∀ i, spec.locationColumn = some i → NamedAt e (splitComma s) i sLocation) ∧
    (∀ d, spec.customCaptures = some d → ∀ n i, (n, i) ∈ d → NamedAt e (splitComma s) i n) ∧
    (∀ d, spec.extraFields = some d → ∀ n i, (n, i) ∈ d → NamedAt e (splitComma s) i n) := by
  obtain ⟨st, hl, hf⟩ := parse_ok_elim h
  obtain ⟨hd, ha, hs, hloc, hcc, hef⟩ := finish_fields hf
  have hv := loop_vals _ hl
  have fld : ∀ k v, (k, v) ∈ st.fields → NamedAt e (splitComma s) v k := by
    intro k v hkv
    rcases hv.1 k v hkv with h0 | ⟨_, h1⟩
    · simp [St.init] at h0
    · simpa using h1
  have cst : ∀ k v, (k, v) ∈ st.customs → NamedAt e (splitComma s) v k := by
    intro k v hkv
    rcases hv.2 k v hkv with h0 | ⟨_, h1⟩
    · simp [St.init] at h0
    · simpa using h1
  refine ⟨fld _ _ (lookup_mem hd), fld _ _ (lookup_mem ha), ?_, ?_, ?_, ?_⟩
  · intro i hi; rw [hs] at hi; exact fld _ _ (lookup_mem hi)
  · intro i hi; rw [hloc] at hi; exact fld _ _ (lookup_mem hi)
  · intro d hdd n i hni; exact cst _ _ (hcc d hdd _ hni)
  · intro d hdd n i hni; exact cst _ _ (hef d hdd _ hni)

/-- Clause 1, forward direction, for ARBITRARY format strings: **a name that is not reserved is an ordinary capture at the position
where it is written** - whatever it looks like (`desc`, `amt`, `loc`, `dates`, `description2`, `amount_usd`, `field1`, any letter
case: the only names treated specially are the seven of `RESERVED_NAMES`).  If the parser accepts `s` and piece `i` reads the name
`n ∉ RESERVED_NAMES`, then: without a `description` piece the string is in Mode 2 and `(n, i)` is one of its template captures (no
description column, no extra fields); with a `description` piece `(n, i)` is one of the extra fields (no template captures); and in
both cases column `i` is none of the date / amount / description / location columns. -/
theorem nonreserved_name_is_captured_at_its_position (e : Ext) (s : Str) (tmpl : Option Str) (spec : FormatSpec)
    (h : Impl.parseFormat e s tmpl = .ok spec) (i : Nat) (n : Str)
    (hn : NamedAt e (splitComma s) i n) (hres : n ∉ FmtTables.RESERVED_NAMES) :
    ((∀ p ∈ splitComma s, tokName e p ≠ some sDescription) →
        spec.descriptionColumn = none ∧ spec.extraFields = none ∧ ∃ d, spec.customCaptures = some d ∧ (n, i) ∈ d) ∧
    ((∃ p ∈ splitComma s, tokName e p = some sDescription) →
        spec.customCaptures = none ∧ ∃ d, spec.extraFields = some d ∧ (n, i) ∈ d) ∧
    spec.dateColumn ≠ i ∧ spec.amountColumn ≠ i ∧ spec.descriptionColumn ≠ some i ∧ spec.locationColumn ≠ some i := by
  obtain ⟨st, hl, hf⟩ := parse_ok_elim h
  have hmem : (n, i) ∈ st.customs := by simpa using loop_records_at _ hl i n hn hres
  have hfc := finish_customs hf
  have hpos := parse_positions e s tmpl spec h
  -- piece `i` reads exactly one name
  have huniq : ∀ k, NamedAt e (splitComma s) i k → k = n := by
    rintro k ⟨p, hp, hk⟩
    obtain ⟨q, hq, hqn⟩ := hn
    rw [hp] at hq; cases hq
    rw [hk] at hqn; exact Option.some.inj hqn
  refine ⟨?_, ?_, ?_, ?_, ?_, ?_⟩
  · intro hnd
    have hD : sDescription ∉ keys st.fields := by
      intro hd
      rcases (loop_origin _ hl).1 sDescription hd with h0 | ⟨p, hp, hpn⟩
      · simp [St.init, keys] at h0
      · exact hnd p hp hpn
    obtain ⟨h1, h2, h3⟩ := hfc.2 hD
    exact ⟨h1, h2, st.customs, h3, hmem⟩
  · rintro ⟨p, hp, hpn⟩
    have hD : sDescription ∈ keys st.fields :=
      (loop_records _ hl p hp sDescription hpn (by rintro (h | h) <;> revert h <;> decide)).1 (by decide)
    obtain ⟨h1, h2⟩ := hfc.1 hD
    exact ⟨h1, st.customs, h2 (List.ne_nil_of_mem hmem), hmem⟩
  · intro hc; rw [hc] at hpos
    exact hres (huniq _ hpos.1 ▸ (by decide : sDate ∈ FmtTables.RESERVED_NAMES))
  · intro hc; rw [hc] at hpos
    exact hres (huniq _ hpos.2.1 ▸ (by decide : sAmount ∈ FmtTables.RESERVED_NAMES))
  · intro hc
    exact hres (huniq _ (hpos.2.2.1 i hc) ▸ (by decide : sDescription ∈ FmtTables.RESERVED_NAMES))
  · intro hc
    exact hres (huniq _ (hpos.2.2.2.1 i hc) ▸ (by decide : sLocation ∈ FmtTables.RESERVED_NAMES))


/-! ### clause 3: inspect's suggestion round-trips -/

/-- The suggestion builder alone: for ANY detected spec whose columns are pairwise distinct and whose date format is
writable (non-empty, no `}` / `,`), the suggested format string is accepted (no template needed) and selects exactly
the date / description / amount / location columns and the date format it was built from. -/
theorem suggest_roundtrip (e : Ext) (sp : Impl.DetectSpec) (hd : Distinct sp)
    (hfmt : okSpec (some sp.dateFormat) = true) :
    ∃ spec, Impl.parseFormat e (Impl.suggest sp) none = .ok spec ∧
      spec.dateColumn = sp.dateColumn ∧ spec.dateFormat = sp.dateFormat ∧
      spec.descriptionColumn = some sp.descriptionColumn ∧ spec.amountColumn = sp.amountColumn ∧
      spec.locationColumn = sp.locationColumn := by
  have hwf := wellFormed_suggest e sp hd
  rw [← cols_scsOf] at hwf
  have hp := parse_render e (scsOf sp) none (SpOK_scsOf e sp hfmt) hwf
  rw [← suggest_eq_render, cols_scsOf] at hp
  exact ⟨_, hp, specOf_suggest sp hd⟩

/-- Clause 3. For EVERY header row (any number of headers, any text, whatever CPython's `lower`/`strip` do to
non-ASCII headers): if auto-detection succeeds and reports `sp`, then the format string `tally inspect` suggests
is accepted by the parser and selects the same date, description and amount columns (and location column and date
format) that inspect reported. -/
theorem inspect_roundtrip (e : Ext) (headers : List Str) (sp : Impl.DetectSpec)
    (h : Impl.detect e headers = .ok sp) :
    ∃ spec, Impl.parseFormat e (Impl.suggest sp) none = .ok spec ∧
      spec.dateColumn = sp.dateColumn ∧ spec.descriptionColumn = some sp.descriptionColumn ∧
      spec.amountColumn = sp.amountColumn ∧ spec.locationColumn = sp.locationColumn ∧
      spec.dateFormat = sp.dateFormat := by
  obtain ⟨hd, hf⟩ := detect_distinct e headers sp h
  obtain ⟨spec, h1, h2, h3, h4, h5, h6⟩ := suggest_roundtrip e sp hd (by rw [hf]; decide)
  exact ⟨spec, h1, h2, h4, h5, h6, h3⟩

/-- the detected columns are pairwise distinct (one role per header: the `elif` chain) -/
theorem detect_columns_distinct (e : Ext) (headers : List Str) (sp : Impl.DetectSpec)
    (h : Impl.detect e headers = .ok sp) :
    sp.dateColumn ≠ sp.descriptionColumn ∧ sp.dateColumn ≠ sp.amountColumn ∧
    sp.descriptionColumn ≠ sp.amountColumn := by
  obtain ⟨hd, _⟩ := detect_distinct e headers sp h
  exact ⟨hd.1, hd.2.1, hd.2.2.1⟩

/-- … and the optional location column is none of them: NO column is reported for two roles. -/
theorem detect_location_distinct (e : Ext) (headers : List Str) (sp : Impl.DetectSpec)
    (h : Impl.detect e headers = .ok sp) (l : Nat) (hl : sp.locationColumn = some l) :
    l ≠ sp.dateColumn ∧ l ≠ sp.descriptionColumn ∧ l ≠ sp.amountColumn :=
  (detect_distinct e headers sp h).1.2.2.2 l hl

/-- **Each header fills at most one role** (any header text - also one that carries keywords of two or three roles, like
`Payment Date` or `Merchant Name Date` - any state): one pass of the detection loop leaves the state unchanged or fills exactly ONE
slot, which was empty, with this header's index. -/
theorem detect_header_fills_at_most_one_role (e : Ext) (idx : Nat) (d : Impl.Detected) (hdr : Str) :
    Impl.detectStep e idx d hdr = d ∨
    (d.date = none ∧ Impl.detectStep e idx d hdr = { d with date := some idx }) ∨
    (d.desc = none ∧ Impl.detectStep e idx d hdr = { d with desc := some idx }) ∨
    (d.amount = none ∧ Impl.detectStep e idx d hdr = { d with amount := some idx }) ∨
    (d.location = none ∧ Impl.detectStep e idx d hdr = { d with location := some idx }) := by
  unfold Impl.detectStep
  simp only [Bool.and_eq_true, Option.isNone_iff_eq_none]
  split
  · rename_i hc; exact Or.inr (Or.inl ⟨hc.1, rfl⟩)
  · split
    · rename_i hc; exact Or.inr (Or.inr (Or.inl ⟨hc.1, rfl⟩))
    · split
      · rename_i hc; exact Or.inr (Or.inr (Or.inr (Or.inl ⟨hc.1, rfl⟩)))
      · split
        · rename_i hc; exact Or.inr (Or.inr (Or.inr (Or.inr ⟨hc.1, rfl⟩)))
        · exact Or.inl rfl

/-- **Detection is a first fit, role by role** (the oracle `first_fit` of the check, proved for every header row): when detection
succeeds, the date column is the FIRST header carrying a date keyword; the description column is the first header carrying a
description keyword other than the date column; the amount column the first header carrying an amount keyword other than those two;
the location column (when reported) the first header carrying a location keyword other than those three, and when none is
reported every header carrying a location keyword serves one of the three required roles.  Which role a header serves never depends
on the headers to its right. -/
theorem detect_first_fit (e : Ext) (headers : List Str) (sp : Impl.DetectSpec) (h : Impl.detect e headers = .ok sp) :
    (HeaderMatches e headers FmtTables.DATE_PATTERNS sp.dateColumn ∧
      ∀ j, j < sp.dateColumn → ¬ HeaderMatches e headers FmtTables.DATE_PATTERNS j) ∧
    (HeaderMatches e headers FmtTables.DESC_PATTERNS sp.descriptionColumn ∧
      ∀ j, j < sp.descriptionColumn → HeaderMatches e headers FmtTables.DESC_PATTERNS j → j = sp.dateColumn) ∧
    (HeaderMatches e headers FmtTables.AMOUNT_PATTERNS sp.amountColumn ∧
      ∀ j, j < sp.amountColumn → HeaderMatches e headers FmtTables.AMOUNT_PATTERNS j →
        j = sp.dateColumn ∨ j = sp.descriptionColumn) ∧
    (∀ l, sp.locationColumn = some l → HeaderMatches e headers FmtTables.LOCATION_PATTERNS l ∧
      ∀ j, j < l → HeaderMatches e headers FmtTables.LOCATION_PATTERNS j →
        j = sp.dateColumn ∨ j = sp.descriptionColumn ∨ j = sp.amountColumn) ∧
    (sp.locationColumn = none → ∀ j, HeaderMatches e headers FmtTables.LOCATION_PATTERNS j →
        j = sp.dateColumn ∨ j = sp.descriptionColumn ∨ j = sp.amountColumn) := by
  have hff := firstFit_detectLoop e headers
  unfold Impl.detect at h
  split at h
  · cases h
  · split at h
    · rename_i d s a l heq
      cases h
      rw [heq] at hff
      obtain ⟨h1, _, h3, _, h5, _, h7, h8⟩ := hff
      simp only [] at h1 h3 h5 h7 h8
      have sj : ∀ {a b : Nat}, some a = some b → b = a := fun h => (Option.some.inj h).symm
      refine ⟨⟨(h1 d rfl).1, (h1 d rfl).2⟩, ⟨(h3 s rfl).1, fun j hj hm => sj ((h3 s rfl).2.2 j hj hm)⟩,
        ⟨(h5 a rfl).1, fun j hj hm => ((h5 a rfl).2.2.2 j hj hm).imp sj sj⟩, ?_, ?_⟩
      · intro x hx
        exact ⟨(h7 x hx).1, fun j hj hm => ((h7 x hx).2.2.2.2 j hj hm).imp sj (Or.imp sj sj)⟩
      · intro hx j hm
        exact (h8 hx j hm).imp sj (Or.imp sj sj)
    · cases h

/-- **Detection fails only when a required role has no header of its own**: if a non-empty header row is not detected, then no header
carries a date keyword, or every header carrying a description keyword is the one taken as date column, or every header carrying an
amount keyword is the one taken as date or description column (`d` is the loop's final state).  It is reported as an error value -
the `ValueError` of the code - never anything else. -/
theorem detect_fails_only_when_a_required_role_is_unserved (e : Ext) (headers : List Str) (hne : headers ≠ []) :
    (∃ sp, Impl.detect e headers = .ok sp) ∨
    (Impl.detect e headers = .error .missing ∧
      let d := Impl.detectLoop e 0 ⟨none, none, none, none⟩ headers
      ((∀ j, ¬ HeaderMatches e headers FmtTables.DATE_PATTERNS j) ∨
       (∀ j, HeaderMatches e headers FmtTables.DESC_PATTERNS j → d.date = some j) ∨
       (∀ j, HeaderMatches e headers FmtTables.AMOUNT_PATTERNS j → d.date = some j ∨ d.desc = some j))) := by
  have hff := firstFit_detectLoop e headers
  have hemp : headers.isEmpty = false := by cases headers <;> simp_all
  unfold Impl.detect
  rw [hemp]
  simp only [Bool.false_eq_true, if_false]
  generalize Impl.detectLoop e 0 ⟨none, none, none, none⟩ headers = d at hff ⊢
  obtain ⟨dd, ds, da, dl⟩ := d
  obtain ⟨_, h2, _, h4, _, h6, _, _⟩ := hff
  simp only [] at h2 h4 h6
  cases dd with
  | none => exact Or.inr ⟨rfl, Or.inl (h2 rfl)⟩
  | some x =>
    cases ds with
    | none => exact Or.inr ⟨rfl, Or.inr (Or.inl (h4 rfl))⟩
    | some y =>
      cases da with
      | none => exact Or.inr ⟨rfl, Or.inr (Or.inr (h6 rfl))⟩
      | some z => exact Or.inl ⟨_, rfl⟩

/-! ### what inspect may put into its suggestion: a date format with a comma can never round-trip

`tally inspect` reports a date format and writes it into the suggested format string.  The round trip of clause 3 needs that
format to be WRITABLE (`suggest_roundtrip`'s hypothesis; the detected constant is, by computation, in `inspect_roundtrip`).
The converse, for every format string whatsoever: no accepted string carries a date format with a comma in it, because
the string is cut at every comma before any token is read.  So a suggestion built around `%b %d, %Y` (the shape
`Jan 05, 2025` of card and brokerage exports) cannot give that format back, whatever else it contains. -/

private theorem splitComma_no_comma : ∀ (s : Str) (p : Str), p ∈ splitComma s → ',' ∉ p
  | [], p, h => by
    simp [splitComma] at h; subst h; simp
  | c :: cs, p, h => by
    have ih := splitComma_no_comma cs
    unfold splitComma at h
    cases hsp : splitComma cs with
    | nil => simp [hsp] at h; subst h; simp
    | cons q qs =>
      simp only [hsp] at h
      have hq : ',' ∉ q := ih q (by simp [hsp])
      have hqs : ∀ x ∈ qs, ',' ∉ x := fun x hx => ih x (by simp [hsp, hx])
      by_cases hc : c = ','
      · simp [hc] at h
        rcases h with rfl | rfl | h
        · simp
        · exact hq
        · exact hqs _ h
      · simp [hc] at h
        rcases h with rfl | h
        · intro hm
          rcases List.mem_cons.mp hm with hm | hm
          · exact hc hm.symm
          · exact hq hm
        · exact hqs _ h

private theorem strip_subset (e : Ext) (s : Str) : ∀ c ∈ strip e s, c ∈ s := by
  intro c hc
  unfold strip at hc
  have h1 := (List.dropWhile_sublist e.isSpace).subset (List.mem_reverse.mp hc)
  exact (List.dropWhile_sublist e.isSpace).subset (List.mem_reverse.mp h1)

private theorem takeSign_subset (r : Str) : ∀ c ∈ (takeSign r).2, c ∈ r := by
  intro c hc
  cases r with
  | nil => simp [takeSign] at hc
  | cons a t =>
    simp only [takeSign] at hc
    by_cases h : (a = '-' || a = '+') = true
    · rw [if_pos h] at hc; exact List.mem_cons_of_mem _ hc
    · rw [if_neg h] at hc; exact hc

private theorem takeName_subset (e : Ext) (r : Str) (name rest : Str) (h : takeName e r = some (name, rest)) :
    ∀ c ∈ rest, c ∈ r := by
  intro c hc
  cases r with
  | nil => simp [takeName] at h
  | cons a t =>
    simp only [takeName] at h
    by_cases h1 : a = '*'
    · rw [if_pos h1] at h
      cases h; exact List.mem_cons_of_mem _ hc
    · rw [if_neg h1] at h
      by_cases h2 : ((a :: t).takeWhile e.isWord).isEmpty = true
      · rw [if_pos h2] at h; cases h
      · rw [if_neg h2] at h
        cases h; exact (List.dropWhile_sublist e.isWord).subset hc

private theorem takeSpec_subset (r : Str) (f : Str) (h : takeSpec r = some (some f)) : ∀ c ∈ f, c ∈ r := by
  intro c hc
  cases r with
  | nil => simp [takeSpec] at h
  | cons a t =>
    simp only [takeSpec] at h
    by_cases h1 : a = '}'
    · rw [if_pos h1] at h; cases h
    · rw [if_neg h1] at h
      by_cases h2 : a = ':'
      · rw [if_pos h2] at h
        by_cases h3 : (t.takeWhile (· != '}')).isEmpty = true
        · rw [if_pos h3] at h; cases h
        · rw [if_neg h3] at h
          cases hd : t.dropWhile (· != '}') with
          | nil => rw [hd] at h; cases h
          | cons x xs =>
            rw [hd] at h
            cases h
            exact List.mem_cons_of_mem _ ((List.takeWhile_sublist _).subset hc)
      · rw [if_neg h2] at h; cases h

private theorem matchTok_spec_subset (e : Ext) (s : Str) (t : RawTok) (f : Str) (h : matchTok e s = some t)
    (hf : t.spec = some f) : ∀ c ∈ f, c ∈ s := by
  intro c hc
  cases s with
  | nil => simp [matchTok] at h
  | cons a r =>
    simp only [matchTok] at h
    by_cases ha : a = '{'
    · rw [if_pos ha] at h
      cases hn : takeName e (takeSign r).2 with
      | none => rw [hn] at h; cases h
      | some nr =>
        obtain ⟨name, r2⟩ := nr
        rw [hn] at h
        simp only at h
        cases hs : takeSpec r2 with
        | none => rw [hs] at h; cases h
        | some sp =>
          rw [hs] at h
          cases h
          simp only at hf
          subst hf
          have h1 := takeSpec_subset r2 f hs c hc
          have h2 := takeName_subset e _ name r2 hn c h1
          exact List.mem_cons_of_mem _ (takeSign_subset r c h2)
    · rw [if_neg ha] at h; cases h

private theorem step_dateFormat {e : Ext} {idx : Nat} {st st' : St} {t : RawTok} (h : Impl.step e idx st t = .ok st')
    (hst : ',' ∉ st.dateFormat) (ht : ∀ f, t.spec = some f → ',' ∉ f) : ',' ∉ st'.dateFormat := by
  unfold Impl.step at h
  simp only at h
  repeat' split at h
  all_goals first | (cases h; done) | skip
  all_goals cases h
  all_goals first | exact hst | exact ht _ (by assumption)

private theorem loop_dateFormat {e : Ext} : ∀ (parts : List Str) {idx : Nat} {st st' : St},
    Impl.loop e idx st parts = .ok st' → ',' ∉ st.dateFormat → (∀ p ∈ parts, ',' ∉ p) → ',' ∉ st'.dateFormat
  | [], idx, st, st', h, hst, _ => by
    simp only [Impl.loop] at h; cases h; exact hst
  | p :: ps, idx, st, st', h, hst, hp => by
    simp only [Impl.loop] at h
    cases hm : matchTok e (strip e p) with
    | none => rw [hm] at h; cases h
    | some t =>
      rw [hm] at h
      simp only at h
      cases hs : Impl.step e idx st t with
      | error err => rw [hs] at h; cases h
      | ok st1 =>
        rw [hs] at h
        simp only at h
        have ht : ∀ f, t.spec = some f → ',' ∉ f := by
          intro f hf hc
          exact hp p (List.mem_cons_self) (strip_subset e p _ (matchTok_spec_subset e _ t f hm hf _ hc))
        exact loop_dateFormat ps h (step_dateFormat hs hst ht) (fun q hq => hp q (List.mem_cons_of_mem _ hq))

private theorem finish_dateFormat {e : Ext} {st : St} {tmpl : Option Str} {spec : FormatSpec}
    (h : Impl.finish e st tmpl = .ok spec) : spec.dateFormat = st.dateFormat := by
  unfold Impl.finish at h
  simp only at h
  repeat' split at h
  all_goals first | (cases h; done) | skip
  all_goals cases h
  all_goals rfl


/-- **No format string yields a date format that contains a comma** (any string, any template, any `Ext`): the date format of an
accepted string is the default or the `:spec` of one comma-separated piece. -/
theorem accepted_date_format_has_no_comma (e : Ext) (s : Str) (tmpl : Option Str) (spec : FormatSpec)
    (h : Impl.parseFormat e s tmpl = .ok spec) : ',' ∉ spec.dateFormat := by
  obtain ⟨st, hl, hf⟩ := parse_ok_elim h
  rw [finish_dateFormat hf]
  exact loop_dateFormat _ hl (by decide) (splitComma_no_comma s)

/-- **A reported date format with a comma never round-trips**: for EVERY detected spec (any columns) whose date format contains a
comma, no parse of the suggested format string gives that date format back — the suggestion is rejected or reads another
format.  (On the real parser it is rejected: the example `{date:%b %d, %Y}, {description}, {amount}` below.) -/
theorem comma_date_format_never_roundtrips (e : Ext) (sp : Impl.DetectSpec) (hc : ',' ∈ sp.dateFormat) :
    ¬ ∃ spec, Impl.parseFormat e (Impl.suggest sp) none = .ok spec ∧ spec.dateFormat = sp.dateFormat := by
  rintro ⟨spec, hok, hfmt⟩
  exact accepted_date_format_has_no_comma e _ none spec hok (hfmt ▸ hc)

/-! ### non-vacuity: concrete inputs satisfying the hypotheses (and the excluded region, on the model) -/

instance {ε α : Type} [DecidableEq ε] [DecidableEq α] : DecidableEq (Except ε α) := fun a b =>
  match a, b with
  | .ok x, .ok y => if h : x = y then isTrue (by rw [h]) else isFalse (fun h' => h (Except.ok.inj h'))
  | .error x, .error y => if h : x = y then isTrue (by rw [h]) else isFalse (fun h' => h (Except.error.inj h'))
  | .ok _, .error _ => isFalse (fun h => by cases h)
  | .error _, .ok _ => isFalse (fun h => by cases h)

/-- CPython restricted to ASCII input (nothing non-ASCII is consulted in the examples) -/
def asciiExt : Ext := ⟨fun _ => false, fun _ => false, id⟩

/-- `  {Date:%Y-%m-%d} x,\t{*},{-AMOUNT:ignored},{+merchant} ,{_} tail,{Type},{LOCATION}` with template `{merchant} ({type})` -/
def sampleArrangement : List (Col × Sp) :=
  [(.date (some "%Y-%m-%d".toList), ⟨[' ', ' '], none, "Date".toList, none, " x".toList⟩),
   (.skip, ⟨['\t'], none, ['*'], none, []⟩),
   (.amount .negate, ⟨[], none, "AMOUNT".toList, some "ignored".toList, []⟩),
   (.custom "merchant".toList, ⟨[], some '+', "merchant".toList, none, [' ']⟩),
   (.skip, ⟨[], none, ['_'], none, " tail".toList⟩),
   (.custom "type".toList, ⟨[], none, "Type".toList, none, []⟩),
   (.location, ⟨[], none, "LOCATION".toList, none, []⟩)]

def sampleTemplate : Option Str := some "{merchant} ({type})".toList

example : (∀ p ∈ sampleArrangement, SpOK asciiExt p = true) := by decide +kernel
example : WellFormed asciiExt (sampleArrangement.map Prod.fst) sampleTemplate := by decide +kernel
example : String.ofList (render sampleArrangement) =
    "  {Date:%Y-%m-%d} x,\t{*},{-AMOUNT:ignored},{+merchant} ,{_} tail,{Type},{LOCATION}" := by decide +kernel
example : Impl.parseFormat asciiExt (render sampleArrangement) sampleTemplate =
    .ok { dateColumn := 0, dateFormat := "%Y-%m-%d".toList, amountColumn := 2, descriptionColumn := none,
          customCaptures := some [("merchant".toList, 3), ("type".toList, 5)], descriptionTemplate := sampleTemplate,
          extraFields := none, locationColumn := some 6, negateAmount := true, absAmount := false } := by
  decide +kernel

/-- rejections on concrete strings (each hypothesis is satisfiable) -/
example : Impl.parseFormat asciiExt "{date}, {description}".toList none = .error .missingRequired := by decide +kernel
example : Impl.parseFormat asciiExt "{date}, {amount}, {Date}, {description}".toList none = .error (.dupField 2) := by
  decide +kernel
example : Impl.parseFormat asciiExt "{date}, {amount}, {a}, {A}".toList (some "{a}".toList) = .error (.dupCustom 3) := by
  decide +kernel
example : Impl.parseFormat asciiExt "{date}, {amount}, {merchant}".toList (some "{merchant} {type}".toList)
    = .error (.uncapturedRef "type".toList) := by decide +kernel
example : Impl.parseFormat asciiExt "{date}, {amount}, {merchant}".toList none = .error .needTemplate := by decide +kernel
example : tokName asciiExt " {Description:x} junk".toList = some sDescription := by decide +kernel
example : (Impl.parseFormat asciiExt "{_}, {Amount}, {*}, {DATE}, {description}".toList none).toOption.map
    (fun s => (s.dateColumn, s.amountColumn, s.descriptionColumn)) = some (3, 1, some 4) := by decide +kernel

/-- the excluded date formats, on the model: a `,` splits the token (rejected); a `}` silently ends the format -/
example : Impl.parseFormat asciiExt "{date:%b %d, %Y}, {description}, {amount}".toList none = .error (.invalidToken 0) := by
  decide +kernel
example : (Impl.parseFormat asciiExt "{date:a}b}, {description}, {amount}".toList none).toOption.map (·.dateFormat)
    = some ['a'] := by decide +kernel

/-- the hypothesis of `comma_date_format_never_roundtrips` on the witness of the class: dates like `Jan 05, 2025`; the suggestion
built for columns (0, 1, 2) is the string of the example above, and it is rejected -/
example : ',' ∈ (⟨0, "%b %d, %Y".toList, 1, 2, none⟩ : Impl.DetectSpec).dateFormat := by decide +kernel
example : Impl.parseFormat asciiExt (Impl.suggest ⟨0, "%b %d, %Y".toList, 1, 2, none⟩) none = .error (.invalidToken 0) := by
  decide +kernel

/-- header detection and the suggestion on a concrete header row -/
def sampleHeaders : List Str :=
  ["Posting Date", "Reference", "Merchant Name", "City/State", "Transaction Amount"].map String.toList

example : Impl.detect asciiExt sampleHeaders = .ok ⟨0, FmtTables.DETECT_DATE_FORMAT, 2, 4, some 3⟩ := by decide +kernel
example : String.ofList (Impl.suggest ⟨0, FmtTables.DETECT_DATE_FORMAT, 2, 4, some 3⟩)
    = "{date:%m/%d/%Y}, {_}, {description}, {location}, {amount}" := by decide +kernel

/-- near misses of the reserved words are NOT reserved (the hypothesis of `nonreserved_name_is_captured_at_its_position`) … -/
example : ∀ n ∈ ["desc", "amt", "loc", "dt", "dates", "descriptions", "description2", "amount_usd", "locations", "field1", "fields",
    "__", "_1"].map String.toList, n ∉ FmtTables.RESERVED_NAMES := by decide +kernel
/-- … and are captures at their written positions: Mode 2 (template captures) and Mode 1 (extra fields next to the real columns) -/
example : Impl.parseFormat asciiExt "{date:%Y-%m-%d}, {type}, {Desc}, {amount}, {LOC}".toList (some "{desc} ({type})".toList) =
    .ok { dateColumn := 0, dateFormat := "%Y-%m-%d".toList, amountColumn := 3, descriptionColumn := none,
          customCaptures := some [("type".toList, 1), ("desc".toList, 2), ("loc".toList, 4)],
          descriptionTemplate := some "{desc} ({type})".toList, extraFields := none, locationColumn := none,
          negateAmount := false, absAmount := false } := by decide +kernel
example : Impl.parseFormat asciiExt "{date}, {description}, {amt}, {amount}, {loc}, {location}, {dates}".toList none =
    .ok { dateColumn := 0, dateFormat := FmtTables.DEFAULT_DATE_FORMAT, amountColumn := 3, descriptionColumn := some 1,
          customCaptures := none, descriptionTemplate := none,
          extraFields := some [("amt".toList, 2), ("loc".toList, 4), ("dates".toList, 6)], locationColumn := some 5,
          negateAmount := false, absAmount := false } := by decide +kernel
example : NamedAt asciiExt (splitComma "{date}, {description}, {amt}, {amount}".toList) 2 "amt".toList :=
  ⟨_, rfl, by decide +kernel⟩

/-- headers whose wording mentions two kinds of column: one role each, the first still open (`detect_first_fit`,
`detect_header_fills_at_most_one_role`); the suggestion keeps all three required tokens -/
def twoRoleHeaders : List Str := ["Payment Date", "Description", "Amount"].map String.toList
example : HeaderMatches asciiExt twoRoleHeaders FmtTables.DATE_PATTERNS 0 ∧
    HeaderMatches asciiExt twoRoleHeaders FmtTables.AMOUNT_PATTERNS 0 :=
  ⟨⟨_, rfl, by decide +kernel⟩, ⟨_, rfl, by decide +kernel⟩⟩
example : Impl.detect asciiExt twoRoleHeaders = .ok ⟨0, FmtTables.DETECT_DATE_FORMAT, 1, 2, none⟩ := by decide +kernel
example : String.ofList (Impl.suggest ⟨0, FmtTables.DETECT_DATE_FORMAT, 1, 2, none⟩)
    = "{date:%m/%d/%Y}, {description}, {amount}" := by decide +kernel
example : Impl.detect asciiExt (["Amount", "Merchant Charge Date", "Debit Memo", "City Name"].map String.toList)
    = .ok ⟨1, FmtTables.DETECT_DATE_FORMAT, 2, 0, some 3⟩ := by decide +kernel
/-- already filled roles: `Charge Date` after `Date` and `Amount` serves nothing; `Payee Date` after `Date` is the description -/
example : Impl.detect asciiExt (["Date", "Amount", "Charge Date", "Payee Date"].map String.toList)
    = .ok ⟨0, FmtTables.DETECT_DATE_FORMAT, 3, 1, none⟩ := by decide +kernel
/-- a required role without a header of its own: reported as the error value, `Payment Date` is not also the amount -/
example : Impl.detect asciiExt (["Payment Date", "Description"].map String.toList) = .error .missing := by decide +kernel

end TallyVerif.Props.C18
