/-
C16 — explain and discover describe the same classification that up applies.

After the D16 repair both commands go through the SAME functions as `tally up`
(`parse_generic_csv` with the supplemental rows, `normalize_merchant`), so on the model
(`Pipeline.classifyRow`) "explain = up" is a statement about one function applied to the
transaction explain builds from a description and an amount; `discover` is a grouping of the Unknown
transactions of that same classification.  The theorems below are about that grouping, for any
classification function and any transaction list (exact amounts).
PARTIAL: argparse, printing and explain's lookup cascade (merchant name → substring → description)
are exercised by the three-command oracle, not modelled.
-/
import TallyVerif.Model.Pipeline
import TallyVerif.Lemmas.TotalsInt

namespace TallyVerif.Props.C16
open TallyVerif.Totals TallyVerif.Pipeline TallyVerif.Engine TallyVerif.Rules TallyVerif.Expr TallyVerif.Py

/-- the transaction `tally explain "<description>" --amount a` asks about: a description and an amount,
nothing else (no date, no source, no custom fields) -/
def explainRow (description : String) (amountBits : UInt64) : Row :=
  { description := description, amount := amountBits, date := none, source := "", location := none, field := none }

/-- `explain_description` after the repair IS `normalize_merchant` on that transaction -/
def explain (o : Oracles) (fnames : List String) (key : Rule → Key) (sources : List (String × Val))
    (rb : Rulebook) (description : String) (amountBits : UInt64) : Except Err Classified :=
  classifyRow o fnames key sources rb (explainRow description amountBits)

/-- explain reports what `up` assigns to such a transaction — rule mode, variables, let bindings, tag-only
rules, transforms and supplemental rows included, because it is the same function on the same inputs -/
theorem explain_eq_up (o : Oracles) (fnames : List String) (key : Rule → Key) (sources : List (String × Val))
    (rb : Rulebook) (d : String) (a : UInt64) :
    explain o fnames key sources rb d a = classifyRow o fnames key sources rb (explainRow d a) := rfl

/-! ### discover = the Unknown transactions of that classification, grouped by raw description -/

structure CTxn where
  raw : String            -- raw description
  category : String
  amount : Int            -- exact (cents)
deriving DecidableEq, Repr

def absI (a : Int) : Int := if a < 0 then -a else a

/-- `tally discover`: Unknown transactions grouped by raw description with count and Σ |amount| -/
def discover (txns : List CTxn) : List (String × (Nat × Int)) :=
  accumFrom (fun t : CTxn => t.raw) (0, 0) (fun t p => (p.1 + 1, p.2 + absI t.amount)) []
    (txns.filter (fun t => t.category == "Unknown"))

private theorem fold_group (l : List CTxn) (c : Nat) (s : Int) :
    l.foldl (fun b t => (b.1 + 1, b.2 + absI t.amount)) (c, s) = (c + l.length, s + sumBy (fun t => absI t.amount) l) := by
  induction l generalizing c s with
  | nil => simp
  | cons t l ih =>
    simp only [List.foldl_cons, ih, List.length_cons, sumBy_cons]
    simp only [Prod.mk.injEq]; constructor <;> omega

/-- a description is listed by discover exactly when `up` leaves at least one transaction with that
description Unknown, and then with exactly their count and total -/
theorem discover_eq_unknown (txns : List CTxn) (d : String) :
    (discover txns).lookup d =
      let us := txns.filter (fun t => t.category == "Unknown" && t.raw == d)
      if us.isEmpty then none else some (us.length, sumBy (fun t => absI t.amount) us) := by
  unfold discover
  rw [lookup_accum]
  have hf : List.filter (fun t : CTxn => t.raw == d) (List.filter (fun t => t.category == "Unknown") txns) =
      txns.filter (fun t => t.category == "Unknown" && t.raw == d) := by
    rw [List.filter_filter]; congr 1; funext t; exact Bool.and_comm _ _
  rw [hf]
  by_cases he : (txns.filter (fun t => t.category == "Unknown" && t.raw == d)).isEmpty = true
  · simp [he]
  · simp only [he, Bool.false_eq_true, if_false]
    rw [fold_group]; simp

/-- nothing that `up` categorised is listed -/
theorem categorised_not_listed (txns : List CTxn) (d : String)
    (h : ∀ t ∈ txns, t.raw = d → t.category ≠ "Unknown") : (discover txns).lookup d = none := by
  rw [discover_eq_unknown]
  have : txns.filter (fun t => t.category == "Unknown" && t.raw == d) = [] := by
    rw [List.filter_eq_nil_iff]
    intro t ht
    simp only [Bool.and_eq_true, beq_iff_eq, not_and]
    intro hc hr; exact h t ht hr hc
  simp [this]

/-- the counts discover prints add up to the number of Unknown transactions -/
theorem discover_counts (txns : List CTxn) :
    sumCounts (discover txns) = (txns.filter (fun t => t.category == "Unknown")).length := by
  unfold discover
  generalize txns.filter (fun t => t.category == "Unknown") = us
  have : ∀ (m : List (String × (Nat × Int))),
      sumCounts (accumFrom (fun t : CTxn => t.raw) (0, 0) (fun t p => (p.1 + 1, p.2 + absI t.amount)) m us) = sumCounts m + us.length := by
    induction us with
    | nil => intro m; simp [accumFrom]
    | cons t us ih =>
      intro m
      simp only [accumFrom, List.foldl_cons] at ih ⊢
      rw [ih, sumCounts_upsert t.raw (absI t.amount) m, List.length_cons]; omega
  simpa [sumCounts] using this []

/-! ### the listing is computed transaction by transaction

`Pipeline.discoverG` is the function the driver runs for `tally discover` (over IEEE doubles); over exact cents it is
the `discover` of the theorems above, so they are statements about the modelled command. -/

def toD (t : CTxn) : DTxn Int := (t.raw, t.category, t.amount)

theorem discoverG_eq_discover (txns : List CTxn) : discoverG intNum (txns.map toD) = discover txns := by
  unfold discoverG discover accumFrom
  rw [List.filter_map, List.foldl_map]
  rfl

/-- `discover` on a statement classified row by row (every row with ITS date, source, location and captured
columns — `classify` is any function of the whole row): a description is listed exactly when some row carrying it
is left Unknown, with the number of those rows and the sum of their |amount|.  In particular two rows with the
same text and amount are counted separately, each under its own classification. -/
theorem discover_row_by_row {ρ : Type} (classify : ρ → String) (raw : ρ → String) (cents : ρ → Int) (rows : List ρ) (d : String) :
    (discoverG intNum (rows.map fun r => (raw r, classify r, cents r))).lookup d =
      let us := rows.filter (fun r => classify r == "Unknown" && raw r == d)
      if us.isEmpty then none else some (us.length, sumBy (fun r => absI (cents r)) us) := by
  have h := discover_eq_unknown (rows.map fun r => (⟨raw r, classify r, cents r⟩ : CTxn)) d
  rw [← discoverG_eq_discover, List.map_map] at h
  have hm : (toD ∘ fun r => (⟨raw r, classify r, cents r⟩ : CTxn)) = fun r => (raw r, classify r, cents r) := rfl
  rw [hm] at h
  rw [h]
  simp only [List.filter_map, List.isEmpty_map, List.length_map]
  have hs : ∀ l : List ρ, sumBy (fun t : CTxn => absI t.amount) (l.map fun r => (⟨raw r, classify r, cents r⟩ : CTxn)) =
      sumBy (fun r => absI (cents r)) l := by
    intro l; unfold sumBy; rw [List.foldl_map]
  rw [hs]
  rfl

/-! ### what the classification depends on (why no shortcut over "the statement line" or "the rules' text" is sound)

Kernel-checked witnesses on the engine model (`Engine.matchTxn` = `MerchantEngine.match`, the function `up`,
`discover` and `explain` all go through).  The same two situations are generated at random by the check and run
through the three commands. -/

def noOracles : Oracles := ⟨fun _ => none, fun _ => none, fun _ _ => none, fun _ _ => none, fun _ _ _ => none,
  fun _ _ => none, fun _ => none, fun _ => none, fun _ _ => none, fun _ _ => none⟩
def key0 : Rule → Key := fun r => ⟨r.priority, 0, 0, 0⟩

/-- `[Weekend Parking]  match: weekday >= 5  category: Parking` -/
def weekendRule : RuleX :=
  { rule := ⟨1, "Weekend Parking", "Weekend Parking", "Parking", "", 50, "weekday >= 5"⟩, lets := [],
    matchE := some (.cmp (.name "weekday") [.mk .ge (.const (.int 5))]), tags := [], fields := [] }

/-- one statement line (same source, text, amount, location, captured columns) on a given date -/
def parkingOn (d : Date) : Ctx := ⟨"CITY PARKING GARAGE 12", .int 12, some d, "Src0", "", none, [], [], []⟩

/-- The classification of a transaction depends on its DATE: the same statement line is categorised on Saturday
2025-01-04 and left Unknown on Monday 2025-01-06. -/
theorem classification_depends_on_date :
    resultTag (matchTxn true true key0 noOracles (parkingOn ⟨2025, 1, 4⟩) .firstMatch [] [weekendRule]) = "Weekend Parking|Parking||" ∧
    resultTag (matchTxn true true key0 noOracles (parkingOn ⟨2025, 1, 6⟩) .firstMatch [] [weekendRule]) = "|||" := by
  decide +kernel

/-- Hence no memo of the classification whose key ignores the date agrees with `up`: for every such key there are
rules and two transactions with the same key and different classifications. -/
theorem no_sound_memo_without_date {κ : Type} (k : Ctx → κ) (hk : ∀ (c : Ctx) (d : Option Date), k { c with date := d } = k c) :
    ∃ (rules : List RuleX) (c₁ c₂ : Ctx), k c₁ = k c₂ ∧
      resultTag (matchTxn true true key0 noOracles c₁ .firstMatch [] rules) ≠
      resultTag (matchTxn true true key0 noOracles c₂ .firstMatch [] rules) := by
  refine ⟨[weekendRule], parkingOn ⟨2025, 1, 4⟩, parkingOn ⟨2025, 1, 6⟩, ?_, ?_⟩
  · have h := hk (parkingOn ⟨2025, 1, 4⟩) (some ⟨2025, 1, 6⟩)
    exact h.symm
  · rw [classification_depends_on_date.1, classification_depends_on_date.2]; decide

/-- `has_order = any(r.amount == amount for r in orders)` as a TOP-LEVEL variable and
`[Ordered]  match: has_order  category: Orders`: no rule expression names the supplemental source -/
def hasOrder : String × PExpr :=
  ("has_order", some (.callNameGen "any" (.cmp (.attrName "r" "amount") [.mk .eq (.name "amount")])
                        [.mk (some "r") (.name "orders") []] []))
def orderedRule : RuleX :=
  { rule := ⟨3, "Ordered", "Ordered", "Orders", "", 50, "has_order"⟩, lets := [],
    matchE := some (.name "has_order"), tags := [], fields := [] }
def chargeWith (sources : List (String × Val)) : Ctx := ⟨"AMAZON MKTPL", .int 1599, none, "", "", none, [], sources, []⟩
def orderRows : List (String × Val) := [("orders", .list [.row [("item", .str "Book"), ("amount", .int 1599)]])]

/-- The classification depends on the rows of a supplemental source that is named ONLY in a top-level variable:
with the rows the rule applies, without them the variable cannot be evaluated and the transaction stays Unknown.
(A command that decides from the rules' own expressions whether to read the supplemental files is wrong.) -/
theorem classification_depends_on_source_named_in_variable :
    resultTag (matchTxn true true key0 noOracles (chargeWith orderRows) .firstMatch [hasOrder] [orderedRule]) = "Ordered|Orders||" ∧
    resultTag (matchTxn true true key0 noOracles (chargeWith []) .firstMatch [hasOrder] [orderedRule]) = "|||" := by
  decide +kernel

/-! non-vacuity -/
def ex : List CTxn := [⟨"UBER TRIP", "Transport", 1200⟩, ⟨"NEW SHOP 1", "Unknown", 500⟩, ⟨"NEW SHOP 1", "Unknown", -250⟩,
  ⟨"OTHER", "Unknown", 100⟩, ⟨"NEW SHOP 1", "Food", 900⟩]
example : (discover ex).lookup "NEW SHOP 1" = some (2, 750) ∧ (discover ex).lookup "UBER TRIP" = none ∧ sumCounts (discover ex) = 3 := by
  decide +kernel

end TallyVerif.Props.C16
