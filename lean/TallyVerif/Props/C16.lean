/-
C16 — explain and discover describe the same classification that up applies.

After the D16 repair both commands go through the SAME functions as `tally up`
(`parse_generic_csv` with the supplemental rows, `normalize_merchant`), so on the model
(`Pipeline.classifyRow`) "explain = up" is a statement about one function applied to the
transaction explain builds from a description and an amount; `discover` is a grouping of the Unknown
transactions of that same classification.  The theorems below are about that grouping, for any
classification function and any transaction list (exact amounts).
PARTIAL: argparse, printing and explain's lookup cascade (merchant name → substring → description)
are exercised by the three-command oracle, not modelled.
-/
import TallyVerif.Model.Pipeline
import TallyVerif.Lemmas.TotalsInt

namespace TallyVerif.Props.C16
open TallyVerif.Totals TallyVerif.Pipeline TallyVerif.Engine TallyVerif.Rules TallyVerif.Expr TallyVerif.Py

/-- the transaction `tally explain "<description>" --amount a` asks about: a description and an amount,
nothing else (no date, no source, no custom fields) -/
def explainRow (description : String) (amountBits : UInt64) : Row :=
  { description := description, amount := amountBits, date := none, source := "", location := none, field := none }

/-- `explain_description` after the repair IS `normalize_merchant` on that transaction -/
def explain (o : Oracles) (fnames : List String) (key : Rule → Key) (sources : List (String × Val))
    (rb : Rulebook) (description : String) (amountBits : UInt64) : Except Err Classified :=
  classifyRow o fnames key sources rb (explainRow description amountBits)

/-- explain reports what `up` assigns to such a transaction — rule mode, variables, let bindings, tag-only
rules, transforms and supplemental rows included, because it is the same function on the same inputs -/
theorem explain_eq_up (o : Oracles) (fnames : List String) (key : Rule → Key) (sources : List (String × Val))
    (rb : Rulebook) (d : String) (a : UInt64) :
    explain o fnames key sources rb d a = classifyRow o fnames key sources rb (explainRow d a) := rfl

/-! ### discover = the Unknown transactions of that classification, grouped by raw description -/

structure CTxn where
  raw : String            -- raw description
  category : String
  amount : Int            -- exact (cents)
deriving DecidableEq, Repr

def absI (a : Int) : Int := if a < 0 then -a else a

/-- `tally discover`: Unknown transactions grouped by raw description with count and Σ |amount| -/
def discover (txns : List CTxn) : List (String × (Nat × Int)) :=
  accumFrom (fun t : CTxn => t.raw) (0, 0) (fun t p => (p.1 + 1, p.2 + absI t.amount)) []
    (txns.filter (fun t => t.category == "Unknown"))

private theorem fold_group (l : List CTxn) (c : Nat) (s : Int) :
    l.foldl (fun b t => (b.1 + 1, b.2 + absI t.amount)) (c, s) = (c + l.length, s + sumBy (fun t => absI t.amount) l) := by
  induction l generalizing c s with
  | nil => simp
  | cons t l ih =>
    simp only [List.foldl_cons, ih, List.length_cons, sumBy_cons]
    simp only [Prod.mk.injEq]; constructor <;> omega

/-- a description is listed by discover exactly when `up` leaves at least one transaction with that
description Unknown, and then with exactly their count and total -/
theorem discover_eq_unknown (txns : List CTxn) (d : String) :
    (discover txns).lookup d =
      let us := txns.filter (fun t => t.category == "Unknown" && t.raw == d)
      if us.isEmpty then none else some (us.length, sumBy (fun t => absI t.amount) us) := by
  unfold discover
  rw [lookup_accum]
  have hf : List.filter (fun t : CTxn => t.raw == d) (List.filter (fun t => t.category == "Unknown") txns) =
      txns.filter (fun t => t.category == "Unknown" && t.raw == d) := by
    rw [List.filter_filter]; congr 1; funext t; exact Bool.and_comm _ _
  rw [hf]
  by_cases he : (txns.filter (fun t => t.category == "Unknown" && t.raw == d)).isEmpty = true
  · simp [he]
  · simp only [he, Bool.false_eq_true, if_false]
    rw [fold_group]; simp

/-- nothing that `up` categorised is listed -/
theorem categorised_not_listed (txns : List CTxn) (d : String)
    (h : ∀ t ∈ txns, t.raw = d → t.category ≠ "Unknown") : (discover txns).lookup d = none := by
  rw [discover_eq_unknown]
  have : txns.filter (fun t => t.category == "Unknown" && t.raw == d) = [] := by
    rw [List.filter_eq_nil_iff]
    intro t ht
    simp only [Bool.and_eq_true, beq_iff_eq, not_and]
    intro hc hr; exact h t ht hr hc
  simp [this]

/-- the counts discover prints add up to the number of Unknown transactions -/
theorem discover_counts (txns : List CTxn) :
    sumCounts (discover txns) = (txns.filter (fun t => t.category == "Unknown")).length := by
  unfold discover
  generalize txns.filter (fun t => t.category == "Unknown") = us
  have : ∀ (m : List (String × (Nat × Int))),
      sumCounts (accumFrom (fun t : CTxn => t.raw) (0, 0) (fun t p => (p.1 + 1, p.2 + absI t.amount)) m us) = sumCounts m + us.length := by
    induction us with
    | nil => intro m; simp [accumFrom]
    | cons t us ih =>
      intro m
      simp only [accumFrom, List.foldl_cons] at ih ⊢
      rw [ih, sumCounts_upsert t.raw (absI t.amount) m, List.length_cons]; omega
  simpa [sumCounts] using this []

/-! non-vacuity -/
def ex : List CTxn := [⟨"UBER TRIP", "Transport", 1200⟩, ⟨"NEW SHOP 1", "Unknown", 500⟩, ⟨"NEW SHOP 1", "Unknown", -250⟩,
  ⟨"OTHER", "Unknown", 100⟩, ⟨"NEW SHOP 1", "Food", 900⟩]
example : (discover ex).lookup "NEW SHOP 1" = some (2, 750) ∧ (discover ex).lookup "UBER TRIP" = none ∧ sumCounts (discover ex) = 3 := by
  decide +kernel

end TallyVerif.Props.C16
