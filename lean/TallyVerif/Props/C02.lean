/-
C02 — tags are the union over all matching rules; tag-only rules never categorise.

Same model as C01 (`Rules.matchEngine`, `Rules.legacy`), arbitrary per-rule evaluation `ev`
(so `(ev r).tags` is whatever `_resolve_tags` produced for rule `r`: static tags lower-cased,
`{expr}` tags evaluated, empty ones dropped — that part is tied by correspondence).
-/
import TallyVerif.Lemmas.Rules
import TallyVerif.Props.C01

namespace TallyVerif.Props.C02
open TallyVerif.Rules TallyVerif.Props.C01

/-- a tag is in the result exactly when some matching rule (categorising or tag-only, anywhere
in the file, either mode) resolves to it -/
theorem tags_iff (fix : Bool) (key : Rule → Key) (ev : Rule → Eval) (mode : Mode) (rs : List Rule)
    (t : String) :
    t ∈ (matchEngine fix key ev mode rs).tags ↔ ∃ r ∈ rs, (ev r).hit = true ∧ t ∈ (ev r).tags := by
  simp only [matchEngine, finish_tags, runLoop, fold_tags_mem, loopInit]
  simp

/-- each tag is reported once -/
theorem tags_nodup (fix : Bool) (key : Rule → Key) (ev : Rule → Eval) (mode : Mode) (rs : List Rule) :
    (matchEngine fix key ev mode rs).tags.Nodup := by
  simp only [matchEngine, finish_tags, runLoop]
  exact fold_tags_nodup ev rs loopInit (by simp [loopInit])

/-- the tag list does not depend on the matching mode -/
theorem tags_mode_indep (fix : Bool) (key : Rule → Key) (ev : Rule → Eval) (rs : List Rule) :
    (matchEngine fix key ev .firstMatch rs).tags = (matchEngine fix key ev .mostSpecific rs).tags := by
  simp only [matchEngine, finish_tags]

/-- the tag SET does not depend on the order of the rules -/
theorem tags_perm (fix : Bool) (key : Rule → Key) (ev : Rule → Eval) (mode mode' : Mode)
    {rs rs' : List Rule} (p : rs.Perm rs') (t : String) :
    t ∈ (matchEngine fix key ev mode rs).tags ↔ t ∈ (matchEngine fix key ev mode' rs').tags := by
  rw [tags_iff, tags_iff]
  constructor
  · rintro ⟨r, hr, h⟩; exact ⟨r, p.subset hr, h⟩
  · rintro ⟨r, hr, h⟩; exact ⟨r, p.symm.subset hr, h⟩

/-- first-match mode: a rule without category, inserted anywhere, never changes
merchant/category/subcategory -/
theorem tagonly_neutral_first (fix : Bool) (key : Rule → Key) (ev : Rule → Eval)
    (pre post : List Rule) (r : Rule) (h : r.category = "") :
    mcs (matchEngine fix key ev .firstMatch (pre ++ r :: post)) =
      mcs (matchEngine fix key ev .firstMatch (pre ++ post)) := by
  have hw : wins ev r = false := by simp [wins, Rule.isCat, h]
  have h1 := (first_match_spec fix key ev (pre ++ r :: post)).2.2
  have h2 := (first_match_spec fix key ev (pre ++ post)).2.2
  have : (pre ++ r :: post).find? (wins ev) = (pre ++ post).find? (wins ev) := by
    simp [List.find?_append, List.find?_cons, hw]
  rw [this] at h1
  exact h1.trans h2.symm

/-- most_specific mode, code with the D2 repair (`fix = true`): a rule that sets neither category
nor subcategory, inserted anywhere, never changes merchant/category/subcategory.
(Reading note, DESIGN.md §5 C02: a tag-only rule WITH a subcategory is the overlap between C02
and C09's "subcategory from the highest-ranked matching rule that sets one"; it is not claimed.) -/
theorem tagonly_neutral_specific (key : Rule → Key) (ev : Rule → Eval)
    (pre post : List Rule) (r : Rule) (h : r.category = "") (hs : r.subcategory = "") :
    mcs (matchEngine true key ev .mostSpecific (pre ++ r :: post)) =
      mcs (matchEngine true key ev .mostSpecific (pre ++ post)) := by
  have q1 : (fun r : Rule => r.hasMerchant && (!true || r.isCat)) r = false := by simp [Rule.isCat, h]
  have q2 : Rule.isCat r = false := by simp [Rule.isCat, h]
  have q3 : Rule.hasSub r = false := by simp [Rule.hasSub, hs]
  obtain ⟨-, -, -, m1, c1, s1, -, -⟩ := finish_specific true key ev (runLoop ev (pre ++ r :: post))
  obtain ⟨-, -, -, m2, c2, s2, -, -⟩ := finish_specific true key ev (runLoop ev (pre ++ post))
  simp only [mcs, matchEngine]
  rw [m1, c1, s1, m2, c2, s2]
  simp only [runLoop, fold_matching, loopInit, List.nil_append, merchantPool]
  rw [filter_skip _ _ pre post r q1, filter_skip _ _ pre post r q2, filter_skip _ _ pre post r q3]

/-- The code AS PINNED (`fix = false`) violates the clause in most_specific mode: the merchant is
taken from all matching rules, and every rule has a merchant (it defaults to the rule name).
Witness of DESIGN.md §6 D2. -/
theorem tagonly_changes_merchant_unfixed :
    let cat : Rule := ⟨1, "Cat", "Cat", "X", "", 50, "contains(\"A\")"⟩
    let tag : Rule := ⟨5, "Tag", "Tag", "", "", 50, "contains(\"A\") and amount > 0"⟩
    let key : Rule → Key := fun r => if r.line == 1 then ⟨50, 1, 0, 1⟩ else ⟨50, 1, 1, 1⟩
    let ev : Rule → Eval := fun r => ⟨true, if r.line == 5 then ["t"] else [], []⟩
    mcs (matchEngine false key ev .mostSpecific [cat, tag]) = ("Tag", "X", "") ∧
    mcs (matchEngine false key ev .mostSpecific [cat]) = ("Cat", "X", "") ∧
    mcs (matchEngine true key ev .mostSpecific [cat, tag]) = ("Cat", "X", "") := by
  decide +kernel

/-! ### legacy loop -/

private theorem lfold_tags (ev : LRule → LEval) (rs : List LRule) (s : LLoop) :
    (rs.foldl (lstep ev) s).allTags =
      s.allTags ++ (rs.filter (fun r => (ev r).outcome == .matched)).flatMap (fun r => (ev r).tags) := by
  induction rs generalizing s with
  | nil => simp
  | cons r rs ih =>
    rw [List.foldl_cons, ih]
    unfold lstep
    cases ho : (ev r).outcome <;> simp [List.filter_cons, ho]

theorem dedupe_mem (xs : List String) (t : String) : t ∈ dedupe xs ↔ t ∈ xs := by
  induction xs with
  | nil => simp [dedupe]
  | cons x xs ih =>
    simp only [dedupe, List.mem_cons, List.mem_filter, ih]
    constructor
    · rintro (h | ⟨h, -⟩); exact Or.inl h; exact Or.inr h
    · rintro (h | h)
      · exact Or.inl h
      · by_cases e : t = x
        · exact Or.inl e
        · exact Or.inr ⟨h, by simpa using e⟩

/-- legacy loop: the tags are the de-duplicated concatenation of the tags of every matching rule -/
theorem legacy_tags_spec (ev : LRule → LEval) (fallback : String) (rs : List LRule) :
    (legacy ev fallback rs).tags =
      dedupe ((rs.filter (fun r => (ev r).outcome == .matched)).flatMap (fun r => (ev r).tags)) := by
  simp only [legacy, lfold_tags]
  cases (rs.foldl (lstep ev) { first := none, allTags := [], tagSources := [] }).first <;> simp

theorem legacy_tags_iff (ev : LRule → LEval) (fallback : String) (rs : List LRule) (t : String) :
    t ∈ (legacy ev fallback rs).tags ↔ ∃ r ∈ rs, (ev r).outcome = .matched ∧ t ∈ (ev r).tags := by
  rw [legacy_tags_spec, dedupe_mem]
  simp only [List.mem_flatMap, List.mem_filter, beq_iff_eq]
  constructor
  · rintro ⟨r, ⟨h1, h2⟩, h3⟩; exact ⟨r, h1, h2, h3⟩
  · rintro ⟨r, h1, h2, h3⟩; exact ⟨r, ⟨h1, h2⟩, h3⟩

/-- legacy loop: a tuple without category never changes merchant/category/subcategory -/
theorem legacy_tagonly_neutral (ev : LRule → LEval) (fallback : String) (pre post : List LRule) (r : LRule)
    (h : r.category = "") :
    let a := legacy ev fallback (pre ++ r :: post); let b := legacy ev fallback (pre ++ post)
    (a.merchant, a.category, a.subcategory) = (b.merchant, b.category, b.subcategory) := by
  have hw : lwins ev r = false := by simp [lwins, h]
  have h1 := (legacy_first_match_spec ev fallback (pre ++ r :: post)).2
  have h2 := (legacy_first_match_spec ev fallback (pre ++ post)).2
  have : (pre ++ r :: post).find? (lwins ev) = (pre ++ post).find? (lwins ev) := by
    simp [List.find?_append, List.find?_cons, hw]
  rw [this] at h1
  exact h1.trans h2.symm

/-! ### non-vacuity (same example file as C01) -/
example : (matchEngine true keyEx evEx .mostSpecific [rTag, rCat1, rMiss, rCat2]).tags = ["t", "u", "v"] := by
  decide +kernel
example : ∃ r ∈ [rTag, rCat1, rMiss, rCat2], (evEx r).hit = true ∧ "v" ∈ (evEx r).tags :=
  ⟨rCat2, by decide +kernel, by decide +kernel, by decide +kernel⟩

end TallyVerif.Props.C02
