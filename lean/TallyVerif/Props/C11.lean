/-
C11 — `tally up` honours every setting: report = totals(classify(parse(sources))).

The executable composition is `Model/Pipeline.lean` + `Driver/Pipeline.lean` (C05's parser, the
engine of C01/C02/C08/C09, C06's totals), tied end to end to `python -m tally up --format json`.
Here: the structural laws of that composition, for ARBITRARY per-source parse-and-classify
functions (so for every format, delimiter, header, decimal, sign, rules, mode, transforms and
supplemental data) over exact amounts — they are consequences of C06's permutation and partition
theorems.  The loop of `cmd_run` itself is `Pipeline.upLoop` (what the driver runs); `upLoop_eq_composition` /
`up_report_eq_runUp` prove it IS that composition for EVERY classifier, so the laws hold for the modelled command on
`.rules`, legacy-CSV (`merchant_categories.csv`) and rule-less budgets alike; the section "Legacy CSV rule files" adds
what is specific to the legacy classifier (which part of the world it reads; first match and tags end to end).
PARTIAL: argparse, YAML loading, file lookup and printing are not modelled.
-/
import TallyVerif.Props.C06
import TallyVerif.Props.C01
import TallyVerif.Props.C02
import TallyVerif.Model.Pipeline

namespace TallyVerif.Props.C11
open TallyVerif TallyVerif.Totals TallyVerif.Props.C06

variable {S : Type}

/-- `tally up`: every non-supplemental source is parsed and classified with ITS OWN settings
(`txns s`), in configuration order, and the concatenation is totalled -/
def runUp (lower : String → String) (supplemental : S → Bool) (txns : S → List T) (sources : List S) : Stats Int :=
  analyze N lower ((sources.filter (fun s => !supplemental s)).flatMap txns)

/-- a source that is supplemental, missing, unreadable or empty contributes no transaction -/
def Silent (supplemental : S → Bool) (txns : S → List T) (s : S) : Prop := supplemental s = true ∨ txns s = []

/-- a silent source leaves the whole report exactly as it is without it -/
theorem silent_source_neutral (lower : String → String) (supplemental : S → Bool) (txns : S → List T)
    (pre post : List S) (s : S) (h : Silent supplemental txns s) :
    runUp lower supplemental txns (pre ++ s :: post) = runUp lower supplemental txns (pre ++ post) := by
  unfold runUp
  rcases h with h | h
  · simp [List.filter_append, List.filter_cons, h]
  · by_cases hs : supplemental s = true
    · simp [List.filter_append, List.filter_cons, hs]
    · simp [List.filter_append, List.filter_cons, hs, List.flatMap_append, List.flatMap_cons, h]

private theorem flat_split (supplemental : S → Bool) (txns : S → List T) (pre post : List S) (s : S)
    (hs : supplemental s = false) :
    ((pre ++ s :: post).filter (fun s => !supplemental s)).flatMap txns =
      (pre.filter (fun s => !supplemental s)).flatMap txns ++ (txns s ++ (post.filter (fun s => !supplemental s)).flatMap txns) := by
  simp [List.filter_append, List.filter_cons, hs, List.flatMap_append, List.flatMap_cons]

/-- **Locality.** The money-flow figures and counts of a report are those of the report without
source `s` plus those of `s` alone: changing one source, or one setting of it (anything that only
changes `txns s`), changes only that source's share. -/
theorem source_local (lower : String → String) (supplemental : S → Bool) (txns : S → List T)
    (pre post : List S) (s : S) (hs : supplemental s = false) :
    flowOf (runUp lower supplemental txns (pre ++ s :: post)) =
      ⟨(runUp lower supplemental txns (pre ++ post)).income + (analyze N lower (txns s)).income,
       (runUp lower supplemental txns (pre ++ post)).spending + (analyze N lower (txns s)).spending,
       (runUp lower supplemental txns (pre ++ post)).credits + (analyze N lower (txns s)).credits,
       (runUp lower supplemental txns (pre ++ post)).transfersIn + (analyze N lower (txns s)).transfersIn,
       (runUp lower supplemental txns (pre ++ post)).transfersOut + (analyze N lower (txns s)).transfersOut,
       (runUp lower supplemental txns (pre ++ post)).investment + (analyze N lower (txns s)).investment,
       (runUp lower supplemental txns (pre ++ post)).count + (analyze N lower (txns s)).count,
       (runUp lower supplemental txns (pre ++ post)).total + (analyze N lower (txns s)).total⟩ := by
  unfold runUp
  rw [flat_split supplemental txns pre post s hs]
  let A := (pre.filter (fun s => !supplemental s)).flatMap txns
  let B := (post.filter (fun s => !supplemental s)).flatMap txns
  have hp : (A ++ (txns s ++ B)).Perm ((A ++ B) ++ txns s) := by
    have : (txns s ++ B).Perm (B ++ txns s) := List.perm_append_comm
    exact (List.Perm.append_left A this).trans (by rw [List.append_assoc])
  have h1 := (analyze_perm lower hp).1
  have h2 := (analyze_append lower (A ++ B) (txns s)).1
  have hAB : ((pre ++ post).filter (fun s => !supplemental s)).flatMap txns = A ++ B := by
    simp [A, B, List.filter_append, List.flatMap_append]
  rw [hAB]
  exact h1.trans h2

/-- two settings families that agree on every source but one give reports that differ only by
that source's share -/
theorem setting_local (lower : String → String) (supplemental : S → Bool) (txns txns' : S → List T)
    (pre post : List S) (s : S) (hs : supplemental s = false)
    (hagree : ∀ x ∈ pre ++ post, txns x = txns' x) :
    runUp lower supplemental txns (pre ++ post) = runUp lower supplemental txns' (pre ++ post) := by
  unfold runUp
  congr 1
  have : ∀ l : List S, (∀ x ∈ l, txns x = txns' x) → l.flatMap txns = l.flatMap txns' := by
    intro l hl
    induction l with
    | nil => rfl
    | cons a l ih =>
      simp only [List.flatMap_cons]
      rw [hl a (List.mem_cons_self ..), ih (fun x hx => hl x (List.mem_cons_of_mem _ hx))]
  exact this _ (fun x hx => hagree x (List.mem_filter.mp hx).1)

/-- the order in which sources are configured does not change any figure -/
theorem source_order_irrelevant (lower : String → String) (supplemental : S → Bool) (txns : S → List T)
    {srcs srcs' : List S} (p : srcs.Perm srcs') :
    flowOf (runUp lower supplemental txns srcs) = flowOf (runUp lower supplemental txns srcs') ∧
    (∀ k, (runUp lower supplemental txns srcs).byMerchant.lookup k = (runUp lower supplemental txns srcs').byMerchant.lookup k) ∧
    (∀ k, (runUp lower supplemental txns srcs).byCategory.lookup k = (runUp lower supplemental txns srcs').byCategory.lookup k) ∧
    (∀ k, (runUp lower supplemental txns srcs).byMonth.lookup k = (runUp lower supplemental txns srcs').byMonth.lookup k) := by
  unfold runUp
  exact analyze_perm lower ((p.filter _).flatMap_right txns)

/-- exactly the transactions of the non-supplemental sources are in the report -/
theorem report_count (lower : String → String) (supplemental : S → Bool) (txns : S → List T) (sources : List S) :
    (runUp lower supplemental txns sources).count =
      ((sources.filter (fun s => !supplemental s)).map (fun s => (txns s).length)).sum := by
  unfold runUp
  rw [(groupings_conserve lower _).2.2.2.2.2]
  simp [List.length_flatMap]

/-! ### Reading a source can FAIL (`cmd_run`'s `try … except Exception: continue`, `load_supplemental_sources`' "skip sources
that can't be loaded").  Not totalised away: `read` / `readSupp` return `Except`, the pipeline catches PER SOURCE. -/

variable {E R : Type}

/-- what the rule expressions can query: the supplemental sources that could be loaded, in configuration order -/
def suppData (supplemental : S → Bool) (readSupp : S → Except E R) (sources : List S) : List R :=
  (sources.filter supplemental).filterMap (fun s => match readSupp s with | .ok r => some r | .error _ => none)

/-- `except Exception: continue`: a read that raises yields no transaction -/
def orNil : Except E (List T) → List T
  | .ok l => l
  | .error _ => []

/-- `tally up` with fallible I/O: the supplemental tables that load are handed to every ordinary source's
parse-and-classify step `read`; an ordinary source whose read raises is reported and yields no transaction -/
def runUpIO (lower : String → String) (supplemental : S → Bool) (readSupp : S → Except E R)
    (read : List R → S → Except E (List T)) (sources : List S) : Stats Int :=
  runUp lower supplemental (fun s => orNil (read (suppData supplemental readSupp sources) s)) sources

/-- an ORDINARY source that exists but cannot be read (wrong encoding, a directory, permission denied …) leaves the
report exactly as it is without that source: the run completes and no other figure moves -/
theorem unreadable_source_neutral (lower : String → String) (supplemental : S → Bool) (readSupp : S → Except E R)
    (read : List R → S → Except E (List T)) (pre post : List S) (s : S) (hs : supplemental s = false)
    (hfail : ∀ d, ∃ e, read d s = .error e) :
    runUpIO lower supplemental readSupp read (pre ++ s :: post) = runUpIO lower supplemental readSupp read (pre ++ post) := by
  have hd : suppData supplemental readSupp (pre ++ s :: post) = suppData supplemental readSupp (pre ++ post) := by
    simp [suppData, List.filter_append, List.filter_cons, hs]
  unfold runUpIO
  rw [hd]
  apply silent_source_neutral
  right
  obtain ⟨e, he⟩ := hfail (suppData supplemental readSupp (pre ++ post))
  simp [he, orNil]

/-- a SUPPLEMENTAL source that exists but cannot be loaded is as if it were not configured: same queryable data,
same report — in particular the run is not aborted -/
theorem unreadable_supplemental_neutral (lower : String → String) (supplemental : S → Bool) (readSupp : S → Except E R)
    (read : List R → S → Except E (List T)) (pre post : List S) (s : S) (hs : supplemental s = true)
    (e : E) (hfail : readSupp s = .error e) :
    runUpIO lower supplemental readSupp read (pre ++ s :: post) = runUpIO lower supplemental readSupp read (pre ++ post) := by
  have hd : suppData supplemental readSupp (pre ++ s :: post) = suppData supplemental readSupp (pre ++ post) := by
    simp [suppData, List.filter_append, List.filter_cons, hs, hfail]
  unfold runUpIO
  rw [hd]
  exact silent_source_neutral lower supplemental _ pre post s (Or.inl hs)

/-- a supplemental source is QUERY-ONLY: whatever it contains, it adds no transaction; it can change the report only
through what `read` does with the table -/
theorem supplemental_query_only (lower : String → String) (supplemental : S → Bool) (readSupp : S → Except E R)
    (read : List R → S → Except E (List T)) (pre post : List S) (s : S) (hs : supplemental s = true)
    (hignored : ∀ d d' x, read d x = read d' x) :
    runUpIO lower supplemental readSupp read (pre ++ s :: post) = runUpIO lower supplemental readSupp read (pre ++ post) := by
  unfold runUpIO
  rw [show (fun x => orNil (read (suppData supplemental readSupp (pre ++ s :: post)) x)) =
        (fun x => orNil (read (suppData supplemental readSupp (pre ++ post)) x)) from
      funext fun x => by rw [hignored _ (suppData supplemental readSupp (pre ++ post)) x]]
  exact silent_source_neutral lower supplemental _ pre post s (Or.inl hs)

/-! ### A supplemental file DAMAGED IN ONE PLACE (a few bytes that are not UTF-8 in one line).
`load_supplemental_sources` reads line by line and leniently (`errors='replace'`): EVERY line becomes a row — `dec` is total, the
offending bytes become U+FFFD inside their own cell — and blank lines are skipped (`keep`).  So what one line contains cannot take
away the row of another line, and a query that an intact row answers stays answered.  A loader that decodes strictly loses the
whole table to one bad line (`strict_loader_loses_intact_rows`): that is the regression class the damaged-file stream of the check
looks for on the real code.  (Trusted, and exactly what that stream tests: bytes that are not UTF-8 are ≥ 0x80, so replacing them
moves no line break and no delimiter.) -/

section damaged
variable {L Row : Type}

/-- the table of a supplemental file: one row per non-blank line -/
def loadLenient (dec : L → Row) (keep : L → Bool) (lines : List L) : List Row := (lines.filter keep).map dec

/-- the table is assembled line by line: the rows before, the row (if any) of the line itself, the rows after -/
theorem load_line_local (dec : L → Row) (keep : L → Bool) (pre post : List L) (l : L) :
    loadLenient dec keep (pre ++ l :: post) = loadLenient dec keep pre ++ (loadLenient dec keep [l] ++ loadLenient dec keep post) := by
  unfold loadLenient
  by_cases h : keep l = true <;> simp [List.filter_append, h]

/-- **Readable rows survive.** Whatever ONE line of the file is replaced by (or whatever line is inserted), every row that comes
from another line is still in the table -/
theorem readable_rows_survive (dec : L → Row) (keep : L → Bool) (pre post : List L) (l : L) (row : Row)
    (h : row ∈ loadLenient dec keep (pre ++ post)) : row ∈ loadLenient dec keep (pre ++ l :: post) := by
  rw [load_line_local]
  have : loadLenient dec keep (pre ++ post) = loadLenient dec keep pre ++ loadLenient dec keep post := by
    simp [loadLenient, List.filter_append]
  rw [this] at h
  rcases List.mem_append.mp h with h | h
  · exact List.mem_append_left _ h
  · exact List.mem_append_right _ (List.mem_append_right _ h)

/-- a rule's query `any(p(r) for r in table)` that an intact row answers is answered whatever the damaged line holds -/
theorem query_answered_by_intact_row (dec : L → Row) (keep : L → Bool) (pre post : List L) (l : L) (p : Row → Bool)
    (h : (loadLenient dec keep (pre ++ post)).any p = true) : (loadLenient dec keep (pre ++ l :: post)).any p = true := by
  obtain ⟨row, hm, hp⟩ := List.any_eq_true.mp h
  exact List.any_eq_true.mpr ⟨row, readable_rows_survive dec keep pre post l row hm, hp⟩

/-- the lenient table as the supplemental read of `runUpIO`: it always loads -/
def readLenient (file : S → List L) (dec : L → Row) (keep : L → Bool) (s : S) : Except E (List Row) := .ok (loadLenient dec keep (file s))

/-- …so a supplemental source is among the queryable tables whatever its lines contain -/
theorem lenient_table_is_queryable (supplemental : S → Bool) (file : S → List L) (dec : L → Row) (keep : L → Bool)
    (pre post : List S) (s : S) (hs : supplemental s = true) :
    loadLenient dec keep (file s) ∈ suppData supplemental (readLenient (E := E) file dec keep) (pre ++ s :: post) := by
  simp only [suppData, readLenient, List.filter_append, List.filter_cons, hs, List.filterMap_append, List.filterMap_cons, if_true]
  exact List.mem_append_right _ (List.mem_cons_self ..)

/-- a STRICT loader (one undecodable line ⇒ the read raises ⇒ "skip sources that can't be loaded") -/
def loadStrict (valid : L → Bool) (dec : L → Row) (keep : L → Bool) (lines : List L) : Except Unit (List Row) :=
  if lines.all valid then .ok (loadLenient dec keep lines) else .error ()

/-- non-vacuity and the contrast: lines are (item, amount, valid-UTF-8?) — the rule asks for amount 1599; the second line is
damaged.  Lenient: the query is answered by the intact first row.  Strict: there is no table at all. -/
def lenientDemo : List (String × Nat × Bool) := [("Book", 1599, true), ("Caf\uFFFD", 500, false), ("Ink", 250, true)]
example : (loadLenient (fun l => (l.1, l.2.1)) (fun _ => true) lenientDemo).any (fun r => r.2 == 1599) = true := by decide +kernel
example : (loadLenient (fun l => (l.1, l.2.1)) (fun _ => true) [lenientDemo[0], lenientDemo[2]]).any (fun r => r.2 == 1599) = true := by
  decide +kernel
theorem strict_loader_loses_intact_rows :
    (loadStrict (fun l => l.2.2) (fun l => (l.1, l.2.1)) (fun _ => true) lenientDemo).toOption = none := by decide +kernel


end damaged

/-! ### A supplemental file with ONE ODD CELL (readable text: an empty / blank / textual date, an amount that is no number, a line
with fewer or more cells).  `load_supplemental_sources` builds a row FIELD BY FIELD: for every entry `(field, column)` of the column
map it takes the cell at that column — a line too short for the column simply lacks the field — and converts it with a TOTAL
conversion (`conv`: a date cell that does not parse stays a string, an amount cell that is no number becomes 0.0).  Hence `decRow` is
a total `dec` for `loadLenient` (no cell can cost another ROW: `readable_rows_survive`), and within the row a cell only reaches the
fields of its own column (`odd_cell_field_local`): the amount of an order whose DATE cell is empty is still its amount, and a query
on amounts is still answered by that row.  A loader whose cell conversion can raise out of the row loop loses the whole table to
one cell (`raising_cell_loader_loses_the_table`): that is the regression class the odd-cell stream of the check looks for on the
real code. -/

section oddcell
variable {V : Type}

/-- one row of a supplemental table: every field of the column map whose column the line has, converted cell by cell -/
def decRow (conv : String → String → V) (cols : List (String × Nat)) (line : List String) : List (String × V) :=
  cols.filterMap fun fc => (line[fc.2]?).map fun c => (fc.1, conv fc.1 c)

/-- replacing the cell at column `j` leaves every field that is read from another column as it was -/
theorem odd_cell_field_local (conv : String → String → V) (cols : List (String × Nat)) (line : List String) (j : Nat) (c : String)
    (name : String) (h : ∀ fc ∈ cols, fc.1 = name → fc.2 ≠ j) :
    (decRow conv cols (line.set j c)).lookup name = (decRow conv cols line).lookup name := by
  induction cols with
  | nil => rfl
  | cons fc rest ih =>
    have ih' := ih (fun x hx => h x (List.mem_cons_of_mem _ hx))
    unfold decRow at ih' ⊢
    simp only [List.filterMap_cons]
    by_cases hj : fc.2 = j
    · -- the field of the replaced column is another field: it is skipped by the lookup, present or not
      have hne : ¬ fc.1 = name := fun e => h fc (List.mem_cons_self ..) e hj
      have hne' : (name == fc.1) = false := by simpa [beq_eq_false_iff_ne] using fun e : name = fc.1 => hne e.symm
      cases h1 : (line.set j c)[fc.2]? <;> cases h2 : line[fc.2]? <;> simp [List.lookup, hne', ih']
    · have : (line.set j c)[fc.2]? = line[fc.2]? := by
        rw [List.getElem?_set_ne (Ne.symm hj)]
      rw [this]
      cases h2 : line[fc.2]? with
      | none => simpa using ih'
      | some x =>
        simp only [Option.map_some, List.lookup]
        cases name == fc.1 <;> simp [ih']

/-- the column map of the orders file of the check: `{date},{item},{amount}` -/
def orderCols : List (String × Nat) := [("item", 1), ("date", 0), ("amount", 2)]

/-- **an odd DATE cell does not touch the amount**: whatever stands in column 0, the row's `amount` is the conversion of column 2 -/
theorem amount_survives_odd_date (conv : String → String → V) (line : List String) (c : String) :
    (decRow conv orderCols (line.set 0 c)).lookup "amount" = (decRow conv orderCols line).lookup "amount" := by
  apply odd_cell_field_local
  intro fc hfc hname
  simp only [orderCols, List.mem_cons, List.mem_nil_iff, or_false] at hfc
  rcases hfc with rfl | rfl | rfl <;> simp_all

/-- `float()` as an oracle table (external functions are parameters): the cells that are numbers -/
def numDemo : List (String × Nat) := [("1599", 1599), ("31000", 31000), ("250", 250)]

/-- cell conversion as the loader does it (dates and amounts as text / cents here): a date that does not parse stays a string
(`none`), an amount that is no number is 0 -/
def convDemo (field cell : String) : Option Nat :=
  if field == "amount" then some ((numDemo.lookup cell).getD 0) else if field == "date" then (if cell == "" then none else some 1) else some 0

/-- a loader whose date conversion RAISES out of the row loop on an empty cell ("skip sources that can't be loaded") -/
def loadRaising (lines : List (List String)) : Except Unit (List (List (String × Option Nat))) :=
  if lines.all (fun l => l[0]? != some "") then .ok (loadLenient (decRow convDemo orderCols) (fun l => !l.isEmpty) lines) else .error ()

def oddDemo : List (List String) := [["2025-01-05", "Book", "1599"], ["", "Garden hose (pending)", "31000"], ["2025-02-01", "Ink", "250"]]

/-- non-vacuity: with the pending order (no date) in the file, the lenient cell-by-cell loader still answers the query for 1599 —
and for 31000, the amount of the odd row itself; the raising loader has no table -/
example : (loadLenient (decRow convDemo orderCols) (fun l => !l.isEmpty) oddDemo).any (fun r => r.lookup "amount" == some (some 1599)) = true := by
  decide +kernel
example : (loadLenient (decRow convDemo orderCols) (fun l => !l.isEmpty) oddDemo).any (fun r => r.lookup "amount" == some (some 31000)) = true := by
  decide +kernel
/-- a line with fewer cells lacks the fields it has no cell for, and is a row all the same -/
example : decRow convDemo orderCols ["Subtotal"] = [("date", some 1)] := by decide +kernel
theorem raising_cell_loader_loses_the_table : (loadRaising oddDemo).toOption = none := by decide +kernel

end oddcell

/-! ### The modelled command IS that composition — for every classifier (`.rules` engine, legacy CSV tuples, no rules)

`Pipeline.upLoop classify sources` is the loop of `cmd_run` the driver executes (op `pipeline`, compared with
`python -m tally up`); `classify` is ANY function of a parsed row — in the driver `Pipeline.classifyRow … rb`, whose
`Rulebook` is a `.rules` engine, a legacy `merchant_categories.csv` tuple list (`rb.legacy = some …`) or nothing.  The
theorems below are therefore statements about all three kinds of budget at once; the legacy case is an instance
(`legacyBook` below), not a separate development. -/

section pipeline
open TallyVerif.Pipeline TallyVerif.Py

/-- row-by-row classification distributes over concatenation (first failure first) -/
theorem classifyAll_append (classify : Row → Except Err Classified) (a b : List Row) :
    classifyAll classify (a ++ b) =
      (do let x ← classifyAll classify a; let y ← classifyAll classify b; pure (x ++ y)) := by
  induction a with
  | nil =>
    simp only [List.nil_append, classifyAll]
    cases classifyAll classify b <;> rfl
  | cons r a ih =>
    simp only [List.cons_append, classifyAll, ih]
    cases classify r with
    | error e => rfl
    | ok c =>
      cases classifyAll classify a with
      | error e => rfl
      | ok x =>
        cases classifyAll classify b with
        | error e => rfl
        | ok y => rfl

private theorem bind_ok {ε α β : Type} (a : α) (f : α → Except ε β) : (Except.ok a >>= f) = f a := rfl

private theorem upLoop_from (classify : Row → Except Err Classified) (sources : List Source) (acc : Except Err (List Classified)) :
    sources.foldl (upStep classify) acc =
      (do let a ← acc
          let b ← classifyAll classify ((sources.filter (fun s => !s.supplemental)).flatMap Source.rows)
          pure (a ++ b)) := by
  induction sources generalizing acc with
  | nil =>
    cases acc with
    | error e => rfl
    | ok a => simp [classifyAll, bind_ok, pure, Except.pure]
  | cons s rest ih =>
    rw [List.foldl_cons, ih]
    cases acc with
    | error e => rfl
    | ok a =>
      cases hs : s.supplemental with
      | true => simp [upStep, hs, bind_ok, pure, Except.pure]
      | false =>
        cases hp : s.parsed with
        | none =>
          simp [upStep, hs, hp, Source.rows, bind_ok, pure, Except.pure]
        | some rows =>
          have hr : s.rows = rows := by simp [Source.rows, hp]
          simp only [upStep, hs, hp, List.filter_cons, Bool.not_false, if_true, List.flatMap_cons, hr,
            classifyAll_append, Bool.false_eq_true, if_false, bind_ok]
          generalize classifyAll classify rows = X
          generalize classifyAll classify ((rest.filter (fun s => !s.supplemental)).flatMap Source.rows) = Y
          cases X with
          | error e => rfl
          | ok x =>
            cases Y with
            | error e => rfl
            | ok y => simp [bind_ok, pure, Except.pure, List.append_assoc]

/-- **`tally up` = classify ∘ concat ∘ parse**, exactly: the transaction list `cmd_run` builds is the row-by-row
classification of the concatenation, in configuration order, of what each NON-supplemental source's parser returned (a
missing or unreadable source returning nothing) — for every classifier, hence for `.rules`, legacy-CSV and rule-less
budgets alike.  If the model declines a row (`.error`), both sides decline with the same first failure. -/
theorem upLoop_eq_composition (classify : Row → Except Err Classified) (sources : List Source) :
    upLoop classify sources =
      classifyAll classify ((sources.filter (fun s => !s.supplemental)).flatMap Source.rows) := by
  unfold upLoop
  rw [upLoop_from, bind_ok]
  cases classifyAll classify ((sources.filter (fun s => !s.supplemental)).flatMap Source.rows) <;>
    simp [bind, Except.bind, pure, Except.pure]

/-- `classify` answers (does not decline) on every row of every ordinary source, and `cl` is what it answers -/
def Classifies (classify : Row → Except Err Classified) (cl : Row → Classified) (sources : List Source) : Prop :=
  ∀ s ∈ sources, s.supplemental = false → ∀ r ∈ s.rows, classify r = .ok (cl r)

theorem classifyAll_total (classify : Row → Except Err Classified) (cl : Row → Classified) (rows : List Row)
    (h : ∀ r ∈ rows, classify r = .ok (cl r)) : classifyAll classify rows = .ok (rows.map cl) := by
  induction rows with
  | nil => rfl
  | cons r rows ih =>
    simp only [classifyAll, h r (List.mem_cons_self ..), ih (fun x hx => h x (List.mem_cons_of_mem _ hx)), List.map_cons]
    rfl

private theorem classifyAll_ok_mem (classify : Row → Except Err Classified) (rows : List Row) (cs : List Classified)
    (h : classifyAll classify rows = .ok cs) : ∀ r ∈ rows, ∃ c, classify r = .ok c := by
  induction rows generalizing cs with
  | nil => intro r hr; cases hr
  | cons x rows ih =>
    simp only [classifyAll] at h
    cases hx : classify x with
    | error e => rw [hx] at h; cases h
    | ok c =>
      rw [hx] at h
      cases hrest : classifyAll classify rows with
      | error e => rw [hrest] at h; cases h
      | ok cs' =>
        intro r hr
        rcases List.mem_cons.mp hr with rfl | hr
        · exact ⟨c, hx⟩
        · exact ih cs' hrest r hr

/-- a run that completes classifies every row of every ordinary source: `Classifies` is exactly "the model does not
decline on this budget" -/
theorem classifies_of_run (classify : Row → Except Err Classified) (sources : List Source) (cls : List Classified)
    (h : upLoop classify sources = .ok cls) : ∃ cl, Classifies classify cl sources := by
  rw [upLoop_eq_composition] at h
  refine ⟨fun r => match classify r with | .ok c => c | .error _ => ⟨"", "", "", [], 0, ""⟩, ?_⟩
  intro s hs hsupp r hr
  have hmem : r ∈ (sources.filter (fun s => !s.supplemental)).flatMap Source.rows :=
    List.mem_flatMap.mpr ⟨s, List.mem_filter.mpr ⟨hs, by simp [hsupp]⟩, hr⟩
  obtain ⟨c, hc⟩ := classifyAll_ok_mem classify _ cls h r hmem
  simp only [hc]

/-- the transactions of one source as the report sees them, amounts read exactly (`cents`) -/
def txnsOf (cents : UInt64 → Int) (cl : Row → Classified) (s : Source) : List T :=
  s.rows.map (fun r => toTotalsG cents (cl r))

/-- **The report of the modelled command is `runUp`** (the composition all theorems above are about), with
`txns s` = the classified rows of source `s`: `analyze ∘ map classify ∘ concat ∘ map parse` on the non-supplemental
sources.  Amounts are read exactly (`cents` is any reading of the amount's bit pattern as integer cents; the driver
runs the same `reportG` over IEEE doubles).  Holds for every classifier that answers on the budget's rows. -/
theorem up_report_eq_runUp (lower : String → String) (cents : UInt64 → Int) (classify : Row → Except Err Classified)
    (cl : Row → Classified) (sources : List Source) (h : Classifies classify cl sources) :
    (upLoop classify sources).map (reportG intNum lower cents) =
      .ok (runUp lower (fun s : Source => s.supplemental) (txnsOf cents cl) sources) := by
  rw [upLoop_eq_composition, classifyAll_total classify cl]
  · simp only [Except.map, reportG, runUp, List.map_flatMap, List.map_map]
    rfl
  · intro r hr
    obtain ⟨s, hs, hrs⟩ := List.mem_flatMap.mp hr
    have hf := List.mem_filter.mp hs
    exact h s hf.1 (by simpa using hf.2) r hrs

private theorem classifies_sub {classify : Row → Except Err Classified} {cl : Row → Classified} {a b : List Source}
    (h : Classifies classify cl a) (hsub : ∀ x ∈ b, x ∈ a) : Classifies classify cl b :=
  fun s hs => h s (hsub s hs)

/-- **Per-source locality of the modelled command** (any classifier): the run on all sources, the run without source
`s` and the run on `s` alone all complete, and every money-flow figure and count of the first is the sum of the other
two. -/
theorem up_source_local (lower : String → String) (cents : UInt64 → Int) (classify : Row → Except Err Classified)
    (cl : Row → Classified) (pre post : List Source) (s : Source) (hs : s.supplemental = false)
    (h : Classifies classify cl (pre ++ s :: post)) :
    ∃ whole rest own,
      (upLoop classify (pre ++ s :: post)).map (reportG intNum lower cents) = .ok whole ∧
      (upLoop classify (pre ++ post)).map (reportG intNum lower cents) = .ok rest ∧
      (upLoop classify [s]).map (reportG intNum lower cents) = .ok own ∧
      flowOf whole = ⟨rest.income + own.income, rest.spending + own.spending, rest.credits + own.credits,
        rest.transfersIn + own.transfersIn, rest.transfersOut + own.transfersOut, rest.investment + own.investment,
        rest.count + own.count, rest.total + own.total⟩ := by
  refine ⟨_, _, _, up_report_eq_runUp lower cents classify cl _ h,
    up_report_eq_runUp lower cents classify cl _ (classifies_sub h ?_),
    up_report_eq_runUp lower cents classify cl _ (classifies_sub h ?_), ?_⟩
  · intro x hx
    rcases List.mem_append.mp hx with hx | hx
    · exact List.mem_append.mpr (Or.inl hx)
    · exact List.mem_append.mpr (Or.inr (List.mem_cons_of_mem _ hx))
  · intro x hx
    rw [List.mem_singleton.mp hx]
    exact List.mem_append.mpr (Or.inr (List.mem_cons_self ..))
  · have := source_local lower (fun s : Source => s.supplemental) (txnsOf cents cl) pre post s hs
    have hown : runUp lower (fun s : Source => s.supplemental) (txnsOf cents cl) [s] = analyze N lower (txnsOf cents cl s) := by
      simp [runUp, hs]
    rw [hown]
    exact this

/-- **A source that contributes no row is neutral for the modelled command** (any classifier): supplemental, missing
/ unreadable (`parsed = none`) or empty — the transaction list is literally the one of the budget without it. -/
theorem up_silent_source_neutral (classify : Row → Except Err Classified) (pre post : List Source) (s : Source)
    (h : s.supplemental = true ∨ s.rows = []) :
    upLoop classify (pre ++ s :: post) = upLoop classify (pre ++ post) := by
  rw [upLoop_eq_composition, upLoop_eq_composition]
  congr 1
  rcases h with h | h
  · simp [List.filter_append, h]
  · by_cases hs : s.supplemental = true
    · simp [List.filter_append, hs]
    · simp [List.filter_append, List.filter_cons, hs, List.flatMap_append, List.flatMap_cons, h]

end pipeline


/-! ### Legacy CSV rule files (`merchant_categories.csv`) as an instance

`Pipeline.classifyRow` with `rb.hasEngine = false` and `rb.legacy = some lb` is `normalize_merchant` on the tuple loop
(`Rules.legacy`, C01/C02) over the per-tuple test of `Pipeline.legacyOutcome`.  Everything in the previous section
applies to it verbatim (it is one more `classify`).  What is SPECIFIC to the legacy case is which part of the world
the classifier reads: the supplemental rows reach a tuple only through an expression-shaped Pattern cell
(`matches_transaction(pattern, transaction, data_sources=…)`); the regex arm, the modifiers and the `{expr}` tags
(`_resolve_dynamic_tags(tags, transaction)`) never see them. -/

section legacy
open TallyVerif.Pipeline TallyVerif.Py TallyVerif.Expr TallyVerif.Rules TallyVerif.Engine

/-- no Pattern cell of the file is expression-shaped (`_is_expression_pattern` is false on every tuple) -/
def PlainPatterns (lb : LegacyBook) : Prop := ∀ r ∈ lb.rules, isExpressionPattern r.rule.pattern r.patternE = false

instance (lb : LegacyBook) : Decidable (PlainPatterns lb) := by unfold PlainPatterns; infer_instance

private theorem legacyEvalRules_plain (o : Oracles) (fnames : List String) (cutoff : Nat → Option Migrate.Date)
    (supp supp' : List (String × Val)) (row : Row) (rules : List LegacyRule)
    (h : ∀ r ∈ rules, isExpressionPattern r.rule.pattern r.patternE = false) :
    legacyEvalRules o fnames cutoff supp row rules = legacyEvalRules o fnames cutoff supp' row rules := by
  induction rules with
  | nil => rfl
  | cons r rest ih =>
    have hr := h r (List.mem_cons_self ..)
    simp only [legacyEvalRules, legacyEvalRule, legacyOutcome, hr, Bool.false_eq_true, if_false,
      ih (fun x hx => h x (List.mem_cons_of_mem _ hx))]

/-- **A legacy budget whose Pattern cells are all regular expressions classifies every transaction without looking
at the supplemental rows** — whatever they are, including none (and so does a budget without rules file:
`rb.legacy = none`).  The guard is exact: see `legacy_expression_pattern_reads_supplemental`. -/
theorem legacy_plain_ignores_supplemental (o : Oracles) (fnames : List String) (key : Rule → Key)
    (supp supp' : List (String × Val)) (rb : Rulebook) (row : Row) (hE : rb.hasEngine = false)
    (hplain : ∀ lb, rb.legacy = some lb → PlainPatterns lb) :
    classifyRow o fnames key supp rb row = classifyRow o fnames key supp' rb row := by
  unfold classifyRow
  simp only [hE, Bool.not_false, if_true]
  cases hl : rb.legacy with
  | none => rfl
  | some lb =>
    simp only [classifyLegacy, legacyEvalRules_plain o fnames lb.cutoff supp supp' _ lb.rules (hplain lb hl)]

/-- **Supplemental sources are query-only for the modelled command on such a budget**: configuring one more
supplemental source — `supp` / `supp'` are the tables the loader hands over with and without it — leaves the
transaction list of `tally up` literally unchanged.  (Instance of `supplemental_query_only`, with its hypothesis
`hignored` DISCHARGED for the legacy classifier.) -/
theorem legacy_supplemental_query_only (o : Oracles) (fnames : List String) (key : Rule → Key)
    (supp supp' : List (String × Val)) (rb : Rulebook) (pre post : List Source) (s : Source)
    (hs : s.supplemental = true) (hE : rb.hasEngine = false) (hplain : ∀ lb, rb.legacy = some lb → PlainPatterns lb) :
    upLoop (classifyRow o fnames key supp rb) (pre ++ s :: post) = upLoop (classifyRow o fnames key supp' rb) (pre ++ post) := by
  rw [up_silent_source_neutral _ pre post s (Or.inl hs)]
  congr 1
  funext row
  exact legacy_plain_ignores_supplemental o fnames key supp supp' rb row hE hplain

/-! kernel-checked legacy budget: `Pattern,Merchant,Category,Subcategory,Tags`

    UBER[amount>15.99][month=1],Uber Big,Transport,Rideshare,Business|{source}
    UBER,Uber,Transport,,
    EATS,,,,food|business|{}
    (any(r.item == "Book" for r in orders)),Ordered,Orders,,
    LYFT and UBER,Never,X,,          -- looks like an expression, is a regular expression after all
-/

/-- what a classification says (merchant, category, subcategory, tags, month); `none`: the model declines -/
def classTag (x : Except Err Classified) : Option (String × String × String × List String × String) :=
  x.toOption.map fun c => (c.merchant, c.category, c.subcategory, c.tags, c.month)

/-- oracles of the examples: on metacharacter-free patterns `re.search` is substring search; nothing else is consulted -/
def subOracles : Oracles := ⟨fun _ => none, fun _ => none, fun p x => some (some (strContains p x)), fun _ _ => none,
  fun _ _ _ => none, fun _ _ => none, fun _ => none, fun _ => none, fun _ _ => none, fun _ _ => none⟩
def key0 : Rule → Key := fun r => ⟨r.priority, 0, 0, 0⟩

/-- the doubles 15.99 and 16.0 -/
def b1599 : UInt64 := 0x402FFAE147AE147B
def b1600 : UInt64 := 0x4030000000000000

def anyBook : Expr :=
  .callNameGen "any" (.cmp (.attrName "r" "item") [.mk .eq (.const (.str "Book"))]) [.mk (some "r") (.name "orders") []] []

def legacyBook : LegacyBook :=
  { rules := [
      { rule := ⟨0, "UBER", "Uber Big", "Transport", "Rideshare", "user"⟩, patternE := none,
        mods := ⟨[.gt ⟨(unitsOfBits b1599).getD 0, []⟩], [.month 1]⟩, tags := [.static "Business", .dynamic (some (.name "source"))] },
      { rule := ⟨1, "UBER", "Uber", "Transport", "", "user"⟩, patternE := none, mods := ⟨[], []⟩, tags := [] },
      { rule := ⟨2, "EATS", "", "", "", "user"⟩, patternE := none, mods := ⟨[], []⟩, tags := [.static "food", .static "business", .blank] },
      { rule := ⟨3, "(any(r.item == \"Book\" for r in orders))", "Ordered", "Orders", "", "user"⟩, patternE := some anyBook,
        mods := ⟨[], []⟩, tags := [] },
      { rule := ⟨4, "LYFT and UBER", "Never", "X", "", "user"⟩, patternE := some (.boolop true [.name "LYFT", .name "UBER"]),
        mods := ⟨[], []⟩, tags := [] }],
    cutoff := fun _ => none }
def legacyRb : Rulebook :=
  { mode := .firstMatch, variables := [], transforms := [], rules := [], hasEngine := false, legacy := some legacyBook }
def plainRb : Rulebook := { legacyRb with legacy := some { legacyBook with rules := legacyBook.rules.take 3 } }
def rowOf (d : String) (a : UInt64) (dt : Date) : Row := ⟨d, a, some dt, "Src0", none, none⟩
def orderRows : List (String × Val) := [("orders", .list [.row [("item", .str "Book"), ("amount", .int 1599)]])]

/-- first match in file order, modifiers exact on the double (15.99 is not > 15.99; 16.0 is; February is not month 1),
tags of EVERY matching tuple de-duplicated in order, the description upper-cased before the search, Unknown fallback
under the extracted name, an expression-shaped cell that does not evaluate searched as a regular expression -/
example :
    classTag (classifyRow subOracles [] key0 [] legacyRb (rowOf "uber eats 123" b1599 ⟨2025, 1, 4⟩)) = some ("Uber", "Transport", "", ["food", "business"], "2025-01") ∧
    classTag (classifyRow subOracles [] key0 [] legacyRb (rowOf "uber eats 123" b1600 ⟨2025, 1, 4⟩)) = some ("Uber Big", "Transport", "Rideshare", ["business", "src0", "food"], "2025-01") ∧
    classTag (classifyRow subOracles [] key0 [] legacyRb (rowOf "uber eats 123" b1600 ⟨2025, 2, 4⟩)) = some ("Uber", "Transport", "", ["food", "business"], "2025-02") ∧
    classTag (classifyRow subOracles [] key0 [] legacyRb (rowOf "SHELL OIL 42" b1600 ⟨2025, 2, 4⟩)) = some ("Shell Oil", "Unknown", "Unknown", [], "2025-02") ∧
    classTag (classifyRow subOracles [] key0 [] legacyRb (rowOf "X LYFT and UBER" b1600 ⟨2025, 2, 4⟩)) = some ("Uber", "Transport", "", [], "2025-02") := by
  refine ⟨?_, ?_, ?_, ?_, ?_⟩ <;> decide +kernel

/-- **The per-tuple evaluation the loop consumes is each tuple's own.**  `classifyLegacy` hands `Rules.legacy` the
function `levOf table` (a lookup by the tuple's position `idx`); when positions are distinct — they are: the loader
numbers the tuples — that function returns, for every tuple of the file, exactly what `legacyEvalRule` computed for
THAT tuple on this transaction.  Hence every theorem of C01 / C02 about `Rules.legacy ev` (first match in file order,
non-matching and later tuples irrelevant, tags = de-duplicated union over all matching tuples, tag-only tuples
neutral) holds for the legacy pipeline with `ev r` = "tuple r's own test and tags". -/
theorem levOf_spec (o : Oracles) (fnames : List String) (cutoff : Nat → Option Migrate.Date) (supp : List (String × Val))
    (row : Row) (rules : List LegacyRule) (table : List (LRule × LEval))
    (h : legacyEvalRules o fnames cutoff supp row rules = .ok table) (hnd : (rules.map (·.rule.idx)).Nodup) :
    ∀ r ∈ rules, legacyEvalRule o fnames cutoff supp row r = .ok (levOf table r.rule) := by
  induction rules generalizing table with
  | nil => intro r hr; cases hr
  | cons x rest ih =>
    simp only [legacyEvalRules] at h
    cases hx : legacyEvalRule o fnames cutoff supp row x with
    | error e => rw [hx] at h; cases h
    | ok e =>
      rw [hx] at h
      cases hrest : legacyEvalRules o fnames cutoff supp row rest with
      | error e' => rw [hrest] at h; cases h
      | ok es =>
        rw [hrest] at h
        have ht : table = (x.rule, e) :: es := by cases h; rfl
        subst ht
        rw [List.map_cons, List.nodup_cons] at hnd
        intro r hr
        rcases List.mem_cons.mp hr with rfl | hr
        · rw [hx]; simp [levOf, List.find?_cons]
        · have hne : (x.rule.idx == r.rule.idx) = false := by
            rw [beq_eq_false_iff_ne]
            intro heq
            exact hnd.1 (heq ▸ List.mem_map.mpr ⟨r, hr, rfl⟩)
          rw [ih es hrest hnd.2 r hr]
          simp [levOf, List.find?_cons, hne]

/-- **First match in file order, end to end.**  Whenever the legacy pipeline classifies a transaction (does not
decline), there is ONE per-tuple evaluation `ev` — each tuple's own test and tags on this transaction
(`legacyEvalRule`: expression or regex arm, modifiers, dynamic tags) — such that merchant / category / subcategory are
those of the first tuple, in file order, that matched and carries a category, and otherwise the Unknown fallback under
the name extracted from the (transformed) description.  (C01's `legacy_first_match_spec` composed with `levOf_spec`.) -/
theorem legacy_pipeline_first_match (o : Oracles) (fnames : List String) (supp : List (String × Val)) (lb : LegacyBook)
    (row : Row) (res : LResult) (h : classifyLegacy o fnames supp lb row = .ok res)
    (hnd : (lb.rules.map (·.rule.idx)).Nodup) :
    ∃ ev : LegacyRule → LEval,
      (∀ r ∈ lb.rules, legacyEvalRule o fnames lb.cutoff supp row r = .ok (ev r)) ∧
      (res.merchant, res.category, res.subcategory) =
        match lb.rules.find? (fun r => (ev r).outcome == .matched && r.rule.category != "") with
        | some r => (r.rule.merchant, r.rule.category, r.rule.subcategory)
        | none => (extractMerchantName row.description, "Unknown", "Unknown") := by
  unfold classifyLegacy at h
  cases ht : legacyEvalRules o fnames lb.cutoff supp row lb.rules with
  | error e => rw [ht] at h; cases h
  | ok table =>
    rw [ht] at h
    have hres : res = Rules.legacy (levOf table) (extractMerchantName row.description) (lb.rules.map (·.rule)) := by
      cases h; rfl
    refine ⟨fun r => levOf table r.rule, levOf_spec o fnames lb.cutoff supp row lb.rules table ht hnd, ?_⟩
    have hspec := (TallyVerif.Props.C01.legacy_first_match_spec (levOf table) (extractMerchantName row.description) (lb.rules.map (·.rule))).2
    rw [← hres] at hspec
    rw [hspec, List.find?_map]
    have hfun : (TallyVerif.Props.C01.lwins (levOf table) ∘ fun r : LegacyRule => r.rule) =
        fun r => (levOf table r.rule).outcome == .matched && r.rule.category != "" := rfl
    rw [hfun]
    cases lb.rules.find? (fun r => (levOf table r.rule).outcome == .matched && r.rule.category != "") <;> rfl

/-- **Tags, end to end**: a tag is on the transaction exactly when some tuple of the file matched it and resolved that
tag — categorising or tag-only, before or after the deciding tuple.  (C02's `legacy_tags_iff` composed with `levOf_spec`.) -/
theorem legacy_pipeline_tags (o : Oracles) (fnames : List String) (supp : List (String × Val)) (lb : LegacyBook)
    (row : Row) (res : LResult) (h : classifyLegacy o fnames supp lb row = .ok res)
    (hnd : (lb.rules.map (·.rule.idx)).Nodup) :
    ∃ ev : LegacyRule → LEval,
      (∀ r ∈ lb.rules, legacyEvalRule o fnames lb.cutoff supp row r = .ok (ev r)) ∧
      ∀ t, t ∈ res.tags ↔ ∃ r ∈ lb.rules, (ev r).outcome = .matched ∧ t ∈ (ev r).tags := by
  unfold classifyLegacy at h
  cases ht : legacyEvalRules o fnames lb.cutoff supp row lb.rules with
  | error e => rw [ht] at h; cases h
  | ok table =>
    rw [ht] at h
    have hres : res = Rules.legacy (levOf table) (extractMerchantName row.description) (lb.rules.map (·.rule)) := by
      cases h; rfl
    refine ⟨fun r => levOf table r.rule, levOf_spec o fnames lb.cutoff supp row lb.rules table ht hnd, ?_⟩
    intro t
    rw [hres, TallyVerif.Props.C02.legacy_tags_iff]
    constructor
    · rintro ⟨lr, hlr, hm, htag⟩
      obtain ⟨r, hr, rfl⟩ := List.mem_map.mp hlr
      exact ⟨r, hr, hm, htag⟩
    · rintro ⟨r, hr, hm, htag⟩
      exact ⟨r.rule, List.mem_map.mpr ⟨r, hr, rfl⟩, hm, htag⟩

example : (legacyBook.rules.map (·.rule.idx)).Nodup := by decide

/-- The guard of `legacy_plain_ignores_supplemental` is needed: ONE expression-shaped Pattern cell and the same
statement line is classified differently with and without the supplemental rows. -/
theorem legacy_expression_pattern_reads_supplemental :
    legacyRb.hasEngine = false ∧ ¬ PlainPatterns legacyBook ∧
    classTag (classifyRow subOracles [] key0 orderRows legacyRb (rowOf "AMZN MKTP" b1599 ⟨2025, 3, 9⟩)) = some ("Ordered", "Orders", "", [], "2025-03") ∧
    classTag (classifyRow subOracles [] key0 [] legacyRb (rowOf "AMZN MKTP" b1599 ⟨2025, 3, 9⟩)) = some ("Amzn Mktp", "Unknown", "Unknown", [], "2025-03") := by
  refine ⟨?_, ?_, ?_, ?_⟩ <;> decide +kernel

/-- hypotheses of `legacy_plain_ignores_supplemental` / `legacy_supplemental_query_only` on a non-trivial budget: the
three regular-expression tuples, two ordinary sources and a supplemental one in between -/
example : plainRb.hasEngine = false ∧ (∀ lb, plainRb.legacy = some lb → PlainPatterns lb) ∧
    classTag (classifyRow subOracles [] key0 orderRows plainRb (rowOf "uber trip" b1599 ⟨2025, 1, 9⟩)) =
      some ("Uber", "Transport", "", [], "2025-01") := by
  refine ⟨rfl, ?_, by decide +kernel⟩
  intro lb h
  cases h
  decide +kernel

def bankSrc : Source := ⟨false, some [rowOf "uber eats 123" b1599 ⟨2025, 1, 4⟩, rowOf "SHELL OIL 42" b1600 ⟨2025, 2, 4⟩]⟩
def cardSrc : Source := ⟨false, some [rowOf "uber trip" b1599 ⟨2025, 1, 9⟩]⟩
def ordersSrc : Source := ⟨true, some [rowOf "Book" b1599 ⟨2025, 1, 5⟩]⟩
def missingSrc : Source := ⟨false, none⟩
/-- exact cents of the two doubles of the examples -/
def centsOf (b : UInt64) : Int := if b == b1600 then 1600 else 1599

/-- the whole modelled command on the legacy budget, exact cents: 3 transactions, 47.98 spent; the supplemental and
the missing source contribute no transaction, the loaded `orders` table decides the SHELL line (tuple 3) -/
theorem legacy_budget_run :
    ((upLoop (classifyRow subOracles [] key0 orderRows legacyRb) [bankSrc, ordersSrc, missingSrc, cardSrc]).toOption.map
        (fun cls => (cls.map (·.merchant), flowOf (reportG intNum asciiLower centsOf cls)))) =
      some (["Uber", "Ordered", "Uber"], ⟨0, 4798, 0, 0, 0, 0, 3, 4798⟩) := by
  decide +kernel

/-- hypotheses of `up_report_eq_runUp` / `up_source_local` on that budget: the run completes, so the legacy classifier
answers on every row of every ordinary source -/
example : ∃ cl, Classifies (classifyRow subOracles [] key0 orderRows legacyRb) cl [bankSrc, ordersSrc, missingSrc, cardSrc] := by
  cases h : upLoop (classifyRow subOracles [] key0 orderRows legacyRb) [bankSrc, ordersSrc, missingSrc, cardSrc] with
  | ok cls => exact classifies_of_run _ _ cls h
  | error e =>
    have := legacy_budget_run
    rw [h] at this
    exact absurd this (by simp [Except.toOption])

/-- `apply_transforms` evaluates a transform on the transaction ALONE: `field.description = len(orders)` raises (unknown
name), is skipped, and the description — hence the classification — is what it is without the transform, even though
the supplemental rows are loaded (confirmed on the code: `normalize_merchant('UBER EATS', [], amount=5.0,
transforms=[('field.description', 'len(orders)')], data_sources={'orders': [{}, {}]})` → `('Uber Eats', 'Unknown', 'Unknown', None)`). -/
theorem transform_sees_no_supplemental :
    classTag (classifyRow subOracles [] key0 orderRows
      { legacyRb with transforms := [("description", some (.callName "len" [.name "orders"]))] }
      (rowOf "uber eats 123" b1599 ⟨2025, 1, 4⟩)) = some ("Uber", "Transport", "", ["food", "business"], "2025-01") := by
  decide +kernel

end legacy

/-! non-vacuity: three sources (one supplemental, one empty) -/
inductive Src | bank | card | orders | missing
deriving DecidableEq
def supp : Src → Bool | .orders => true | _ => false
def tx : Src → List T
  | .bank => [⟨-10000, some ["income"], "Emp", "Income", "", "2025-01"⟩, ⟨2500, none, "Shop", "Food", "", "2025-01"⟩]
  | .card => [⟨4200, some [], "Shop", "Food", "", "2025-02"⟩]
  | .orders => [⟨999, none, "Order", "X", "", "2025-02"⟩]
  | .missing => []
example : flowOf (runUp asciiLower supp tx [.bank, .orders, .missing, .card]) = ⟨10000, 6700, 0, 0, 0, 0, 3, -3300⟩ := by
  decide +kernel
example : Silent supp tx .orders ∧ Silent supp tx .missing := ⟨Or.inl rfl, Or.inr rfl⟩

/-! non-vacuity of the I/O theorems: `.missing` raises when read, the `.orders` table cannot be loaded, and still the
bank and card figures are exactly those of the two-source budget -/
def rd (_ : List Nat) : Src → Except String (List T)
  | .missing => .error "'utf-8' codec can't decode byte 0xe9"
  | s => .ok (tx s)
def rdSupp : Src → Except String Nat
  | .orders => .error "[Errno 21] Is a directory"
  | _ => .ok 0
example : (∀ d, ∃ e, rd d .missing = .error e) ∧ rdSupp .orders = .error "[Errno 21] Is a directory" :=
  ⟨fun _ => ⟨_, rfl⟩, rfl⟩
example : flowOf (runUpIO asciiLower supp rdSupp rd [.bank, .orders, .missing, .card]) =
    flowOf (runUpIO asciiLower supp rdSupp rd [.bank, .card]) := by
  decide +kernel

end TallyVerif.Props.C11
