/-
C11 — `tally up` honours every setting: report = totals(classify(parse(sources))).

The executable composition is `Model/Pipeline.lean` + `Driver/Pipeline.lean` (C05's parser, the
engine of C01/C02/C08/C09, C06's totals), tied end to end to `python -m tally up --format json`.
Here: the structural laws of that composition, for ARBITRARY per-source parse-and-classify
functions (so for every format, delimiter, header, decimal, sign, rules, mode, transforms and
supplemental data) over exact amounts — they are consequences of C06's permutation and partition
theorems.  The loop of `cmd_run` itself is `Pipeline.upLoop` (what the driver runs); `upLoop_eq_composition` /
`up_report_eq_runUp` prove it IS that composition for EVERY classifier, so the laws hold for the modelled command on
`.rules`, legacy-CSV (`merchant_categories.csv`) and rule-less budgets alike; the section "Legacy CSV rule files" adds
what is specific to the legacy classifier (which part of the world it reads; first match and tags end to end).
The last section ("Settings resolution") starts at the SETTINGS OBJECT: `Config.resolveConfig` (load_config), `Config.planSources`
(which parser calls cmd_run makes, with which arguments), `Config.readArgs` (what the reader makes of them) and the composition
`PipelineCfg.upFromSettings`; defaults, rule mode, rules-file selection, error locality and setting locality are proved there.
PARTIAL: argparse, the YAML parser itself (yaml.safe_load: the loaded object is the input), the two deprecated parsers
(parse_amex / parse_boa: their rows are a parameter) and printing are not modelled.
-/
import TallyVerif.Props.C06
import TallyVerif.Props.C01
import TallyVerif.Props.C02
import TallyVerif.Model.Pipeline
import TallyVerif.Model.PipelineCfg
import TallyVerif.Lemmas.Config

namespace TallyVerif.Props.C11
open TallyVerif TallyVerif.Totals TallyVerif.Props.C06

variable {S : Type}

/-- `tally up`: every non-supplemental source is parsed and classified with ITS OWN settings
(`txns s`), in configuration order, and the concatenation is totalled -/
def runUp (lower : String → String) (supplemental : S → Bool) (txns : S → List T) (sources : List S) : Stats Int :=
  analyze N lower ((sources.filter (fun s => !supplemental s)).flatMap txns)

/-- a source that is supplemental, missing, unreadable or empty contributes no transaction -/
def Silent (supplemental : S → Bool) (txns : S → List T) (s : S) : Prop := supplemental s = true ∨ txns s = []

/-- a silent source leaves the whole report exactly as it is without it -/
theorem silent_source_neutral (lower : String → String) (supplemental : S → Bool) (txns : S → List T)
    (pre post : List S) (s : S) (h : Silent supplemental txns s) :
    runUp lower supplemental txns (pre ++ s :: post) = runUp lower supplemental txns (pre ++ post) := by
  unfold runUp
  rcases h with h | h
  · simp [List.filter_append, List.filter_cons, h]
  · by_cases hs : supplemental s = true
    · simp [List.filter_append, List.filter_cons, hs]
    · simp [List.filter_append, List.filter_cons, hs, List.flatMap_append, List.flatMap_cons, h]

private theorem flat_split (supplemental : S → Bool) (txns : S → List T) (pre post : List S) (s : S)
    (hs : supplemental s = false) :
    ((pre ++ s :: post).filter (fun s => !supplemental s)).flatMap txns =
      (pre.filter (fun s => !supplemental s)).flatMap txns ++ (txns s ++ (post.filter (fun s => !supplemental s)).flatMap txns) := by
  simp [List.filter_append, List.filter_cons, hs, List.flatMap_append, List.flatMap_cons]

/-- **Locality.** The money-flow figures and counts of a report are those of the report without
source `s` plus those of `s` alone: changing one source, or one setting of it (anything that only
changes `txns s`), changes only that source's share. -/
theorem source_local (lower : String → String) (supplemental : S → Bool) (txns : S → List T)
    (pre post : List S) (s : S) (hs : supplemental s = false) :
    flowOf (runUp lower supplemental txns (pre ++ s :: post)) =
      ⟨(runUp lower supplemental txns (pre ++ post)).income + (analyze N lower (txns s)).income,
       (runUp lower supplemental txns (pre ++ post)).spending + (analyze N lower (txns s)).spending,
       (runUp lower supplemental txns (pre ++ post)).credits + (analyze N lower (txns s)).credits,
       (runUp lower supplemental txns (pre ++ post)).transfersIn + (analyze N lower (txns s)).transfersIn,
       (runUp lower supplemental txns (pre ++ post)).transfersOut + (analyze N lower (txns s)).transfersOut,
       (runUp lower supplemental txns (pre ++ post)).investment + (analyze N lower (txns s)).investment,
       (runUp lower supplemental txns (pre ++ post)).count + (analyze N lower (txns s)).count,
       (runUp lower supplemental txns (pre ++ post)).total + (analyze N lower (txns s)).total⟩ := by
  unfold runUp
  rw [flat_split supplemental txns pre post s hs]
  let A := (pre.filter (fun s => !supplemental s)).flatMap txns
  let B := (post.filter (fun s => !supplemental s)).flatMap txns
  have hp : (A ++ (txns s ++ B)).Perm ((A ++ B) ++ txns s) := by
    have : (txns s ++ B).Perm (B ++ txns s) := List.perm_append_comm
    exact (List.Perm.append_left A this).trans (by rw [List.append_assoc])
  have h1 := (analyze_perm lower hp).1
  have h2 := (analyze_append lower (A ++ B) (txns s)).1
  have hAB : ((pre ++ post).filter (fun s => !supplemental s)).flatMap txns = A ++ B := by
    simp [A, B, List.filter_append, List.flatMap_append]
  rw [hAB]
  exact h1.trans h2

/-- two settings families that agree on every source but one give reports that differ only by
that source's share -/
theorem setting_local (lower : String → String) (supplemental : S → Bool) (txns txns' : S → List T)
    (pre post : List S) (s : S) (hs : supplemental s = false)
    (hagree : ∀ x ∈ pre ++ post, txns x = txns' x) :
    runUp lower supplemental txns (pre ++ post) = runUp lower supplemental txns' (pre ++ post) := by
  unfold runUp
  congr 1
  have : ∀ l : List S, (∀ x ∈ l, txns x = txns' x) → l.flatMap txns = l.flatMap txns' := by
    intro l hl
    induction l with
    | nil => rfl
    | cons a l ih =>
      simp only [List.flatMap_cons]
      rw [hl a (List.mem_cons_self ..), ih (fun x hx => hl x (List.mem_cons_of_mem _ hx))]
  exact this _ (fun x hx => hagree x (List.mem_filter.mp hx).1)

/-- the order in which sources are configured does not change any figure -/
theorem source_order_irrelevant (lower : String → String) (supplemental : S → Bool) (txns : S → List T)
    {srcs srcs' : List S} (p : srcs.Perm srcs') :
    flowOf (runUp lower supplemental txns srcs) = flowOf (runUp lower supplemental txns srcs') ∧
    (∀ k, (runUp lower supplemental txns srcs).byMerchant.lookup k = (runUp lower supplemental txns srcs').byMerchant.lookup k) ∧
    (∀ k, (runUp lower supplemental txns srcs).byCategory.lookup k = (runUp lower supplemental txns srcs').byCategory.lookup k) ∧
    (∀ k, (runUp lower supplemental txns srcs).byMonth.lookup k = (runUp lower supplemental txns srcs').byMonth.lookup k) := by
  unfold runUp
  exact analyze_perm lower ((p.filter _).flatMap_right txns)

/-- exactly the transactions of the non-supplemental sources are in the report -/
theorem report_count (lower : String → String) (supplemental : S → Bool) (txns : S → List T) (sources : List S) :
    (runUp lower supplemental txns sources).count =
      ((sources.filter (fun s => !supplemental s)).map (fun s => (txns s).length)).sum := by
  unfold runUp
  rw [(groupings_conserve lower _).2.2.2.2.2]
  simp [List.length_flatMap]

/-! ### Reading a source can FAIL (`cmd_run`'s `try … except Exception: continue`, `load_supplemental_sources`' "skip sources
that can't be loaded").  Not totalised away: `read` / `readSupp` return `Except`, the pipeline catches PER SOURCE. -/

variable {E R : Type}

/-- what the rule expressions can query: the supplemental sources that could be loaded, in configuration order -/
def suppData (supplemental : S → Bool) (readSupp : S → Except E R) (sources : List S) : List R :=
  (sources.filter supplemental).filterMap (fun s => match readSupp s with | .ok r => some r | .error _ => none)

/-- `except Exception: continue`: a read that raises yields no transaction -/
def orNil : Except E (List T) → List T
  | .ok l => l
  | .error _ => []

/-- `tally up` with fallible I/O: the supplemental tables that load are handed to every ordinary source's
parse-and-classify step `read`; an ordinary source whose read raises is reported and yields no transaction -/
def runUpIO (lower : String → String) (supplemental : S → Bool) (readSupp : S → Except E R)
    (read : List R → S → Except E (List T)) (sources : List S) : Stats Int :=
  runUp lower supplemental (fun s => orNil (read (suppData supplemental readSupp sources) s)) sources

/-- an ORDINARY source that exists but cannot be read (wrong encoding, a directory, permission denied …) leaves the
report exactly as it is without that source: the run completes and no other figure moves -/
theorem unreadable_source_neutral (lower : String → String) (supplemental : S → Bool) (readSupp : S → Except E R)
    (read : List R → S → Except E (List T)) (pre post : List S) (s : S) (hs : supplemental s = false)
    (hfail : ∀ d, ∃ e, read d s = .error e) :
    runUpIO lower supplemental readSupp read (pre ++ s :: post) = runUpIO lower supplemental readSupp read (pre ++ post) := by
  have hd : suppData supplemental readSupp (pre ++ s :: post) = suppData supplemental readSupp (pre ++ post) := by
    simp [suppData, List.filter_append, List.filter_cons, hs]
  unfold runUpIO
  rw [hd]
  apply silent_source_neutral
  right
  obtain ⟨e, he⟩ := hfail (suppData supplemental readSupp (pre ++ post))
  simp [he, orNil]

/-- a SUPPLEMENTAL source that exists but cannot be loaded is as if it were not configured: same queryable data,
same report — in particular the run is not aborted -/
theorem unreadable_supplemental_neutral (lower : String → String) (supplemental : S → Bool) (readSupp : S → Except E R)
    (read : List R → S → Except E (List T)) (pre post : List S) (s : S) (hs : supplemental s = true)
    (e : E) (hfail : readSupp s = .error e) :
    runUpIO lower supplemental readSupp read (pre ++ s :: post) = runUpIO lower supplemental readSupp read (pre ++ post) := by
  have hd : suppData supplemental readSupp (pre ++ s :: post) = suppData supplemental readSupp (pre ++ post) := by
    simp [suppData, List.filter_append, List.filter_cons, hs, hfail]
  unfold runUpIO
  rw [hd]
  exact silent_source_neutral lower supplemental _ pre post s (Or.inl hs)

/-- a supplemental source is QUERY-ONLY: whatever it contains, it adds no transaction; it can change the report only
through what `read` does with the table -/
theorem supplemental_query_only (lower : String → String) (supplemental : S → Bool) (readSupp : S → Except E R)
    (read : List R → S → Except E (List T)) (pre post : List S) (s : S) (hs : supplemental s = true)
    (hignored : ∀ d d' x, read d x = read d' x) :
    runUpIO lower supplemental readSupp read (pre ++ s :: post) = runUpIO lower supplemental readSupp read (pre ++ post) := by
  unfold runUpIO
  rw [show (fun x => orNil (read (suppData supplemental readSupp (pre ++ s :: post)) x)) =
        (fun x => orNil (read (suppData supplemental readSupp (pre ++ post)) x)) from
      funext fun x => by rw [hignored _ (suppData supplemental readSupp (pre ++ post)) x]]
  exact silent_source_neutral lower supplemental _ pre post s (Or.inl hs)

/-! ### A supplemental file DAMAGED IN ONE PLACE (a few bytes that are not UTF-8 in one line).
`load_supplemental_sources` reads line by line and leniently (`errors='replace'`): EVERY line becomes a row — `dec` is total, the
offending bytes become U+FFFD inside their own cell — and blank lines are skipped (`keep`).  So what one line contains cannot take
away the row of another line, and a query that an intact row answers stays answered.  A loader that decodes strictly loses the
whole table to one bad line (`strict_loader_loses_intact_rows`): that is the regression class the damaged-file stream of the check
looks for on the real code.  (Trusted, and exactly what that stream tests: bytes that are not UTF-8 are ≥ 0x80, so replacing them
moves no line break and no delimiter.) -/

section damaged
variable {L Row : Type}

/-- the table of a supplemental file: one row per non-blank line -/
def loadLenient (dec : L → Row) (keep : L → Bool) (lines : List L) : List Row := (lines.filter keep).map dec

/-- the table is assembled line by line: the rows before, the row (if any) of the line itself, the rows after -/
theorem load_line_local (dec : L → Row) (keep : L → Bool) (pre post : List L) (l : L) :
    loadLenient dec keep (pre ++ l :: post) = loadLenient dec keep pre ++ (loadLenient dec keep [l] ++ loadLenient dec keep post) := by
  unfold loadLenient
  by_cases h : keep l = true <;> simp [List.filter_append, h]

/-- **Readable rows survive.** Whatever ONE line of the file is replaced by (or whatever line is inserted), every row that comes
from another line is still in the table -/
theorem readable_rows_survive (dec : L → Row) (keep : L → Bool) (pre post : List L) (l : L) (row : Row)
    (h : row ∈ loadLenient dec keep (pre ++ post)) : row ∈ loadLenient dec keep (pre ++ l :: post) := by
  rw [load_line_local]
  have : loadLenient dec keep (pre ++ post) = loadLenient dec keep pre ++ loadLenient dec keep post := by
    simp [loadLenient, List.filter_append]
  rw [this] at h
  rcases List.mem_append.mp h with h | h
  · exact List.mem_append_left _ h
  · exact List.mem_append_right _ (List.mem_append_right _ h)

/-- a rule's query `any(p(r) for r in table)` that an intact row answers is answered whatever the damaged line holds -/
theorem query_answered_by_intact_row (dec : L → Row) (keep : L → Bool) (pre post : List L) (l : L) (p : Row → Bool)
    (h : (loadLenient dec keep (pre ++ post)).any p = true) : (loadLenient dec keep (pre ++ l :: post)).any p = true := by
  obtain ⟨row, hm, hp⟩ := List.any_eq_true.mp h
  exact List.any_eq_true.mpr ⟨row, readable_rows_survive dec keep pre post l row hm, hp⟩

/-- the lenient table as the supplemental read of `runUpIO`: it always loads -/
def readLenient (file : S → List L) (dec : L → Row) (keep : L → Bool) (s : S) : Except E (List Row) := .ok (loadLenient dec keep (file s))

/-- …so a supplemental source is among the queryable tables whatever its lines contain -/
theorem lenient_table_is_queryable (supplemental : S → Bool) (file : S → List L) (dec : L → Row) (keep : L → Bool)
    (pre post : List S) (s : S) (hs : supplemental s = true) :
    loadLenient dec keep (file s) ∈ suppData supplemental (readLenient (E := E) file dec keep) (pre ++ s :: post) := by
  simp only [suppData, readLenient, List.filter_append, List.filter_cons, hs, List.filterMap_append, List.filterMap_cons, if_true]
  exact List.mem_append_right _ (List.mem_cons_self ..)

/-- a STRICT loader (one undecodable line ⇒ the read raises ⇒ "skip sources that can't be loaded") -/
def loadStrict (valid : L → Bool) (dec : L → Row) (keep : L → Bool) (lines : List L) : Except Unit (List Row) :=
  if lines.all valid then .ok (loadLenient dec keep lines) else .error ()

/-- non-vacuity and the contrast: lines are (item, amount, valid-UTF-8?) — the rule asks for amount 1599; the second line is
damaged.  Lenient: the query is answered by the intact first row.  Strict: there is no table at all. -/
def lenientDemo : List (String × Nat × Bool) := [("Book", 1599, true), ("Caf\uFFFD", 500, false), ("Ink", 250, true)]
example : (loadLenient (fun l => (l.1, l.2.1)) (fun _ => true) lenientDemo).any (fun r => r.2 == 1599) = true := by decide +kernel
example : (loadLenient (fun l => (l.1, l.2.1)) (fun _ => true) [lenientDemo[0], lenientDemo[2]]).any (fun r => r.2 == 1599) = true := by
  decide +kernel
theorem strict_loader_loses_intact_rows :
    (loadStrict (fun l => l.2.2) (fun l => (l.1, l.2.1)) (fun _ => true) lenientDemo).toOption = none := by decide +kernel


end damaged

/-! ### A supplemental file with ONE ODD CELL (readable text: an empty / blank / textual date, an amount that is no number, a line
with fewer or more cells).  `load_supplemental_sources` builds a row FIELD BY FIELD: for every entry `(field, column)` of the column
map it takes the cell at that column — a line too short for the column simply lacks the field — and converts it with a TOTAL
conversion (`conv`: a date cell that does not parse stays a string, an amount cell that is no number becomes 0.0).  Hence `decRow` is
a total `dec` for `loadLenient` (no cell can cost another ROW: `readable_rows_survive`), and within the row a cell only reaches the
fields of its own column (`odd_cell_field_local`): the amount of an order whose DATE cell is empty is still its amount, and a query
on amounts is still answered by that row.  A loader whose cell conversion can raise out of the row loop loses the whole table to
one cell (`raising_cell_loader_loses_the_table`): that is the regression class the odd-cell stream of the check looks for on the
real code. -/

section oddcell
variable {V : Type}

/-- one row of a supplemental table: every field of the column map whose column the line has, converted cell by cell -/
def decRow (conv : String → String → V) (cols : List (String × Nat)) (line : List String) : List (String × V) :=
  cols.filterMap fun fc => (line[fc.2]?).map fun c => (fc.1, conv fc.1 c)

/-- replacing the cell at column `j` leaves every field that is read from another column as it was -/
theorem odd_cell_field_local (conv : String → String → V) (cols : List (String × Nat)) (line : List String) (j : Nat) (c : String)
    (name : String) (h : ∀ fc ∈ cols, fc.1 = name → fc.2 ≠ j) :
    (decRow conv cols (line.set j c)).lookup name = (decRow conv cols line).lookup name := by
  induction cols with
  | nil => rfl
  | cons fc rest ih =>
    have ih' := ih (fun x hx => h x (List.mem_cons_of_mem _ hx))
    unfold decRow at ih' ⊢
    simp only [List.filterMap_cons]
    by_cases hj : fc.2 = j
    · -- the field of the replaced column is another field: it is skipped by the lookup, present or not
      have hne : ¬ fc.1 = name := fun e => h fc (List.mem_cons_self ..) e hj
      have hne' : (name == fc.1) = false := by simpa [beq_eq_false_iff_ne] using fun e : name = fc.1 => hne e.symm
      cases h1 : (line.set j c)[fc.2]? <;> cases h2 : line[fc.2]? <;> simp [List.lookup, hne', ih']
    · have : (line.set j c)[fc.2]? = line[fc.2]? := by
        rw [List.getElem?_set_ne (Ne.symm hj)]
      rw [this]
      cases h2 : line[fc.2]? with
      | none => simpa using ih'
      | some x =>
        simp only [Option.map_some, List.lookup]
        cases name == fc.1 <;> simp [ih']

/-- the column map of the orders file of the check: `{date},{item},{amount}` -/
def orderCols : List (String × Nat) := [("item", 1), ("date", 0), ("amount", 2)]

/-- **an odd DATE cell does not touch the amount**: whatever stands in column 0, the row's `amount` is the conversion of column 2 -/
theorem amount_survives_odd_date (conv : String → String → V) (line : List String) (c : String) :
    (decRow conv orderCols (line.set 0 c)).lookup "amount" = (decRow conv orderCols line).lookup "amount" := by
  apply odd_cell_field_local
  intro fc hfc hname
  simp only [orderCols, List.mem_cons, List.mem_nil_iff, or_false] at hfc
  rcases hfc with rfl | rfl | rfl <;> simp_all

/-- `float()` as an oracle table (external functions are parameters): the cells that are numbers -/
def numDemo : List (String × Nat) := [("1599", 1599), ("31000", 31000), ("250", 250)]

/-- cell conversion as the loader does it (dates and amounts as text / cents here): a date that does not parse stays a string
(`none`), an amount that is no number is 0 -/
def convDemo (field cell : String) : Option Nat :=
  if field == "amount" then some ((numDemo.lookup cell).getD 0) else if field == "date" then (if cell == "" then none else some 1) else some 0

/-- a loader whose date conversion RAISES out of the row loop on an empty cell ("skip sources that can't be loaded") -/
def loadRaising (lines : List (List String)) : Except Unit (List (List (String × Option Nat))) :=
  if lines.all (fun l => l[0]? != some "") then .ok (loadLenient (decRow convDemo orderCols) (fun l => !l.isEmpty) lines) else .error ()

def oddDemo : List (List String) := [["2025-01-05", "Book", "1599"], ["", "Garden hose (pending)", "31000"], ["2025-02-01", "Ink", "250"]]

/-- non-vacuity: with the pending order (no date) in the file, the lenient cell-by-cell loader still answers the query for 1599 —
and for 31000, the amount of the odd row itself; the raising loader has no table -/
example : (loadLenient (decRow convDemo orderCols) (fun l => !l.isEmpty) oddDemo).any (fun r => r.lookup "amount" == some (some 1599)) = true := by
  decide +kernel
example : (loadLenient (decRow convDemo orderCols) (fun l => !l.isEmpty) oddDemo).any (fun r => r.lookup "amount" == some (some 31000)) = true := by
  decide +kernel
/-- a line with fewer cells lacks the fields it has no cell for, and is a row all the same -/
example : decRow convDemo orderCols ["Subtotal"] = [("date", some 1)] := by decide +kernel
theorem raising_cell_loader_loses_the_table : (loadRaising oddDemo).toOption = none := by decide +kernel

end oddcell

/-! ### The modelled command IS that composition — for every classifier (`.rules` engine, legacy CSV tuples, no rules)

`Pipeline.upLoop classify sources` is the loop of `cmd_run` the driver executes (op `pipeline`, compared with
`python -m tally up`); `classify` is ANY function of a parsed row — in the driver `Pipeline.classifyRow … rb`, whose
`Rulebook` is a `.rules` engine, a legacy `merchant_categories.csv` tuple list (`rb.legacy = some …`) or nothing.  The
theorems below are therefore statements about all three kinds of budget at once; the legacy case is an instance
(`legacyBook` below), not a separate development. -/

section pipeline
open TallyVerif.Pipeline TallyVerif.Py

/-- row-by-row classification distributes over concatenation (first failure first) -/
theorem classifyAll_append (classify : Row → Except Err Classified) (a b : List Row) :
    classifyAll classify (a ++ b) =
      (do let x ← classifyAll classify a; let y ← classifyAll classify b; pure (x ++ y)) := by
  induction a with
  | nil =>
    simp only [List.nil_append, classifyAll]
    cases classifyAll classify b <;> rfl
  | cons r a ih =>
    simp only [List.cons_append, classifyAll, ih]
    cases classify r with
    | error e => rfl
    | ok c =>
      cases classifyAll classify a with
      | error e => rfl
      | ok x =>
        cases classifyAll classify b with
        | error e => rfl
        | ok y => rfl

private theorem bind_ok {ε α β : Type} (a : α) (f : α → Except ε β) : (Except.ok a >>= f) = f a := rfl

private theorem upLoop_from (classify : Row → Except Err Classified) (sources : List Source) (acc : Except Err (List Classified)) :
    sources.foldl (upStep classify) acc =
      (do let a ← acc
          let b ← classifyAll classify ((sources.filter (fun s => !s.supplemental)).flatMap Source.rows)
          pure (a ++ b)) := by
  induction sources generalizing acc with
  | nil =>
    cases acc with
    | error e => rfl
    | ok a => simp [classifyAll, bind_ok, pure, Except.pure]
  | cons s rest ih =>
    rw [List.foldl_cons, ih]
    cases acc with
    | error e => rfl
    | ok a =>
      cases hs : s.supplemental with
      | true => simp [upStep, hs, bind_ok, pure, Except.pure]
      | false =>
        cases hp : s.parsed with
        | none =>
          simp [upStep, hs, hp, Source.rows, bind_ok, pure, Except.pure]
        | some rows =>
          have hr : s.rows = rows := by simp [Source.rows, hp]
          simp only [upStep, hs, hp, List.filter_cons, Bool.not_false, if_true, List.flatMap_cons, hr,
            classifyAll_append, Bool.false_eq_true, if_false, bind_ok]
          generalize classifyAll classify rows = X
          generalize classifyAll classify ((rest.filter (fun s => !s.supplemental)).flatMap Source.rows) = Y
          cases X with
          | error e => rfl
          | ok x =>
            cases Y with
            | error e => rfl
            | ok y => simp [bind_ok, pure, Except.pure, List.append_assoc]

/-- **`tally up` = classify ∘ concat ∘ parse**, exactly: the transaction list `cmd_run` builds is the row-by-row
classification of the concatenation, in configuration order, of what each NON-supplemental source's parser returned (a
missing or unreadable source returning nothing) — for every classifier, hence for `.rules`, legacy-CSV and rule-less
budgets alike.  If the model declines a row (`.error`), both sides decline with the same first failure. -/
theorem upLoop_eq_composition (classify : Row → Except Err Classified) (sources : List Source) :
    upLoop classify sources =
      classifyAll classify ((sources.filter (fun s => !s.supplemental)).flatMap Source.rows) := by
  unfold upLoop
  rw [upLoop_from, bind_ok]
  cases classifyAll classify ((sources.filter (fun s => !s.supplemental)).flatMap Source.rows) <;>
    simp [bind, Except.bind, pure, Except.pure]

/-- `classify` answers (does not decline) on every row of every ordinary source, and `cl` is what it answers -/
def Classifies (classify : Row → Except Err Classified) (cl : Row → Classified) (sources : List Source) : Prop :=
  ∀ s ∈ sources, s.supplemental = false → ∀ r ∈ s.rows, classify r = .ok (cl r)

theorem classifyAll_total (classify : Row → Except Err Classified) (cl : Row → Classified) (rows : List Row)
    (h : ∀ r ∈ rows, classify r = .ok (cl r)) : classifyAll classify rows = .ok (rows.map cl) := by
  induction rows with
  | nil => rfl
  | cons r rows ih =>
    simp only [classifyAll, h r (List.mem_cons_self ..), ih (fun x hx => h x (List.mem_cons_of_mem _ hx)), List.map_cons]
    rfl

private theorem classifyAll_ok_mem (classify : Row → Except Err Classified) (rows : List Row) (cs : List Classified)
    (h : classifyAll classify rows = .ok cs) : ∀ r ∈ rows, ∃ c, classify r = .ok c := by
  induction rows generalizing cs with
  | nil => intro r hr; cases hr
  | cons x rows ih =>
    simp only [classifyAll] at h
    cases hx : classify x with
    | error e => rw [hx] at h; cases h
    | ok c =>
      rw [hx] at h
      cases hrest : classifyAll classify rows with
      | error e => rw [hrest] at h; cases h
      | ok cs' =>
        intro r hr
        rcases List.mem_cons.mp hr with rfl | hr
        · exact ⟨c, hx⟩
        · exact ih cs' hrest r hr

/-- a run that completes classifies every row of every ordinary source: `Classifies` is exactly "the model does not
decline on this budget" -/
theorem classifies_of_run (classify : Row → Except Err Classified) (sources : List Source) (cls : List Classified)
    (h : upLoop classify sources = .ok cls) : ∃ cl, Classifies classify cl sources := by
  rw [upLoop_eq_composition] at h
  refine ⟨fun r => match classify r with | .ok c => c | .error _ => ⟨"", "", "", [], 0, ""⟩, ?_⟩
  intro s hs hsupp r hr
  have hmem : r ∈ (sources.filter (fun s => !s.supplemental)).flatMap Source.rows :=
    List.mem_flatMap.mpr ⟨s, List.mem_filter.mpr ⟨hs, by simp [hsupp]⟩, hr⟩
  obtain ⟨c, hc⟩ := classifyAll_ok_mem classify _ cls h r hmem
  simp only [hc]

/-- the transactions of one source as the report sees them, amounts read exactly (`cents`) -/
def txnsOf (cents : UInt64 → Int) (cl : Row → Classified) (s : Source) : List T :=
  s.rows.map (fun r => toTotalsG cents (cl r))

/-- **The report of the modelled command is `runUp`** (the composition all theorems above are about), with
`txns s` = the classified rows of source `s`: `analyze ∘ map classify ∘ concat ∘ map parse` on the non-supplemental
sources.  Amounts are read exactly (`cents` is any reading of the amount's bit pattern as integer cents; the driver
runs the same `reportG` over IEEE doubles).  Holds for every classifier that answers on the budget's rows. -/
theorem up_report_eq_runUp (lower : String → String) (cents : UInt64 → Int) (classify : Row → Except Err Classified)
    (cl : Row → Classified) (sources : List Source) (h : Classifies classify cl sources) :
    (upLoop classify sources).map (reportG intNum lower cents) =
      .ok (runUp lower (fun s : Source => s.supplemental) (txnsOf cents cl) sources) := by
  rw [upLoop_eq_composition, classifyAll_total classify cl]
  · simp only [Except.map, reportG, runUp, List.map_flatMap, List.map_map]
    rfl
  · intro r hr
    obtain ⟨s, hs, hrs⟩ := List.mem_flatMap.mp hr
    have hf := List.mem_filter.mp hs
    exact h s hf.1 (by simpa using hf.2) r hrs

private theorem classifies_sub {classify : Row → Except Err Classified} {cl : Row → Classified} {a b : List Source}
    (h : Classifies classify cl a) (hsub : ∀ x ∈ b, x ∈ a) : Classifies classify cl b :=
  fun s hs => h s (hsub s hs)

/-- **Per-source locality of the modelled command** (any classifier): the run on all sources, the run without source
`s` and the run on `s` alone all complete, and every money-flow figure and count of the first is the sum of the other
two. -/
theorem up_source_local (lower : String → String) (cents : UInt64 → Int) (classify : Row → Except Err Classified)
    (cl : Row → Classified) (pre post : List Source) (s : Source) (hs : s.supplemental = false)
    (h : Classifies classify cl (pre ++ s :: post)) :
    ∃ whole rest own,
      (upLoop classify (pre ++ s :: post)).map (reportG intNum lower cents) = .ok whole ∧
      (upLoop classify (pre ++ post)).map (reportG intNum lower cents) = .ok rest ∧
      (upLoop classify [s]).map (reportG intNum lower cents) = .ok own ∧
      flowOf whole = ⟨rest.income + own.income, rest.spending + own.spending, rest.credits + own.credits,
        rest.transfersIn + own.transfersIn, rest.transfersOut + own.transfersOut, rest.investment + own.investment,
        rest.count + own.count, rest.total + own.total⟩ := by
  refine ⟨_, _, _, up_report_eq_runUp lower cents classify cl _ h,
    up_report_eq_runUp lower cents classify cl _ (classifies_sub h ?_),
    up_report_eq_runUp lower cents classify cl _ (classifies_sub h ?_), ?_⟩
  · intro x hx
    rcases List.mem_append.mp hx with hx | hx
    · exact List.mem_append.mpr (Or.inl hx)
    · exact List.mem_append.mpr (Or.inr (List.mem_cons_of_mem _ hx))
  · intro x hx
    rw [List.mem_singleton.mp hx]
    exact List.mem_append.mpr (Or.inr (List.mem_cons_self ..))
  · have := source_local lower (fun s : Source => s.supplemental) (txnsOf cents cl) pre post s hs
    have hown : runUp lower (fun s : Source => s.supplemental) (txnsOf cents cl) [s] = analyze N lower (txnsOf cents cl s) := by
      simp [runUp, hs]
    rw [hown]
    exact this

/-- **A source that contributes no row is neutral for the modelled command** (any classifier): supplemental, missing
/ unreadable (`parsed = none`) or empty — the transaction list is literally the one of the budget without it. -/
theorem up_silent_source_neutral (classify : Row → Except Err Classified) (pre post : List Source) (s : Source)
    (h : s.supplemental = true ∨ s.rows = []) :
    upLoop classify (pre ++ s :: post) = upLoop classify (pre ++ post) := by
  rw [upLoop_eq_composition, upLoop_eq_composition]
  congr 1
  rcases h with h | h
  · simp [List.filter_append, h]
  · by_cases hs : s.supplemental = true
    · simp [List.filter_append, hs]
    · simp [List.filter_append, List.filter_cons, hs, List.flatMap_append, List.flatMap_cons, h]

end pipeline


/-! ### Legacy CSV rule files (`merchant_categories.csv`) as an instance

`Pipeline.classifyRow` with `rb.hasEngine = false` and `rb.legacy = some lb` is `normalize_merchant` on the tuple loop
(`Rules.legacy`, C01/C02) over the per-tuple test of `Pipeline.legacyOutcome`.  Everything in the previous section
applies to it verbatim (it is one more `classify`).  What is SPECIFIC to the legacy case is which part of the world
the classifier reads: the supplemental rows reach a tuple only through an expression-shaped Pattern cell
(`matches_transaction(pattern, transaction, data_sources=…)`); the regex arm, the modifiers and the `{expr}` tags
(`_resolve_dynamic_tags(tags, transaction)`) never see them. -/

section legacy
open TallyVerif.Pipeline TallyVerif.Py TallyVerif.Expr TallyVerif.Rules TallyVerif.Engine

/-- no Pattern cell of the file is expression-shaped (`_is_expression_pattern` is false on every tuple) -/
def PlainPatterns (lb : LegacyBook) : Prop := ∀ r ∈ lb.rules, isExpressionPattern r.rule.pattern r.patternE = false

instance (lb : LegacyBook) : Decidable (PlainPatterns lb) := by unfold PlainPatterns; infer_instance

private theorem legacyEvalRules_plain (o : Oracles) (fnames : List String) (cutoff : Nat → Option Migrate.Date)
    (supp supp' : List (String × Val)) (row : Row) (rules : List LegacyRule)
    (h : ∀ r ∈ rules, isExpressionPattern r.rule.pattern r.patternE = false) :
    legacyEvalRules o fnames cutoff supp row rules = legacyEvalRules o fnames cutoff supp' row rules := by
  induction rules with
  | nil => rfl
  | cons r rest ih =>
    have hr := h r (List.mem_cons_self ..)
    simp only [legacyEvalRules, legacyEvalRule, legacyOutcome, hr, Bool.false_eq_true, if_false,
      ih (fun x hx => h x (List.mem_cons_of_mem _ hx))]

/-- **A legacy budget whose Pattern cells are all regular expressions classifies every transaction without looking
at the supplemental rows** — whatever they are, including none (and so does a budget without rules file:
`rb.legacy = none`).  The guard is exact: see `legacy_expression_pattern_reads_supplemental`. -/
theorem legacy_plain_ignores_supplemental (o : Oracles) (fnames : List String) (key : Rule → Key)
    (supp supp' : List (String × Val)) (rb : Rulebook) (row : Row) (hE : rb.hasEngine = false)
    (hplain : ∀ lb, rb.legacy = some lb → PlainPatterns lb) :
    classifyRow o fnames key supp rb row = classifyRow o fnames key supp' rb row := by
  unfold classifyRow
  simp only [hE, Bool.not_false, if_true]
  cases hl : rb.legacy with
  | none => rfl
  | some lb =>
    simp only [classifyLegacy, legacyEvalRules_plain o fnames lb.cutoff supp supp' _ lb.rules (hplain lb hl)]

/-- **Supplemental sources are query-only for the modelled command on such a budget**: configuring one more
supplemental source — `supp` / `supp'` are the tables the loader hands over with and without it — leaves the
transaction list of `tally up` literally unchanged.  (Instance of `supplemental_query_only`, with its hypothesis
`hignored` DISCHARGED for the legacy classifier.) -/
theorem legacy_supplemental_query_only (o : Oracles) (fnames : List String) (key : Rule → Key)
    (supp supp' : List (String × Val)) (rb : Rulebook) (pre post : List Source) (s : Source)
    (hs : s.supplemental = true) (hE : rb.hasEngine = false) (hplain : ∀ lb, rb.legacy = some lb → PlainPatterns lb) :
    upLoop (classifyRow o fnames key supp rb) (pre ++ s :: post) = upLoop (classifyRow o fnames key supp' rb) (pre ++ post) := by
  rw [up_silent_source_neutral _ pre post s (Or.inl hs)]
  congr 1
  funext row
  exact legacy_plain_ignores_supplemental o fnames key supp supp' rb row hE hplain

/-! kernel-checked legacy budget: `Pattern,Merchant,Category,Subcategory,Tags`

    UBER[amount>15.99][month=1],Uber Big,Transport,Rideshare,Business|{source}
    UBER,Uber,Transport,,
    EATS,,,,food|business|{}
    (any(r.item == "Book" for r in orders)),Ordered,Orders,,
    LYFT and UBER,Never,X,,          -- looks like an expression, is a regular expression after all
-/

/-- what a classification says (merchant, category, subcategory, tags, month); `none`: the model declines -/
def classTag (x : Except Err Classified) : Option (String × String × String × List String × String) :=
  x.toOption.map fun c => (c.merchant, c.category, c.subcategory, c.tags, c.month)

/-- oracles of the examples: on metacharacter-free patterns `re.search` is substring search; nothing else is consulted -/
def subOracles : Oracles := ⟨fun _ => none, fun _ => none, fun p x => some (some (strContains p x)), fun _ _ => none,
  fun _ _ _ => none, fun _ _ => none, fun _ => none, fun _ => none, fun _ _ => none, fun _ _ => none⟩
def key0 : Rule → Key := fun r => ⟨r.priority, 0, 0, 0⟩

/-- the doubles 15.99 and 16.0 -/
def b1599 : UInt64 := 0x402FFAE147AE147B
def b1600 : UInt64 := 0x4030000000000000

def anyBook : Expr :=
  .callNameGen "any" (.cmp (.attrName "r" "item") [.mk .eq (.const (.str "Book"))]) [.mk (some "r") (.name "orders") []] []

def legacyBook : LegacyBook :=
  { rules := [
      { rule := ⟨0, "UBER", "Uber Big", "Transport", "Rideshare", "user"⟩, patternE := none,
        mods := ⟨[.gt ⟨(unitsOfBits b1599).getD 0, []⟩], [.month 1]⟩, tags := [.static "Business", .dynamic (some (.name "source"))] },
      { rule := ⟨1, "UBER", "Uber", "Transport", "", "user"⟩, patternE := none, mods := ⟨[], []⟩, tags := [] },
      { rule := ⟨2, "EATS", "", "", "", "user"⟩, patternE := none, mods := ⟨[], []⟩, tags := [.static "food", .static "business", .blank] },
      { rule := ⟨3, "(any(r.item == \"Book\" for r in orders))", "Ordered", "Orders", "", "user"⟩, patternE := some anyBook,
        mods := ⟨[], []⟩, tags := [] },
      { rule := ⟨4, "LYFT and UBER", "Never", "X", "", "user"⟩, patternE := some (.boolop true [.name "LYFT", .name "UBER"]),
        mods := ⟨[], []⟩, tags := [] }],
    cutoff := fun _ => none }
def legacyRb : Rulebook :=
  { mode := .firstMatch, variables := [], transforms := [], rules := [], hasEngine := false, legacy := some legacyBook }
def plainRb : Rulebook := { legacyRb with legacy := some { legacyBook with rules := legacyBook.rules.take 3 } }
def rowOf (d : String) (a : UInt64) (dt : Date) : Row := ⟨d, a, some dt, "Src0", none, none⟩
def orderRows : List (String × Val) := [("orders", .list [.row [("item", .str "Book"), ("amount", .int 1599)]])]

/-- first match in file order, modifiers exact on the double (15.99 is not > 15.99; 16.0 is; February is not month 1),
tags of EVERY matching tuple de-duplicated in order, the description upper-cased before the search, Unknown fallback
under the extracted name, an expression-shaped cell that does not evaluate searched as a regular expression -/
example :
    classTag (classifyRow subOracles [] key0 [] legacyRb (rowOf "uber eats 123" b1599 ⟨2025, 1, 4⟩)) = some ("Uber", "Transport", "", ["food", "business"], "2025-01") ∧
    classTag (classifyRow subOracles [] key0 [] legacyRb (rowOf "uber eats 123" b1600 ⟨2025, 1, 4⟩)) = some ("Uber Big", "Transport", "Rideshare", ["business", "src0", "food"], "2025-01") ∧
    classTag (classifyRow subOracles [] key0 [] legacyRb (rowOf "uber eats 123" b1600 ⟨2025, 2, 4⟩)) = some ("Uber", "Transport", "", ["food", "business"], "2025-02") ∧
    classTag (classifyRow subOracles [] key0 [] legacyRb (rowOf "SHELL OIL 42" b1600 ⟨2025, 2, 4⟩)) = some ("Shell Oil", "Unknown", "Unknown", [], "2025-02") ∧
    classTag (classifyRow subOracles [] key0 [] legacyRb (rowOf "X LYFT and UBER" b1600 ⟨2025, 2, 4⟩)) = some ("Uber", "Transport", "", [], "2025-02") := by
  refine ⟨?_, ?_, ?_, ?_, ?_⟩ <;> decide +kernel

/-- **The per-tuple evaluation the loop consumes is each tuple's own.**  `classifyLegacy` hands `Rules.legacy` the
function `levOf table` (a lookup by the tuple's position `idx`); when positions are distinct — they are: the loader
numbers the tuples — that function returns, for every tuple of the file, exactly what `legacyEvalRule` computed for
THAT tuple on this transaction.  Hence every theorem of C01 / C02 about `Rules.legacy ev` (first match in file order,
non-matching and later tuples irrelevant, tags = de-duplicated union over all matching tuples, tag-only tuples
neutral) holds for the legacy pipeline with `ev r` = "tuple r's own test and tags". -/
theorem levOf_spec (o : Oracles) (fnames : List String) (cutoff : Nat → Option Migrate.Date) (supp : List (String × Val))
    (row : Row) (rules : List LegacyRule) (table : List (LRule × LEval))
    (h : legacyEvalRules o fnames cutoff supp row rules = .ok table) (hnd : (rules.map (·.rule.idx)).Nodup) :
    ∀ r ∈ rules, legacyEvalRule o fnames cutoff supp row r = .ok (levOf table r.rule) := by
  induction rules generalizing table with
  | nil => intro r hr; cases hr
  | cons x rest ih =>
    simp only [legacyEvalRules] at h
    cases hx : legacyEvalRule o fnames cutoff supp row x with
    | error e => rw [hx] at h; cases h
    | ok e =>
      rw [hx] at h
      cases hrest : legacyEvalRules o fnames cutoff supp row rest with
      | error e' => rw [hrest] at h; cases h
      | ok es =>
        rw [hrest] at h
        have ht : table = (x.rule, e) :: es := by cases h; rfl
        subst ht
        rw [List.map_cons, List.nodup_cons] at hnd
        intro r hr
        rcases List.mem_cons.mp hr with rfl | hr
        · rw [hx]; simp [levOf, List.find?_cons]
        · have hne : (x.rule.idx == r.rule.idx) = false := by
            rw [beq_eq_false_iff_ne]
            intro heq
            exact hnd.1 (heq ▸ List.mem_map.mpr ⟨r, hr, rfl⟩)
          rw [ih es hrest hnd.2 r hr]
          simp [levOf, List.find?_cons, hne]

/-- **First match in file order, end to end.**  Whenever the legacy pipeline classifies a transaction (does not
decline), there is ONE per-tuple evaluation `ev` — each tuple's own test and tags on this transaction
(`legacyEvalRule`: expression or regex arm, modifiers, dynamic tags) — such that merchant / category / subcategory are
those of the first tuple, in file order, that matched and carries a category, and otherwise the Unknown fallback under
the name extracted from the (transformed) description.  (C01's `legacy_first_match_spec` composed with `levOf_spec`.) -/
theorem legacy_pipeline_first_match (o : Oracles) (fnames : List String) (supp : List (String × Val)) (lb : LegacyBook)
    (row : Row) (res : LResult) (h : classifyLegacy o fnames supp lb row = .ok res)
    (hnd : (lb.rules.map (·.rule.idx)).Nodup) :
    ∃ ev : LegacyRule → LEval,
      (∀ r ∈ lb.rules, legacyEvalRule o fnames lb.cutoff supp row r = .ok (ev r)) ∧
      (res.merchant, res.category, res.subcategory) =
        match lb.rules.find? (fun r => (ev r).outcome == .matched && r.rule.category != "") with
        | some r => (r.rule.merchant, r.rule.category, r.rule.subcategory)
        | none => (extractMerchantName row.description, "Unknown", "Unknown") := by
  unfold classifyLegacy at h
  cases ht : legacyEvalRules o fnames lb.cutoff supp row lb.rules with
  | error e => rw [ht] at h; cases h
  | ok table =>
    rw [ht] at h
    have hres : res = Rules.legacy (levOf table) (extractMerchantName row.description) (lb.rules.map (·.rule)) := by
      cases h; rfl
    refine ⟨fun r => levOf table r.rule, levOf_spec o fnames lb.cutoff supp row lb.rules table ht hnd, ?_⟩
    have hspec := (TallyVerif.Props.C01.legacy_first_match_spec (levOf table) (extractMerchantName row.description) (lb.rules.map (·.rule))).2
    rw [← hres] at hspec
    rw [hspec, List.find?_map]
    have hfun : (TallyVerif.Props.C01.lwins (levOf table) ∘ fun r : LegacyRule => r.rule) =
        fun r => (levOf table r.rule).outcome == .matched && r.rule.category != "" := rfl
    rw [hfun]
    cases lb.rules.find? (fun r => (levOf table r.rule).outcome == .matched && r.rule.category != "") <;> rfl

/-- **Tags, end to end**: a tag is on the transaction exactly when some tuple of the file matched it and resolved that
tag — categorising or tag-only, before or after the deciding tuple.  (C02's `legacy_tags_iff` composed with `levOf_spec`.) -/
theorem legacy_pipeline_tags (o : Oracles) (fnames : List String) (supp : List (String × Val)) (lb : LegacyBook)
    (row : Row) (res : LResult) (h : classifyLegacy o fnames supp lb row = .ok res)
    (hnd : (lb.rules.map (·.rule.idx)).Nodup) :
    ∃ ev : LegacyRule → LEval,
      (∀ r ∈ lb.rules, legacyEvalRule o fnames lb.cutoff supp row r = .ok (ev r)) ∧
      ∀ t, t ∈ res.tags ↔ ∃ r ∈ lb.rules, (ev r).outcome = .matched ∧ t ∈ (ev r).tags := by
  unfold classifyLegacy at h
  cases ht : legacyEvalRules o fnames lb.cutoff supp row lb.rules with
  | error e => rw [ht] at h; cases h
  | ok table =>
    rw [ht] at h
    have hres : res = Rules.legacy (levOf table) (extractMerchantName row.description) (lb.rules.map (·.rule)) := by
      cases h; rfl
    refine ⟨fun r => levOf table r.rule, levOf_spec o fnames lb.cutoff supp row lb.rules table ht hnd, ?_⟩
    intro t
    rw [hres, TallyVerif.Props.C02.legacy_tags_iff]
    constructor
    · rintro ⟨lr, hlr, hm, htag⟩
      obtain ⟨r, hr, rfl⟩ := List.mem_map.mp hlr
      exact ⟨r, hr, hm, htag⟩
    · rintro ⟨r, hr, hm, htag⟩
      exact ⟨r.rule, List.mem_map.mpr ⟨r, hr, rfl⟩, hm, htag⟩

example : (legacyBook.rules.map (·.rule.idx)).Nodup := by decide

/-- The guard of `legacy_plain_ignores_supplemental` is needed: ONE expression-shaped Pattern cell and the same
statement line is classified differently with and without the supplemental rows. -/
theorem legacy_expression_pattern_reads_supplemental :
    legacyRb.hasEngine = false ∧ ¬ PlainPatterns legacyBook ∧
    classTag (classifyRow subOracles [] key0 orderRows legacyRb (rowOf "AMZN MKTP" b1599 ⟨2025, 3, 9⟩)) = some ("Ordered", "Orders", "", [], "2025-03") ∧
    classTag (classifyRow subOracles [] key0 [] legacyRb (rowOf "AMZN MKTP" b1599 ⟨2025, 3, 9⟩)) = some ("Amzn Mktp", "Unknown", "Unknown", [], "2025-03") := by
  refine ⟨?_, ?_, ?_, ?_⟩ <;> decide +kernel

/-- hypotheses of `legacy_plain_ignores_supplemental` / `legacy_supplemental_query_only` on a non-trivial budget: the
three regular-expression tuples, two ordinary sources and a supplemental one in between -/
example : plainRb.hasEngine = false ∧ (∀ lb, plainRb.legacy = some lb → PlainPatterns lb) ∧
    classTag (classifyRow subOracles [] key0 orderRows plainRb (rowOf "uber trip" b1599 ⟨2025, 1, 9⟩)) =
      some ("Uber", "Transport", "", [], "2025-01") := by
  refine ⟨rfl, ?_, by decide +kernel⟩
  intro lb h
  cases h
  decide +kernel

def bankSrc : Source := ⟨false, some [rowOf "uber eats 123" b1599 ⟨2025, 1, 4⟩, rowOf "SHELL OIL 42" b1600 ⟨2025, 2, 4⟩]⟩
def cardSrc : Source := ⟨false, some [rowOf "uber trip" b1599 ⟨2025, 1, 9⟩]⟩
def ordersSrc : Source := ⟨true, some [rowOf "Book" b1599 ⟨2025, 1, 5⟩]⟩
def missingSrc : Source := ⟨false, none⟩
/-- exact cents of the two doubles of the examples -/
def centsOf (b : UInt64) : Int := if b == b1600 then 1600 else 1599

/-- the whole modelled command on the legacy budget, exact cents: 3 transactions, 47.98 spent; the supplemental and
the missing source contribute no transaction, the loaded `orders` table decides the SHELL line (tuple 3) -/
theorem legacy_budget_run :
    ((upLoop (classifyRow subOracles [] key0 orderRows legacyRb) [bankSrc, ordersSrc, missingSrc, cardSrc]).toOption.map
        (fun cls => (cls.map (·.merchant), flowOf (reportG intNum asciiLower centsOf cls)))) =
      some (["Uber", "Ordered", "Uber"], ⟨0, 4798, 0, 0, 0, 0, 3, 4798⟩) := by
  decide +kernel

/-- hypotheses of `up_report_eq_runUp` / `up_source_local` on that budget: the run completes, so the legacy classifier
answers on every row of every ordinary source -/
example : ∃ cl, Classifies (classifyRow subOracles [] key0 orderRows legacyRb) cl [bankSrc, ordersSrc, missingSrc, cardSrc] := by
  cases h : upLoop (classifyRow subOracles [] key0 orderRows legacyRb) [bankSrc, ordersSrc, missingSrc, cardSrc] with
  | ok cls => exact classifies_of_run _ _ cls h
  | error e =>
    have := legacy_budget_run
    rw [h] at this
    exact absurd this (by simp [Except.toOption])

/-- `apply_transforms` evaluates a transform on the transaction ALONE: `field.description = len(orders)` raises (unknown
name), is skipped, and the description — hence the classification — is what it is without the transform, even though
the supplemental rows are loaded (confirmed on the code: `normalize_merchant('UBER EATS', [], amount=5.0,
transforms=[('field.description', 'len(orders)')], data_sources={'orders': [{}, {}]})` → `('Uber Eats', 'Unknown', 'Unknown', None)`). -/
theorem transform_sees_no_supplemental :
    classTag (classifyRow subOracles [] key0 orderRows
      { legacyRb with transforms := [("description", some (.callName "len" [.name "orders"]))] }
      (rowOf "uber eats 123" b1599 ⟨2025, 1, 4⟩)) = some ("Uber", "Transport", "", ["food", "business"], "2025-01") := by
  decide +kernel

end legacy

/-! non-vacuity: three sources (one supplemental, one empty) -/
inductive Src | bank | card | orders | missing
deriving DecidableEq
def supp : Src → Bool | .orders => true | _ => false
def tx : Src → List T
  | .bank => [⟨-10000, some ["income"], "Emp", "Income", "", "2025-01"⟩, ⟨2500, none, "Shop", "Food", "", "2025-01"⟩]
  | .card => [⟨4200, some [], "Shop", "Food", "", "2025-02"⟩]
  | .orders => [⟨999, none, "Order", "X", "", "2025-02"⟩]
  | .missing => []
example : flowOf (runUp asciiLower supp tx [.bank, .orders, .missing, .card]) = ⟨10000, 6700, 0, 0, 0, 0, 3, -3300⟩ := by
  decide +kernel
example : Silent supp tx .orders ∧ Silent supp tx .missing := ⟨Or.inl rfl, Or.inr rfl⟩

/-! non-vacuity of the I/O theorems: `.missing` raises when read, the `.orders` table cannot be loaded, and still the
bank and card figures are exactly those of the two-source budget -/
def rd (_ : List Nat) : Src → Except String (List T)
  | .missing => .error "'utf-8' codec can't decode byte 0xe9"
  | s => .ok (tx s)
def rdSupp : Src → Except String Nat
  | .orders => .error "[Errno 21] Is a directory"
  | _ => .ok 0
example : (∀ d, ∃ e, rd d .missing = .error e) ∧ rdSupp .orders = .error "[Errno 21] Is a directory" :=
  ⟨fun _ => ⟨_, rfl⟩, rfl⟩
example : flowOf (runUpIO asciiLower supp rdSupp rd [.bank, .orders, .missing, .card]) =
    flowOf (runUpIO asciiLower supp rdSupp rd [.bank, .card]) := by
  decide +kernel

/-! ### Settings resolution: from the settings object to the report

The section above takes each source's parse parameters as given.  Here they are DERIVED: `Config.resolveConfig` is
`config_loader.load_config` on the object `yaml.safe_load` returned (any YAML value, Python's truthiness and dynamic typing
kept, what Python raises an error value), `Config.planSources` is the list of parser calls `commands/run.cmd_run` makes, in
order, with their arguments, `Config.readArgs` is what the reader makes of those arguments, and
`PipelineCfg.upFromSettings` composes them with C05's tokeniser and row parser and the loop `Pipeline.upLoop` above.  All
three are tied to the code on every run (streams `load`, `plan`, `read` of the check; the end-to-end stream runs the model
FROM the settings object).  Theorems quantify over every `Fmt.Ext` (CPython's non-ASCII `lower` / `\w` / `isspace`), every
`os.path.exists`, every outcome of the views loader, every file content and every `float()` / `strptime` / regex oracle. -/

section settings
open TallyVerif TallyVerif.Totals TallyVerif.Props.C06 TallyVerif.Config TallyVerif.PipelineCfg TallyVerif.Pipeline TallyVerif.Py TallyVerif.Gen

/-! #### absent = documented default -/

/-- **Defaults — `delimiter`.**  A source WITHOUT the key resolves exactly like the source with `delimiter: null` (comma):
`FormatSpec.delimiter` is None in both cases, whatever else the entry says (also when it is rejected: same error). -/
theorem default_delimiter (e : Fmt.Ext) (d : Dict) :
    resolveSource e (.map (erase kDelimiter d)) = resolveSource e (.map (insert kDelimiter .null d)) :=
  resolveSource_absent_delimiter e (erase kDelimiter d) (get_erase_self _ _)

/-- **Defaults — `has_header`.**  Absent = `has_header: true`. -/
theorem default_has_header (e : Fmt.Ext) (d : Dict) :
    resolveSource e (.map (erase kHasHeader d)) = resolveSource e (.map (insert kHasHeader (.bool true) d)) :=
  resolveSource_absent_has_header e (erase kHasHeader d) (get_erase_self _ _)

/-- **Defaults — `decimal_separator`.**  Absent = `decimal_separator: "."` (the value `cmd_run` and the supplemental loader read
with `source.get('decimal_separator', '.')`). -/
theorem default_decimal_separator (e : Fmt.Ext) (d : Dict) :
    resolveSource e (.map (erase kDecimalSeparator d)) = resolveSource e (.map (insert kDecimalSeparator (.str ['.']) d)) :=
  resolveSource_absent_decimal_separator e (erase kDecimalSeparator d) (get_erase_self _ _)

/-- **Defaults — `supplemental`.**  Absent = `supplemental: false`. -/
theorem default_supplemental (e : Fmt.Ext) (d : Dict) :
    resolveSource e (.map (erase kSupplemental d)) = resolveSource e (.map (insert kSupplemental (.bool false) d)) :=
  resolveSource_absent_supplemental e (erase kSupplemental d) (get_erase_self _ _)

private theorem formatFlag_erase_negate (e : Fmt.Ext) (d : Dict) : formatFlag e (erase kNegateAmount d) = formatFlag e d := by
  have h1 : get kFormat (erase kNegateAmount d) = get kFormat d := by rw [get_erase]; simp (config := { decide := true })
  have h2 : templateOf (erase kNegateAmount d) = templateOf d := by
    unfold templateOf; rw [get_erase]; simp (config := { decide := true })
  simp only [formatFlag, h1, h2]

/-- **Defaults — `negate_amount`.**  Absent = the flag the source's OWN format string carries (`b` = does it say `{-amount}`):
the key, when present, REPLACES that flag.  So the documented default `false` is the default exactly for formats without the
minus sign; with `{-amount}`, `negate_amount: false` switches the negation off (`negate_amount_false_overrides_minus_sign`). -/
theorem default_negate_amount (e : Fmt.Ext) (d : Dict) (b : Bool) (h : formatFlag e d = some b) :
    resolveSource e (.map (erase kNegateAmount d)) = resolveSource e (.map (insert kNegateAmount (.bool b) d)) :=
  resolveSource_absent_negate_amount e (erase kNegateAmount d) (.bool b) (get_erase_self _ _)
    (Or.inr ⟨b, by rw [formatFlag_erase_negate, h], rfl⟩)

/-- …and on an entry without a (valid) `format` — a `type: amex|boa` source, a rejected entry — `negate_amount` is not read at all -/
theorem negate_amount_without_format (e : Fmt.Ext) (d : Dict) (v : Y) (h : formatFlag e d = none) :
    resolveSource e (.map (erase kNegateAmount d)) = resolveSource e (.map (insert kNegateAmount v d)) :=
  resolveSource_absent_negate_amount e (erase kNegateAmount d) v (get_erase_self _ _)
    (Or.inl (by rw [formatFlag_erase_negate, h]))

/-! #### rule mode -/

private theorem top_get_erase_insert (k : Str) (v : Y) (c : Dict) (k' : Str) (hk : k' ≠ k) :
    get k' (erase k c) = get k' (insert k v c) := by
  rw [get_erase, get_insert]; simp [hk]

/-- **Defaults — `rule_mode`.**  A settings object without the key loads exactly like the one with `rule_mode: first_match`
(same sources, same files, same warnings, same error if any). -/
theorem default_rule_mode (env : Env) (c : Dict) :
    resolveConfig env (.map (erase kRuleMode c)) = resolveConfig env (.map (insert kRuleMode (.str sFirstMatch) c)) := by
  rw [resolveConfig_eq_assemble, resolveConfig_eq_assemble]
  have hm : resolveRuleMode (erase kRuleMode c) = resolveRuleMode (insert kRuleMode (.str sFirstMatch) c) := by
    simp (config := { decide := true }) [resolveRuleMode, get_erase, get_insert]
  rw [hm, top_get_erase_insert kRuleMode _ c kDataSources (by decide),
    resolveRulesFile_congr env _ _ (top_get_erase_insert kRuleMode (.str sFirstMatch) c kMerchantsFile (by decide)),
    resolveViewsFile_congr env _ _ (top_get_erase_insert kRuleMode (.str sFirstMatch) c kViewsFile (by decide)),
    removedWarnings_congr _ _ (fun k hk => top_get_erase_insert kRuleMode (.str sFirstMatch) c k (by
      intro e; subst e; revert hk; decide)),
    top_get_erase_insert kRuleMode _ c kDescriptionCleaning (by decide)]

/-- what a configuration says apart from the rule mode and the warnings -/
def apartFromMode (cfg : Config) : List SourceCfg × RulesFile × Option Str × Y :=
  (cfg.sources, cfg.rulesFile, cfg.viewsFile, cfg.descriptionCleaning)

/-- **Rule mode — never an error.**  Whatever `rule_mode` is set to (any YAML value: a number, a list, null, a misspelling),
loading succeeds or fails exactly as it does without the key, with the same sources, rules file, views file — and the same
error.  The key can only move the mode and the warnings. -/
theorem rule_mode_never_an_error (env : Env) (c : Dict) (v : Y) :
    (resolveConfig env (.map (insert kRuleMode v c))).map apartFromMode =
      (resolveConfig env (.map (erase kRuleMode c))).map apartFromMode := by
  rw [resolveConfig_eq_assemble, resolveConfig_eq_assemble]
  rw [← top_get_erase_insert kRuleMode v c kDataSources (by decide),
    ← resolveRulesFile_congr env _ _ (top_get_erase_insert kRuleMode v c kMerchantsFile (by decide)),
    ← resolveViewsFile_congr env _ _ (top_get_erase_insert kRuleMode v c kViewsFile (by decide)),
    ← top_get_erase_insert kRuleMode v c kDescriptionCleaning (by decide)]
  simp only [assemble]
  cases resolveSources env.ext (get kDataSources (erase kRuleMode c)) with
  | error err => rfl
  | ok ss =>
    cases resolveRulesFile env (erase kRuleMode c) with
    | error err => rfl
    | ok p =>
      cases resolveViewsFile env (erase kRuleMode c) with
      | error err => rfl
      | ok p2 => rfl

private theorem rulesFile_warnings (env : Env) (c : Dict) (rf : RulesFile) (wr : List Warning)
    (h : resolveRulesFile env c = .ok (rf, wr)) : wr = [] ∨ wr = [.merchantsNotFound] := by
  unfold resolveRulesFile at h
  simp only at h
  split at h
  · split at h
    · split at h <;> cases h <;> simp
    · cases h
  · split at h <;> cases h <;> simp

private theorem viewsFile_warnings (env : Env) (c : Dict) (vf : Option Str) (wv : List Warning)
    (h : resolveViewsFile env c = .ok (vf, wv)) : wv = [] ∨ wv = [.viewsError] ∨ wv = [.viewsNotFound] := by
  unfold resolveViewsFile at h
  simp only at h
  split at h
  · split at h
    · split at h
      · split at h <;> first | (cases h; simp) | cases h
      · cases h; simp
    · cases h
  · cases h; simp

private theorem not_mem_parserWarnings (ss : List SourceCfg) : Warning.invalidRuleMode ∉ parserWarnings ss := by
  intro h
  simp only [parserWarnings, List.mem_filterMap] at h
  obtain ⟨s, _, hs⟩ := h
  split at hs <;> cases hs

private theorem not_mem_removedWarnings (c : Dict) : Warning.invalidRuleMode ∉ removedWarnings c := by
  unfold removedWarnings
  split <;> simp

/-- **Rule mode — only the two legal spellings select a mode.**  `most_specific` is in force iff the value is exactly the
string `most_specific` (not `Most_Specific`, not `most-specific`, not `[most_specific]`); the "invalid rule_mode" warning is
there iff the key is present with a value that is neither of the two strings; in every other case the mode is `first_match`
(`RuleMode` has two values). -/
theorem rule_mode_spec (env : Env) (c : Dict) (cfg : Config) (h : resolveConfig env (.map c) = .ok cfg) :
    (cfg.ruleMode = .mostSpecific ↔ get kRuleMode c = some (.str sMostSpecific)) ∧
    (Warning.invalidRuleMode ∈ cfg.warnings ↔
      ∃ v, get kRuleMode c = some v ∧ v ≠ .str sFirstMatch ∧ v ≠ .str sMostSpecific) := by
  obtain ⟨ss, rf, wr, vf, wv, _, hrf, hvf, rfl⟩ := resolveConfig_ok env c cfg h
  have hwr := rulesFile_warnings env c rf wr hrf
  have hwv := viewsFile_warnings env c vf wv hvf
  have hmem : Warning.invalidRuleMode ∈ parserWarnings ss ++ removedWarnings c ++ (resolveRuleMode c).2 ++ wr ++ wv ↔
      Warning.invalidRuleMode ∈ (resolveRuleMode c).2 := by
    have h1 := not_mem_parserWarnings ss
    have h2 := not_mem_removedWarnings c
    rcases hwr with rfl | rfl <;> rcases hwv with rfl | rfl | rfl <;> simp [h1, h2]
  simp only [hmem]
  unfold resolveRuleMode
  cases hg : get kRuleMode c with
  | none => simp
  | some v =>
    cases v with
    | str s =>
      by_cases h1 : s = sMostSpecific
      · subst h1; simp (config := { decide := true })
      · by_cases h2 : s = sFirstMatch
        · subst h2; simp (config := { decide := true })
        · simp [h1, h2]
    | _ => simp

/-! #### which rules file -/

/-- the path `merchants_file: s` names, and the legacy file -/
def configuredRulesPath (env : Env) (s : Str) : Str := pjoin2 (dirname env.cfgDir) s
def legacyRulesPath (env : Env) : Str := pjoin2 env.cfgDir ConfigTables.LEGACY_CSV_NAME

private theorem truthy_str (s : Str) : (Y.str s).truthy = true ↔ s ≠ [] := by
  cases s <;> simp [Y.truthy]

/-- **Which rules file — the three-way choice, exactly.**  `merchants_file` names an existing file (relative to the budget
directory) ⇔ that file, format `new`; `merchants_file` is absent OR FALSY (`""`, null, false, 0, [] — `if merchants_file:`) and
`config/merchant_categories.csv` exists ⇔ the legacy CSV, format `csv`; otherwise — configured & missing, or nothing configured
and no legacy file — no rules at all. -/
theorem rules_file_selection (env : Env) (c : Dict) (cfg : Config) (h : resolveConfig env (.map c) = .ok cfg) :
    (∀ p, cfg.rulesFile = .new p ↔
      ∃ s, get kMerchantsFile c = some (.str s) ∧ s ≠ [] ∧ p = configuredRulesPath env s ∧ env.pathExists p = true) ∧
    (∀ p, cfg.rulesFile = .csv p ↔
      ((get kMerchantsFile c).getD .null).truthy = false ∧ p = legacyRulesPath env ∧ env.pathExists p = true) ∧
    (cfg.rulesFile = .none ↔
      (∃ s, get kMerchantsFile c = some (.str s) ∧ s ≠ [] ∧ env.pathExists (configuredRulesPath env s) = false) ∨
      (((get kMerchantsFile c).getD .null).truthy = false ∧ env.pathExists (legacyRulesPath env) = false)) := by
  obtain ⟨ss, rf, wr, vf, wv, _, hrf, _, rfl⟩ := resolveConfig_ok env c cfg h
  simp only
  unfold resolveRulesFile at hrf
  simp only at hrf
  unfold configuredRulesPath legacyRulesPath
  generalize hv : (get kMerchantsFile c).getD .null = v at hrf ⊢
  have hget : ∀ s, get kMerchantsFile c = some (.str s) → v = .str s := by
    intro s e; rw [e] at hv; exact hv.symm
  have hget' : ∀ s, s ≠ [] → v = .str s → get kMerchantsFile c = some (.str s) := by
    intro s hs e
    cases hg : get kMerchantsFile c with
    | none => rw [hg] at hv; simp at hv; rw [← hv] at e; cases e
    | some w => rw [hg] at hv; simp at hv; rw [hv, e]
  split at hrf
  · rename_i ht
    split at hrf
    · rename_i s
      have hs : s ≠ [] := (truthy_str s).mp ht
      have hg := hget' s hs rfl
      split at hrf
      · rename_i hex
        cases hrf
        refine ⟨fun p => ⟨fun e => ?_, fun ⟨s', e1, _, e3, _⟩ => ?_⟩, fun p => ⟨(fun e => by cases e), fun ⟨e1, _⟩ => ?_⟩,
          ⟨(fun e => by cases e), fun e => ?_⟩⟩
        · cases e; exact ⟨s, hg, hs, rfl, hex⟩
        · rw [hg] at e1; cases e1; rw [e3]
        · rw [ht] at e1; cases e1
        · rcases e with ⟨s', e1, _, e3⟩ | ⟨e1, _⟩
          · rw [hg] at e1; cases e1; rw [hex] at e3; cases e3
          · rw [ht] at e1; cases e1
      · rename_i hex
        cases hrf
        refine ⟨fun p => ⟨(fun e => by cases e), fun ⟨s', e1, _, e3, e4⟩ => ?_⟩, fun p => ⟨(fun e => by cases e), fun ⟨e1, _⟩ => ?_⟩,
          ⟨fun _ => Or.inl ⟨s, hg, hs, (by simpa using hex)⟩, fun _ => rfl⟩⟩
        · rw [hg] at e1; cases e1; rw [e3] at e4; exact absurd e4 hex
        · rw [ht] at e1; cases e1
    · cases hrf
  · rename_i ht
    have htf : v.truthy = false := by simpa using ht
    have hno : ∀ s, get kMerchantsFile c = some (.str s) → s ≠ [] → False := by
      intro s e hs
      have := hget s e
      rw [this] at htf
      exact absurd ((truthy_str s).mpr hs) (by simp [htf])
    split at hrf
    · rename_i hex
      cases hrf
      refine ⟨fun p => ⟨(fun e => by cases e), fun ⟨s', e1, e2, _⟩ => (hno s' e1 e2).elim⟩,
        fun p => ⟨fun e => ?_, fun ⟨_, e2, _⟩ => (by rw [e2])⟩, ⟨(fun e => by cases e), fun e => ?_⟩⟩
      · cases e; exact ⟨htf, rfl, hex⟩
      · rcases e with ⟨s', e1, e2, _⟩ | ⟨_, e2⟩
        · exact (hno s' e1 e2).elim
        · rw [hex] at e2; cases e2
    · rename_i hex
      cases hrf
      refine ⟨fun p => ⟨(fun e => by cases e), fun ⟨s', e1, e2, _⟩ => (hno s' e1 e2).elim⟩,
        fun p => ⟨(fun e => by cases e), fun ⟨_, e2, e3⟩ => ?_⟩, ⟨fun _ => Or.inr ⟨htf, (by simpa using hex)⟩, fun _ => rfl⟩⟩
      rw [e2] at e3; exact absurd e3 hex

/-- **A configured-but-missing `merchants_file` never silently falls back to the legacy CSV**: no rules are loaded (everything
is `Unknown`) and the "Merchants file not found" warning is recorded — whether or not `config/merchant_categories.csv` exists. -/
theorem configured_missing_never_legacy (env : Env) (c : Dict) (cfg : Config) (s : Str)
    (h : resolveConfig env (.map c) = .ok cfg) (hmf : get kMerchantsFile c = some (.str s)) (hs : s ≠ [])
    (hmiss : env.pathExists (configuredRulesPath env s) = false) :
    cfg.rulesFile = .none ∧ Warning.merchantsNotFound ∈ cfg.warnings := by
  refine ⟨((rules_file_selection env c cfg h).2.2).mpr (Or.inl ⟨s, hmf, hs, hmiss⟩), ?_⟩
  obtain ⟨ss, rf, wr, vf, wv, _, hrf, _, rfl⟩ := resolveConfig_ok env c cfg h
  have : wr = [.merchantsNotFound] := by
    unfold resolveRulesFile at hrf
    unfold configuredRulesPath at hmiss
    simp only [hmf, Option.getD_some, (truthy_str s).mpr hs, if_true, hmiss, Bool.false_eq_true, if_false, Except.ok.injEq,
      Prod.mk.injEq] at hrf
    exact hrf.2.symm
  simp [this]

/-- …whereas a FALSY `merchants_file` (`merchants_file: ""`, `merchants_file:` with nothing after it) IS the same as no key at
all — including the fall-back to the legacy CSV. -/
theorem falsy_merchants_file_is_absent (env : Env) (c : Dict) (v : Y) (hv : v.truthy = false) :
    resolveConfig env (.map (insert kMerchantsFile v c)) = resolveConfig env (.map (erase kMerchantsFile c)) := by
  rw [resolveConfig_eq_assemble, resolveConfig_eq_assemble]
  have hr : resolveRulesFile env (insert kMerchantsFile v c) = resolveRulesFile env (erase kMerchantsFile c) := by
    have hn : Y.null.truthy = false := rfl
    simp [resolveRulesFile, get_insert, get_erase, hv, hn]
  rw [hr, ← top_get_erase_insert kMerchantsFile v c kDataSources (by decide),
    ← resolveRuleMode_congr _ _ (top_get_erase_insert kMerchantsFile v c kRuleMode (by decide)),
    ← resolveViewsFile_congr env _ _ (top_get_erase_insert kMerchantsFile v c kViewsFile (by decide)),
    ← removedWarnings_congr _ _ (fun k hk => top_get_erase_insert kMerchantsFile v c k (by
      intro e; subst e; revert hk; decide)),
    ← top_get_erase_insert kMerchantsFile v c kDescriptionCleaning (by decide)]

/-! #### which entries abort the load -/

/-- `parse_format_string` accepts the format with this `columns.description` value -/
def FormatOk (e : Fmt.Ext) (f : Str) (tmpl : Y) : Bool :=
  match tmpl with
  | .str t => (Fmt.Impl.parseFormat e f (some t)).isOk
  | _ => !tmpl.truthy && (Fmt.Impl.parseFormat e f none).isOk

/-- **the source entries `load_config` accepts**: a mapping without a removed key that has EITHER a `format` that is a string
`parse_format_string` accepts together with `columns.description` (a string, or any falsy value) OR, failing a `format` key, a
`type` that is a string naming a special parser in any letter case.  Nothing else is looked at: `name`, `file`, `delimiter`,
`has_header`, `negate_amount`, `decimal_separator`, `supplemental` may be absent or of any type. -/
def SourceOk (e : Fmt.Ext) : Y → Bool
  | .map d =>
    !(ConfigTables.REMOVED_SOURCE_KEYS.any fun k => has k d) &&
    (match get kFormat d with
     | some (.str f) => FormatOk e f (templateOf d)
     | some _ => false
     | none =>
       match get kType d with
       | some (.str t) => ConfigTables.SPECIAL_PARSERS.contains (e.lower (e.lower t))
       | _ => false)
  | _ => false

private theorem find_none_iff_any {α : Type} (l : List α) (p : α → Bool) : (l.find? p).isNone = !l.any p := by
  induction l with
  | nil => rfl
  | cons a l ih =>
    simp only [List.find?_cons, List.any_cons]
    cases p a <;> simp [ih]

private theorem parseFormatY_isOk (e : Fmt.Ext) (f : Str) (tmpl : Y) : (parseFormatY e (.str f) tmpl).isOk = FormatOk e f tmpl := by
  unfold parseFormatY FormatOk
  simp only
  split
  · rename_i t; simp only; cases Fmt.Impl.parseFormat e f (some t) <;> rfl
  · by_cases ht : tmpl.truthy = true
    · simp only [ht, if_true, Bool.not_true, Bool.false_and]
      cases Fmt.Impl.parseFormat e f (some ['x']) with
      | error err => simp only; split <;> rfl
      | ok _ => rfl
    · have : tmpl.truthy = false := by simpa using ht
      simp only [this, Bool.false_eq_true, if_false, Bool.not_false, Bool.true_and]
      cases Fmt.Impl.parseFormat e f none <;> rfl

private theorem isOk_map {ε α β : Type} (f : α → β) (x : Except ε α) : (x.map f).isOk = x.isOk := by
  cases x <;> rfl

/-- **Error locality — which source entries `resolve_source_format` rejects**: exactly those outside `SourceOk`. -/
theorem source_ok_iff (e : Fmt.Ext) (y : Y) : (resolveSource e y).isOk = SourceOk e y := by
  cases y with
  | map d =>
    unfold resolveSource SourceOk
    have hf := find_none_iff_any ConfigTables.REMOVED_SOURCE_KEYS (fun k => has k d)
    cases hfind : ConfigTables.REMOVED_SOURCE_KEYS.find? (fun k => has k d) with
    | some k =>
      rw [hfind] at hf
      have : (ConfigTables.REMOVED_SOURCE_KEYS.any fun k => has k d) = true := by simpa using hf
      simp only [this, Bool.not_true, Bool.false_and, hfind]
      rfl
    | none =>
      rw [hfind] at hf
      have : (ConfigTables.REMOVED_SOURCE_KEYS.any fun k => has k d) = false := by simpa using hf
      simp only [this, Bool.not_false, Bool.true_and, hfind]
      cases hfmt : get kFormat d with
      | some fmt =>
        simp only [isOk_map]
        cases fmt with
        | str f => simp only [resolveGeneric, isOk_map, parseFormatY_isOk]
        | _ => simp only [resolveGeneric, isOk_map, parseFormatY]; rfl
      | none =>
        simp only
        cases htype : get kType d with
        | none => rfl
        | some t =>
          simp only [isOk_map]
          cases t with
          | str t =>
            simp only [resolveSpecial]
            split <;> simp_all [Except.isOk, Except.toBool]
          | _ => simp only [resolveSpecial]; rfl
  | _ => simp only [resolveSource, SourceOk]; rfl

/-- `data_sources` is absent, falsy (null, [], {}, '', 0, false), or a list of acceptable entries -/
def SourcesOk (e : Fmt.Ext) : Option Y → Bool
  | none => true
  | some v => !v.truthy || (match v with
      | .list xs => xs.all (SourceOk e)
      | _ => false)

/-- `merchants_file` / `views_file` is absent, falsy, or a string -/
def PathOk : Option Y → Bool
  | none => true
  | some v => !v.truthy || (match v with
      | .str _ => true
      | _ => false)

/-- a views file that is there can be read (it may fail to PARSE: that is a warning) -/
def ViewsReadable (env : Env) (c : Dict) : Bool :=
  match get kViewsFile c with
  | some (.str s) =>
    s.isEmpty || !env.pathExists (configuredRulesPath env s) ||
      (match env.viewsLoad (configuredRulesPath env s) with
       | .raises _ => false
       | _ => true)
  | _ => true

/-- **the settings objects `load_config` accepts** -/
def LoadOk (env : Env) : Y → Bool
  | .map c => SourcesOk env.ext (get kDataSources c) && PathOk (get kMerchantsFile c) && PathOk (get kViewsFile c) && ViewsReadable env c
  | _ => false

private theorem resolveSources_isOk (e : Fmt.Ext) (ds : Option Y) : (resolveSources e ds).isOk = SourcesOk e ds := by
  unfold resolveSources SourcesOk
  cases ds with
  | none => rfl
  | some v =>
    simp only
    by_cases ht : v.truthy = true
    · simp only [ht, Bool.not_true, Bool.false_eq_true, if_false, Bool.false_or]
      cases v with
      | list xs =>
        simp only [resolveAll_ok_iff]
        congr 1
        funext x
        exact source_ok_iff e x
      | _ => rfl
    · have : v.truthy = false := by simpa using ht
      simp only [this, Bool.not_false, if_true, Bool.true_or]
      rfl

private theorem resolveRulesFile_isOk (env : Env) (c : Dict) : (resolveRulesFile env c).isOk = PathOk (get kMerchantsFile c) := by
  unfold resolveRulesFile PathOk
  cases hg : get kMerchantsFile c with
  | none =>
    have : Y.null.truthy = false := rfl
    simp only [Option.getD_none, this, Bool.false_eq_true, if_false]
    split <;> rfl
  | some v =>
    simp only [Option.getD_some]
    by_cases ht : v.truthy = true
    · simp only [ht, if_true, Bool.not_true, Bool.false_or]
      cases v with
      | str s => simp only; split <;> rfl
      | _ => rfl
    · have : v.truthy = false := by simpa using ht
      simp only [this, Bool.false_eq_true, if_false, Bool.not_false, Bool.true_or]
      split <;> rfl

private theorem resolveViewsFile_isOk (env : Env) (c : Dict) :
    (resolveViewsFile env c).isOk = (PathOk (get kViewsFile c) && ViewsReadable env c) := by
  unfold resolveViewsFile PathOk ViewsReadable configuredRulesPath
  cases hg : get kViewsFile c with
  | none => rfl
  | some v =>
    simp only [Option.getD_some]
    by_cases ht : v.truthy = true
    · simp only [ht, if_true, Bool.not_true, Bool.false_or]
      cases v with
      | str s =>
        have hs : s.isEmpty = false := by
          cases s with
          | nil => simp [Y.truthy] at ht
          | cons a r => rfl
        simp only [hs, Bool.false_or, Bool.true_and]
        by_cases hex : env.pathExists (pjoin2 (dirname env.cfgDir) s) = true
        · simp only [hex, if_true, Bool.not_true, Bool.false_or]
          cases env.viewsLoad (pjoin2 (dirname env.cfgDir) s) <;> rfl
        · have : env.pathExists (pjoin2 (dirname env.cfgDir) s) = false := by simpa using hex
          simp only [this, Bool.false_eq_true, if_false, Bool.not_false, Bool.true_or]
          rfl
      | _ => rfl
    · have : v.truthy = false := by simpa using ht
      simp only [this, Bool.false_eq_true, if_false, Bool.not_false, Bool.true_or, Bool.true_and]
      cases v with
      | str s =>
        have hs : s.isEmpty = true := by
          cases s with
          | nil => rfl
          | cons a r => simp [Y.truthy] at this
        simp only [hs, Bool.true_or]
        rfl
      | _ => rfl

/-- **Error locality — which settings objects `load_config` rejects**: exactly those outside `LoadOk` (the settings must be a
mapping; `data_sources` falsy or a list of acceptable entries; `merchants_file` / `views_file` falsy or strings; a views file
that is there must be readable).  Everything else — `rule_mode`, `year`, unknown keys, removed settings, a views file that does
not parse, missing files — is tolerated (at most a warning). -/
theorem load_ok_iff (env : Env) (y : Y) : (resolveConfig env y).isOk = LoadOk env y := by
  cases y with
  | map c =>
    rw [resolveConfig_isOk, resolveSources_isOk, resolveRulesFile_isOk, resolveViewsFile_isOk]
    simp only [LoadOk, Bool.and_assoc]
  | _ => rfl

/-- **One malformed source entry aborts the whole load**: no partial configuration, no other source is read. -/
theorem bad_source_aborts_load (env : Env) (c : Dict) (xs : List Y) (x : Y) (hds : get kDataSources c = some (.list xs)) (hx : x ∈ xs)
    (hbad : SourceOk env.ext x = false) : ∃ err, resolveConfig env (.map c) = .error err := by
  have : (resolveConfig env (.map c)).isOk = false := by
    rw [load_ok_iff]
    have hall : xs.all (SourceOk env.ext) = false := by
      rw [List.all_eq_false]
      exact ⟨x, hx, by simp [hbad]⟩
    have htr : (Y.list xs).truthy = true := by
      cases xs with
      | nil => cases hx
      | cons a r => rfl
    simp [LoadOk, SourcesOk, hds, hall, htr]
  cases h : resolveConfig env (.map c) with
  | error err => exact ⟨err, rfl⟩
  | ok cfg => rw [h] at this; cases this

/-- the keys that decide whether an entry is accepted -/
def acceptanceKeys : List Str := ConfigTables.REMOVED_SOURCE_KEYS ++ [kFormat, kType, kColumns]

/-- …and acceptance looks at `format`, `type`, `columns` and the two removed keys ONLY: any other key of an entry — `name`,
`file`, `delimiter`, `has_header`, `negate_amount`, `decimal_separator`, `supplemental`, an unknown key — may be absent or carry
a value of any type without the load failing. -/
theorem source_ok_ignores_other_keys (e : Fmt.Ext) (d : Dict) (k : Str) (v : Y) (hk : k ∉ acceptanceKeys) :
    SourceOk e (.map (insert k v d)) = SourceOk e (.map (erase k d)) := by
  have hg : ∀ k', k' ∈ acceptanceKeys → get k' (insert k v d) = get k' (erase k d) := by
    intro k' hk'
    have : ¬ k' = k := fun e => hk (e ▸ hk')
    rw [get_insert, get_erase]; simp [this]
  have h1 := hg ['a', 'c', 'c', 'o', 'u', 'n', 't', '_', 't', 'y', 'p', 'e'] (by decide)
  have h2 := hg ['s', 'k', 'i', 'p', '_', 'n', 'e', 'g', 'a', 't', 'i', 'v', 'e'] (by decide)
  have h3 := hg kFormat (by decide)
  have h4 := hg kType (by decide)
  have h5 := hg kColumns (by decide)
  simp only [SourceOk, templateOf, ConfigTables.REMOVED_SOURCE_KEYS, List.any_cons, List.any_nil, has, h1, h2, h3, h4, h5]

/-! #### locality at the settings level -/

private theorem sources_of_list (env : Env) (c : Dict) (xs : List Y) (cfg : Config) (hds : get kDataSources c = some (.list xs))
    (h : resolveConfig env (.map c) = .ok cfg) : resolveAll env.ext xs = .ok cfg.sources := by
  obtain ⟨ss, rf, wr, vf, wv, hss, _, _, rfl⟩ := resolveConfig_ok env c cfg h
  simp only [hds, resolveSources] at hss
  cases xs with
  | nil => simp [Y.truthy] at hss; simp [resolveAll, hss]
  | cons x r => simpa [Y.truthy] using hss

private theorem planSources_ok (q : Bool) (env : Env) (cfg : Config) (P : List Planned) (h : planSources q env cfg = .ok P) :
    planFrom q env 0 cfg.sources = .ok P := by
  unfold planSources at h
  split at h
  · cases h
  · split at h
    · cases h
    · split at h
      · cases h
      · exact h

/-- **Editing one source entry moves only that source's planned call.**  Two settings objects whose `data_sources` lists
differ in ONE entry (position `pre.length`; everything else — also any other top-level key — may differ too): when both
runs get as far as the loop, the calls planned before that position are literally the same list, so are the calls after it,
and what stands between is the at most one call of the edited source. -/
theorem plan_source_local (q : Bool) (env : Env) (c c' : Dict) (pre post : List Y) (x x' : Y) (cfg cfg' : Config)
    (P P' : List Planned)
    (hc : get kDataSources c = some (.list (pre ++ x :: post))) (hc' : get kDataSources c' = some (.list (pre ++ x' :: post)))
    (h : resolveConfig env (.map c) = .ok cfg) (h' : resolveConfig env (.map c') = .ok cfg')
    (hP : planSources q env cfg = .ok P) (hP' : planSources q env cfg' = .ok P') :
    ∃ before here here' after,
      P = before ++ here ++ after ∧ P' = before ++ here' ++ after ∧ here.length ≤ 1 ∧ here'.length ≤ 1 ∧
      (∀ p ∈ here ++ here', p.index = pre.length) ∧ (∀ p ∈ before ++ after, p.index ≠ pre.length) := by
  obtain ⟨A, R, hA, hR, hS⟩ := resolveAll_append env.ext pre (x :: post) cfg.sources (sources_of_list env c _ cfg hc h)
  obtain ⟨s, B, _, hB, rfl⟩ := resolveAll_cons env.ext x post R hR
  obtain ⟨A', R', hA', hR', hS'⟩ := resolveAll_append env.ext pre (x' :: post) cfg'.sources (sources_of_list env c' _ cfg' hc' h')
  obtain ⟨s', B', _, hB', rfl⟩ := resolveAll_cons env.ext x' post R' hR'
  have eA : A' = A := by rw [hA] at hA'; cases hA'; rfl
  have eB : B' = B := by rw [hB] at hB'; cases hB'; rfl
  subst eA eB
  have hlen : A'.length = pre.length := resolveAll_length env.ext pre A' hA
  have hp := planSources_ok q env cfg P hP
  have hp' := planSources_ok q env cfg' P' hP'
  rw [hS] at hp
  rw [hS'] at hp'
  obtain ⟨PA, PR, hPA, hPR, rfl⟩ := planFrom_append q env 0 A' (s :: B') P hp
  obtain ⟨here, PB, _, hPB, rfl⟩ := planFrom_cons q env (0 + A'.length) s B' PR hPR
  obtain ⟨PA', PR', hPA', hPR', rfl⟩ := planFrom_append q env 0 A' (s' :: B') P' hp'
  obtain ⟨here', PB', _, hPB', rfl⟩ := planFrom_cons q env (0 + A'.length) s' B' PR' hPR'
  have e1 : PA' = PA := by rw [hPA] at hPA'; cases hPA'; rfl
  have e2 : PB' = PB := by rw [hPB] at hPB'; cases hPB'; rfl
  subst e1 e2
  have iA := planFrom_index q env 0 A' PA' hPA
  have iB := planFrom_index q env (0 + A'.length + 1) B' PB' hPB
  refine ⟨PA', here.toList, here'.toList, PB', by simp, by simp, ?_, ?_, ?_, ?_⟩
  · cases here <;> simp
  · cases here' <;> simp
  · intro p hp
    rcases List.mem_append.mp hp with hp | hp
    · cases here with
      | none => simp at hp
      | some p0 =>
        simp only [Option.toList_some, List.mem_singleton] at hp; subst hp
        rename_i hh _
        have := planOne_index q env (0 + A'.length) s p hh
        omega
    · cases here' with
      | none => simp at hp
      | some p0 =>
        simp only [Option.toList_some, List.mem_singleton] at hp; subst hp
        rename_i hh
        have := planOne_index q env (0 + A'.length) s' p hh
        omega
  · intro p hp
    rcases List.mem_append.mp hp with hp | hp
    · have := iA p hp; omega
    · have := iB p hp; omega

/-- **A top-level setting other than `data_sources` governs no planned call**: two settings objects with the same
`data_sources` value whose runs both reach the loop plan exactly the same calls — whatever `rule_mode`, `merchants_file`,
`views_file`, `year`, … say. -/
theorem plan_toplevel_local (q : Bool) (env : Env) (c c' : Dict) (cfg cfg' : Config) (P P' : List Planned)
    (hds : get kDataSources c = get kDataSources c')
    (h : resolveConfig env (.map c) = .ok cfg) (h' : resolveConfig env (.map c') = .ok cfg')
    (hP : planSources q env cfg = .ok P) (hP' : planSources q env cfg' = .ok P') : P = P' := by
  obtain ⟨ss, _, _, _, _, hss, _, _, rfl⟩ := resolveConfig_ok env c cfg h
  obtain ⟨ss', _, _, _, _, hss', _, _, rfl⟩ := resolveConfig_ok env c' cfg' h'
  rw [hds, hss'] at hss
  cases hss
  have hp := planSources_ok q env _ P hP
  have hp' := planSources_ok q env _ P' hP'
  simp only at hp hp'
  rw [hp] at hp'
  cases hp'; rfl

/-! #### `tally up` from the settings object -/

private theorem toSources_ordinary (w : World) (plan : List Planned) (srcs : List Source) (h : toSources w plan = .ok srcs) :
    ∀ s ∈ srcs, s.supplemental = false := by
  induction plan generalizing srcs with
  | nil => simp [toSources] at h; subst h; simp
  | cons p ps ih =>
    simp only [toSources] at h
    cases hp : toSource w p with
    | error e => simp [hp] at h
    | ok s =>
      simp only [hp] at h
      cases hr : toSources w ps with
      | error e => simp [hr] at h
      | ok ss =>
        simp only [hr, Except.ok.injEq] at h
        subst h
        intro x hx
        rcases List.mem_cons.mp hx with rfl | hx
        · unfold toSource at hp
          cases hpp : parsePlanned w p with
          | error e => simp [hpp, Except.map] at hp
          | ok rows => simp [hpp, Except.map] at hp; rw [← hp]
        · exact ih ss hr x hx

private theorem filter_ordinary (srcs : List Source) (h : ∀ s ∈ srcs, s.supplemental = false) :
    srcs.filter (fun s => !s.supplemental) = srcs := by
  apply List.filter_eq_self.mpr
  intro s hs
  simp [h s hs]

/-- **`tally up` = classify ∘ concat ∘ parse ∘ plan ∘ resolve — from the settings object.**  When the settings load
(`resolveConfig`), the run reaches the loop (`planSources`) and the model covers the planned calls (`toSources`), the
transaction list of the command is the row-by-row classification — by the classifier the resolved config selects
(`classEnv`: rule mode, rules file, supplemental sources) — of the concatenation, in `data_sources` order, of what each
planned call's parser returns for ITS file with ITS resolved settings. -/
theorem settings_report_eq_composition (q : Bool) (env : Env) (w : World) (classify : ClassEnv → Row → Except Err Classified)
    (settings : Y) (cfg : Config) (plan : List Planned) (srcs : List Source)
    (h1 : resolveConfig env settings = .ok cfg) (h2 : planSources q env cfg = .ok plan) (h3 : toSources w plan = .ok srcs) :
    upFromSettings q env w classify settings =
      (classifyAll (classify (classEnv cfg)) (srcs.flatMap Source.rows)).mapError Stop.model := by
  unfold upFromSettings
  simp only [h1, h2, h3]
  rw [upLoop_eq_composition, filter_ordinary srcs (toSources_ordinary w plan srcs h3)]
  cases classifyAll (classify (classEnv cfg)) (srcs.flatMap Source.rows) <;> rfl

/-- …and its report is C06's totals of those transactions: `runUp` (the composition `source_local`, `setting_local`,
`silent_source_neutral`, `source_order_irrelevant`, `report_count` are about) over the planned sources, amounts read
exactly.  Holds for every classifier that answers on the budget's rows. -/
theorem settings_report_eq_runUp (q : Bool) (env : Env) (w : World) (classify : ClassEnv → Row → Except Err Classified)
    (lower : String → String) (cents : UInt64 → Int) (cl : Row → Classified)
    (settings : Y) (cfg : Config) (plan : List Planned) (srcs : List Source)
    (h1 : resolveConfig env settings = .ok cfg) (h2 : planSources q env cfg = .ok plan) (h3 : toSources w plan = .ok srcs)
    (hcl : Classifies (classify (classEnv cfg)) cl srcs) :
    (upFromSettings q env w classify settings).toOption.map (reportG intNum lower cents) =
      some (runUp lower (fun s : Source => s.supplemental) (txnsOf cents cl) srcs) := by
  unfold upFromSettings
  simp only [h1, h2, h3]
  have := up_report_eq_runUp lower cents (classify (classEnv cfg)) cl srcs hcl
  cases hu : upLoop (classify (classEnv cfg)) srcs with
  | error e => rw [hu] at this; simp [Except.map] at this
  | ok cls =>
    rw [hu] at this
    simp only [Except.map, Except.ok.injEq] at this
    simp [Except.toOption, this]

private theorem toSources_append (w : World) (a b : List Planned) (S : List Source) (h : toSources w (a ++ b) = .ok S) :
    ∃ A B, toSources w a = .ok A ∧ toSources w b = .ok B ∧ S = A ++ B := by
  induction a generalizing S with
  | nil => exact ⟨[], S, rfl, h, rfl⟩
  | cons p a ih =>
    simp only [List.cons_append, toSources] at h ⊢
    cases hp : toSource w p with
    | error e => simp [hp] at h
    | ok s =>
      simp only [hp] at h ⊢
      cases hr : toSources w (a ++ b) with
      | error e => simp [hr] at h
      | ok S' =>
        simp only [hr, Except.ok.injEq] at h
        obtain ⟨A, B, hA, hB, rfl⟩ := ih S' hr
        exact ⟨s :: A, B, by simp [hA], hB, by simp [← h]⟩

private theorem classifyAll_append_ok (classify : Row → Except Err Classified) (a b : List Row) (T : List Classified)
    (h : classifyAll classify (a ++ b) = .ok T) :
    ∃ Ta Tb, classifyAll classify a = .ok Ta ∧ classifyAll classify b = .ok Tb ∧ T = Ta ++ Tb := by
  rw [classifyAll_append] at h
  cases ha : classifyAll classify a with
  | error e => rw [ha] at h; cases h
  | ok Ta =>
    cases hb : classifyAll classify b with
    | error e => rw [ha, hb] at h; cases h
    | ok Tb =>
      rw [ha, hb] at h
      exact ⟨Ta, Tb, rfl, rfl, by cases h; rfl⟩

/-- **The classifier of a run does not depend on an ordinary source.**  Replace one entry of `data_sources` by another; if
neither is a supplemental source and `rule_mode` / `merchants_file` are untouched, the rule mode, the rules file and the
supplemental sources available to rule expressions — everything the classifier is built from — are the same. -/
theorem class_env_source_local (env : Env) (c c' : Dict) (pre post : List Y) (x x' : Y) (cfg cfg' : Config)
    (hc : get kDataSources c = some (.list (pre ++ x :: post))) (hc' : get kDataSources c' = some (.list (pre ++ x' :: post)))
    (hmode : get kRuleMode c = get kRuleMode c') (hmf : get kMerchantsFile c = get kMerchantsFile c')
    (h : resolveConfig env (.map c) = .ok cfg) (h' : resolveConfig env (.map c') = .ok cfg')
    (hx : ∀ s, resolveSource env.ext x = .ok s → s.supplemental.truthy = false)
    (hx' : ∀ s, resolveSource env.ext x' = .ok s → s.supplemental.truthy = false) :
    classEnv cfg = classEnv cfg' := by
  obtain ⟨A, R, hA, hR, hS⟩ := resolveAll_append env.ext pre (x :: post) cfg.sources (sources_of_list env c _ cfg hc h)
  obtain ⟨s, B, hs, hB, rfl⟩ := resolveAll_cons env.ext x post R hR
  obtain ⟨A', R', hA', hR', hS'⟩ := resolveAll_append env.ext pre (x' :: post) cfg'.sources (sources_of_list env c' _ cfg' hc' h')
  obtain ⟨s', B', hs', hB', rfl⟩ := resolveAll_cons env.ext x' post R' hR'
  have eA : A' = A := by rw [hA] at hA'; cases hA'; rfl
  have eB : B' = B := by rw [hB] at hB'; cases hB'; rfl
  subst eA eB
  obtain ⟨ss, rf, wr, vf, wv, _, hrf, _, e⟩ := resolveConfig_ok env c cfg h
  obtain ⟨ss', rf', wr', vf', wv', _, hrf', _, e'⟩ := resolveConfig_ok env c' cfg' h'
  have hrfe : rf = rf' := by
    rw [resolveRulesFile_congr env c c' hmf, hrf'] at hrf
    cases hrf; rfl
  have hme : (resolveRuleMode c).1 = (resolveRuleMode c').1 := by rw [resolveRuleMode_congr c c' hmode]
  unfold classEnv
  rw [hS, hS']
  simp only [List.filter_append, List.filter_cons, hx s hs, hx' s' hs', Bool.false_eq_true, if_false]
  rw [e, e']
  simp only [hrfe, hme]

/-- **Changing one source or one of its settings changes only that source's share — from the settings object.**
Two settings objects whose `data_sources` differ in ONE entry that is an ordinary (non-supplemental) source on both sides, with
the same `rule_mode` and `merchants_file`: when both runs complete, their transaction lists are
`before ++ own ++ after` and `before ++ own' ++ after` with LITERALLY the same `before` and `after` (the classified
transactions of all other sources, in order) — and every money-flow figure and count of either report is the figure of
`before ++ after` plus the figure of the source's own transactions (C06's exact totals). -/
theorem settings_source_local (q : Bool) (env : Env) (w : World) (classify : ClassEnv → Row → Except Err Classified)
    (lower : String → String) (cents : UInt64 → Int)
    (c c' : Dict) (pre post : List Y) (x x' : Y) (T T' : List Classified)
    (hc : get kDataSources c = some (.list (pre ++ x :: post))) (hc' : get kDataSources c' = some (.list (pre ++ x' :: post)))
    (hmode : get kRuleMode c = get kRuleMode c') (hmf : get kMerchantsFile c = get kMerchantsFile c')
    (hx : ∀ s, resolveSource env.ext x = .ok s → s.supplemental.truthy = false)
    (hx' : ∀ s, resolveSource env.ext x' = .ok s → s.supplemental.truthy = false)
    (hT : upFromSettings q env w classify (.map c) = .ok T) (hT' : upFromSettings q env w classify (.map c') = .ok T') :
    ∃ before own own' after,
      T = before ++ own ++ after ∧ T' = before ++ own' ++ after ∧
      (∀ U, U = own ∨ U = own' →
        flowOf (reportG intNum lower cents (before ++ U ++ after)) =
          ⟨(reportG intNum lower cents (before ++ after)).income + (reportG intNum lower cents U).income,
           (reportG intNum lower cents (before ++ after)).spending + (reportG intNum lower cents U).spending,
           (reportG intNum lower cents (before ++ after)).credits + (reportG intNum lower cents U).credits,
           (reportG intNum lower cents (before ++ after)).transfersIn + (reportG intNum lower cents U).transfersIn,
           (reportG intNum lower cents (before ++ after)).transfersOut + (reportG intNum lower cents U).transfersOut,
           (reportG intNum lower cents (before ++ after)).investment + (reportG intNum lower cents U).investment,
           (reportG intNum lower cents (before ++ after)).count + (reportG intNum lower cents U).count,
           (reportG intNum lower cents (before ++ after)).total + (reportG intNum lower cents U).total⟩) := by
  -- unfold both runs
  unfold upFromSettings at hT hT'
  cases h : resolveConfig env (.map c) with
  | error e => simp [h] at hT
  | ok cfg =>
  cases h' : resolveConfig env (.map c') with
  | error e => simp [h'] at hT'
  | ok cfg' =>
  simp only [h, h'] at hT hT'
  cases hP : planSources q env cfg with
  | error e => simp [hP] at hT
  | ok P =>
  cases hP' : planSources q env cfg' with
  | error e => simp [hP'] at hT'
  | ok P' =>
  simp only [hP, hP'] at hT hT'
  cases hS : toSources w P with
  | error e => simp [hS] at hT
  | ok S =>
  cases hS' : toSources w P' with
  | error e => simp [hS'] at hT'
  | ok S' =>
  simp only [hS, hS'] at hT hT'
  have hce := class_env_source_local env c c' pre post x x' cfg cfg' hc hc' hmode hmf h h' hx hx'
  rw [← hce] at hT'
  cases hU : upLoop (classify (classEnv cfg)) S with
  | error e => simp [hU] at hT
  | ok U0 =>
  cases hU' : upLoop (classify (classEnv cfg)) S' with
  | error e => simp [hU'] at hT'
  | ok U0' =>
  simp only [hU, hU', Except.ok.injEq] at hT hT'
  subst hT hT'
  obtain ⟨PB, here, here', PA, rfl, rfl, _, _, _, _⟩ := plan_source_local q env c c' pre post x x' cfg cfg' P P' hc hc' h h' hP hP'
  -- the sources of the two plans share prefix and suffix
  obtain ⟨SBH, SA, hSBH, hSA, rfl⟩ := toSources_append w (PB ++ here) PA S hS
  obtain ⟨SB, SH, hSB, hSH, rfl⟩ := toSources_append w PB here SBH hSBH
  obtain ⟨SBH', SA', hSBH', hSA', rfl⟩ := toSources_append w (PB ++ here') PA S' hS'
  obtain ⟨SB', SH', hSB', hSH', rfl⟩ := toSources_append w PB here' SBH' hSBH'
  have e1 : SB' = SB := by rw [hSB] at hSB'; cases hSB'; rfl
  have e2 : SA' = SA := by rw [hSA] at hSA'; cases hSA'; rfl
  subst e1 e2
  have ord : ∀ L P, toSources w P = .ok L → L.filter (fun s => !s.supplemental) = L :=
    fun L P hL => filter_ordinary L (toSources_ordinary w P L hL)
  rw [upLoop_eq_composition, ord _ _ hS] at hU
  rw [upLoop_eq_composition, ord _ _ hS'] at hU'
  simp only [List.flatMap_append] at hU hU'
  obtain ⟨TBH, TA, hTBH, hTA, rfl⟩ := classifyAll_append_ok _ _ _ _ hU
  obtain ⟨TB, TH, hTB, hTH, rfl⟩ := classifyAll_append_ok _ _ _ _ hTBH
  obtain ⟨TBH', TA', hTBH', hTA', rfl⟩ := classifyAll_append_ok _ _ _ _ hU'
  obtain ⟨TB', TH', hTB', hTH', rfl⟩ := classifyAll_append_ok _ _ _ _ hTBH'
  have e3 : TB' = TB := by rw [hTB] at hTB'; cases hTB'; rfl
  have e4 : TA' = TA := by rw [hTA] at hTA'; cases hTA'; rfl
  subst e3 e4
  refine ⟨TB', TH, TH', TA', rfl, rfl, ?_⟩
  intro U _
  -- C06: the figures of `before ++ U ++ after` are those of `before ++ after` plus those of `U`
  have := source_local lower (fun _ : List T => false) (fun l => l) [TB'.map (toTotalsG cents)] [TA'.map (toTotalsG cents)]
    (U.map (toTotalsG cents)) rfl
  simpa [runUp, reportG, List.map_append] using this

/-! #### what the code does with values of another type, on concrete settings (kernel-checked; each is replayed on the
real code by the `load` / `plan` / `read` streams of the check) -/

/-- ASCII-only text: the `Ext` parameters are never consulted -/
def ext0 : Fmt.Ext := ⟨fun _ => false, fun _ => false, id⟩

def ys (s : String) : Y := .str s.toList
def ym (kvs : List (String × Y)) : Y := .map (kvs.map fun kv => (kv.1.toList, kv.2))

/-- a budget at `/b`: two statement files, a rules file and the legacy CSV are there -/
def demoEnv : Env :=
  { ext := ext0, cfgDir := "/b/config".toList,
    pathExists := fun p => p ∈ ["/b/data/a.csv".toList, "/b/data/x.csv".toList, "/b/data/o.csv".toList, "/b/config/merchants.rules".toList,
                               "/b/config/merchant_categories.csv".toList],
    viewsLoad := fun _ => .loaded }

def srcBank : Y := ym [("name", ys "Bank"), ("file", ys "data/a.csv"), ("format", ys "{date:%Y-%m-%d},{description},{-amount}"),
  ("has_header", ys "false"), ("negate_amount", .bool false), ("delimiter", .int 0), ("decimal_separator", ys ",")]
def srcOrders : Y := ym [("name", ys "orders"), ("file", ys "data/o.csv"), ("format", ys "{date},{item},{amount}"),
  ("columns", ym [("description", ys "{item}")]), ("supplemental", ys "no")]
def srcCard : Y := ym [("name", ys "Card"), ("file", ys "data/missing.csv"), ("format", ys "{date},{description},{amount}")]
def srcAmex : Y := ym [("file", ys "./data//x.csv"), ("type", ys "AMEX"), ("format_", ys "ignored"), ("delimiter", .list [ys ";"])]

def demoSettings : Y := ym [("year", .int 2025), ("data_sources", .list [srcBank, srcOrders, srcCard, srcAmex]), ("rule_mode", ys "Most_Specific"),
  ("merchants_file", ys "config/missing.rules"), ("home_state", ys "WA")]

/-- the demo settings load: four sources; `rule_mode: Most_Specific` is NOT one of the two spellings (first_match + a warning); the
configured rules file is missing and the legacy CSV next to it is NOT used; warnings in the order the code appends them -/
example : (resolveConfig demoEnv demoSettings).toOption.map
      (fun k => (k.sources.length, k.ruleMode, k.rulesFile, k.warnings.map Warning.type)) =
    some (4, .firstMatch, .none, ["deprecated".toList, "deprecated".toList, "warning".toList, "warning".toList]) := by decide +kernel

/-- what `tally up -q` parses for them: `bank` from `/b/data/a.csv`; `orders` is supplemental (`supplemental: "no"` is a
non-empty string: TRUE); `card`'s file is missing; the `type: AMEX` source (no name: fine with --quiet) from the normalised path -/
example : ((resolveConfig demoEnv demoSettings).toOption.map fun k => (planSources true demoEnv k).toOption.map
      (fun P => P.map fun p => (p.index, String.ofList p.path, match p.call with | .amex => "amex" | .boa => "boa" | .generic .. => "generic"))) =
    some (some [(0, "/b/data/a.csv", "generic"), (3, "/b/data/x.csv", "amex")]) := by decide +kernel

/-- **F11-name, repaired in /repo (aa7bfcd).**  A data source without a `name:` key used to kill a run without `--quiet`
(`KeyError: 'name'` on its progress line - also when its file was merely missing, so the other sources' figures were lost); the
progress lines now print the name the transactions get.  On the demo budget (one nameless `type: AMEX` source, one source whose file
is missing) the run plans the same two parser calls with and without `--quiet`; `plan_quiet_irrelevant` states it for every budget. -/
theorem plan_quiet_irrelevant (q q' : Bool) (env : Env) (k : Config) : planSources q env k = planSources q' env k := by
  have h1 : ∀ (i : Nat) (s : SourceCfg), planOne q env i s = planOne q' env i s := fun i s => by unfold planOne; rfl
  have h2 : ∀ (L : List SourceCfg) (i : Nat), planFrom q env i L = planFrom q' env i L := by
    intro L
    induction L with
    | nil => intro i; simp [planFrom]
    | cons s L ih => intro i; simp only [planFrom, h1, ih]
  unfold planSources
  simp only [h2]

/-- the demo budget of the F11-name witness: two parser calls planned, with and without `--quiet` -/
theorem nameless_source_no_longer_stops_the_run :
    ((resolveConfig demoEnv demoSettings).toOption.map fun k => ((planSources true demoEnv k).toOption.map List.length,
        (planSources false demoEnv k).toOption.map List.length)) = some (some 2, some 2) := by decide +kernel

/-- how the reader takes `bank`'s settings: `has_header: "false"` is a non-empty string — the first line IS skipped;
`negate_amount: false` switches `{-amount}` OFF; `delimiter: 0` is falsy — comma; `decimal_separator: ","` — European amounts -/
theorem dynamic_typing_of_reader_settings :
    ((resolveSource ext0 srcBank).toOption.bind fun s => match s.parser with
      | .generic g => (readArgs g (s.name.getD .null) s.decimalSeparator).toOption.map
          fun r => (r.delim, r.hasHeader, r.eu, r.spec.negateAmount, g.base.negateAmount)
      | _ => none) = some (.csv ',', true, true, false, true) := by decide +kernel

/-- `negate_amount` absent ≠ `negate_amount: false` when the format says `{-amount}`: the documented default `false` is the
default only for a format without the minus sign (`default_negate_amount` is the exact statement) -/
theorem negate_amount_false_overrides_minus_sign :
    formatFlag ext0 [("format".toList, ys "{date},{description},{-amount}")] = some true ∧
    resolveSource ext0 (ym [("format", ys "{date},{description},{-amount}")]) ≠
      resolveSource ext0 (ym [("format", ys "{date},{description},{-amount}"), ("negate_amount", .bool false)]) := by
  decide +kernel

/-- a delimiter that is a truthy non-string (`delimiter: 5`, `delimiter: [";"]`) is stored as it is by the loader and breaks the
READER (`AttributeError`, caught per source: that source yields nothing); a falsy one (`0`, `false`, `''`, `null`) is a comma -/
theorem delimiter_of_another_type :
    delimArg (.int 5) = .error .attributeError ∧ delimArg (.list [ys ";"]) = .error .attributeError ∧
    delimArg (.bool true) = .error .attributeError ∧
    delimArg (.int 0) = .ok (.csv ',') ∧ delimArg (.bool false) = .ok (.csv ',') ∧ delimArg (ys "") = .ok (.csv ',') ∧
    delimArg .null = .ok (.csv ',') ∧ delimArg (ys "tab") = .ok (.csv '\t') ∧ delimArg (ys ";;") = .ok (.csv ',') ∧
    delimArg (ys "regex:^(.*)$") = .ok .regex := by decide +kernel

/-- which entries abort the load and which are tolerated (`SourceOk`): a `format` that is null / a number, a `type` that is not
a string, a removed key, neither `format` nor `type`, a Mode-2 format whose `columns.description` is a number — rejected;
wrongly typed reader settings, unknown keys, a missing `name` / `file`, a `type` next to a valid `format` — accepted -/
example : SourceOk ext0 srcBank = true ∧ SourceOk ext0 srcAmex = true ∧
    SourceOk ext0 (ym [("format", ys "{date},{description},{amount}"), ("type", .int 5), ("delimiter", ym []), ("has_header", .list [])]) = true ∧
    SourceOk ext0 (ym [("format", .null), ("type", ys "amex")]) = false ∧
    SourceOk ext0 (ym [("type", .int 5)]) = false ∧ SourceOk ext0 (ym [("type", ys "visa")]) = false ∧
    SourceOk ext0 (ym [("format", ys "{date},{description},{amount}"), ("skip_negative", .bool false)]) = false ∧
    SourceOk ext0 (ym [("name", ys "x"), ("file", ys "data/a.csv")]) = false ∧
    SourceOk ext0 (ym [("format", ys "{date},{merchant},{amount}"), ("columns", ym [("description", .int 5)])]) = false ∧
    SourceOk ext0 (ym [("format", ys "{date},{description},{amount}"), ("columns", ym [("description", .int 0)])]) = true ∧
    SourceOk ext0 (ys "data/a.csv") = false ∧ SourceOk ext0 (.list [srcBank]) = false := by decide +kernel

/-- `LoadOk`: the demo settings; `data_sources` a mapping / a number; `merchants_file: 5`; an empty settings file -/
example : LoadOk demoEnv demoSettings = true ∧
    LoadOk demoEnv (ym [("data_sources", ym [("a", srcBank)])]) = false ∧ LoadOk demoEnv (ym [("data_sources", .int 5)]) = false ∧
    LoadOk demoEnv (ym [("data_sources", .int 0), ("merchants_file", ys "")]) = true ∧
    LoadOk demoEnv (ym [("merchants_file", .int 5)]) = false ∧ LoadOk demoEnv .null = false ∧ LoadOk demoEnv (ym []) = true := by
  decide +kernel

/-- the three-way choice of the rules file on that budget: configured & there → `new`; configured & missing → none (NOT the
legacy CSV that exists); absent or falsy (`merchants_file: ""`) → the legacy CSV -/
example :
    (resolveConfig demoEnv (ym [("merchants_file", ys "config/merchants.rules")])).toOption.map (·.rulesFile) =
      some (.new "/b/config/merchants.rules".toList) ∧
    (resolveConfig demoEnv (ym [("merchants_file", ys "config/missing.rules")])).toOption.map (·.rulesFile) = some .none ∧
    (resolveConfig demoEnv (ym [])).toOption.map (·.rulesFile) = some (.csv "/b/config/merchant_categories.csv".toList) ∧
    (resolveConfig demoEnv (ym [("merchants_file", ys "")])).toOption.map (·.rulesFile) =
      some (.csv "/b/config/merchant_categories.csv".toList) ∧
    (resolveConfig demoEnv (ym [("merchants_file", .bool true)])).toOption = none := by decide +kernel

/-- hypotheses of `plan_source_local` / `class_env_source_local` on the demo budget: replace `card` (position 2) by a source
whose file exists — both runs reach the loop, neither entry is supplemental -/
def srcCard' : Y := ym [("name", ys "Card"), ("file", ys "data/x.csv"), ("format", ys "{date},{description},{amount}"), ("delimiter", ys ";")]
def demoSettings' : Y := ym [("data_sources", .list [srcBank, srcOrders, srcCard', srcAmex]), ("rule_mode", ys "Most_Specific"),
  ("merchants_file", ys "config/missing.rules"), ("views_file", ys "config/views.rules")]
example :
    ((resolveConfig demoEnv demoSettings).toOption.bind fun k => (planSources true demoEnv k).toOption.map fun P => P.map (·.index)) = some [0, 3] ∧
    ((resolveConfig demoEnv demoSettings').toOption.bind fun k => (planSources true demoEnv k).toOption.map fun P => P.map (·.index)) = some [0, 2, 3] ∧
    (resolveSource ext0 srcCard).toOption.map (·.supplemental.truthy) = some false ∧
    (resolveSource ext0 srcCard').toOption.map (·.supplemental.truthy) = some false := by decide +kernel

/-- the files of the demo budget and the `float()` / `strptime` answers their cells need -/
def demoWorld : World :=
  { text := fun p =>
      if p = "/b/data/a.csv".toList then some "D,T,A\n2025-01-05,UBER EATS,\"12,50\"\n2025-01-06,SHELL,40\n".toList
      else if p = "/b/data/x.csv".toList then some "Date;Description;Amount\n2025-02-01;NETFLIX;9.99\n".toList
      else none
    regex := fun _ => none
    csv := { pyFloat := fun s =>
               if s = "12.50".toList then some (Csv.F64.ofBits 0x4029000000000000)
               else if s = "40".toList then some (Csv.F64.ofBits 0x4044000000000000)
               else if s = "9.99".toList then some (Csv.F64.ofBits 0x4023FAE147AE147B) else none
             strptime := fun _ tok => .ok (tok ++ "T00:00:00".toList) }
    special := fun _ => some [] }

/-- a classifier that answers on every row -/
def demoClassify : ClassEnv → Row → Except Err Classified :=
  fun _ r => .ok ⟨r.description, "Cat", "", [], r.amount, monthOf r.date⟩

/-- **the whole chain on the demo budget, from the settings object**: `bank` is read with ITS settings (the first line skipped
because `has_header: "false"` is truthy, `12,50` a European amount, `{-amount}` switched off by `negate_amount: false`); the
supplemental, the missing and the (empty) `type: AMEX` source add nothing; with `card'` in place of `card` exactly ONE
transaction is added after the two of `bank`: hypotheses and conclusion of `settings_source_local` /
`settings_report_eq_composition` on a non-trivial input -/
example :
    (upFromSettings true demoEnv demoWorld demoClassify demoSettings).toOption.map (fun T => T.map fun t => (t.merchant, t.amount, t.month)) =
      some [("UBER EATS", 0x4029000000000000, "2025-01"), ("SHELL", 0x4044000000000000, "2025-01")] ∧
    (upFromSettings true demoEnv demoWorld demoClassify demoSettings').toOption.map (fun T => T.map fun t => (t.merchant, t.amount, t.month)) =
      some [("UBER EATS", 0x4029000000000000, "2025-01"), ("SHELL", 0x4044000000000000, "2025-01"),
            ("NETFLIX", 0x4023FAE147AE147B, "2025-02")] := by
  constructor <;> decide +kernel

end settings

end TallyVerif.Props.C11
