/-
C11 — `tally up` honours every setting: report = totals(classify(parse(sources))).

The executable composition is `Model/Pipeline.lean` + `Driver/Pipeline.lean` (C05's parser, the
engine of C01/C02/C08/C09, C06's totals), tied end to end to `python -m tally up --format json`.
Here: the structural laws of that composition, for ARBITRARY per-source parse-and-classify
functions (so for every format, delimiter, header, decimal, sign, rules, mode, transforms and
supplemental data) over exact amounts — they are consequences of C06's permutation and partition
theorems.  PARTIAL: argparse, YAML loading, file lookup and printing are not modelled.
-/
import TallyVerif.Props.C06

namespace TallyVerif.Props.C11
open TallyVerif TallyVerif.Totals TallyVerif.Props.C06

variable {S : Type}

/-- `tally up`: every non-supplemental source is parsed and classified with ITS OWN settings
(`txns s`), in configuration order, and the concatenation is totalled -/
def runUp (lower : String → String) (supplemental : S → Bool) (txns : S → List T) (sources : List S) : Stats Int :=
  analyze N lower ((sources.filter (fun s => !supplemental s)).flatMap txns)

/-- a source that is supplemental, missing, unreadable or empty contributes no transaction -/
def Silent (supplemental : S → Bool) (txns : S → List T) (s : S) : Prop := supplemental s = true ∨ txns s = []

/-- a silent source leaves the whole report exactly as it is without it -/
theorem silent_source_neutral (lower : String → String) (supplemental : S → Bool) (txns : S → List T)
    (pre post : List S) (s : S) (h : Silent supplemental txns s) :
    runUp lower supplemental txns (pre ++ s :: post) = runUp lower supplemental txns (pre ++ post) := by
  unfold runUp
  rcases h with h | h
  · simp [List.filter_append, List.filter_cons, h]
  · by_cases hs : supplemental s = true
    · simp [List.filter_append, List.filter_cons, hs]
    · simp [List.filter_append, List.filter_cons, hs, List.flatMap_append, List.flatMap_cons, h]

private theorem flat_split (supplemental : S → Bool) (txns : S → List T) (pre post : List S) (s : S)
    (hs : supplemental s = false) :
    ((pre ++ s :: post).filter (fun s => !supplemental s)).flatMap txns =
      (pre.filter (fun s => !supplemental s)).flatMap txns ++ (txns s ++ (post.filter (fun s => !supplemental s)).flatMap txns) := by
  simp [List.filter_append, List.filter_cons, hs, List.flatMap_append, List.flatMap_cons]

/-- **Locality.** The money-flow figures and counts of a report are those of the report without
source `s` plus those of `s` alone: changing one source, or one setting of it (anything that only
changes `txns s`), changes only that source's share. -/
theorem source_local (lower : String → String) (supplemental : S → Bool) (txns : S → List T)
    (pre post : List S) (s : S) (hs : supplemental s = false) :
    flowOf (runUp lower supplemental txns (pre ++ s :: post)) =
      ⟨(runUp lower supplemental txns (pre ++ post)).income + (analyze N lower (txns s)).income,
       (runUp lower supplemental txns (pre ++ post)).spending + (analyze N lower (txns s)).spending,
       (runUp lower supplemental txns (pre ++ post)).credits + (analyze N lower (txns s)).credits,
       (runUp lower supplemental txns (pre ++ post)).transfersIn + (analyze N lower (txns s)).transfersIn,
       (runUp lower supplemental txns (pre ++ post)).transfersOut + (analyze N lower (txns s)).transfersOut,
       (runUp lower supplemental txns (pre ++ post)).investment + (analyze N lower (txns s)).investment,
       (runUp lower supplemental txns (pre ++ post)).count + (analyze N lower (txns s)).count,
       (runUp lower supplemental txns (pre ++ post)).total + (analyze N lower (txns s)).total⟩ := by
  unfold runUp
  rw [flat_split supplemental txns pre post s hs]
  let A := (pre.filter (fun s => !supplemental s)).flatMap txns
  let B := (post.filter (fun s => !supplemental s)).flatMap txns
  have hp : (A ++ (txns s ++ B)).Perm ((A ++ B) ++ txns s) := by
    have : (txns s ++ B).Perm (B ++ txns s) := List.perm_append_comm
    exact (List.Perm.append_left A this).trans (by rw [List.append_assoc])
  have h1 := (analyze_perm lower hp).1
  have h2 := (analyze_append lower (A ++ B) (txns s)).1
  have hAB : ((pre ++ post).filter (fun s => !supplemental s)).flatMap txns = A ++ B := by
    simp [A, B, List.filter_append, List.flatMap_append]
  rw [hAB]
  exact h1.trans h2

/-- two settings families that agree on every source but one give reports that differ only by
that source's share -/
theorem setting_local (lower : String → String) (supplemental : S → Bool) (txns txns' : S → List T)
    (pre post : List S) (s : S) (hs : supplemental s = false)
    (hagree : ∀ x ∈ pre ++ post, txns x = txns' x) :
    runUp lower supplemental txns (pre ++ post) = runUp lower supplemental txns' (pre ++ post) := by
  unfold runUp
  congr 1
  have : ∀ l : List S, (∀ x ∈ l, txns x = txns' x) → l.flatMap txns = l.flatMap txns' := by
    intro l hl
    induction l with
    | nil => rfl
    | cons a l ih =>
      simp only [List.flatMap_cons]
      rw [hl a (List.mem_cons_self ..), ih (fun x hx => hl x (List.mem_cons_of_mem _ hx))]
  exact this _ (fun x hx => hagree x (List.mem_filter.mp hx).1)

/-- the order in which sources are configured does not change any figure -/
theorem source_order_irrelevant (lower : String → String) (supplemental : S → Bool) (txns : S → List T)
    {srcs srcs' : List S} (p : srcs.Perm srcs') :
    flowOf (runUp lower supplemental txns srcs) = flowOf (runUp lower supplemental txns srcs') ∧
    (∀ k, (runUp lower supplemental txns srcs).byMerchant.lookup k = (runUp lower supplemental txns srcs').byMerchant.lookup k) ∧
    (∀ k, (runUp lower supplemental txns srcs).byCategory.lookup k = (runUp lower supplemental txns srcs').byCategory.lookup k) ∧
    (∀ k, (runUp lower supplemental txns srcs).byMonth.lookup k = (runUp lower supplemental txns srcs').byMonth.lookup k) := by
  unfold runUp
  exact analyze_perm lower ((p.filter _).flatMap_right txns)

/-- exactly the transactions of the non-supplemental sources are in the report -/
theorem report_count (lower : String → String) (supplemental : S → Bool) (txns : S → List T) (sources : List S) :
    (runUp lower supplemental txns sources).count =
      ((sources.filter (fun s => !supplemental s)).map (fun s => (txns s).length)).sum := by
  unfold runUp
  rw [(groupings_conserve lower _).2.2.2.2.2]
  simp [List.length_flatMap]

/-! ### Reading a source can FAIL (`cmd_run`'s `try … except Exception: continue`, `load_supplemental_sources`' "skip sources
that can't be loaded").  Not totalised away: `read` / `readSupp` return `Except`, the pipeline catches PER SOURCE. -/

variable {E R : Type}

/-- what the rule expressions can query: the supplemental sources that could be loaded, in configuration order -/
def suppData (supplemental : S → Bool) (readSupp : S → Except E R) (sources : List S) : List R :=
  (sources.filter supplemental).filterMap (fun s => match readSupp s with | .ok r => some r | .error _ => none)

/-- `except Exception: continue`: a read that raises yields no transaction -/
def orNil : Except E (List T) → List T
  | .ok l => l
  | .error _ => []

/-- `tally up` with fallible I/O: the supplemental tables that load are handed to every ordinary source's
parse-and-classify step `read`; an ordinary source whose read raises is reported and yields no transaction -/
def runUpIO (lower : String → String) (supplemental : S → Bool) (readSupp : S → Except E R)
    (read : List R → S → Except E (List T)) (sources : List S) : Stats Int :=
  runUp lower supplemental (fun s => orNil (read (suppData supplemental readSupp sources) s)) sources

/-- an ORDINARY source that exists but cannot be read (wrong encoding, a directory, permission denied …) leaves the
report exactly as it is without that source: the run completes and no other figure moves -/
theorem unreadable_source_neutral (lower : String → String) (supplemental : S → Bool) (readSupp : S → Except E R)
    (read : List R → S → Except E (List T)) (pre post : List S) (s : S) (hs : supplemental s = false)
    (hfail : ∀ d, ∃ e, read d s = .error e) :
    runUpIO lower supplemental readSupp read (pre ++ s :: post) = runUpIO lower supplemental readSupp read (pre ++ post) := by
  have hd : suppData supplemental readSupp (pre ++ s :: post) = suppData supplemental readSupp (pre ++ post) := by
    simp [suppData, List.filter_append, List.filter_cons, hs]
  unfold runUpIO
  rw [hd]
  apply silent_source_neutral
  right
  obtain ⟨e, he⟩ := hfail (suppData supplemental readSupp (pre ++ post))
  simp [he, orNil]

/-- a SUPPLEMENTAL source that exists but cannot be loaded is as if it were not configured: same queryable data,
same report — in particular the run is not aborted -/
theorem unreadable_supplemental_neutral (lower : String → String) (supplemental : S → Bool) (readSupp : S → Except E R)
    (read : List R → S → Except E (List T)) (pre post : List S) (s : S) (hs : supplemental s = true)
    (e : E) (hfail : readSupp s = .error e) :
    runUpIO lower supplemental readSupp read (pre ++ s :: post) = runUpIO lower supplemental readSupp read (pre ++ post) := by
  have hd : suppData supplemental readSupp (pre ++ s :: post) = suppData supplemental readSupp (pre ++ post) := by
    simp [suppData, List.filter_append, List.filter_cons, hs, hfail]
  unfold runUpIO
  rw [hd]
  exact silent_source_neutral lower supplemental _ pre post s (Or.inl hs)

/-- a supplemental source is QUERY-ONLY: whatever it contains, it adds no transaction; it can change the report only
through what `read` does with the table -/
theorem supplemental_query_only (lower : String → String) (supplemental : S → Bool) (readSupp : S → Except E R)
    (read : List R → S → Except E (List T)) (pre post : List S) (s : S) (hs : supplemental s = true)
    (hignored : ∀ d d' x, read d x = read d' x) :
    runUpIO lower supplemental readSupp read (pre ++ s :: post) = runUpIO lower supplemental readSupp read (pre ++ post) := by
  unfold runUpIO
  rw [show (fun x => orNil (read (suppData supplemental readSupp (pre ++ s :: post)) x)) =
        (fun x => orNil (read (suppData supplemental readSupp (pre ++ post)) x)) from
      funext fun x => by rw [hignored _ (suppData supplemental readSupp (pre ++ post)) x]]
  exact silent_source_neutral lower supplemental _ pre post s (Or.inl hs)

/-! non-vacuity: three sources (one supplemental, one empty) -/
inductive Src | bank | card | orders | missing
deriving DecidableEq
def supp : Src → Bool | .orders => true | _ => false
def tx : Src → List T
  | .bank => [⟨-10000, some ["income"], "Emp", "Income", "", "2025-01"⟩, ⟨2500, none, "Shop", "Food", "", "2025-01"⟩]
  | .card => [⟨4200, some [], "Shop", "Food", "", "2025-02"⟩]
  | .orders => [⟨999, none, "Order", "X", "", "2025-02"⟩]
  | .missing => []
example : flowOf (runUp asciiLower supp tx [.bank, .orders, .missing, .card]) = ⟨10000, 6700, 0, 0, 0, 0, 3, -3300⟩ := by
  decide +kernel
example : Silent supp tx .orders ∧ Silent supp tx .missing := ⟨Or.inl rfl, Or.inr rfl⟩

/-! non-vacuity of the I/O theorems: `.missing` raises when read, the `.orders` table cannot be loaded, and still the
bank and card figures are exactly those of the two-source budget -/
def rd (_ : List Nat) : Src → Except String (List T)
  | .missing => .error "'utf-8' codec can't decode byte 0xe9"
  | s => .ok (tx s)
def rdSupp : Src → Except String Nat
  | .orders => .error "[Errno 21] Is a directory"
  | _ => .ok 0
example : (∀ d, ∃ e, rd d .missing = .error e) ∧ rdSupp .orders = .error "[Errno 21] Is a directory" :=
  ⟨fun _ => ⟨_, rfl⟩, rfl⟩
example : flowOf (runUpIO asciiLower supp rdSupp rd [.bank, .orders, .missing, .card]) =
    flowOf (runUpIO asciiLower supp rdSupp rd [.bank, .card]) := by
  decide +kernel

end TallyVerif.Props.C11
