/-
C01 — in first-match mode the first matching categorising rule decides merchant, category and
subcategory; non-matching rules and rules after the winner are irrelevant; no such rule ⇒ Unknown.

Model: `Rules.matchEngine` (the `for rule in self.rules` loop of `MerchantEngine.match` and its
`first_match` branch) and `Rules.legacy` (the tuple loop of `normalize_merchant`), both over an
ARBITRARY per-rule evaluation `ev` — so every statement holds for every expression language,
variables, lets, transforms and regex engine at once.  `fix` (the D2 flag) and `key` are arbitrary too.
-/
import TallyVerif.Lemmas.Rules

namespace TallyVerif.Props.C01
open TallyVerif.Rules

/-- merchant / category / subcategory of a result -/
def mcs (r : Result) : String × String × String := (r.merchant, r.category, r.subcategory)

def wins (ev : Rule → Eval) (r : Rule) : Bool := (ev r).hit && r.isCat

/-- The whole first-match result is determined by `find?` of the first matching categorising
rule (file order): that rule's merchant, category, subcategory and extra fields; otherwise nothing. -/
theorem first_match_spec (fix : Bool) (key : Rule → Key) (ev : Rule → Eval) (rs : List Rule) :
    let res := matchEngine fix key ev .firstMatch rs
    res.matchedRule = rs.find? (wins ev) ∧
    res.matched = (rs.find? (wins ev)).isSome ∧
    mcs res = match rs.find? (wins ev) with
      | some r => (r.merchant, r.category, r.subcategory)
      | none => ("", "", "") := by
  simp only [matchEngine, finish, runLoop, fold_firstCat, loopInit, Option.isSome_none, mcs]
  have : (fun r => (ev r).hit && r.isCat) = wins ev := rfl
  simp only [Bool.false_eq_true, if_false, this]
  cases h : rs.find? (wins ev) with
  | none => simp
  | some r =>
    have hr := List.find?_some h
    simp only [wins, Bool.and_eq_true] at hr
    have hc : r.category ≠ "" := by simpa [Rule.isCat] using hr.2
    by_cases hs : r.hasSub = true
    · simp [hs]
    · have hs' : r.subcategory = "" := by simpa [Rule.hasSub] using hs
      simp [hs, hs']

/-- Rules whose condition is false for the transaction have no influence on ANY part of the
result (merchant, category, subcategory, tags, tag sources, extra fields, matching-rule lists) —
in both modes. -/
theorem nonmatching_irrelevant (fix : Bool) (key : Rule → Key) (ev : Rule → Eval) (mode : Mode)
    (rs : List Rule) :
    matchEngine fix key ev mode (rs.filter (fun r => (ev r).hit)) = matchEngine fix key ev mode rs := by
  simp only [matchEngine, runLoop]
  rw [fold_filter ev rs]

/-- Deleting / inserting any set of non-matching rules anywhere: two files with the same matching
rules in the same order classify identically. -/
theorem nonmatching_irrelevant_ext (fix : Bool) (key : Rule → Key) (ev : Rule → Eval) (mode : Mode)
    (rs rs' : List Rule)
    (h : rs.filter (fun r => (ev r).hit) = rs'.filter (fun r => (ev r).hit)) :
    matchEngine fix key ev mode rs = matchEngine fix key ev mode rs' := by
  rw [← nonmatching_irrelevant fix key ev mode rs, ← nonmatching_irrelevant fix key ev mode rs', h]

/-- Rules after the winning one cannot change merchant, category or subcategory. -/
theorem later_rules_irrelevant (fix : Bool) (key : Rule → Key) (ev : Rule → Eval)
    (pre post post' : List Rule) (w : Rule)
    (hw : wins ev w = true) (hpre : ∀ r ∈ pre, wins ev r = false) :
    mcs (matchEngine fix key ev .firstMatch (pre ++ w :: post')) =
      mcs (matchEngine fix key ev .firstMatch (pre ++ w :: post)) ∧
    mcs (matchEngine fix key ev .firstMatch (pre ++ w :: post)) = (w.merchant, w.category, w.subcategory) := by
  have find : ∀ p : List Rule, (pre ++ w :: p).find? (wins ev) = some w := by
    intro p
    rw [List.find?_append]
    have : pre.find? (wins ev) = none := by
      rw [List.find?_eq_none]; intro r hr; simp [hpre r hr]
    simp [this, hw]
  have h1 := (first_match_spec fix key ev (pre ++ w :: post)).2.2
  have h2 := (first_match_spec fix key ev (pre ++ w :: post')).2.2
  simp only [find] at h1 h2
  exact ⟨h2.trans h1.symm, h1⟩

/-- No matching categorising rule ⇒ the engine reports "not matched" with empty
merchant/category/subcategory (and `normalize_merchant` then reports Unknown/Unknown — see
`legacy_unknown` and the History model for the wrapper). -/
theorem no_winner_unmatched (fix : Bool) (key : Rule → Key) (ev : Rule → Eval) (rs : List Rule)
    (h : ∀ r ∈ rs, wins ev r = false) :
    (matchEngine fix key ev .firstMatch rs).matched = false ∧
    mcs (matchEngine fix key ev .firstMatch rs) = ("", "", "") := by
  have hf : rs.find? (wins ev) = none := by
    rw [List.find?_eq_none]; intro r hr; simp [h r hr]
  have := first_match_spec fix key ev rs
  simp only [hf] at this
  exact ⟨by simpa using this.2.1, this.2.2⟩

/-- `normalize_merchant` on the engine path: the winner's merchant/category/subcategory, or —
when no categorising rule matches — Unknown/Unknown under a merchant name `fb` that the caller
computes from the (transformed) description alone. -/
theorem normalize_spec (fix : Bool) (key : Rule → Key) (ev : Rule → Eval) (rs : List Rule) (fb : String) :
    normalizeEngine (matchEngine fix key ev .firstMatch rs) fb =
      match rs.find? (wins ev) with
      | some r => (r.merchant, r.category, r.subcategory)
      | none => (fb, "Unknown", "Unknown") := by
  obtain ⟨-, h2, h3⟩ := first_match_spec fix key ev rs
  simp only [normalizeEngine, h2]
  cases h : rs.find? (wins ev) with
  | none => simp
  | some r => simp only [h, mcs] at h3; simp [h3]

theorem unknown_fallback (fix : Bool) (key : Rule → Key) (ev : Rule → Eval) (rs : List Rule) (fb : String)
    (h : ∀ r ∈ rs, wins ev r = false) :
    normalizeEngine (matchEngine fix key ev .firstMatch rs) fb = (fb, "Unknown", "Unknown") := by
  have hf : rs.find? (wins ev) = none := by
    rw [List.find?_eq_none]; intro r hr; simp [h r hr]
  rw [normalize_spec, hf]

/-- transforms are applied first, in file order, each seeing the result of the previous ones, and
the original value of a transformed field is saved once under `_raw_<field>` (never overwritten) -/
theorem transforms_sequential (tev : TState → String → String → Option String)
    (tr : String × String) (trs : List (String × String)) (s : TState) :
    applyTransforms tev (tr :: trs) s = applyTransforms tev trs (applyTransform s tr.1 (tev s tr.1 tr.2)) := rfl

theorem raw_saved_once (s : TState) (name : String) (v : Option String) (old : String)
    (h : s.raw.lookup ("_raw_" ++ name) = some old) :
    (applyTransform s name v).raw = s.raw := by
  cases v with
  | none => rfl
  | some v => unfold applyTransform; by_cases hn : (name == "description") = true <;> simp [hn, h]

/-! ### the legacy tuple loop (`merchant_categories.csv` rules) -/

def lwins (ev : LRule → LEval) (r : LRule) : Bool := (ev r).outcome == .matched && r.category != ""

private theorem lfold_first (ev : LRule → LEval) (rs : List LRule) (s : LLoop) :
    (rs.foldl (lstep ev) s).first = if s.first.isSome then s.first else rs.find? (lwins ev) := by
  induction rs generalizing s with
  | nil => cases h : s.first <;> simp [h]
  | cons r rs ih =>
    rw [List.foldl_cons, ih]
    cases hs : s.first with
    | some x =>
      have : (lstep ev s r).first = some x := by
        unfold lstep; cases (ev r).outcome <;> simp [hs]
      simp [this]
    | none =>
      by_cases hw : lwins ev r = true
      · have hw2 := hw
        simp only [lwins, Bool.and_eq_true, beq_iff_eq] at hw2
        have : (lstep ev s r).first = some r := by
          unfold lstep; simp [hw2.1, hs, hw2.2]
        simp [this, List.find?_cons, hw]
      · have hw' : lwins ev r = false := by simpa using hw
        have : (lstep ev s r).first = none := by
          unfold lstep
          cases ho : (ev r).outcome <;> simp [hs]
          simp only [lwins, ho, beq_self_eq_true, Bool.true_and] at hw'
          simpa using hw'
        simp [this, List.find?_cons, hw']

/-- legacy loop: merchant/category/subcategory are those of the first rule, in file order, that
matched and carries a category; otherwise (fallback name, Unknown, Unknown). -/
theorem legacy_first_match_spec (ev : LRule → LEval) (fallback : String) (rs : List LRule) :
    let res := legacy ev fallback rs
    res.rule = rs.find? (lwins ev) ∧
    (res.merchant, res.category, res.subcategory) = match rs.find? (lwins ev) with
      | some r => (r.merchant, r.category, r.subcategory)
      | none => (fallback, "Unknown", "Unknown") := by
  simp only [legacy, lfold_first]
  cases h : rs.find? (lwins ev) <;> simp [h]

private theorem lstep_id (ev : LRule → LEval) (s : LLoop) (r : LRule) (h : (ev r).outcome ≠ .matched) :
    lstep ev s r = s := by
  unfold lstep; cases ho : (ev r).outcome <;> simp_all

private theorem lfold_filter (ev : LRule → LEval) (rs : List LRule) (s : LLoop) :
    rs.foldl (lstep ev) s = (rs.filter (fun r => (ev r).outcome == .matched)).foldl (lstep ev) s := by
  induction rs generalizing s with
  | nil => rfl
  | cons r rs ih =>
    by_cases h : (ev r).outcome = .matched
    · simp only [List.foldl_cons, List.filter_cons, h, beq_self_eq_true, if_true]; exact ih _
    · have hb : ((ev r).outcome == LOutcome.matched) = false := by simpa using h
      simp only [List.foldl_cons, List.filter_cons, hb, lstep_id ev s r h]
      simpa using ih s

/-- legacy loop: rules that do not match (or whose pattern is invalid and is skipped) have no
influence on any part of the result. -/
theorem legacy_nonmatching_irrelevant (ev : LRule → LEval) (fallback : String) (rs : List LRule) :
    legacy ev fallback (rs.filter (fun r => (ev r).outcome == .matched)) = legacy ev fallback rs := by
  simp only [legacy]
  rw [lfold_filter ev rs, lfold_filter ev (rs.filter _), List.filter_filter]

theorem legacy_later_rules_irrelevant (ev : LRule → LEval) (fallback : String)
    (pre post post' : List LRule) (w : LRule)
    (hw : lwins ev w = true) (hpre : ∀ r ∈ pre, lwins ev r = false) :
    let a := legacy ev fallback (pre ++ w :: post); let b := legacy ev fallback (pre ++ w :: post')
    (a.merchant, a.category, a.subcategory) = (b.merchant, b.category, b.subcategory) ∧
    (a.merchant, a.category, a.subcategory) = (w.merchant, w.category, w.subcategory) := by
  have find : ∀ p : List LRule, (pre ++ w :: p).find? (lwins ev) = some w := by
    intro p
    rw [List.find?_append]
    have : pre.find? (lwins ev) = none := by
      rw [List.find?_eq_none]; intro r hr; simp [hpre r hr]
    simp [this, hw]
  have h1 := (legacy_first_match_spec ev fallback (pre ++ w :: post)).2
  have h2 := (legacy_first_match_spec ev fallback (pre ++ w :: post')).2
  simp only [find] at h1 h2
  exact ⟨h1.trans h2.symm, h1⟩

/-- no categorising match ⇒ Unknown/Unknown under the fallback name, which (by its type) is
computed from the description alone by the caller. -/
theorem legacy_unknown (ev : LRule → LEval) (fallback : String) (rs : List LRule)
    (h : ∀ r ∈ rs, lwins ev r = false) :
    let a := legacy ev fallback rs
    (a.merchant, a.category, a.subcategory) = (fallback, "Unknown", "Unknown") := by
  have hf : rs.find? (lwins ev) = none := by
    rw [List.find?_eq_none]; intro r hr; simp [h r hr]
  have := (legacy_first_match_spec ev fallback rs).2
  simpa [hf] using this

/-! ### non-vacuity -/

def rTag : Rule := ⟨1, "Tag", "Tag", "", "", 50, "contains(\"A\")"⟩
def rCat1 : Rule := ⟨5, "One", "One", "Food", "Grocery", 50, "contains(\"A\")"⟩
def rMiss : Rule := ⟨9, "Miss", "Miss", "Other", "", 50, "contains(\"Z\")"⟩
def rCat2 : Rule := ⟨13, "Two", "Shop Two", "Shopping", "", 50, "contains(\"A\") and amount > 1"⟩
def evEx (r : Rule) : Eval := ⟨r.line != 9, if r.line == 1 then ["t", "u"] else if r.line == 13 then ["u", "v"] else [], []⟩
def keyEx (_ : Rule) : Key := ⟨50, 1, 0, 1⟩

example : mcs (matchEngine false keyEx evEx .firstMatch [rTag, rCat1, rMiss, rCat2]) = ("One", "Food", "Grocery") := by
  decide +kernel
example : (matchEngine false keyEx evEx .firstMatch [rTag, rCat1, rMiss, rCat2]).tags = ["t", "u", "v"] := by
  decide +kernel
example : wins evEx rCat1 = true ∧ ∀ r ∈ [rTag], wins evEx r = false := by decide +kernel

end TallyVerif.Props.C01
