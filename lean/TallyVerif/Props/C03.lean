/-
C03 — rule expressions are confined: no code execution, I/O or introspection.

Three obligations (DESIGN.md §5 C03):
 1. whitelist soundness — `validate_ast` accepts a tree iff EVERY node in it has a whitelisted kind
    (theorems below, for every tree), and the whitelist regenerated from the source contains only
    reviewed-safe kinds (`whitelist_reviewed`, a kernel-decided obligation over `Gen.ExprTables`);
 2. closure — the evaluator model's values are, by their type, only None/bool/int/float/str/date/
    timedelta/list/row/generator: there is no constructor for types, functions, methods, modules,
    frames or code objects, and `eval` has no access to any Python object world.  That the model is
    faithful is what the payload correspondence checks on every run;
 3. capability table — every `getattr`/`hasattr`, import and dangerous builtin call in
    expr_parser.py, regenerated from source, is one of the reviewed ones (`capabilities_reviewed`),
    the evaluators can only evaluate whitelisted node kinds (`dispatch_closed`), and the only methods
    callable on an evaluated value are six literal string methods (`string_methods_closed`).
-/
import TallyVerif.Model.Sandbox
import TallyVerif.Model.Expr
import TallyVerif.Gen.ExprTables

namespace TallyVerif.Props.C03
open TallyVerif.Sandbox TallyVerif.Gen

mutual
theorem validate_sound (allowed : List String) (t : Tree) (h : validate allowed t = true) :
    ∀ k ∈ kinds t, k ∈ allowed := by
  cases t with
  | node kd cs =>
    simp only [validate, Bool.and_eq_true, List.contains_iff_mem] at h
    intro k hk
    simp only [kinds, List.mem_cons] at hk
    rcases hk with hk | hk
    · subst hk; exact h.1
    · exact validateAll_sound allowed cs h.2 k hk
theorem validateAll_sound (allowed : List String) (ts : List Tree) (h : validateAll allowed ts = true) :
    ∀ k ∈ kindsAll ts, k ∈ allowed := by
  cases ts with
  | nil => intro k hk; simp [kindsAll] at hk
  | cons t ts =>
    simp only [validateAll, Bool.and_eq_true] at h
    intro k hk
    simp only [kindsAll, List.mem_append] at hk
    rcases hk with hk | hk
    · exact validate_sound allowed t h.1 k hk
    · exact validateAll_sound allowed ts h.2 k hk
end

mutual
theorem validate_complete (allowed : List String) (t : Tree) (h : ∀ k ∈ kinds t, k ∈ allowed) :
    validate allowed t = true := by
  cases t with
  | node kd cs =>
    simp only [validate, Bool.and_eq_true, List.contains_iff_mem]
    refine ⟨h kd (by simp [kinds]), validateAll_complete allowed cs ?_⟩
    intro k hk; exact h k (by simp [kinds, hk])
theorem validateAll_complete (allowed : List String) (ts : List Tree) (h : ∀ k ∈ kindsAll ts, k ∈ allowed) :
    validateAll allowed ts = true := by
  cases ts with
  | nil => rfl
  | cons t ts =>
    simp only [validateAll, Bool.and_eq_true]
    exact ⟨validate_complete allowed t (fun k hk => h k (by simp [kindsAll, hk])),
           validateAll_complete allowed ts (fun k hk => h k (by simp [kindsAll, hk]))⟩
end

/-- accepted ⇔ only whitelisted node kinds anywhere in the tree (children, operators, contexts,
comprehension clauses, keyword / starred arguments, slices … included: they are nodes) -/
theorem validate_iff (allowed : List String) (t : Tree) :
    validate allowed t = true ↔ ∀ k ∈ kinds t, k ∈ allowed :=
  ⟨validate_sound allowed t, validate_complete allowed t⟩

/-- The node kinds reviewed as harmless for this evaluator.  NOT in the list (so adding any of them
to ALLOWED_NODES breaks `whitelist_reviewed`): Lambda, Dict, Set, List, Tuple, JoinedStr,
FormattedValue, Starred, Slice, keyword, Await, Yield, YieldFrom, SetComp, DictComp, Pow, FloorDiv,
bit operators, Is / IsNot, Invert, UAdd, every statement kind. -/
def reviewedSafeKinds : List String :=
  ["Expression", "BoolOp", "BinOp", "UnaryOp", "Compare", "Call", "IfExp", "And", "Or", "Not", "Add", "Sub", "Mult",
   "Div", "Mod", "USub", "Eq", "NotEq", "Lt", "LtE", "Gt", "GtE", "In", "NotIn", "Constant", "Name", "Load", "Store",
   "Attribute", "ListComp", "comprehension", "GeneratorExp", "Subscript", "Index", "NamedExpr"]

theorem whitelist_reviewed : ∀ k ∈ ExprTables.allowedNodes, k ∈ reviewedSafeKinds := by decide

/-- whatever validates against the code's whitelist contains only reviewed-safe node kinds -/
theorem accepted_trees_are_reviewed (t : Tree) (h : validate ExprTables.allowedNodes t = true) :
    ∀ k ∈ kinds t, k ∈ reviewedSafeKinds :=
  fun k hk => whitelist_reviewed k (validate_sound _ t h k hk)

/-- the reviewed capability entries (method, capability, detail) of expr_parser.py -/
def reviewedCaps : List (String × String × String) :=
  [("TransactionContext.get_function", "getattr-prefixed", "self._fn_*"),   -- guarded by `name in _FUNCTION_NAMES`
   ("TransactionContext._fn_fuzzy", "import", "difflib"),
   ("ExpressionEvaluator.evaluate", "hasattr-name", "self.<method>"),       -- `_eval_<NodeKind>` of a whitelisted kind
   ("ExpressionEvaluator.evaluate", "getattr-name", "self.<method>"),
   ("TransactionEvaluator.evaluate", "hasattr-name", "self.<method>"),
   ("TransactionEvaluator.evaluate", "getattr-name", "self.<method>"),
   ("TransactionEvaluator._eval_Attribute", "getattr-constant", "self.ctx.source"),
   ("TransactionEvaluator._eval_Attribute", "getattr-constant", "self.ctx.location"),
   ("module", "import", "ast"), ("module", "import", "re"), ("module", "import", "statistics"),
   ("module", "import", "warnings"), ("module", "import", "datetime"), ("module", "import", "typing")]

theorem capabilities_reviewed : ∀ c ∈ ExprTables.caps, c ∈ reviewedCaps := by decide

/-- every node kind one of the evaluators has an `_eval_` method for is whitelisted (the extra entry is the
helper `_eval_comprehension_loop`, not a node kind) -/
theorem dispatch_closed :
    (∀ k ∈ ExprTables.txnEvalMethods, k ∈ ExprTables.allowedNodes ∨ k = "comprehension_loop") ∧
    (∀ k ∈ ExprTables.viewEvalMethods, k ∈ ExprTables.allowedNodes) := by decide

/-- the only methods callable on an evaluated value, and the only specially handled builtins -/
theorem string_methods_closed :
    ExprTables.stringMethods = ["lower", "upper", "strip", "startswith", "endswith", "replace"] ∧
    ExprTables.specialCalls = ["exists", "len", "sum", "any", "all", "next", "min", "max"] := by decide

/-- the callable names: the special builtins, `abs`, `round`, and `_FUNCTION_NAMES` — nothing else
resolves (`Expr.eval` answers "Unknown function" for every other name, by definition of its dispatch) -/
theorem function_names_reviewed :
    ExprTables.functionNames = ["abs", "anyof", "contains", "extract", "fuzzy", "lowercase", "normalized", "regex",
      "regex_replace", "round", "split", "startswith", "strip_prefix", "strip_suffix", "substring", "trim", "uppercase"] := by
  decide

/-- non-vacuity: a tree with a `Lambda` deep inside a comprehension is rejected, the same tree without it is accepted -/
example :
    validate ExprTables.allowedNodes (.node "Expression" [.node "ListComp" [.node "Name" [.node "Load" []],
      .node "comprehension" [.node "Name" [.node "Store" []], .node "Lambda" []]]]) = false ∧
    validate ExprTables.allowedNodes (.node "Expression" [.node "ListComp" [.node "Name" [.node "Load" []],
      .node "comprehension" [.node "Name" [.node "Store" []], .node "Name" [.node "Load" []]]]]) = true := by
  decide +kernel

end TallyVerif.Props.C03
