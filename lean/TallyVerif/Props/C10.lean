/-
C10 — a merchant appears in a view exactly when the view's filter is true of it.

Model: `View.classifyViews` (= `analyzer.classify_by_sections` ∘ `section_engine.classify_merchants`) over
`View.eval` (= `expr_parser.ExpressionEvaluator` + `ExpressionContext`), tied to the code by the
correspondence streams of harness/props/c10.py.  `convert = true` is `_eval_Expression` after the D8
repair.  Every statement is for every oracle family (`statistics.stdev`, libm `pow`, `round`, float `%`,
`str.lower`), every views configuration and every merchant list.  `Err.unmodelled` is the model's own
"I do not cover this construct / I need an oracle entry" outcome; it is not an exception of the
implementation.
-/
import TallyVerif.Lemmas.View

namespace TallyVerif.Props.C10
open TallyVerif.Py TallyVerif.View
open TallyVerif.Expr (Expr Link CmpOp)

/-- no two views share a name.  FORCED by the code: `{section.name: [] for section in config.sections}`
merges equal names (observation recorded by the harness: two `[V]` views list the union). -/
def distinctNames (secs : List Section) : Prop := (secs.map (·.name)).Nodup

instance (secs : List Section) : Decidable (distinctNames secs) := by unfold distinctNames; infer_instance

/-- what the view engine sees of a merchant: its own payments, re-dated to the 15th of their month -/
abbrev ctxOf (m : Merchant) : List Txn := sectionTxns m

/-- the view's filter, evaluated on its own (global variables, then the view's variables, then the
filter) over one payment list, yields a true value -/
def filterTrue (convert : Bool) (o : Oracles) (cfg : Config) (pd : List (String × Val)) (v : Section)
    (txns : List Txn) : Prop :=
  holdsE convert o cfg.globals pd txns v = .ok true

def ModelGaveUp (e : Err) : Prop := ∃ w, e = .unmodelled w

theorem holds_iff (c : Bool) (o : Oracles) (g : List (String × Expr)) (pd : List (String × Val))
    (txns : List Txn) (s : Section) : holds c o g pd txns s = true ↔ holdsE c o g pd txns s = .ok true := by
  unfold holds
  cases h : holdsE c o g pd txns s with
  | error e => simp
  | ok b => cases b <;> simp

/-! ### membership -/

/-- Clause 1 (general form, NO hypothesis): a merchant is listed under a view name once per view of
that name whose filter is true of it; merchants tagged income / transfer / investment are never
listed. -/
theorem member_general (c : Bool) (o : Oracles) (lower : String → String) (cfg : Config) (n : Nat)
    (ms : List Merchant) (name : String) (m : Merchant) :
    m ∈ members (classifyViews c o lower cfg n ms) name ↔
      m ∈ ms ∧ excluded lower m = false ∧
        ∃ v ∈ cfg.sections, v.name = name ∧
          filterTrue c o cfg (periodData n (keptMerchants lower ms)) v (ctxOf m) := by
  unfold members classifyViews
  simp only []
  rw [lookup_classifyMerchants]
  by_cases hin : name ∈ cfg.sections.map (·.name)
  · simp only [hin, if_true, Option.getD_some, List.mem_flatMap, List.mem_map, List.mem_filter,
      Bool.and_eq_true, beq_iff_eq, keptMerchants, Bool.not_eq_true', merchantHolds, holds_iff, filterTrue]
    constructor
    · rintro ⟨m', ⟨hm', hex⟩, s, ⟨hs, hn, hh⟩, rfl⟩
      exact ⟨hm', hex, s, hs, hn, hh⟩
    · rintro ⟨hm, hex, s, hs, hn, hh⟩
      exact ⟨m, ⟨hm, hex⟩, s, ⟨hs, hn, hh⟩, rfl⟩
  · simp only [hin, if_false, Option.getD_none, List.not_mem_nil, false_iff]
    rintro ⟨_, _, v, hv, hn, _⟩
    exact hin (List.mem_map.mpr ⟨v, hv, hn⟩)

/-- under distinct view names the member list of a view is exactly the kept merchants on which ITS
filter is true, in `by_merchant` order -/
theorem members_eq_filter (c : Bool) (o : Oracles) (lower : String → String) (cfg : Config) (n : Nat)
    (ms : List Merchant) (v : Section) (hv : v ∈ cfg.sections) (hd : distinctNames cfg.sections) :
    members (classifyViews c o lower cfg n ms) v.name =
      (keptMerchants lower ms).filter
        (fun m => holds c o cfg.globals (periodData n (keptMerchants lower ms)) (ctxOf m) v) := by
  unfold classifyViews
  exact members_classifyMerchants _ cfg.sections _ v hv hd

/-- Clause 1: `m ∈ members v ↔ ¬ excluded m.tags ∧ filterTrue v (ctxOf m)` -/
theorem member_iff (c : Bool) (o : Oracles) (lower : String → String) (cfg : Config) (n : Nat)
    (ms : List Merchant) (v : Section) (hv : v ∈ cfg.sections) (hd : distinctNames cfg.sections) (m : Merchant) :
    m ∈ members (classifyViews c o lower cfg n ms) v.name ↔
      m ∈ ms ∧ excluded lower m = false ∧
        filterTrue c o cfg (periodData n (keptMerchants lower ms)) v (ctxOf m) := by
  rw [members_eq_filter c o lower cfg n ms v hv hd]
  simp only [List.mem_filter, keptMerchants, Bool.not_eq_true', holds_iff, filterTrue, and_assoc]

/-- Clause 2: views are independent — in any two views files with the same global variables that
both contain the view `v` (views added, removed, reordered around it), `v` has the same members in
the same order. -/
theorem views_independent (c : Bool) (o : Oracles) (lower : String → String) (cfg cfg' : Config) (n : Nat)
    (ms : List Merchant) (hg : cfg.globals = cfg'.globals) (v : Section)
    (hv : v ∈ cfg.sections) (hv' : v ∈ cfg'.sections)
    (hd : distinctNames cfg.sections) (hd' : distinctNames cfg'.sections) :
    members (classifyViews c o lower cfg n ms) v.name = members (classifyViews c o lower cfg' n ms) v.name := by
  rw [members_eq_filter c o lower cfg n ms v hv hd, members_eq_filter c o lower cfg' n ms v hv' hd', hg]

/-- the excluded point of `distinctNames`: two views called `V`; the entry `V` lists the union
(here merchant `A` through the first `V`, merchant `B` through the second) — independence fails. -/
theorem equal_names_merge :
    let o : Oracles := ⟨⟨fun _ => none, fun _ => none, fun _ _ => none, fun _ _ => none, fun _ _ _ => none,
      fun _ _ => none, fun _ => none, fun _ => none, fun _ _ => none, fun _ _ => none⟩,
      fun _ => none, fun _ => none, fun _ => none⟩
    let isFood : Expr := .cmp (.name "category") [.mk .eq (.const (.str "Food"))]
    let isBills : Expr := .cmp (.name "category") [.mk .eq (.const (.str "Bills"))]
    let a : Merchant := ⟨"A", "Food", "", [], [⟨2025, 1, .int 5⟩], .int 5⟩
    let b : Merchant := ⟨"B", "Bills", "", [], [⟨2025, 1, .int 7⟩], .int 7⟩
    let both : Config := ⟨[], [⟨"V", isFood, []⟩, ⟨"V", isBills, []⟩]⟩
    let one : Config := ⟨[], [⟨"V", isFood, []⟩]⟩
    (members (classifyViews true o lowerAscii both 12 [a, b]) "V").map (·.name) = ["A", "B"] ∧
    (members (classifyViews true o lowerAscii one 12 [a, b]) "V").map (·.name) = ["A"] := by
  decide +kernel

/-! ### totals -/

def intTotal (m : Merchant) : Int := match m.total with | .int i => i | _ => 0

/-- Clause 3: each view's total is the sum of its members' totals (exact amounts: integer cents). -/
theorem view_total (c : Bool) (o : Oracles) (lower : String → String) (cfg : Config) (n : Nat)
    (ms : List Merchant) (name : String) (hint : ∀ m ∈ ms, ∃ i, m.total = .int i) :
    sectionTotal (members (classifyViews c o lower cfg n ms) name) =
      .ok (.int ((members (classifyViews c o lower cfg n ms) name).map intTotal).sum) := by
  have hmem : ∀ m ∈ members (classifyViews c o lower cfg n ms) name, ∃ i, m.total = .int i := by
    intro m hm
    exact hint m ((member_general c o lower cfg n ms name m).mp hm).1
  generalize members (classifyViews c o lower cfg n ms) name = l at hmem
  unfold sectionTotal
  have : l.map (·.total) = (l.map intTotal).map Val.int := by
    rw [List.map_map]
    apply List.map_congr_left
    intro m hm
    obtain ⟨i, hi⟩ := hmem m hm
    simp [intTotal, hi]
  rw [this, pySum_ints]

/-! ### failing filters -/

private theorem evalRoot_true_error (o : Oracles) (ctx : Ctx) (e : Expr) (err : Err)
    (h : evalRoot true o ctx e = .error err) : (∃ t, err = .expr t) ∨ ModelGaveUp err := by
  unfold evalRoot at h
  split at h
  · cases h
  · simp at h; exact Or.inl ⟨_, h.symm⟩
  · rename_i err' hne _
    cases err' with
    | expr t => simp at h; exact Or.inl ⟨t, h.symm⟩
    | py cls => exact absurd rfl (hne cls)
    | unmodelled w => simp at h; exact Or.inr ⟨w, h.symm⟩

private theorem evalVariables_true_error (o : Oracles) (txns : List Txn) (pd : List (String × Val))
    (vars : List (String × Expr)) (res : Vars) (err : Err)
    (h : evalVariables true o txns pd vars res = .error err) : ModelGaveUp err := by
  induction vars generalizing res with
  | nil => simp [evalVariables] at h
  | cons kv rest ih =>
    obtain ⟨name, e⟩ := kv
    unfold evalVariables at h
    split at h
    · exact ih _ h
    · exact ih _ h
    · rename_i err' hne heq
      simp only [Except.error.injEq] at h
      subst h
      rcases evalRoot_true_error o _ e _ heq with ⟨t, ht⟩ | hg
      · exact absurd ht (hne t)
      · exact hg

private theorem sectionHoldsE_true_error (o : Oracles) (pd : List (String × Val)) (txns : List Txn) (g : Vars)
    (s : Section) (err : Err) (h : sectionHoldsE true o pd txns g s = .error err) : ModelGaveUp err := by
  unfold sectionHoldsE at h
  split at h
  · rename_i e heq
    simp only [Except.error.injEq] at h
    subst h
    split at heq
    · cases heq
    · exact evalVariables_true_error o txns pd _ _ _ heq
  · split at h
    · cases h
    · cases h
    · rename_i err' hne heq
      simp only [Except.error.injEq] at h
      subst h
      rcases evalRoot_true_error o _ _ _ heq with ⟨t, ht⟩ | hg
      · exact absurd ht (hne t)
      · exact hg

/-- Clause 4a (needs the D8 repair, `convert = true`): evaluating a view for a merchant never raises —
neither ExpressionError nor any Python exception leaves `evaluate_section_filter` /
`evaluate_variables`; the only non-value outcome is the model's own give-up. -/
theorem no_exception_escapes (o : Oracles) (g : List (String × Expr)) (pd : List (String × Val))
    (txns : List Txn) (s : Section) (err : Err) (h : holdsE true o g pd txns s = .error err) : ModelGaveUp err := by
  unfold holdsE at h
  split at h
  · rename_i e heq
    simp only [Except.error.injEq] at h
    subst h
    exact evalVariables_true_error o txns pd g [] _ heq
  · exact sectionHoldsE_true_error o pd txns _ s err h

/-- Clause 4b: the run continues — `classify_by_sections` as a whole aborts on nothing but the model's
own give-up -/
theorem run_continues (o : Oracles) (lower : String → String) (cfg : Config) (n : Nat) (ms : List Merchant)
    (err : Err) (h : aborts true o lower cfg n ms = some err) : ModelGaveUp err := by
  unfold aborts at h
  simp only [] at h
  obtain ⟨r, hr, hf⟩ := List.exists_of_findSome?_eq_some h
  simp only [List.mem_flatMap, List.mem_map] at hr
  obtain ⟨m, _, s, _, rfl⟩ := hr
  split at hf
  · rename_i e heq
    simp only [Option.some.injEq] at hf
    subst hf
    exact no_exception_escapes o _ _ _ _ _ heq
  · cases hf

/-- Clause 4c: a filter whose evaluation raises — ExpressionError or ANY Python exception — in the
context the view builds for the merchant excludes the merchant from that view. -/
theorem error_excludes (o : Oracles) (lower : String → String) (cfg : Config) (n : Nat) (ms : List Merchant)
    (v : Section) (hv : v ∈ cfg.sections) (hd : distinctNames cfg.sections) (m : Merchant)
    (g vars : Vars)
    (hg : evalVariables true o (ctxOf m) (periodData n (keptMerchants lower ms)) cfg.globals [] = .ok g)
    (hl : (if v.variables.isEmpty then .ok g
           else evalVariables true o (ctxOf m) (periodData n (keptMerchants lower ms)) v.variables g) = .ok vars)
    (err : Err)
    (he : View.eval o { txns := ctxOf m, variables := vars, period := periodData n (keptMerchants lower ms) } v.filter
            = .error err) :
    m ∉ members (classifyViews true o lower cfg n ms) v.name := by
  rw [member_iff true o lower cfg n ms v hv hd]
  rintro ⟨_, _, ht⟩
  unfold filterTrue holdsE at ht
  rw [hg] at ht
  simp only [] at ht
  unfold sectionHoldsE at ht
  rw [hl] at ht
  simp only [evalRoot, he] at ht
  cases err with
  | expr t => simp at ht
  | py cls => simp at ht
  | unmodelled w => simp at ht

/-- D8 on the code as pinned (`convert = false`): the view filter `total > "x"` aborts the whole
classification with TypeError; after the repair nothing aborts, the broken view is empty and the other
view is unaffected. -/
theorem d8_witness :
    let o : Oracles := ⟨⟨fun _ => none, fun _ => none, fun _ _ => none, fun _ _ => none, fun _ _ _ => none,
      fun _ _ => none, fun _ => none, fun _ => none, fun _ _ => none, fun _ _ => none⟩,
      fun _ => none, fun _ => none, fun _ => none⟩
    let broken : Expr := .cmp (.name "total") [.mk .gt (.const (.str "x"))]
    let monthly : Expr := .cmp (.name "months") [.mk .ge (.const (.int 2))]
    let a : Merchant := ⟨"A", "Food", "", [], [⟨2024, 12, .int 5⟩, ⟨2025, 1, .int 6⟩], .int 11⟩
    let cfg : Config := ⟨[], [⟨"Broken", broken, []⟩, ⟨"Monthly", monthly, []⟩]⟩
    aborts false o lowerAscii cfg 12 [a] = some (.py .typeError) ∧
    aborts true o lowerAscii cfg 12 [a] = none ∧
    (classifyViews true o lowerAscii cfg 12 [a]).map (fun kv => (kv.1, kv.2.map (·.name)))
      = [("Broken", []), ("Monthly", ["A"])] := by
  decide +kernel

/-! ### variables: evaluated for THIS merchant, in file order (no value is shared between merchants) -/

/-- `evaluate_variables` over a file `a ++ b` = the block `a`, then the block `b` on top of what `a` produced -/
theorem evalVariables_append (c : Bool) (o : Oracles) (txns : List Txn) (pd : List (String × Val))
    (a b : List (String × Expr)) (res : Vars) :
    evalVariables c o txns pd (a ++ b) res =
      (match evalVariables c o txns pd a res with
       | .ok g => evalVariables c o txns pd b g
       | .error e => .error e) := by
  induction a generalizing res with
  | nil => simp [evalVariables]
  | cons hd tl ih =>
    obtain ⟨n, e⟩ := hd
    simp only [List.cons_append, evalVariables]
    split <;> first | exact ih _ | rfl

/-- **A derived global sees this merchant's values.** The global declared after the block `pre` is evaluated over the
SAME merchant's payments `txns`, in the environment `g` that `pre` produced for that merchant — whether or not its own
text mentions a primitive. (So a variable written purely in terms of other variables, e.g. `is_habit = monthly > limit`
after `monthly = total / months`, is as merchant-dependent as `monthly` is: no global may be evaluated once for all
merchants unless every variable it reaches is a constant.) ExpressionError ⇒ the variable is `None` for this merchant. -/
theorem derived_global_per_merchant (c : Bool) (o : Oracles) (txns : List Txn) (pd : List (String × Val))
    (pre : List (String × Expr)) (n : String) (e : Expr) :
    evalVariables c o txns pd (pre ++ [(n, e)]) [] =
      (match evalVariables c o txns pd pre [] with
       | .error err => .error err
       | .ok g =>
         match evalRoot c o { txns := txns, variables := g, period := pd } e with
         | .ok x => .ok (setKey n x g)
         | .error (.expr _) => .ok (setKey n (.v .none) g)
         | .error err => .error err) := by
  rw [evalVariables_append]
  cases evalVariables c o txns pd pre [] with
  | error err => rfl
  | ok g =>
    simp only [evalVariables]
    split <;> simp_all

/-! ### the documented primitives -/

/-- `months` = number of distinct active months: `monthSet` enumerates the `%Y-%m` keys of the dated
payments without repetition, and `months` is its length (1 when there is no dated payment). -/
theorem months_def (ctx : Ctx) :
    (monthSet ctx.txns).Nodup ∧
    (∀ k, k ∈ monthSet ctx.txns ↔ ∃ t ∈ ctx.txns, ∃ d, t.date = some d ∧ k = fmtYm d) ∧
    getMonths ctx = if monthSet ctx.txns = [] then 1 else (monthSet ctx.txns).length := by
  refine ⟨?_, ?_, ?_⟩
  · rw [monthSet_eq]; exact monthFold_nodup _ _ List.nodup_nil
  · intro k
    rw [monthSet_eq, mem_monthFold]
    simp only [List.not_mem_nil, false_or, monthKeys, List.mem_filterMap, Option.map_eq_some_iff]
    constructor
    · rintro ⟨t, ht, d, hd, rfl⟩; exact ⟨t, ht, d, hd, rfl⟩
    · rintro ⟨t, ht, d, hd, rfl⟩; exact ⟨t, ht, d, hd, rfl⟩
  · unfold getMonths
    cases h : monthSet ctx.txns <;> simp

/-- `total` = sum of the payments (exact amounts) -/
theorem total_def (ctx : Ctx) (hint : ∀ t ∈ ctx.txns, ∃ i, t.amount = .int i) :
    getTotal ctx = .ok (.int ((ctx.txns.map intAmount).sum)) := by
  unfold getTotal getPayments
  have : ctx.txns.map (·.amount) = (ctx.txns.map intAmount).map Val.int := by
    rw [List.map_map]
    apply List.map_congr_left
    intro t ht
    obtain ⟨i, hi⟩ := hint t ht
    simp [intAmount, hi]
  rw [this, pySum_ints]

/-- `cv` (exact amounts): 0.0 for fewer than two active months; otherwise `cvOfTotals` — population
σ / μ, i.e. `(Σ (x − μ)² / n) ** 0.5 / μ` with `μ = Σ x / n` — of the MONTHLY TOTALS, one per distinct
active month in first-seen order, each the exact sum of that month's payments. -/
theorem cv_def (o : Oracles) (ctx : Ctx) (hint : ∀ t ∈ ctx.txns, ∃ i, t.amount = .int i) :
    getCv o ctx =
      if (monthSet ctx.txns).length < 2 then .ok (.flt (B 0.0))
      else cvOfTotals o ((monthSet ctx.txns).map (fun k => Val.int (monthSum k ctx.txns))) := by
  unfold getCv
  have h0 : monthlyGo ctx.txns [] = monthlyGo ctx.txns (ivals []) := rfl
  rw [h0, monthlyGo_ints ctx.txns hint [], monthlyInt_spec ctx.txns [] List.nodup_nil]
  simp only [List.map_nil, ← monthSet_eq, ivals, List.length_map, List.map_map]
  have : ((fun kv : String × Val => kv.2) ∘ (fun kv : String × Int => (kv.1, Val.int kv.2)) ∘
      fun k => (k, (([] : List (String × Int)).lookup k).getD 0 + monthSum k ctx.txns))
      = fun k => Val.int (monthSum k ctx.txns) := by
    funext k; simp
  rw [this]

/-- `cv` is 0.0 when the mean of the monthly totals is 0 -/
theorem cv_mean_zero (o : Oracles) (values : List Val) (s avg : Val) (hs : pySum values = .ok s)
    (ha : pyArith .div s (.int values.length) = .ok avg) (hz : isZero avg = true) :
    cvOfTotals o values = .ok (.flt (B 0.0)) := by
  unfold cvOfTotals
  simp [bind, Except.bind, hs, ha, hz, pure, Except.pure]

/-! ### `stddev` is a real number: `0` below two values, otherwise exactly what `statistics.stdev` answers -/

/-- the aggregate clause for `stddev` ("as documented": the sample deviation of CPython's `statistics.stdev`, `0` for fewer than two
values): whenever `stddev` of a list has a value, that value is the int `0` (fewer than two values) or the very float the oracle
`statistics.stdev` returns for the list — no other arithmetic is involved, so the result is always a REAL number on which `== 0`,
`> 0`, `< t` can be evaluated (identical payments: `statistics.stdev` is exactly `0.0`, the merchant is in `stddev(payments) == 0`). -/
theorem stddev_is_stdev (o : Oracles) (xs : List Val) (r : Val) (h : aggStddev o (.v (.list xs)) = .ok r) :
    (xs.length < 2 ∧ r = .int 0) ∨ (2 ≤ xs.length ∧ ∃ b, o.stdev xs = some (.ok b) ∧ r = .flt b) := by
  unfold aggStddev at h
  simp only [lenOf, iterOf] at h
  by_cases hn : xs.length < 2
  · simp only [hn, if_true] at h
    left; exact ⟨hn, by cases h; rfl⟩
  · simp only [hn, if_false] at h
    right
    refine ⟨by omega, ?_⟩
    unfold pyStdev at h
    by_cases hnum : xs.all isNum = true
    · simp only [hnum, if_true] at h
      cases ho : o.stdev xs with
      | none => simp [ho, need] at h
      | some e =>
        cases e with
        | error c => simp [ho, pyErr] at h
        | ok b => simp only [ho] at h; exact ⟨b, rfl, by cases h; rfl⟩
    · simp [hnum, pyErr] at h

/-- … and of any view value: a real number (int `0` or a float) -/
theorem stddev_is_real (o : Oracles) (v : VVal) (r : Val) (h : aggStddev o v = .ok r) : r = .int 0 ∨ ∃ b, r = .flt b := by
  unfold aggStddev at h
  cases hl : lenOf v with
  | none => simp [hl, pyErr] at h
  | some n =>
    simp only [hl] at h
    by_cases hn : n < 2
    · simp only [hn, if_true] at h; left; cases h; rfl
    · simp only [hn, if_false] at h
      cases hi : iterOf v with
      | none => simp [hi, pyErr] at h
      | some xs =>
        simp only [hi] at h
        unfold pyStdev at h
        by_cases hnum : xs.all isNum = true
        · simp only [hnum, if_true] at h
          cases ho : o.stdev xs with
          | none => simp [ho, need] at h
          | some e =>
            cases e with
            | error c => simp [ho, pyErr] at h
            | ok b => simp only [ho] at h; right; exact ⟨b, by cases h; rfl⟩
        · simp [hnum, pyErr] at h

/-! ### the HTML report's data (`spendingData.sections`) -/

/-- no two views that have members share an id in the report's data.  This is a HYPOTHESIS about the id
function `idOf` of `write_summary_file_vue` (a function of the view NAME), checked by the harness on every
generated views file with the ids the real report hands out.  As pinned (`name.lower().replace(' ', '_')`) it
fails exactly for names that are equal once lower-cased with spaces written as underscores
(`[My View]` / `[my_view]`: recorded observation D12g, witness below). -/
def distinctIds {α : Type} (idOf : String → String) (r : List (String × List α)) : Prop :=
  ((r.filter (fun p => !p.2.isEmpty)).map (fun p => idOf p.1)).Nodup

instance {α : Type} (idOf : String → String) (r : List (String × List α)) : Decidable (distinctIds idOf r) := by
  unfold distinctIds; infer_instance

/-- under `distinctIds` the data holds exactly the views that have members - in the order of the views file,
each under its own id, with its own title and exactly its merchants; for ANY id function. -/
theorem html_sections_eq {α : Type} (idOf : String → String) (r : List (String × List α))
    (h : distinctIds idOf r) :
    htmlSections idOf r = (r.filter (fun p => !p.2.isEmpty)).map (fun p => (idOf p.1, (p.1, p.2))) := by
  unfold htmlSections
  rw [htmlSections_fold idOf r [] (by simpa [distinctIds] using h)]
  simp

/-- the merchants listed under a view's title in the HTML data are the view's members -/
theorem html_members_eq {α : Type} (idOf : String → String) (r : List (String × List α))
    (hk : (r.map (·.1)).Nodup) (h : distinctIds idOf r) (name : String) :
    htmlMembers (htmlSections idOf r) name = members r name := by
  rw [html_sections_eq idOf r h]
  unfold htmlMembers members
  rw [List.map_map]
  have : ((fun (e : String × (String × List α)) => e.2) ∘ fun (p : String × List α) => (idOf p.1, (p.1, p.2))) = id := by
    funext p; rfl
  rw [this, List.map_id]
  exact lookup_filter_of_nodup r name hk

/-- Clause 1 at the HTML observation point: under distinct view names and distinct ids, a merchant is listed
under the view's title in `spendingData.sections` iff it is not tagged income / transfer / investment and the
view's filter is true over its own payments. -/
theorem html_member_iff (c : Bool) (o : Oracles) (lower : String → String) (cfg : Config) (n : Nat)
    (ms : List Merchant) (idOf : String → String) (v : Section) (hv : v ∈ cfg.sections)
    (hd : distinctNames cfg.sections) (hid : distinctIds idOf (classifyViews c o lower cfg n ms)) (m : Merchant) :
    m ∈ htmlMembers (htmlSections idOf (classifyViews c o lower cfg n ms)) v.name ↔
      m ∈ ms ∧ excluded lower m = false ∧
        filterTrue c o cfg (periodData n (keptMerchants lower ms)) v (ctxOf m) := by
  rw [html_members_eq idOf _ (by unfold classifyViews; exact keys_classifyMerchants_nodup _ _ _) hid]
  exact member_iff c o lower cfg n ms v hv hd m

/-- every entry of the data is a view that has members, whatever the ids are (nothing is invented) -/
theorem html_sections_sound {α : Type} (idOf : String → String) (r : List (String × List α))
    (e : String × (String × List α)) (he : e ∈ htmlSections idOf r) :
    (e.2.1, e.2.2) ∈ r ∧ e.2.2.isEmpty = false ∧ e.1 = idOf e.2.1 := by
  unfold htmlSections at he
  suffices h : ∀ acc : List (String × (String × List α)),
      (∀ x ∈ acc, (x.2.1, x.2.2) ∈ r ∧ x.2.2.isEmpty = false ∧ x.1 = idOf x.2.1) →
      ∀ l : List (String × List α), (∀ p ∈ l, p ∈ r) →
      ∀ x ∈ l.foldl (fun d p => if p.2.isEmpty then d else setKey (idOf p.1) (p.1, p.2) d) acc,
        (x.2.1, x.2.2) ∈ r ∧ x.2.2.isEmpty = false ∧ x.1 = idOf x.2.1 by
    exact h [] (by simp) r (fun _ hp => hp) e he
  intro acc hacc l
  induction l generalizing acc with
  | nil => intro _ x hx; exact hacc x hx
  | cons p l ih =>
    intro hl x hx
    rw [List.foldl_cons] at hx
    refine ih _ ?_ (fun q hq => hl q (List.mem_cons_of_mem _ hq)) x hx
    intro y hy
    by_cases hp : p.2.isEmpty = true
    · rw [if_pos hp] at hy; exact hacc y hy
    · rw [if_neg hp] at hy
      have hp' : p.2.isEmpty = false := by simpa using hp
      unfold setKey at hy
      split at hy
      · obtain ⟨z, hz, e⟩ := List.mem_map.mp hy
        by_cases hk : (z.1 == idOf p.1) = true
        · rw [if_pos hk] at e; subst e
          exact ⟨hl p (List.mem_cons_self ..), hp', rfl⟩
        · rw [if_neg hk] at e; subst e; exact hacc z hz
      · rcases List.mem_append.mp hy with h1 | h1
        · exact hacc y h1
        · simp only [List.mem_singleton] at h1; subst h1
          exact ⟨hl p (List.mem_cons_self ..), hp', rfl⟩

/-! ### non-vacuity: the hypotheses are satisfiable and the statements are not empty -/

section Examples

def noOracle : Oracles :=
  ⟨⟨fun _ => none, fun _ => none, fun _ _ => none, fun _ _ => none, fun _ _ _ => none,
    fun _ _ => none, fun _ => none, fun _ => none, fun _ _ => none, fun _ _ => none⟩,
   fun _ => none, fun _ => none, fun _ => none⟩

def vMonthly : Section := ⟨"Monthly", .cmp (.name "months") [.mk .ge (.name "need")], [("need", .const (.int 2))]⟩
def vBig : Section := ⟨"Big", .boolop true [.cmp (.name "total") [.mk .gt (.name "limit")],
  .cmp (.const (.str "biz")) [.mk .isIn (.name "tags")]], []⟩
def vBroken : Section := ⟨"Broken", .cmp (.callName "count" [.callName "by" [.const (.str "month")]]) [.mk .ge (.const (.int 1))], []⟩
def cfgEx : Config := ⟨[("limit", .const (.int 100))], [vMonthly, vBig, vBroken]⟩
def mA : Merchant := ⟨"A", "Food", "Grocery", [], [⟨2024, 12, .int 10⟩, ⟨2025, 1, .int 20⟩], .int 30⟩
def mB : Merchant := ⟨"B", "Bills", "", ["Biz"], [⟨2025, 1, .int 500⟩], .int 500⟩
def mC : Merchant := ⟨"C", "Income", "", ["INCOME"], [⟨2024, 12, .int 900⟩, ⟨2025, 1, .int 900⟩], .int 1800⟩

example : distinctNames cfgEx.sections := by decide +kernel
example : vBig ∈ cfgEx.sections := by simp [cfgEx]
example : (classifyViews true noOracle lowerAscii cfgEx 12 [mA, mB, mC]).map (fun kv => (kv.1, kv.2.map (·.name)))
    = [("Monthly", ["A"]), ("Big", ["B"]), ("Broken", [])] := by decide +kernel
example : excluded lowerAscii mC = true ∧ excluded lowerAscii mA = false := by decide +kernel
-- the reference's own example `count(by("month")) >= 1` compares a list with an int: TypeError inside evaluation
example : (match View.eval noOracle ⟨ctxOf mA, [], []⟩ vBroken.filter with | .error (.py .typeError) => true | _ => false) = true := by
  decide +kernel
example : aborts true noOracle lowerAscii cfgEx 12 [mA, mB, mC] = none := by decide +kernel
example : (match sectionTotal [mA, mB] with | .ok (.int i) => i | _ => -1) = 530 := by decide +kernel
example : getMonths ⟨ctxOf mA, [], []⟩ = 2 ∧
    (match getTotal ⟨ctxOf mA, [], []⟩ with | .ok (.int i) => i | _ => -1) = 30 := by decide +kernel
example : monthSet (ctxOf mA) = ["2024-12", "2025-01"] ∧ monthSum "2025-01" (ctxOf mA) = 20 := by decide +kernel
-- a view variable written with an upper-case letter is unreachable (the lookup lower-cases the name)
example : (match holdsE true noOracle [("Limit", .const (.int 100))] [] (ctxOf mB)
    ⟨"Up", .cmp (.name "total") [.mk .gt (.name "Limit")], []⟩ with | .ok b => !b | _ => false) = true := by decide +kernel

-- a global that depends on the merchant only THROUGH another variable: `tot = total`, `is_big = TOT > limit` (reference in another
-- letter case), view `[Big2] filter: is_big` — evaluated per merchant: A (30) is out, B (500) is in
def cfgDerived : Config :=
  ⟨[("limit", .const (.int 100)), ("tot", .name "total"), ("is_big", .cmp (.name "TOT") [.mk .gt (.name "limit")])],
   [⟨"Big2", .name "is_big", []⟩, ⟨"Small2", .unop .not (.name "Is_Big"), []⟩]⟩
example : (classifyViews true noOracle lowerAscii cfgDerived 12 [mA, mB, mC]).map (fun kv => (kv.1, kv.2.map (·.name)))
    = [("Big2", ["B"]), ("Small2", ["A"])] := by decide +kernel

-- `stddev`: one payment ⇒ the int 0; two identical payments whose `statistics.stdev` is +0.0 ⇒ that float (bit pattern 0)
example : (match aggStddev noOracle (.v (.list [.int 5])) with | .ok (.int 0) => true | _ => false) = true := by decide +kernel
example : (match aggStddev { noOracle with stdev := fun _ => some (.ok 0) } (.v (.list [.int 5, .int 5])) with
    | .ok (.flt b) => b == 0 | _ => false) = true := by decide +kernel

-- D12g (recorded observation): with the id function as pinned, `[My View]` and `[my_view]` share the id `my_view`;
-- the later view takes the earlier one's place and the merchant A is listed nowhere in the HTML data
-- (the pinned `name.lower().replace(' ', '_')` written out as a table on the names used here: evaluating `String.map` inside
-- the kernel takes ~45 s per example; the harness observes the real function on the real report)
def idPinned (s : String) : String :=
  if s = "My View" then "my_view" else if s = "Food & Drink" then "food_&_drink"
  else if s = "Food / Drink" then "food_/_drink" else if s = "Empty" then "empty" else s
example : ¬ distinctIds idPinned [("My View", ["A"]), ("my_view", ["B"])] := by decide +kernel
example : htmlSections idPinned [("My View", ["A"]), ("my_view", ["B"])] = [("my_view", ("my_view", ["B"]))] := by decide +kernel
example : htmlMembers (htmlSections idPinned [("My View", ["A"]), ("my_view", ["B"])]) "My View" = [] := by decide +kernel
-- … while names that differ in punctuation, or have no ASCII letter at all, keep their own entries
example : distinctIds idPinned [("Food & Drink", ["A"]), ("Food / Drink", ["B"]), ("食費", ["C"]), ("光熱費", ["D"]), ("Empty", [])] := by
  decide +kernel
example : htmlSections idPinned [("Food & Drink", ["A"]), ("Empty", []), ("食費", ["C"])] =
    [("food_&_drink", ("Food & Drink", ["A"])), ("食費", ("食費", ["C"]))] := by decide +kernel

end Examples

end TallyVerif.Props.C10
