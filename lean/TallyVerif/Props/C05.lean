/-
C05 — every well-formed statement row becomes exactly one transaction, faithfully.

Model: `Csv.parseRow` / `Csv.parseFile` (hand model of `parsers.parse_generic_csv` with `rules=[]`, tied by
differential correspondence in harness/props/c05.py) and `Csv.cleanAmount` / `Csv.parseAmountExact`
(`parsers.parse_amount` up to the call of `float()`).  `float()` and `datetime.strptime` are the fields of
`o : Oracles`; every theorem of the first part holds for all of them.  A float is its IEEE bit pattern (`F64`).
The LAST part ("the date") instantiates the date oracle with `Strptime.strptime`, the model of CPython's `_strptime`
(Model/Strptime.lean, tied to `datetime.strptime` by its own dense correspondence): there `parseRow` / `parseFile` have
no date oracle left - only `float()` and CPython's character tables (`Strptime.Tables`) remain parameters.

`cfg.skipNonFinite = true` is the code with repair D5 (`if not math.isfinite(amount): continue`);
`false` is the tree before it.  `accept_iff` needs the repair; `d5_unrepaired_accepts_nan` is the
counterexample on the unrepaired model (the harness replays the same table on the real code).
-/
import TallyVerif.Lemmas.Csv
import TallyVerif.Lemmas.Strptime
import TallyVerif.Lemmas.AmountTables

namespace TallyVerif.Props.C05
open TallyVerif.Csv

/-! ## one transaction per accepted row, in file order; a bad row is skipped on its own -/

/-- No row raises an exception that the per-row `except (ValueError, IndexError)` lets through
(`KeyError` from a template naming a column that is not captured, `AttributeError` from a hand-built
`FormatSpec` without captures/template, `re.error` from a date format with a repeated directive).  `parse_format_string`
rules the first two out, `DateFormatOk` the third; see `noFatal_simple`. -/
def NoFatal (o : Oracles) (cfg : Cfg) (rows : List (List Str)) : Prop :=
  ∀ r ∈ rows, rowFatal o cfg r = false

/-- The loop of `parse_generic_csv` computes `filterMap`: the transactions are exactly those of the accepted
rows, one each, in file order. -/
theorem parseFile_filterMap (o : Oracles) (cfg : Cfg) (rows : List (List Str)) (h : NoFatal o cfg rows) :
    parseFile o cfg rows = .ok (rows.filterMap (rowTxn o cfg)) := by
  simpa [parseFile] using foldl_step_ok o cfg rows h []

/-- The error branch: the first row whose exception is not caught aborts the whole file with that exception. -/
theorem parseFile_fatal (o : Oracles) (cfg : Cfg) (pre : List (List Str)) (r : List Str) (post : List (List Str))
    (hpre : NoFatal o cfg pre) (e : Err) (he : parseRow o cfg r = .error e) (hf : e.fatal = true) :
    parseFile o cfg (pre ++ r :: post) = .error e :=
  foldl_step_fatal o cfg pre r post hpre e he hf

/-- The date format is one `datetime.strptime` can work with: whatever the text, the call returns a date or raises
`ValueError` (caught per row) - never `re.error` (a format that uses the same directive twice: *redefinition of group name*,
which the per-row `except (ValueError, IndexError)` does NOT catch).  For the model of `strptime` this is
`compile fmt = .ok _` (`dateFormatOk_of_compile` below); `dup_directive_aborts_file` is the excluded case. -/
def DateFormatOk (o : Oracles) (cfg : Cfg) : Prop :=
  ∀ tok e, o.strptime cfg.spec.dateFormat tok = .error e → e = .valueError

/-- an exception that escapes the per-row `except` can only come from building the description (given a date format
that compiles) -/
private theorem fatal_only_from_describe (o : Oracles) (cfg : Cfg) (hdf : DateFormatOk o cfg) (r : List Str) (e : Err)
    (h : parseRow o cfg r = .error e) (hf : e.fatal = true) : describe cfg.spec r = .error e := by
  unfold parseRow at h
  dsimp only at h
  split at h
  · cases h; simp [Err.fatal] at hf
  · split at h
    · rename_i e' hd; cases h; exact hd
    · split at h
      · cases h; simp [Err.fatal] at hf
      · split at h
        · cases h; simp [Err.fatal] at hf
        · split at h
          · rename_i e' he'
            cases h
            rw [hdf _ _ he'] at hf
            simp [Err.fatal, DateErr.toErr] at hf
          · split at h
            · cases h; simp [Err.fatal] at hf
            · split at h
              · cases h; simp [Err.fatal] at hf
              · split at h
                · cases h; simp [Err.fatal] at hf
                · cases h

/-- With `{description}` in the format (mode 1) no row can raise anything but what is caught. -/
theorem noFatal_simple (o : Oracles) (cfg : Cfg) (hdf : DateFormatOk o cfg) (rows : List (List Str)) (dc : Nat)
    (hm : cfg.spec.descCol = some dc) : NoFatal o cfg rows := by
  intro r _
  unfold rowFatal
  cases hp : parseRow o cfg r with
  | ok t => rfl
  | error e =>
    cases hf : e.fatal with
    | false => exact hf
    | true =>
      have := fatal_only_from_describe o cfg hdf r e hp hf
      simp [describe, hm] at this

/-- Mode 2 with a template that is literal text and `{name}` references to captured columns (what
`parse_format_string` accepts; `renderSegs` doubles literal braces): no row can raise anything but what is caught. -/
theorem noFatal_template (o : Oracles) (cfg : Cfg) (hdf : DateFormatOk o cfg) (rows : List (List Str)) (cc : List (Str × Nat))
    (segs : List Seg) (hm : cfg.spec.descCol = none) (hcc : cfg.spec.customCaptures = some cc)
    (htpl : cfg.spec.template = some (renderSegs segs)) (hrefs : refsOk (cc.map (·.1)) segs = true) :
    NoFatal o cfg rows := by
  intro r _
  unfold rowFatal
  cases hp : parseRow o cfg r with
  | ok t => rfl
  | error e =>
    cases hf : e.fatal with
    | false => exact hf
    | true =>
      have := fatal_only_from_describe o cfg hdf r e hp hf
      simp [describe, hm, hcc, htpl, formatTemplate, fmtScan_segs _ _ _ (segsOk_of_refsOk r cc segs hrefs)] at this

/-- Reading two tables one after the other = reading their concatenation. -/
theorem parseFile_append (o : Oracles) (cfg : Cfg) (a b : List (List Str)) (ha : NoFatal o cfg a) (hb : NoFatal o cfg b) :
    parseFile o cfg (a ++ b) = .ok (a.filterMap (rowTxn o cfg) ++ b.filterMap (rowTxn o cfg)) := by
  have hab : NoFatal o cfg (a ++ b) := by
    intro r hr; rcases List.mem_append.mp hr with h | h
    · exact ha r h
    · exact hb r h
  rw [parseFile_filterMap o cfg _ hab, List.filterMap_append]

/-- A malformed row (any skipped row) never changes how the other rows are read: inserting it anywhere leaves
the result unchanged. -/
theorem bad_row_neutral (o : Oracles) (cfg : Cfg) (a b : List (List Str)) (r : List Str)
    (ha : NoFatal o cfg a) (hb : NoFatal o cfg b) (e : Err) (hr : parseRow o cfg r = .error e) (hc : e.fatal = false) :
    parseFile o cfg (a ++ r :: b) = parseFile o cfg (a ++ b) := by
  have hrb : NoFatal o cfg (r :: b) := by
    intro r' h'; rcases List.mem_cons.mp h' with h | h
    · subst h; simp [rowFatal, hr, hc]
    · exact hb r' h
  rw [parseFile_append o cfg a (r :: b) ha hrb, parseFile_append o cfg a b ha hb]
  simp [List.filterMap_cons, rowTxn, hr]

/-- An accepted row contributes exactly its own transaction, at its own place: everything before it stays
before, everything after it stays after (file order; removing or duplicating the row removes or duplicates
exactly that transaction). -/
theorem order_preserved (o : Oracles) (cfg : Cfg) (a b : List (List Str)) (r : List Str) (t : Txn)
    (ha : NoFatal o cfg a) (hb : NoFatal o cfg b) (hr : parseRow o cfg r = .ok t) :
    parseFile o cfg (a ++ r :: b) = .ok (a.filterMap (rowTxn o cfg) ++ t :: b.filterMap (rowTxn o cfg)) := by
  have hrb : NoFatal o cfg (r :: b) := by
    intro r' h'; rcases List.mem_cons.mp h' with h | h
    · subst h; simp [rowFatal, hr]
    · exact hb r' h
  rw [parseFile_append o cfg a (r :: b) ha hrb]
  simp [List.filterMap_cons, rowTxn, hr]

/-- Exactly one transaction per accepted row: as many transactions as rows that are accepted. -/
theorem one_per_row (o : Oracles) (cfg : Cfg) (rows : List (List Str)) (h : NoFatal o cfg rows) :
    ∃ ts, parseFile o cfg rows = .ok ts ∧
      ts.length = (rows.filter fun r => (rowTxn o cfg r).isSome).length := by
  refine ⟨_, parseFile_filterMap o cfg rows h, ?_⟩
  induction rows with
  | nil => rfl
  | cons r rs ih =>
    have := ih (fun r' h' => h r' (List.mem_cons_of_mem _ h'))
    cases hr : rowTxn o cfg r <;> simp [List.filterMap_cons, List.filter_cons, hr, this]

/-! ## which rows are accepted -/

/-- (with repair D5) A row becomes a transaction **iff** it has enough columns, its date cell is non-empty and its
date token matches the format, its description is non-empty, and its amount cell is non-empty and spells a number
that is finite and not zero. -/
theorem accept_iff (o : Oracles) (cfg : Cfg) (row : List Str) (hfix : cfg.skipNonFinite = true) :
    (∃ t, parseRow o cfg row = .ok t) ↔
      maxCol cfg.spec < row.length ∧
      (∃ tok dt, (cell row cfg.spec.dateCol).isEmpty = false ∧
          dateToken cfg.spec (cell row cfg.spec.dateCol) = some tok ∧ o.strptime cfg.spec.dateFormat tok = .ok dt) ∧
      (∃ desc caps, describe cfg.spec row = .ok (desc, caps) ∧ desc.isEmpty = false) ∧
      (∃ q, (cell row cfg.spec.amountCol).isEmpty = false ∧ rawAmount o cfg row = some q ∧
          q.isFinite = true ∧ q.isZero = false) := by
  constructor
  · rintro ⟨t, ht⟩
    obtain ⟨hlen, desc, caps, tok, dt, q, hd, h1, h2, h3, htok, hdt, hq, hfin, hz, -⟩ := (parseRow_ok_iff o cfg row t).mp ht
    rw [applySign_isZero] at hz
    exact ⟨hlen, ⟨tok, dt, h1, htok, hdt⟩, ⟨desc, caps, hd, h2⟩, ⟨q, h3, hq, hfin hfix, hz⟩⟩
  · rintro ⟨hlen, ⟨tok, dt, h1, htok, hdt⟩, ⟨desc, caps, hd, h2⟩, ⟨q, h3, hq, hfin, hz⟩⟩
    refine ⟨mkTxn cfg row desc caps dt q, (parseRow_ok_iff o cfg row _).mpr ?_⟩
    exact ⟨hlen, desc, caps, tok, dt, q, hd, h1, h2, h3, htok, hdt, hq, fun _ => hfin, by rw [applySign_isZero]; exact hz, rfl⟩

/-- every column the format refers to exists in an accepted row (the `len(row) <= max_col` guard), so `cell`
never reads outside the row -/
theorem columns_in_range (o : Oracles) (cfg : Cfg) (row : List Str) (t : Txn) (h : parseRow o cfg row = .ok t)
    (i : Nat) (hi : i ∈ requiredCols cfg.spec) : ∃ c, row[i]? = some c ∧ cell row i = strip c := by
  have hlen := ((parseRow_ok_iff o cfg row t).mp h).1
  have hi' := required_lt_length cfg.spec row i hi hlen
  exact ⟨row[i], by simp [hi'], by simp [cell, List.getD, hi']⟩

/-! ### defect D5 -/

def okOf : Except Err Txn → Option Txn
  | .ok t => some t
  | .error _ => none
def errOf : Except Err Txn → Option Err
  | .ok _ => none
  | .error e => some e

/-- `float()` on the spellings used below; everything else is a `ValueError` -/
def d5Oracle : Oracles where
  pyFloat s := if s = ['n', 'a', 'n'] then some ⟨false, 0x7ff8000000000000⟩
    else if s = ['1', '2', '.', '5'] then some ⟨false, 0x4029000000000000⟩ else none
  strptime _ tok := if tok = ['0', '1', '/', '1', '5', '/', '2', '0', '2', '5'] then .ok ['o', 'k'] else .error .valueError

def d5Spec : Spec := { dateCol := 0, dateFormat := ['%', 'm', '/', '%', 'd', '/', '%', 'Y'], amountCol := 2, descCol := some 1 }
def d5Row : List Str := [['0', '1', '/', '1', '5', '/', '2', '0', '2', '5'], ['C', 'O', 'F', 'F', 'E', 'E'], ['n', 'a', 'n']]

/-- **D5 on the unrepaired model**: the row `01/15/2025,COFFEE,nan` is accepted as a transaction whose amount is
NaN — `accept_iff` is false without the finiteness check (the amount is not finite). -/
theorem d5_unrepaired_accepts_nan :
    (okOf (parseRow d5Oracle { spec := d5Spec, eu := false, sourceName := ['B'], skipNonFinite := false } d5Row)).map
        (fun t => (t.rawDescription, t.amount.isNaN, t.amount.isFinite, t.amount.isZero))
      = some (['C', 'O', 'F', 'F', 'E', 'E'], true, false, false) := by
  decide +kernel

/-- the same row on the repaired model is skipped, alone -/
theorem d5_repaired_skips_nan :
    errOf (parseRow d5Oracle { spec := d5Spec, eu := false, sourceName := ['B'] } d5Row) = some .nonFinite := by
  decide +kernel

/-! ## what an accepted row's transaction carries -/

/-- Sign modes: the amount has the magnitude of the number in the cell; its sign bit is cleared for `{+amount}`,
flipped for `{-amount}` (and `+` wins when both are set), untouched otherwise. -/
theorem sign_modes (o : Oracles) (cfg : Cfg) (row : List Str) (t : Txn) (h : parseRow o cfg row = .ok t) :
    ∃ q, rawAmount o cfg row = some q ∧ t.amount.mag = q.mag ∧
      t.amount.neg = (if cfg.spec.absAmount then false else if cfg.spec.negateAmount then !q.neg else q.neg) := by
  obtain ⟨-, desc, caps, tok, dt, q, -, -, -, -, -, -, hq, -, -, rfl⟩ := (parseRow_ok_iff o cfg row t).mp h
  refine ⟨q, hq, applySign_mag _ _, ?_⟩
  simp only [mkTxn, applySign]
  split
  · rfl
  · split <;> rfl

/-- Fidelity: date = `strptime` of the date token, description and field map as `describe` builds them, source
name (the spec's own name wins when set), credit flag = `amount < 0`, location = location cell or the trailing
two-letter code of the description. -/
theorem fidelity (o : Oracles) (cfg : Cfg) (row : List Str) (t : Txn) (h : parseRow o cfg row = .ok t) :
    ∃ desc caps tok,
      describe cfg.spec row = .ok (desc, caps) ∧ t.rawDescription = desc ∧
      t.field = (if caps.isEmpty then none else some caps) ∧
      dateToken cfg.spec (cell row cfg.spec.dateCol) = some tok ∧ o.strptime cfg.spec.dateFormat tok = .ok t.date ∧
      t.source = sourceOf cfg ∧ t.isCredit = t.amount.ltZero ∧ t.location = locationOf cfg.spec row desc := by
  obtain ⟨-, desc, caps, tok, dt, q, hd, -, -, -, htok, hdt, -, -, -, rfl⟩ := (parseRow_ok_iff o cfg row t).mp h
  exact ⟨desc, caps, tok, hd, rfl, rfl, htok, hdt, rfl, rfl, rfl⟩

/-- Mode 1 (`{description}`): the description is the description cell with surrounding blanks removed, and the
field map holds the extra captured columns, stripped, in column order. -/
theorem fidelity_simple (o : Oracles) (cfg : Cfg) (row : List Str) (t : Txn) (dc : Nat)
    (hm : cfg.spec.descCol = some dc) (h : parseRow o cfg row = .ok t) :
    ∃ c, row[dc]? = some c ∧ t.rawDescription = strip c ∧
      t.field = (let caps := captureCells row (cfg.spec.extraFields.getD [])
                 if caps.isEmpty then none else some caps) := by
  obtain ⟨desc, caps, tok, hd, h1, h2, -⟩ := fidelity o cfg row t h
  have hreq : dc ∈ requiredCols cfg.spec := by simp [requiredCols, hm]
  obtain ⟨c, hc, hcell⟩ := columns_in_range o cfg row t h dc hreq
  simp only [describe, hm, Except.ok.injEq, Prod.mk.injEq] at hd
  refine ⟨c, hc, ?_, ?_⟩
  · rw [h1, ← hd.1, hcell]
  · rw [h2, ← hd.2]

/-- Mode 2 (captures + template): the description is `template.format(**captures)` over the stripped captured
cells, and those cells are the field map. -/
theorem fidelity_template (o : Oracles) (cfg : Cfg) (row : List Str) (t : Txn)
    (hm : cfg.spec.descCol = none) (h : parseRow o cfg row = .ok t) :
    ∃ cc tpl, cfg.spec.customCaptures = some cc ∧ cfg.spec.template = some tpl ∧
      formatTemplate tpl (captureCells row cc) = .ok t.rawDescription ∧
      t.field = (if (captureCells row cc).isEmpty then none else some (captureCells row cc)) := by
  obtain ⟨desc, caps, tok, hd, h1, h2, -⟩ := fidelity o cfg row t h
  simp only [describe, hm] at hd
  split at hd
  · cases hd
  · rename_i cc hcc
    split at hd
    · cases hd
    · rename_i tpl htpl
      split at hd
      · cases hd
      · rename_i d hf
        simp only [Except.ok.injEq, Prod.mk.injEq] at hd
        refine ⟨cc, tpl, hcc, htpl, ?_, ?_⟩
        · rw [h1, ← hd.1]; exact hf
        · rw [h2, ← hd.2]

/-- The template is *filled*: for a template made of literal text and `{name}` references to captured columns,
`template.format(**captures)` is the literal text with every reference replaced by that column's stripped cell. -/
theorem template_filled (row : List Str) (cc : List (Str × Nat)) (segs : List Seg)
    (hrefs : refsOk (cc.map (·.1)) segs = true) :
    formatTemplate (renderSegs segs) (captureCells row cc) = .ok (fillSegs (captureCells row cc) segs) := by
  simpa [formatTemplate] using fmtScan_segs _ segs [] (segsOk_of_refsOk row cc segs hrefs)

/-! ## the amount is the number written in the cell -/

/-- US convention (`decimal_separator='.'`): for EVERY integer number of cents `n` and every style (thousands commas
or not; `$ € £ ¥` before, after, or after a blank, or none; negative as `-…` or `(…)`), cleaning the rendered
text and reading it as a decimal literal gives exactly `n / 100` (mantissa `n`, two decimals). -/
theorem amount_roundtrip_us (st : Style) (n : Int) (hsym : ∀ c, st.symbol = some c → isCurrency c = true) :
    parseAmountExact false (renderCents false st n) = some (n, 2) := by
  unfold renderCents
  rw [amount_roundtrip false st _ _ _ _ (digitsOf_lt _) (by omega) (by omega) hsym]
  simp only [centsOf, ofDigits_digitsOf, Option.some.injEq, Prod.mk.injEq, and_true]
  by_cases hn : n < 0 <;> simp [hn] <;> omega

/-- European convention (`decimal_separator=','`): same with `.` or a blank as thousands separator and a decimal comma. -/
theorem amount_roundtrip_eu (st : Style) (n : Int) (hsym : ∀ c, st.symbol = some c → isCurrency c = true) :
    parseAmountExact true (renderCents true st n) = some (n, 2) := by
  unfold renderCents
  rw [amount_roundtrip true st _ _ _ _ (digitsOf_lt _) (by omega) (by omega) hsym]
  simp only [centsOf, ofDigits_digitsOf, Option.some.injEq, Prod.mk.injEq, and_true]
  by_cases hn : n < 0 <;> simp [hn] <;> omega

/-- The float handed on is `float()` of the cleaned text, negated when the cell was in parentheses — so with the
round-trip theorems the amount is the double `float()` returns for the decimal literal of `n/100`
(that `float()` rounds correctly is CPython's, checked bit-for-bit by the harness). -/
theorem amount_is_float_of_cleaned (o : Oracles) (eu : Bool) (cellText : Str) :
    parseAmount o eu cellText =
      (o.pyFloat (cleanAmount eu cellText).2).map fun r => if (cleanAmount eu cellText).1 then r.negate else r := by
  unfold parseAmount
  rcases cleanAmount eu cellText with ⟨p, s⟩
  dsimp only
  cases o.pyFloat s <;> rfl

/-! ## tokenisation: every row of the file is read as itself, whatever its cells begin with or contain

`Csv.readCsv` is CPython's reader automaton, `Csv.writeCsv` what `csv.writer` emits, `Csv.iterRows` is
`_iter_rows_with_delimiter` (all three tied to the real code by correspondence on the generated files).
(The quote character is written `'\x22'` in this file: the harness's comment stripper, which lists the theorems, reads a
bare double quote as the start of a string literal.) -/

/-- Reading what was written gives back the table: each row is exactly one record with exactly its cells - for ALL cell
texts (delimiters, quotes, line breaks inside cells, cells or continuation lines beginning with `#`, `;`, blanks, a BOM …),
empty rows and empty cells included.  No row changes how another row is read. -/
theorem readCsv_writeCsv (d : Char) (hd1 : d ≠ '\x22') (hd2 : d ≠ '\n') (rows : List (List Str)) :
    readCsv d (writeCsv d rows) = rows := by
  simp only [readCsv, run_writeCsv d hd1 hd2 rows]
  simp [RS.flush, RS.init]

/-- Records are read independently: if the text `a` ends where a record ends (the automaton is back in its start
state), the records of `a ++ b` are those of `a` followed by those of `b`. -/
theorem readCsv_append (d : Char) (a b : Str) (h : (runCsv d RS.init a).2 = RS.init) :
    readCsv d (a ++ b) = readCsv d a ++ readCsv d b := by
  have hf : RS.init.flush = [] := by simp [RS.flush, RS.init]
  simp only [readCsv, runCsv_append, h, hf, List.append_nil, List.append_assoc]

/-- `header_skip` (csv kinds): with `has_header` the first written row - and only it - is not data; without, every row is. -/
theorem iterRows_written (m : Str → Option (List Str)) (d : Char) (hd1 : d ≠ '\x22') (hd2 : d ≠ '\n')
    (hdr : List Str) (rows : List (List Str)) :
    iterRows m (.csv d) true (writeCsv d (hdr :: rows)) = rows ∧
    iterRows m (.csv d) false (writeCsv d rows) = rows := by
  simp [iterRows, readCsv_writeCsv d hd1 hd2]

/-- `regex_rows`: under a `regex:` delimiter the header is physical line 0 and nothing else; every other line contributes on
its own: nothing when it is blank or the pattern does not match, else the groups of the match on the stripped line. -/
theorem regex_rows (m : Str → Option (List Str)) (hasHeader : Bool) (text : Str) :
    iterRows m .regex hasHeader text =
      ((if hasHeader then (splitLines text).drop 1 else splitLines text).filterMap (lineRow m)) := by
  simp only [iterRows]
  cases hasHeader with
  | false =>
    generalize splitLines text = ls
    simp only [Bool.false_eq_true, if_false]
    cases ls with
    | nil => simp [regexLoop]
    | cons l ls =>
      simp only [regexLoop, Bool.false_and, Bool.false_eq_true, if_false, List.filterMap_cons, lineRow, regexLoop_succ]
      by_cases he : (strip l).isEmpty = true
      · simp [he]
      · simp only [he, Bool.false_eq_true, if_false]; cases m (strip l) <;> simp
  | true =>
    generalize splitLines text = ls
    cases ls with
    | nil => simp [regexLoop]
    | cons l ls => simp [regexLoop, regexLoop_succ]

/-- a blank or non-matching line (not the header line) never changes how the other lines are read -/
theorem regex_bad_line_neutral (m : Str → Option (List Str)) (hdr : Option Str) (pre post : List Str) (l : Str)
    (hl : lineRow m l = none) :
    regexLoop m hdr.isSome 0 (hdr.toList ++ pre ++ l :: post) = regexLoop m hdr.isSome 0 (hdr.toList ++ pre ++ post) := by
  cases hdr with
  | none =>
    cases pre with
    | nil =>
      cases post with
      | nil => simp [regexLoop, lineRow] at hl ⊢; by_cases he : (strip l).isEmpty = true <;> simp_all
      | cons p ps =>
        simp only [Option.toList, List.nil_append, Option.isSome, regexLoop, Bool.false_and, Bool.false_eq_true, if_false,
          regexLoop_succ] at hl ⊢
        simp only [lineRow] at hl
        by_cases he : (strip l).isEmpty = true
        · simp [he]
        · simp only [he, Bool.false_eq_true, if_false] at hl ⊢; simp [hl]
    | cons p ps =>
      simp [regexLoop, regexLoop_succ, List.filterMap_append, hl]
  | some h => simp [regexLoop, regexLoop_succ, List.filterMap_append, hl]

/-- From the file to the transactions (csv kinds, header written): the transactions are exactly those of the accepted
rows of the table, one each, in order - tokenisation and the row loop composed. -/
theorem statement_filterMap (o : Oracles) (cfg : Cfg) (m : Str → Option (List Str)) (d : Char) (hd1 : d ≠ '\x22') (hd2 : d ≠ '\n')
    (hdr : List Str) (rows : List (List Str)) (h : NoFatal o cfg rows) :
    parseFile o cfg (iterRows m (.csv d) true (writeCsv d (hdr :: rows))) = .ok (rows.filterMap (rowTxn o cfg)) := by
  rw [(iterRows_written m d hd1 hd2 hdr rows).1]; exact parseFile_filterMap o cfg rows h

/-! ## the `delimiter:` setting

What the source settings say is a TEXT (`delimiter:` in settings.yaml, handed on unchanged by `resolve_source_format`);
`delimOf` is what `_iter_rows_with_delimiter` makes of it.  The clauses "all delimiters (comma, single char, tab, regex)": -/

/-- A setting of exactly one character IS that character, whatever the character is - a letter, `;`, `|`, and equally a
character that is itself white space (a real tab, a blank, U+001F …): nothing is trimmed, nothing is looked up. -/
theorem delimiter_setting_single (c : Char) : delimOf (some [c]) = .csv c := by
  have h1 : ([c] = "tab".toList) = False := by simp
  have h2 : "regex:".toList.isPrefixOf [c] = false := by
    show ['r', 'e', 'g', 'e', 'x', ':'].isPrefixOf [c] = false
    simp [List.isPrefixOf]
  simp only [delimOf, h1, if_false, h2, Bool.false_eq_true]

/-- no setting = comma; the word `tab` = the tab character; `regex:…` = the line-pattern reader, whatever follows the colon -/
theorem delimiter_setting_words (p : Str) :
    delimOf none = .csv ',' ∧ delimOf (some "tab".toList) = .csv '\t' ∧ delimOf (some ("regex:".toList ++ p)) = .regex := by
  refine ⟨rfl, by decide, ?_⟩
  have h1 : ("regex:".toList ++ p = "tab".toList) = False := by
    show (['r', 'e', 'g', 'e', 'x', ':'] ++ p = ['t', 'a', 'b']) = False
    simp
  have h2 : "regex:".toList.isPrefixOf ("regex:".toList ++ p) = true := by
    show ['r', 'e', 'g', 'e', 'x', ':'].isPrefixOf (['r', 'e', 'g', 'e', 'x', ':'] ++ p) = true
    simp [List.isPrefixOf]
  simp only [delimOf, h1, if_false, h2, if_true]

/-- From the settings to the transactions: a statement written with the one-character delimiter `c` (any character except
the quote and the line feed - a tab or a blank included) and declared with `delimiter: c` is read back row for row:
the transactions are exactly those of the accepted rows of the table, one each, in order. -/
theorem statement_filterMap_setting (o : Oracles) (cfg : Cfg) (m : Str → Option (List Str)) (c : Char) (hc1 : c ≠ '\x22') (hc2 : c ≠ '\n')
    (hdr : List Str) (rows : List (List Str)) (h : NoFatal o cfg rows) :
    parseFile o cfg (iterRows m (delimOf (some [c])) true (writeCsv c (hdr :: rows))) = .ok (rows.filterMap (rowTxn o cfg)) ∧
    parseFile o cfg (iterRows m (delimOf (some [c])) false (writeCsv c rows)) = .ok (rows.filterMap (rowTxn o cfg)) := by
  rw [delimiter_setting_single c, (iterRows_written m c hc1 hc2 hdr rows).1, (iterRows_written m c hc1 hc2 hdr rows).2]
  exact ⟨parseFile_filterMap o cfg rows h, parseFile_filterMap o cfg rows h⟩

/-- the same for `delimiter: tab` and for no `delimiter:` at all -/
theorem statement_filterMap_tab_and_default (o : Oracles) (cfg : Cfg) (m : Str → Option (List Str))
    (hdr : List Str) (rows : List (List Str)) (h : NoFatal o cfg rows) :
    parseFile o cfg (iterRows m (delimOf (some "tab".toList)) true (writeCsv '\t' (hdr :: rows))) = .ok (rows.filterMap (rowTxn o cfg)) ∧
    parseFile o cfg (iterRows m (delimOf none) true (writeCsv ',' (hdr :: rows))) = .ok (rows.filterMap (rowTxn o cfg)) := by
  rw [(delimiter_setting_words []).1, (delimiter_setting_words []).2.1,
    (iterRows_written m '\t' (by decide) (by decide) hdr rows).1, (iterRows_written m ',' (by decide) (by decide) hdr rows).1]
  exact ⟨parseFile_filterMap o cfg rows h, parseFile_filterMap o cfg rows h⟩

/-- a white-space delimiter setting is not the default: a blank-separated line is three cells under `delimiter: " "`
and one cell under the default (what reading the setting through a trimming step would make of it) -/
example : iterRows (fun _ => none) (delimOf (some [' '])) false "a b c\n".toList = [["a".toList, "b".toList, "c".toList]] ∧
    iterRows (fun _ => none) (delimOf none) false "a b c\n".toList = [["a b c".toList]] := by decide +kernel

/-! ## non-vacuity: concrete inputs satisfying the hypotheses -/

/-- a 3-row table: accepted, skipped (bad date), accepted — two transactions in order, `NoFatal` holds -/
example :
    let cfg : Cfg := { spec := d5Spec, eu := false, sourceName := ['B'] }
    let good : List Str := [['0', '1', '/', '1', '5', '/', '2', '0', '2', '5'], [' ', 'T', 'E', 'A', ' ', 'W', 'A', ' '], ['$', '1', '2', '.', '5']]
    let bad : List Str := [['x'], ['T', 'E', 'A'], ['1', '2', '.', '5']]
    (∀ r ∈ [good, bad, good], rowFatal d5Oracle cfg r = false) ∧
    (match parseFile d5Oracle cfg [good, bad, good] with
      | .ok ts => some (ts.map fun t => (t.rawDescription, t.amount.toBits, t.location))
      | .error _ => none)
      = some [(['T', 'E', 'A', ' ', 'W', 'A'], 0x4029000000000000, some ['W', 'A']),
              (['T', 'E', 'A', ' ', 'W', 'A'], 0x4029000000000000, some ['W', 'A'])] := by
  decide +kernel

/-- `($1,234,567.05)` in the US convention and `-1 234 567,05 €` in the European one both read as −123456705 cents -/
example :
    render false { thousands := true, symbol := some '$', paren := true } true [1, 2, 3, 4, 5, 6, 7] 0 5
      = ['(', '$', '1', ',', '2', '3', '4', ',', '5', '6', '7', '.', '0', '5', ')'] ∧
    parseAmountExact false ['(', '$', '1', ',', '2', '3', '4', ',', '5', '6', '7', '.', '0', '5', ')'] = some (-123456705, 2) ∧
    parseAmountExact true ['-', '1', ' ', '2', '3', '4', ' ', '5', '6', '7', ',', '0', '5', ' ', '€'] = some (-123456705, 2) := by
  decide +kernel

/-- template `{merchant} ({type})` over captures merchant, type: hypotheses of `noFatal_template` / `template_filled`
hold and the description of the row ` Bäckerei `, `card` is `Bäckerei (card)` -/
example :
    let cc : List (Str × Nat) := [(['m'], 1), (['t'], 3)]
    let segs : List Seg := [.ref ['m'], .lit [' ', '('], .ref ['t'], .lit [')']]
    let row : List Str := [['d'], [' ', 'B', 'ä', 'c', 'k', ' '], ['1'], ['c', 'a', 'r', 'd']]
    refsOk (cc.map (·.1)) segs = true ∧
    renderSegs segs = ['{', 'm', '}', ' ', '(', '{', 't', '}', ')'] ∧
    fillSegs (captureCells row cc) segs = ['B', 'ä', 'c', 'k', ' ', '(', 'c', 'a', 'r', 'd', ')'] := by
  decide +kernel

/-- a table whose rows begin with `#`, `;` and a blank, with a two-line cell whose second line begins with `#`, an embedded
delimiter and an embedded quote: the text `csv.writer` produces, and `readCsv` / `iterRows` of it -/
example :
    let rows : List (List Str) := [['#', '1'], ['a', '\n', '#', 'b']] :: [[';'], [',', '\x22']] :: [] :: [[]] :: [[' ', '#'], []] :: []
    writeCsv ',' rows = "#1,\"a\n#b\"\n;,\",\"\"\"\n\n\"\"\n #,\n".toList ∧
    readCsv ',' (writeCsv ',' rows) = rows ∧
    iterRows (fun _ => none) (.csv ',') true (writeCsv ',' rows) = rows.drop 1 := by
  decide +kernel

/-- regex kind: header line, a `#` line, a blank line and a non-matching line -/
example :
    let m : Str → Option (List Str) := fun s => if s.head? = some '!' then none else some [s]
    iterRows m .regex true "Date|X\n#1042|5\n   \n!x\n  b|6  ".toList = [[['#', '1', '0', '4', '2', '|', '5']], [['b', '|', '6']]] := by
  decide +kernel

/-- the style hypothesis of the round-trip theorems is satisfiable -/
example : ∀ c, (Style.mk true false (some '€') .postSpace false).symbol = some c → isCurrency c = true := by
  intro c h; cases h; decide

/-! ## the date: `datetime.strptime` inside the model

`Strptime.oracles T pf` answers `strptime` with the model of CPython's `_strptime` (`Strptime.strptime`); `T` = CPython's
character tables (which characters are decimal digits and what they are worth, which characters a literal matches under
IGNORECASE, `str.lower`), of which the theorems assume only what `TablesOk` says (their restriction to ASCII);
`asciiTables_ok` shows that this is satisfiable. -/

section Date
open TallyVerif.Strptime

/-- `matching`: the matcher inside `strptime` is the regular-expression engine's ordered-choice backtracking - it returns
`r` exactly when `r` comes from the FIRST choice vector, in priority order (alternatives of a directive in the order
written, white space longest first, earlier items more significant), under which the compiled format matches a prefix of the
text; and nothing exactly when no choice vector matches. -/
theorem strptime_match_is_first (T : Tables) (items : List Item) (s : Str) :
    (∀ r, matchItems T items s = some r ↔ IsFirst T items s r) ∧
    (matchItems T items s = none ↔ ∀ v, matchWith T items v s = none) :=
  matchItems_first T items s

/-- `round trip`: for EVERY format whose directives are among `%Y %y %m %d %b %B %H %M %S` and name year, month and day
(`FmtOk`: nothing is asked of the separators), EVERY valid date-time whose year the format can write (`YearFits`: 1969..2068
under `%y`) and EVERY spelling `strptime` is meant to accept (`SpellsOk`: one or two digits for day / month / hour / minute /
second - one digit only where no digit follows -, any white space for a white-space run, any letter case of the month name):
reading the written text gives back the date (and the time fields the format mentions; the others are 0). -/
theorem strptime_strftimeWith (T : Tables) (hT : TablesOk T) (fmt : Str) (sps : List Spell) (t : DateTime)
    (hf : FmtOk fmt = true) (hv : t.valid = true) (hy : YearFits fmt t = true) (hs : SpellsOk T sps fmt t = true) :
    strptime T fmt (strftimeWith sps fmt t) = .ok (readBack fmt t) := by
  unfold FmtOk at hf; unfold YearFits at hy; unfold SpellsOk at hs; unfold strftimeWith readBack
  cases hc : compile fmt with
  | error e => simp [hc] at hf
  | ok items =>
    simp only [hc] at hf hy hs ⊢
    exact strptime_of_items hT fmt items sps t hc hf hv hy hs

/-- `round trip`, the spelling `strftime` itself writes (zero padded, month names capitalised): no condition on the
spelling is left - `%Y%m%d` reads back as well as `%m/%d/%Y`. -/
theorem strptime_strftime (T : Tables) (hT : TablesOk T) (fmt : Str) (t : DateTime)
    (hf : FmtOk fmt = true) (hv : t.valid = true) (hy : YearFits fmt t = true) :
    strptime T fmt (strftime fmt t) = .ok (readBack fmt t) := by
  refine strptime_strftimeWith T hT fmt [] t hf hv hy ?_
  unfold SpellsOk
  cases hc : compile fmt with
  | error e => simp [FmtOk, hc] at hf
  | ok items => exact spellsOk_nil T items t

/-- the year, month and day read back are the date's own -/
theorem readBack_date (fmt : Str) (t : DateTime) :
    (readBack fmt t).year = t.year ∧ (readBack fmt t).month = t.month ∧ (readBack fmt t).day = t.day := by
  unfold readBack; cases compile fmt <;> simp [restrict]

/-- `determinism of the reading`: under an `FmtOk` format no two different dates are written the same way, whatever the
(accepted) spellings: equal texts ⇒ equal year, month and day (and equal mentioned time fields). -/
theorem strftime_injective (T : Tables) (hT : TablesOk T) (fmt : Str) (sps₁ sps₂ : List Spell) (t₁ t₂ : DateTime)
    (hf : FmtOk fmt = true) (hv₁ : t₁.valid = true) (hv₂ : t₂.valid = true) (hy₁ : YearFits fmt t₁ = true)
    (hy₂ : YearFits fmt t₂ = true) (hs₁ : SpellsOk T sps₁ fmt t₁ = true) (hs₂ : SpellsOk T sps₂ fmt t₂ = true)
    (h : strftimeWith sps₁ fmt t₁ = strftimeWith sps₂ fmt t₂) :
    readBack fmt t₁ = readBack fmt t₂ ∧ t₁.year = t₂.year ∧ t₁.month = t₂.month ∧ t₁.day = t₂.day := by
  have h1 := strptime_strftimeWith T hT fmt sps₁ t₁ hf hv₁ hy₁ hs₁
  have h2 := strptime_strftimeWith T hT fmt sps₂ t₂ hf hv₂ hy₂ hs₂
  rw [h, h2] at h1
  have heq : readBack fmt t₂ = readBack fmt t₁ := by injection h1
  have d1 := readBack_date fmt t₁
  have d2 := readBack_date fmt t₂
  rw [heq] at d2
  exact ⟨heq.symm, d1.1.symm.trans d2.1, d1.2.1.symm.trans d2.2.1, d1.2.2.symm.trans d2.2.2⟩

/-- `rejection` (1): whatever `strptime` returns is a date of the calendar - month 1..12, day within the month (29 February
only in leap years), year 1..9999, a time of the day.  No text is ever read as 30 February, month 13 or day 32. -/
theorem strptime_ok_valid (T : Tables) (fmt s : Str) (t : DateTime) (h : strptime T fmt s = .ok t) : t.valid = true := by
  obtain ⟨items, caps, a, -, -, -, hfin⟩ := strptime_ok_parts h
  exact finish_valid a t hfin

/-- `rejection` (2): a text is read only if it is in the language of the format from its first character to its last: there
is a choice of one alternative per directive and of a (positive) number of white-space characters per white-space run
under which the compiled format matches the WHOLE text (a wrong separator, a field outside its alternatives, trailing text:
no such choice exists, so the result is an error). -/
theorem strptime_ok_in_language (T : Tables) (fmt s : Str) (t : DateTime) (h : strptime T fmt s = .ok t) :
    ∃ items v caps, compile fmt = .ok items ∧ matchWith T items v s = some (caps, []) := by
  obtain ⟨items, caps, a, hc, hm, -, -⟩ := strptime_ok_parts h
  obtain ⟨v, hv, -⟩ := ((matchItems_first T items s).1 (caps, [])).mp hm
  exact ⟨items, v, caps, hc, hv⟩

/-- a date format that compiles never makes `strptime` raise anything but `ValueError` -/
theorem dateFormatOk_of_compile (T : Tables) (pf : Str → Option F64) (cfg : Cfg) (items : List Item)
    (hc : compile cfg.spec.dateFormat = .ok items) : DateFormatOk (oracles T pf) cfg := by
  intro tok e h
  simp only [oracles, dateOracle] at h
  split at h
  · cases h
  · rename_i e' he
    cases h
    exact strptime_err_of_compile_ok hc he

/-- the stages of `parseRow` before the date is parsed all succeed -/
def ReachesDate (cfg : Cfg) (row : List Str) (tok : Str) : Prop :=
  maxCol cfg.spec < row.length ∧ (∃ desc caps, describe cfg.spec row = .ok (desc, caps) ∧ desc.isEmpty = false) ∧
    (cell row cfg.spec.dateCol).isEmpty = false ∧ (cell row cfg.spec.amountCol).isEmpty = false ∧
    dateToken cfg.spec (cell row cfg.spec.dateCol) = some tok

/-- what `parseRow` returns for a row that gets as far as its date, when `strptime` fails -/
theorem parseRow_date_error (o : Oracles) (cfg : Cfg) (row : List Str) (tok : Str) (e : DateErr)
    (hr : ReachesDate cfg row tok) (he : o.strptime cfg.spec.dateFormat tok = .error e) :
    parseRow o cfg row = .error e.toErr := by
  obtain ⟨hlen, ⟨desc, caps, hd, hdne⟩, h1, h3, htok⟩ := hr
  have hlen' : ¬ row.length ≤ maxCol cfg.spec := by omega
  unfold parseRow
  simp only [hlen', if_false, hd, h1, hdne, h3, htok, he, Bool.or_self, Bool.false_eq_true]

/-- `rejection` (3), the row: if the date token is not read by `strptime` (any `ValueError`: not in the format's language,
text left over, an impossible date), the row is skipped - and, by `bad_row_neutral`, every other row is read as before. -/
theorem bad_date_row_neutral (T : Tables) (pf : Str → Option F64) (cfg : Cfg) (a b : List (List Str)) (row : List Str)
    (tok : Str) (e : StrpErr) (hr : ReachesDate cfg row tok) (he : strptime T cfg.spec.dateFormat tok = .error e)
    (hv : e.toDateErr = .valueError) (ha : NoFatal (oracles T pf) cfg a) (hb : NoFatal (oracles T pf) cfg b) :
    parseRow (oracles T pf) cfg row = .error .valueError ∧
    parseFile (oracles T pf) cfg (a ++ row :: b) = parseFile (oracles T pf) cfg (a ++ b) := by
  have hrow : parseRow (oracles T pf) cfg row = .error .valueError := by
    have := parseRow_date_error (oracles T pf) cfg row tok .valueError hr (by simp [oracles, dateOracle, he, hv])
    simpa [DateErr.toErr] using this
  exact ⟨hrow, bad_row_neutral (oracles T pf) cfg a b row ha hb .valueError hrow rfl⟩

/-- `duplicate directive`: a date format that uses a directive twice (`%d/%d/%Y`) makes `strptime` raise `re.error`, which
the per-row `except (ValueError, IndexError)` does not catch: the first row that gets as far as its date aborts the whole
file (observation O-strptime-1 in notes/strptime_notes.md; the excluded case of `DateFormatOk`). -/
theorem dup_directive_aborts_file (T : Tables) (pf : Str → Option F64) (cfg : Cfg) (pre post : List (List Str)) (row : List Str)
    (tok : Str) (hre : compile cfg.spec.dateFormat = .error .reError) (hr : ReachesDate cfg row tok)
    (hpre : NoFatal (oracles T pf) cfg pre) :
    parseFile (oracles T pf) cfg (pre ++ row :: post) = .error .reError := by
  have hrow : parseRow (oracles T pf) cfg row = .error .reError := by
    have := parseRow_date_error (oracles T pf) cfg row tok .reError hr
      (by simp [oracles, dateOracle, strptime_err_of_compile_err hre, StrpErr.toDateErr])
    simpa [DateErr.toErr] using this
  exact parseFile_fatal (oracles T pf) cfg pre row post hpre .reError hrow rfl

/-- `carries the row's date`: a row that gets as far as its date, whose date token `strptime` reads as `t`, and whose amount
is a finite non-zero number, becomes the transaction whose date is `t` (written `t.isoformat()`). -/
theorem parseRow_of_date (T : Tables) (pf : Str → Option F64) (cfg : Cfg) (row : List Str) (tok : Str) (t : DateTime)
    (desc : Str) (caps : List (Str × Str)) (q : F64) (hr : ReachesDate cfg row tok)
    (hd : describe cfg.spec row = .ok (desc, caps))
    (hdate : strptime T cfg.spec.dateFormat tok = .ok t) (hq : rawAmount (oracles T pf) cfg row = some q)
    (hfin : q.isFinite = true) (hz : q.isZero = false) :
    parseRow (oracles T pf) cfg row = .ok (mkTxn cfg row desc caps (isoformat t) q) := by
  obtain ⟨hlen, ⟨desc', caps', hd', hdne⟩, h1, h3, htok⟩ := hr
  rw [hd] at hd'; cases hd'
  refine (parseRow_ok_iff (oracles T pf) cfg row _).mpr ⟨hlen, desc, caps, tok, isoformat t, q, hd, h1, hdne, h3, htok, ?_, hq,
    fun _ => hfin, by rw [applySign_isZero]; exact hz, rfl⟩
  simp [oracles, dateOracle, hdate]

/-- the format neither begins nor ends with white space -/
def FmtEdgesOk (fmt : Str) : Bool :=
  match compile fmt with
  | .ok items => !startsWithSpaces items && lastNotSpaces items && !items.isEmpty
  | .error _ => false

/-- `the date cell` (format string without white space, e.g. `%m/%d/%Y`): blanks around the date are stripped by the caller, and
whatever follows the date after white space - the weekday of `01/02/2017  Mon`, a time - is cut off: the token handed to
`strptime` is exactly the date as written, so (by `strptime_strftimeWith` and `parseRow_of_date`) the row's transaction
carries exactly that date. -/
theorem date_cell_token_cut (T : Tables) (hT : TablesOk T) (spec : Spec) (sps : List Spell) (t : DateTime) (pre post : Str)
    (hf : FmtOk spec.dateFormat = true) (hfmt : spec.dateFormat.all (fun c => !isPySpace c) = true) (hv : t.valid = true)
    (hs : SpellsOk T sps spec.dateFormat t = true) (hpre : pre.all isPySpace = true)
    (hpost : post = [] ∨ ∃ c r, post = c :: r ∧ isPySpace c = true) :
    dateToken spec (strip (pre ++ strftimeWith sps spec.dateFormat t ++ post)) = some (strftimeWith sps spec.dateFormat t) := by
  have hblank := no_blank_of_noSpaces spec.dateFormat hfmt
  unfold FmtOk at hf; unfold SpellsOk at hs
  cases hc : compile spec.dateFormat with
  | error e => simp [hc] at hf
  | ok items =>
    simp only [hc] at hf hs
    have hns := scan_noSpaces spec.dateFormat hfmt items (compile_ok_scan hc).1
    have ht := fieldsOk_of_valid t hv
    have hw := scan_wellShaped spec.dateFormat items (compile_ok_scan hc).1
    have hren : (groupNames items).all renderable = true := by
      simp only [namesOk, Bool.and_eq_true] at hf; exact hf.1.1.1
    have hnosp := render_no_space (T := T) t ht items sps hw hren hs hns
    have hne : renderItems sps items t ≠ [] := by
      cases items with
      | nil => simp [namesOk, groupNames] at hf
      | cons it is =>
        obtain ⟨c, r, h, -, -⟩ := render_head hT t ht it is sps hw hren hs
        rw [h]; simp
    simp only [strftimeWith, hc]
    exact dateToken_first spec pre _ post hblank hne hnosp hpre hpost

/-- `the date cell` (format with a blank, e.g. `%d %b %y`): the whole cell, stripped of surrounding blanks, is handed to
`strptime`. -/
theorem date_cell_token_whole (T : Tables) (hT : TablesOk T) (spec : Spec) (sps : List Spell) (t : DateTime) (pre post : Str)
    (hf : FmtOk spec.dateFormat = true) (he : FmtEdgesOk spec.dateFormat = true)
    (hblank : spec.dateFormat.any isPySpace = true) (hv : t.valid = true)
    (hs : SpellsOk T sps spec.dateFormat t = true) (hpre : pre.all isPySpace = true) (hpost : post.all isPySpace = true) :
    dateToken spec (strip (pre ++ strftimeWith sps spec.dateFormat t ++ post)) = some (strftimeWith sps spec.dateFormat t) := by
  unfold FmtOk at hf; unfold FmtEdgesOk at he; unfold SpellsOk at hs
  cases hc : compile spec.dateFormat with
  | error e => simp [hc] at hf
  | ok items =>
    simp only [hc, Bool.and_eq_true, Bool.not_eq_true', List.isEmpty_eq_false_iff] at hf he hs
    have ht := fieldsOk_of_valid t hv
    have hw := scan_wellShaped spec.dateFormat items (compile_ok_scan hc).1
    have hren : (groupNames items).all renderable = true := by
      simp only [namesOk, Bool.and_eq_true] at hf; exact hf.1.1.1
    simp only [strftimeWith, hc]
    refine dateToken_whole spec pre _ post hblank ?_ (render_last hT t ht items sps hw hren hs he.1.2) hpre hpost
    cases items with
    | nil => exact absurd rfl he.2
    | cons it is =>
      obtain ⟨c, r, h, hc', -⟩ := render_head hT t ht it is sps hw hren hs
      intro c' hc''
      rw [h] at hc''; cases hc''
      exact hc' (by simpa [startsWithSpaces] using he.1.1)

/-- `carries the row's date`, end to end and with no date oracle (format without white space): a row with enough columns, a
non-empty description, an amount that is a finite non-zero number, and a date cell consisting of blanks, the date `t` written
under the row's own `FmtOk` date format in any accepted spelling, and then nothing or white space followed by anything (a
weekday …) becomes exactly one transaction, and that transaction's date is `t` (with the time fields the format mentions). -/
theorem row_carries_written_date (T : Tables) (hT : TablesOk T) (pf : Str → Option F64) (cfg : Cfg) (row : List Str)
    (sps : List Spell) (t : DateTime) (pre post desc : Str) (caps : List (Str × Str)) (q : F64)
    (hf : FmtOk cfg.spec.dateFormat = true) (hfmt : cfg.spec.dateFormat.all (fun c => !isPySpace c) = true)
    (hv : t.valid = true) (hy : YearFits cfg.spec.dateFormat t = true)
    (hs : SpellsOk T sps cfg.spec.dateFormat t = true) (hlen : maxCol cfg.spec < row.length)
    (hcell : row.getD cfg.spec.dateCol [] = pre ++ strftimeWith sps cfg.spec.dateFormat t ++ post)
    (hpre : pre.all isPySpace = true) (hpost : post = [] ∨ ∃ c r, post = c :: r ∧ isPySpace c = true)
    (hd : describe cfg.spec row = .ok (desc, caps)) (hdne : desc.isEmpty = false)
    (hane : (cell row cfg.spec.amountCol).isEmpty = false) (hq : rawAmount (oracles T pf) cfg row = some q)
    (hfin : q.isFinite = true) (hz : q.isZero = false) :
    parseRow (oracles T pf) cfg row =
      .ok (mkTxn cfg row desc caps (isoformat (readBack cfg.spec.dateFormat t)) q) := by
  have htok : dateToken cfg.spec (cell row cfg.spec.dateCol) = some (strftimeWith sps cfg.spec.dateFormat t) := by
    unfold cell; rw [hcell]
    exact date_cell_token_cut T hT cfg.spec sps t pre post hf hfmt hv hs hpre hpost
  have hne : (cell row cfg.spec.dateCol).isEmpty = false := by
    cases hc : cell row cfg.spec.dateCol with
    | nil =>
      rw [hc] at htok
      unfold dateToken at htok
      rw [if_neg (by rw [no_blank_of_noSpaces _ hfmt]; exact Bool.false_ne_true)] at htok
      simp [firstToken, lstrip] at htok
    | cons c r => rfl
  exact parseRow_of_date T pf cfg row _ (readBack cfg.spec.dateFormat t) desc caps q
    ⟨hlen, ⟨desc, caps, hd, hdne⟩, hne, hane, htok⟩ hd (strptime_strftimeWith T hT _ sps t hf hv hy hs) hq hfin hz

/-- the same for a date format with a blank (`%d %b %y`): the cell is blanks, the written date, blanks -/
theorem row_carries_written_date_blank (T : Tables) (hT : TablesOk T) (pf : Str → Option F64) (cfg : Cfg) (row : List Str)
    (sps : List Spell) (t : DateTime) (pre post desc : Str) (caps : List (Str × Str)) (q : F64)
    (hf : FmtOk cfg.spec.dateFormat = true) (he : FmtEdgesOk cfg.spec.dateFormat = true)
    (hblank : cfg.spec.dateFormat.any isPySpace = true) (hv : t.valid = true) (hy : YearFits cfg.spec.dateFormat t = true)
    (hs : SpellsOk T sps cfg.spec.dateFormat t = true) (hlen : maxCol cfg.spec < row.length)
    (hcell : row.getD cfg.spec.dateCol [] = pre ++ strftimeWith sps cfg.spec.dateFormat t ++ post)
    (hpre : pre.all isPySpace = true) (hpost : post.all isPySpace = true)
    (hd : describe cfg.spec row = .ok (desc, caps)) (hdne : desc.isEmpty = false)
    (hane : (cell row cfg.spec.amountCol).isEmpty = false) (hq : rawAmount (oracles T pf) cfg row = some q)
    (hfin : q.isFinite = true) (hz : q.isZero = false) :
    parseRow (oracles T pf) cfg row =
      .ok (mkTxn cfg row desc caps (isoformat (readBack cfg.spec.dateFormat t)) q) := by
  have htok : dateToken cfg.spec (cell row cfg.spec.dateCol) = some (strftimeWith sps cfg.spec.dateFormat t) := by
    unfold cell; rw [hcell]
    exact date_cell_token_whole T hT cfg.spec sps t pre post hf he hblank hv hs hpre hpost
  have hdate := strptime_strftimeWith T hT _ sps t hf hv hy hs
  have hne : (cell row cfg.spec.dateCol).isEmpty = false := by
    cases hc : cell row cfg.spec.dateCol with
    | nil =>
      rw [hc] at htok
      unfold dateToken at htok
      rw [if_pos hblank] at htok
      simp only [Option.some.injEq] at htok
      -- the written text would be empty, but an `FmtOk` format does not match the empty text
      rw [← htok] at hdate
      have hnil := strptime_ok_parts hdate
      obtain ⟨items, caps', a, hc', hm, -, -⟩ := hnil
      have hfo := hf
      unfold FmtOk at hfo; rw [hc'] at hfo
      exfalso
      cases items with
      | nil => simp [namesOk, groupNames] at hfo
      | cons it is =>
        have ht := fieldsOk_of_valid t hv
        have hw := scan_wellShaped _ _ (compile_ok_scan hc').1
        have hren : (groupNames (it :: is)).all renderable = true := by
          simp only [namesOk, Bool.and_eq_true] at hfo; exact hfo.1.1.1
        have hs' := hs
        unfold SpellsOk at hs'; rw [hc'] at hs'
        obtain ⟨c, r, h, -, -⟩ := render_head hT t ht it is sps hw hren hs'
        have : strftimeWith sps cfg.spec.dateFormat t = c :: r := by simp only [strftimeWith, hc']; exact h
        rw [this] at htok; cases htok
    | cons c r => rfl
  exact parseRow_of_date T pf cfg row _ (readBack cfg.spec.dateFormat t) desc caps q
    ⟨hlen, ⟨desc, caps, hd, hdne⟩, hne, hane, htok⟩ hd hdate hq hfin hz


/-! ### non-vacuity and observations for the date theorems (kernel-evaluated on the model) -/

def dateOf (r : Except StrpErr DateTime) : Option DateTime :=
  match r with
  | .ok t => some t
  | .error _ => none
def dateErr (r : Except StrpErr DateTime) : Option StrpErr :=
  match r with
  | .ok _ => none
  | .error e => some e

/-- the hypothesis on the character tables is satisfiable -/
example : TablesOk asciiTables := asciiTables_ok

/-- `FmtOk` holds for the formats people write for bank exports - with or without separators, with names, literal text and
times - and fails without a year, with a repeated directive, a stray `%`, an unknown or unsupported directive -/
example :
    (["%m/%d/%Y", "%d.%m.%Y", "%Y-%m-%d", "%d %b %y", "%b %d, %Y", "%m/%d/%y", "%Y%m%d", "%d-%b-%Y", "%Y-%m-%dT%H:%M:%S",
      "Posted %d %B %Y (%H:%M)", "%d%%%m%%%Y"].all fun f => FmtOk f.toList) = true ∧
    (["%m/%d", "%d/%d/%Y", "%m/%d/%Y%", "%e/%m/%Y", "%m/%d/%Y %z", "%j %Y"].all fun f => !FmtOk f.toList) = true := by
  decide +kernel

/-- leap day, two-digit year, month name: hypotheses of `strptime_strftime` hold, the text is `29 Feb 24`, and it reads back -/
example :
    let t : DateTime := { year := 2024, month := 2, day := 29 }
    let fmt := "%d %b %y".toList
    FmtOk fmt = true ∧ t.valid = true ∧ YearFits fmt t = true ∧ strftime fmt t = "29 Feb 24".toList ∧
      dateOf (strptime asciiTables fmt (strftime fmt t)) = some t := by
  decide +kernel

/-- another spelling: `1/5/2024 9:07` under `%m/%d/%Y %H:%M` (one-digit month, day, hour; the minute keeps its zero),
`5  JAN\t2024` under `%d %b %Y` - `SpellsOk` holds and both read back; the spelling `1/5/2024` is NOT accepted for
`%m%d%Y` (a digit follows the one-digit month) -/
example :
    let t : DateTime := { year := 2024, month := 1, day := 5, hour := 9, minute := 7 }
    let f1 := "%m/%d/%Y %H:%M".toList
    let s1 : List Spell := [{ unpad := true }, {}, { unpad := true }, {}, {}, {}, { unpad := true }, {}, {}]
    let f2 := "%d %b %Y".toList
    let s2 : List Spell := [{ unpad := true }, { blanks := some [' ', ' '] }, { name := some "JAN".toList }, { blanks := some ['\t'] }]
    SpellsOk asciiTables s1 f1 t = true ∧ strftimeWith s1 f1 t = "1/5/2024 9:07".toList ∧
      dateOf (strptime asciiTables f1 (strftimeWith s1 f1 t)) = some t ∧
    SpellsOk asciiTables s2 f2 t = true ∧ strftimeWith s2 f2 t = "5  JAN\t2024".toList ∧
      dateOf (strptime asciiTables f2 (strftimeWith s2 f2 t)) = some { year := 2024, month := 1, day := 5 } ∧
    SpellsOk asciiTables [{ unpad := true }, { unpad := true }] "%m%d%Y".toList t = false := by
  decide +kernel

/-- **where ambiguity bites** (observation, not a defect): under `%m%d%Y` - `FmtOk`, but written with one-digit fields,
which `SpellsOk` refuses - 11 January 2024 and 1 November 2024 are both written `1112024`; `strptime` (CPython and the
model) reads 1 November: the first alternative of `%m` that matches is `1[0-2]`, and the rest can then still be matched.
Written by `strftime` (`01112024` / `11012024`) the two dates differ and both read back. -/
example :
    let fmt := "%m%d%Y".toList
    let one : List Spell := [{ unpad := true }, { unpad := true }]
    let jan11 : DateTime := { year := 2024, month := 1, day := 11 }
    let nov1 : DateTime := { year := 2024, month := 11, day := 1 }
    FmtOk fmt = true ∧ SpellsOk asciiTables one fmt jan11 = false ∧
    strftimeWith one fmt jan11 = "1112024".toList ∧ strftimeWith one fmt nov1 = "1112024".toList ∧
    dateOf (strptime asciiTables fmt "1112024".toList) = some nov1 ∧
    dateOf (strptime asciiTables fmt (strftime fmt jan11)) = some jan11 ∧
    dateOf (strptime asciiTables fmt (strftime fmt nov1)) = some nov1 := by
  decide +kernel

/-- `rejection`, concretely, under `%m/%d/%Y`: wrong separator, month 13, day 32, 30 February, 29 February of a common year,
trailing text, nothing; and 29 February without a year (`%m/%d`: the year defaults to 1900), a repeated directive
(`re.error`, not a `ValueError`), a stray `%` -/
example :
    let f := "%m/%d/%Y".toList
    let r (s : String) := dateErr (strptime asciiTables f s.toList)
    r "01-15-2025" = some .noMatch ∧ r "13/01/2024" = some .noMatch ∧ r "01/32/2024" = some .noMatch ∧
    r "02/30/2024" = some .outOfRange ∧ r "02/29/2023" = some .outOfRange ∧ r "01/15/2025x" = some (.unconverted ['x']) ∧
    r "" = some .noMatch ∧ r "02/29/2024" = none ∧
    dateErr (strptime asciiTables "%m/%d".toList "02/29".toList) = some .outOfRange ∧
    dateErr (strptime asciiTables "%d/%d/%Y".toList "01/01/2024".toList) = some .reError ∧
    dateErr (strptime asciiTables "%m/%d/%Y%".toList "01/01/2024".toList) = some .stray := by
  decide +kernel

/-- `float()` on the spelling used below -/
def datePf : Str → Option F64 := fun s => if s = ['1', '2', '.', '5'] then some ⟨false, 0x4029000000000000⟩ else none

/-- a table read with NO date oracle (`Strptime.oracles asciiTables`): `01/15/2025  Wed` (weekday cut off), `02/30/2025` (skipped
alone), ` 1/5/2025 ` (blanks stripped, one-digit fields) - two transactions, carrying 15 and 5 January 2025; the hypotheses
`ReachesDate` / `NoFatal` hold; and the same table under the format `%d/%d/%Y` aborts with `re.error` -/
example :
    let cfg : Cfg := { spec := d5Spec, eu := false, sourceName := ['B'] }
    let o := oracles asciiTables datePf
    let row (d : String) : List Str := [d.toList, "TEA".toList, "12.5".toList]
    let rows := [row "01/15/2025  Wed", row "02/30/2025", row " 1/5/2025 "]
    (∀ r ∈ rows, rowFatal o cfg r = false) ∧
    (match parseFile o cfg rows with
      | .ok ts => some (ts.map fun t => String.ofList t.date)
      | .error _ => none) = some ["2025-01-15T00:00:00", "2025-01-05T00:00:00"] ∧
    errOf (parseRow o cfg (row "02/30/2025")) = some .valueError ∧
    dateToken cfg.spec (cell (row "01/15/2025  Wed") 0) = some "01/15/2025".toList ∧
    (match parseFile o { cfg with spec := { d5Spec with dateFormat := "%d/%d/%Y".toList } } rows with
      | .ok _ => none
      | .error e => some e) = some .reError := by
  decide +kernel

/-- the hypotheses of `row_carries_written_date` hold for the row `  1/5/2025  Wed , TEA , 12.5` under `%m/%d/%Y` -/
example :
    let cfg : Cfg := { spec := d5Spec, eu := false, sourceName := ['B'] }
    let row : List Str := ["  1/5/2025  Wed ".toList, "TEA".toList, "12.5".toList]
    let t : DateTime := { year := 2025, month := 1, day := 5 }
    (okOf (parseRow (oracles asciiTables datePf) cfg row)).map (fun x => String.ofList x.date) = some "2025-01-05T00:00:00" := by
  intro cfg row _t
  have h := row_carries_written_date asciiTables asciiTables_ok datePf cfg row
    [{ unpad := true }, {}, { unpad := true }] _t "  ".toList "  Wed ".toList "TEA".toList [] ⟨false, 0x4029000000000000⟩
    (by decide +kernel) (by decide +kernel) (by decide +kernel) (by decide +kernel) (by decide +kernel)
    (by decide +kernel) (by decide +kernel) (by decide +kernel) (Or.inr ⟨' ', " Wed ".toList, by decide +kernel, by decide +kernel⟩)
    (by rfl) (by decide +kernel) (by decide +kernel) (by decide +kernel) (by decide +kernel) (by decide +kernel)
  rw [h]
  decide +kernel

end Date

/-! ### `parse_amount`'s constants, regenerated from the source

`Gen/AmountTables.lean` is rewritten on every run from parsers.py by `harness/translate/amount_tables.py`, which also checks that
`parse_amount` still is the seven-statement straight-line program `Csv.cleanWith` spells out (strip, parenthesis test, currency class,
the removals and the conversion of the decimal mode, `float`, sign).  The obligation below says that this program, over the constants
the source holds NOW, is the hand model `cleanAmount` that every amount theorem of this file is about: another currency symbol, another
thousands separator, a different parenthesis pair re-opens it (and the check then searches the real code for a cell read differently). -/

/-- tie #1 for the amount cell: `parse_amount` over its regenerated constants = `Csv.cleanAmount`, for every decimal mode and cell -/
theorem amount_tables_are_the_model (eu : Bool) (cell : Str) :
    cleanWith Gen.AmountTables.parenOpen Gen.AmountTables.parenClose Gen.AmountTables.currencySymbols Gen.AmountTables.euSeparator
      Gen.AmountTables.euRemoved Gen.AmountTables.decimalPoint Gen.AmountTables.usRemoved eu cell = cleanAmount eu cell :=
  cleanWith_generated eu cell

/-- the program is not vacuous: with OTHER constants it reads cells differently (a rupee sign is not a currency symbol of the pinned code) -/
example : cleanWith '(' ')' ['$', '₹'] ',' ['.', ' '] '.' [','] false "₹1,250.50".toList = (false, "1250.50".toList) ∧
    cleanAmount false "₹1,250.50".toList = (false, "₹1250.50".toList) ∧
    cleanAmount true "(€ 1.234,56)".toList = (true, "1234.56".toList) := by decide +kernel

end TallyVerif.Props.C05
