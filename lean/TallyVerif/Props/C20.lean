import TallyVerif.Model.Fs
import TallyVerif.Lemmas.FsBase
import TallyVerif.Lemmas.FsFrame
/-!
# C20 — commands never alter or overwrite the user's statements, rules or settings

* `readonly_frame` / `up_frame`: for ARBITRARY file systems, `tally up` (without `--migrate`, non-interactive)
  changes nothing outside its output location (`output/`, `output/spending_summary.html`); `explain`,
  `discover`, `diag`, `inspect` and `up --format summary|json|markdown` have an empty write-set in the model
  (that the real commands have one too is the audit-hook tie in harness/props/c20.py).
* `migration_only_on_request`: without `--migrate` the rule-loading step performs no file-system event.
* `init_frame`: `tally init` in a folder that already has files keeps every one of them — same content at the
  same path, settings.yaml possibly extended by appended lines, the legacy CSV possibly moved to a *fresh*
  backup name — over all 480 budget shapes, for the repaired migration; for the code as it is the same holds
  except when a `.bak` already exists (`D15c_init_clobbers_bak`, `init_frame_impl_partial`).
* `settings_append_only`: `init` / `up --migrate` leave settings.yaml as `old content ++ appended lines` (all shapes, both variants).
PARTIAL: argparse / runtime glue and OS durability are outside the model.
-/
namespace TallyVerif.Fs
variable {κ : Type}

/-- where `tally up` may write: the output directory of the budget it found, and the report in it -/
def outputPaths (fs : FS κ) : List Path :=
  match findConfigDir fs with
  | none => []
  | some loc => [⟨loc, .outputDir⟩, ⟨loc, .report⟩]

/-- parents exist: a budget under `./tally` implies the directory `./tally` -/
def WF (fs : FS κ) : Prop := isDir fs ⟨.tally, .configDir⟩ = true → pathExists fs ⟨.top, .tallyDir⟩ = true

/-- C20 "rule migration changes files only when explicitly requested": non-interactive `tally up` without
    `--migrate` performs no file-system event while loading the rules, whatever the budget looks like. -/
theorem migration_only_on_request (v : CsvVariant) (m : M κ) : (upRules v false m).1 = m := by
  unfold upRules
  split
  · rfl
  · split <;> try rfl
    split <;> rfl

private theorem mkdir_lookup (fs : FS κ) (loc : Loc) (q : Path) (hwf : loc = .tally → pathExists fs ⟨.top, .tallyDir⟩ = true)
    (hq : q ≠ ⟨loc, .outputDir⟩) :
    lookup (applyEv fs none (.mkdir ⟨loc, .outputDir⟩)).1 q = lookup fs q := by
  simp only [applyEv]
  have h1 : (if (decide (loc = Loc.tally) && !pathExists fs ⟨Loc.top, Rel.tallyDir⟩) = true
      then setNode fs ⟨Loc.top, Rel.tallyDir⟩ Node.dir else fs) = fs := by
    cases loc with
    | top => simp
    | tally => simp [hwf rfl]
  simp only [h1]
  split
  · rfl
  · exact lookup_setNode_ne fs _ q _ hq

private theorem up_events_fs (m : M κ) (h : m.fault = none) (hfl : m.fl = none) (loc : Loc) :
    (ev (.mkdir ⟨loc, .outputDir⟩) m ⊳ writeFile ⟨loc, .report⟩ (.starter .report)).m.fs
      = setNode (setNode (applyEv m.fs none (.mkdir ⟨loc, .outputDir⟩)).1 ⟨loc, .report⟩ (.file []))
          ⟨loc, .report⟩ (.file [.starter .report]) := by
  simp [ev, h, hfl, writeFile, Res.andThen, Res.m, applyEv, flushed]

/-- C20 read-only frame for `tally up` (HTML report, no `--migrate`): every path outside the output location
    keeps its node, for an arbitrary well-formed file system and arbitrary contents. -/
theorem up_frame (v : CsvVariant) (html : Bool) (fs : FS κ) (hwf : WF fs) (q : Path) (hq : q ∉ outputPaths fs) :
    lookup (cmdUp v false html (start fs)).m.fs q = lookup fs q := by
  unfold cmdUp
  cases hloc : findConfigDir (start fs).fs with
  | none => rfl
  | some loc =>
    have hloc' : findConfigDir fs = some loc := hloc
    simp only [outputPaths, hloc', List.mem_cons, List.not_mem_nil, or_false, not_or] at hq
    have hwf' : loc = .tally → pathExists fs ⟨.top, .tallyDir⟩ = true := by
      intro h; subst h
      apply hwf
      unfold findConfigDir at hloc'
      split at hloc'
      · cases hloc'
      · split at hloc'
        · assumption
        · cases hloc'
    simp only []
    split
    · rfl
    · split
      · rfl
      · rw [migration_only_on_request]
        split
        · rfl
        · split
          · rfl
          split
          · rw [up_events_fs _ rfl rfl]
            rw [lookup_setNode_ne _ _ _ _ hq.2, lookup_setNode_ne _ _ _ _ hq.2]
            exact mkdir_lookup fs loc q hwf' hq.1
          · rfl

/-- C20 read-only frame: `explain`, `discover`, `diag`, `inspect` (and `up` with a text format) leave every path
    unchanged; `up` leaves every path outside the output location unchanged. -/
theorem readonly_frame (v : Variants) (p : Prog) (hp : p = .readOnly ∨ p = .up) (fs : FS κ) (hwf : WF fs)
    (q : Path) (hq : q ∉ outputPaths fs) : lookup (complete v p fs).fs q = lookup fs q := by
  rcases hp with hp | hp <;> subst hp
  · rfl
  · exact up_frame v.csv true fs hwf q hq

/-! ## `tally init` -/

section Init
variable [DecidableEq κ]

def isCsvBackup (r : Rel) : Bool := r = .csvBak || r = .csvBak1 || r = .csvBak2

/-- every node of `fs₀` is kept by `fs`: same content at the same path, or settings.yaml with lines appended, or the
    legacy CSV moved to a backup name that was free -/
def initFrameB (fs₀ fs : FS κ) : Bool :=
  fs₀.all fun e =>
    match e.2 with
    | .dir => isDir fs e.1
    | .file c =>
      decide (fileAt fs e.1 = some c) ||
      (decide (e.1.rel = .settings) && c.isPrefixOf ((fileAt fs e.1).getD [])) ||
      (decide (e.1.rel = .csv) && !pathExists fs e.1 &&
        fs.any fun e' => isCsvBackup e'.1.rel && decide (e'.1.loc = e.1.loc) && decide (e'.2 = .file c) &&
                         !pathExists fs₀ e'.1)

/-- what `init` adds is only starter / migrated material at paths that did not exist -/
def createsOnlyMissingB (fs₀ fs : FS κ) : Bool :=
  fs.all fun e => pathExists fs₀ e.1 || !(fs₀.any fun e₀ => decide (e₀.1 = e.1))

end Init

set_option maxRecDepth 100000 in
/-- C20 `init` frame, repaired migration: over all budget shapes every existing file is kept (settings may only gain
    appended lines; the CSV may move to a fresh backup name). -/
theorem init_frame (s : Shape) :
    initFrameB (s.fs id : FS Sym) (complete .repaired .init (s.fs id)).fs = true := by
  have h : (allShapes.all fun s => initFrameB (s.fs id : FS Sym) (complete .repaired .init (s.fs id)).fs) = true := by
    decide +kernel
  exact List.all_eq_true.mp h s (mem_allShapes s)

set_option maxRecDepth 100000 in
/-- the same for the code as it is, except when a `.bak` is already there (full statement false: next theorem) -/
theorem init_frame_impl_partial (s : Shape) (h : s.csvBak = false) :
    initFrameB (s.fs id : FS Sym) (complete .impl .init (s.fs id)).fs = true := by
  have hall : (allShapes.all fun s => s.csvBak || initFrameB (s.fs id : FS Sym) (complete .impl .init (s.fs id)).fs) = true := by
    decide +kernel
  have hs := List.all_eq_true.mp hall s (mem_allShapes s)
  simpa [h] using hs

/-- **D15c via init**: `tally init` on a legacy budget that already has `merchant_categories.csv.bak` replaces it. -/
theorem D15c_init_clobbers_bak :
    initFrameB ((⟨.plain, .withRules, false, true, false, false, true⟩ : Shape).fs id : FS Sym)
      (complete .impl .init ((⟨.plain, .withRules, false, true, false, false, true⟩ : Shape).fs id)).fs = false := by
  decide +kernel

set_option maxRecDepth 100000 in
/-- C20 `init` "creates only what is missing": once everything is there, `init` performs its three
    `os.makedirs(…, exist_ok=True)` calls and nothing else, and the tree is unchanged. -/
theorem init_creates_only_missing (s : Shape) :
    (complete .repaired .init (complete .repaired .init (s.fs id : FS Sym)).fs).n = 3 ∧
    (complete .repaired .init (complete .repaired .init (s.fs id : FS Sym)).fs).fs
      = (complete .repaired .init (s.fs id : FS Sym)).fs := by
  have h : (allShapes.all fun s =>
      (complete .repaired .init (complete .repaired .init (s.fs id : FS Sym)).fs).n == 3 &&
      decide ((complete .repaired .init (complete .repaired .init (s.fs id : FS Sym)).fs).fs
        = (complete .repaired .init (s.fs id : FS Sym)).fs)) = true := by decide +kernel
  have := List.all_eq_true.mp h s (mem_allShapes s)
  simpa using this

/-- what `initFrameB` says of a file that is neither settings.yaml nor the legacy CSV: it is still there, same content -/
private theorem initFrameB_keeps [DecidableEq κ] {fs₀ fs : FS κ} (h : initFrameB fs₀ fs = true) {p : Path} {c : Content κ}
    (hm : (p, Node.file c) ∈ fs₀) (h1 : p.rel ≠ .settings) (h2 : p.rel ≠ .csv) : fileAt fs p = some c := by
  have := List.all_eq_true.mp h _ hm
  simpa [h1, h2] using this

set_option maxRecDepth 100000 in
/-- C20 `init` "keeps each of them" in a folder that also holds a file which is NOT one of tally's rules / settings / statements: with a
    `.gitignore` of the user's (any content — the model does not look inside), over all budget shapes, `tally init` keeps every existing
    file (settings may only gain appended lines; the CSV may move to a fresh backup name). -/
theorem init_frame_with_gitignore (s : Shape) :
    initFrameB (s.fsWith true id : FS Sym) (complete .repaired .init (s.fsWith true id)).fs = true := by
  have h : (allShapes.all fun s =>
      initFrameB (s.fsWith true id : FS Sym) (complete .repaired .init (s.fsWith true id)).fs) = true := by decide +kernel
  exact List.all_eq_true.mp h s (mem_allShapes s)

/-- … the `.gitignore` included: `init` leaves it byte-identical (it is not appended to, unlike settings.yaml). -/
theorem init_keeps_gitignore (s : Shape) :
    fileAt (complete .repaired .init (s.fsWith true id : FS Sym)).fs ⟨.top, .gitignore⟩ = some [.orig .gitignore { kind := .other }] := by
  apply initFrameB_keeps (init_frame_with_gitignore s)
  · simp [Shape.fsWith, optFile]
  · decide
  · decide

/-- the read-only commands and `up` in such a folder: `readonly_frame` is about arbitrary file systems, so the user's `.gitignore`
    (and a `views_file:` reference to a file that does not exist) is covered; spelled out for the record -/
theorem readonly_keeps_gitignore (v : Variants) (p : Prog) (hp : p = .readOnly ∨ p = .up) (s : Shape) (g : Bool) :
    lookup (complete v p (s.fsWith g id : FS Sym)).fs ⟨.top, .gitignore⟩ = lookup (s.fsWith g id : FS Sym) ⟨.top, .gitignore⟩ := by
  apply readonly_frame v p hp
  · intro h
    exfalso
    revert h
    have : (allShapes.all fun s => bools.all fun g => !isDir (s.fsWith g id : FS Sym) ⟨.tally, .configDir⟩) = true := by decide +kernel
    have h2 := List.all_eq_true.mp (List.all_eq_true.mp this s (mem_allShapes s)) g (mem_bools g)
    simpa using h2
  · unfold outputPaths
    split
    · simp
    · simp only [List.mem_cons, List.not_mem_nil, or_false, not_or]
      constructor <;> (intro h; cases h)

/-! non-vacuity -/
example : fileAt ((⟨.plain, .absent, true, false, false, false, true⟩ : Shape).fsWith true id : FS Sym) ⟨.top, .gitignore⟩
    = some [.orig .gitignore { kind := .other }] := by decide
example : WF ((⟨.plain, .withRules, false, false, false, false, true⟩ : Shape).fs id : FS Sym) := by
  intro h; revert h; decide
example : (⟨.top, .settings⟩ : Path) ∉ outputPaths ((⟨.plain, .withRules, false, false, false, false, true⟩ : Shape).fs id : FS Sym) := by
  decide


/-! ## settings.yaml is only ever appended to -/


/-- a chunk that is one of the lines tally appends to settings.yaml (`merchants_file:` / `views_file:` and their comments) -/
def isLineChunk : Chunk Sym → Bool
  | .line _ => true
  | _ => false

/-- settings.yaml after a command against settings.yaml before it: still a file, the old content is a PREFIX of the new one, and what
    follows the old content consists of appended lines only -/
def settingsExtendedB (fs₀ fs : FS Sym) (p : Path) : Bool :=
  match fileAt fs₀ p with
  | none => true
  | some c =>
    match fileAt fs p with
    | none => false
    | some c' => c.isPrefixOf c' && (c'.drop c.length).all isLineChunk

private theorem settingsExtendedB_spec {fs₀ fs : FS Sym} {p : Path} (h : settingsExtendedB fs₀ fs p = true) {c : Content Sym}
    (hc : fileAt fs₀ p = some c) : ∃ t, fileAt fs p = some (c ++ t) ∧ t.all isLineChunk = true := by
  unfold settingsExtendedB at h
  rw [hc] at h
  cases hf : fileAt fs p with
  | none => simp [hf] at h
  | some c' =>
    simp only [hf, Bool.and_eq_true] at h
    obtain ⟨t, rfl⟩ := List.isPrefixOf_iff_prefix.mp h.1
    exact ⟨t, rfl, by simpa using h.2⟩

set_option maxRecDepth 100000 in
/-- C20 "settings.yaml may only gain appended lines", as an equation: for `tally init` and `tally up --migrate` (code as it is and
    repaired migration), over all budget shapes, new content of settings.yaml = old content ++ t, where t consists of the lines tally
    appends (`merchants_file:` / `views_file:` with their comments) and nothing else — the old content is never re-written. The model
    holds contents symbolically; that the real commands leave the old BYTES as a prefix whatever their form (CRLF, BOM, no final
    newline …) is the byte-level oracle of harness/props/c20.py. -/
theorem settings_append_only (cv : CsvVariant) (hcv : cv = .impl ∨ cv = .repaired) (lv : LayoutVariant) (p : Prog)
    (hp : p = .init ∨ p = .upMigrateHtml) (s : Shape) (c : Content Sym) (h : fileAt (s.fs id : FS Sym) ⟨.top, .settings⟩ = some c) :
    ∃ t, fileAt (complete ⟨cv, lv⟩ p (s.fs id)).fs ⟨.top, .settings⟩ = some (c ++ t) ∧ t.all isLineChunk = true := by
  have hall : ([CsvVariant.impl, CsvVariant.repaired].all fun cv => [Prog.init, Prog.upMigrateHtml].all fun p => allShapes.all fun s =>
      settingsExtendedB (s.fs id) (complete ⟨cv, .impl⟩ p (s.fs id)).fs ⟨.top, .settings⟩) = true := by decide +kernel
  have hl : complete ⟨cv, lv⟩ p (s.fs id : FS Sym) = complete ⟨cv, .impl⟩ p (s.fs id) := by
    rcases hp with rfl | rfl <;> rfl
  rw [hl]
  apply settingsExtendedB_spec _ h
  have h1 := List.all_eq_true.mp hall cv (by rcases hcv with rfl | rfl <;> simp)
  have h2 := List.all_eq_true.mp h1 p (by rcases hp with rfl | rfl <;> simp)
  exact List.all_eq_true.mp h2 s (mem_allShapes s)

/-- non-vacuity: a legacy budget; `tally init` appends four lines (merchants_file + views_file, each with its comment) -/
example : fileAt (complete .repaired .init ((⟨.plain, .withRules, false, false, false, false, true⟩ : Shape).fs id : FS Sym)).fs ⟨.top, .settings⟩
    = some ([.orig .settings (settingsMeta .plain false)] ++ [.line .mfComment, .line .mfKey, .line .vfComment, .line .vfKey]) := by
  decide +kernel

end TallyVerif.Fs
