/-
C09 — most_specific mode picks the most specific matching rule, whatever the order.

Model: `Rules.matchEngine … .mostSpecific` with Python's `max(key=…)` (`pyMax`: first maximal
element) over the lexicographic specificity key `(priority, #pattern conditions, #constraint
kinds, pattern length)`.  `key`, `ev`, `fix` arbitrary (how the key is computed from the rule
text is `Rules.specificity`, tied by correspondence).
-/
import TallyVerif.Lemmas.Rules
import TallyVerif.Props.C02
import TallyVerif.Gen.Specificity

namespace TallyVerif.Props.C09
open TallyVerif.Rules

/-- the matching categorising rules, in file order -/
def candidates (ev : Rule → Eval) (rs : List Rule) : List Rule := (rs.filter (fun r => (ev r).hit)).filter Rule.isCat
def subCandidates (ev : Rule → Eval) (rs : List Rule) : List Rule := (rs.filter (fun r => (ev r).hit)).filter Rule.hasSub

theorem winner_spec (fix : Bool) (key : Rule → Key) (ev : Rule → Eval) (rs : List Rule) :
    let res := matchEngine fix key ev .mostSpecific rs
    res.matchedRule = pyMax key (candidates ev rs) ∧
    res.category = ((pyMax key (candidates ev rs)).map Rule.category).getD "" ∧
    res.matched = (pyMax key (candidates ev rs)).isSome ∧
    res.subcategoryRule = pyMax key (subCandidates ev rs) ∧
    res.subcategory = ((pyMax key (subCandidates ev rs)).map Rule.subcategory).getD "" := by
  obtain ⟨-, h2, h3, -, h5, h6, h7, -⟩ := finish_specific fix key ev (runLoop ev rs)
  simp only [matchEngine]
  rw [h2, h3, h5, h6, h7]
  simp only [runLoop, fold_matching, loopInit, List.nil_append, candidates, subCandidates]
  simp

/-- the category comes from a matching categorising rule that no other matching categorising
rule outranks -/
theorem winner_maximal (fix : Bool) (key : Rule → Key) (ev : Rule → Eval) (rs : List Rule) (w : Rule)
    (h : (matchEngine fix key ev .mostSpecific rs).matchedRule = some w) :
    w ∈ rs ∧ (ev w).hit = true ∧ w.isCat = true ∧
    (matchEngine fix key ev .mostSpecific rs).category = w.category ∧
    ∀ r ∈ rs, (ev r).hit = true → r.isCat = true → (key w).lt (key r) = false := by
  have ws := winner_spec fix key ev rs
  simp only at ws
  rw [ws.1] at h
  have fm := pyMax_spec key _ w h
  have hm := fm.mem
  simp only [candidates, List.mem_filter] at hm
  refine ⟨hm.1.1, hm.1.2, hm.2, ?_, ?_⟩
  · rw [ws.2.1, h]; rfl
  · intro r hr h1 h2
    exact fm.maximal r (by simp [candidates, List.mem_filter, hr, h1, h2])

/-- exact ties go to the earlier rule: every candidate before the winner ranks strictly lower,
no candidate after it ranks strictly higher -/
theorem ties_to_earliest (fix : Bool) (key : Rule → Key) (ev : Rule → Eval) (rs : List Rule) (w : Rule)
    (h : (matchEngine fix key ev .mostSpecific rs).matchedRule = some w) :
    ∃ pre post, candidates ev rs = pre ++ w :: post ∧ (∀ r ∈ pre, (key r).lt (key w) = true) ∧
      (∀ r ∈ post, (key w).lt (key r) = false) := by
  rw [(winner_spec fix key ev rs).1] at h
  exact pyMax_spec key _ w h

/-- no category ⇔ no matching categorising rule -/
theorem unmatched_iff (fix : Bool) (key : Rule → Key) (ev : Rule → Eval) (rs : List Rule) :
    (matchEngine fix key ev .mostSpecific rs).matched = false ↔
      ∀ r ∈ rs, ¬ ((ev r).hit = true ∧ r.isCat = true) := by
  rw [(winner_spec fix key ev rs).2.2.1]
  cases h : pyMax key (candidates ev rs) with
  | none =>
    have := (pyMax_none key _).mp h
    simp only [Option.isSome_none, true_iff]
    intro r hr ⟨h1, h2⟩
    have : r ∈ candidates ev rs := by simp [candidates, List.mem_filter, hr, h1, h2]
    simp_all
  | some w =>
    have hm := (pyMax_spec key _ w h).mem
    simp only [candidates, List.mem_filter] at hm
    simp only [Option.isSome_some, Bool.true_eq_false, false_iff]
    exact fun hn => hn w hm.1.1 ⟨hm.1.2, hm.2⟩

/-- The result does not depend on the order of the rules, except for exact ties: if matching
categorising rules have pairwise different keys, every permutation of the file yields the same
winning rule and category; likewise the subcategory. -/
theorem perm_invariant (fix : Bool) (key : Rule → Key) (ev : Rule → Eval) {rs rs' : List Rule}
    (p : rs.Perm rs')
    (inj : ∀ a ∈ candidates ev rs, ∀ b ∈ candidates ev rs, key a = key b → a = b) :
    (matchEngine fix key ev .mostSpecific rs).matchedRule = (matchEngine fix key ev .mostSpecific rs').matchedRule ∧
    (matchEngine fix key ev .mostSpecific rs).category = (matchEngine fix key ev .mostSpecific rs').category := by
  have pc : (candidates ev rs).Perm (candidates ev rs') := (p.filter _).filter _
  have e := pyMax_perm key pc inj
  have w1 := winner_spec fix key ev rs
  have w2 := winner_spec fix key ev rs'
  simp only at w1 w2
  exact ⟨by rw [w1.1, w2.1, e], by rw [w1.2.1, w2.2.1, e]⟩

theorem subcategory_perm_invariant (fix : Bool) (key : Rule → Key) (ev : Rule → Eval) {rs rs' : List Rule}
    (p : rs.Perm rs')
    (inj : ∀ a ∈ subCandidates ev rs, ∀ b ∈ subCandidates ev rs, key a = key b → a = b) :
    (matchEngine fix key ev .mostSpecific rs).subcategory = (matchEngine fix key ev .mostSpecific rs').subcategory := by
  have pc : (subCandidates ev rs).Perm (subCandidates ev rs') := (p.filter _).filter _
  have e := pyMax_perm key pc inj
  rw [(winner_spec fix key ev rs).2.2.2.2, (winner_spec fix key ev rs').2.2.2.2, e]

/-- the subcategory comes from the highest-ranked matching rule that sets one -/
theorem subcategory_maximal (fix : Bool) (key : Rule → Key) (ev : Rule → Eval) (rs : List Rule) (w : Rule)
    (h : (matchEngine fix key ev .mostSpecific rs).subcategoryRule = some w) :
    w ∈ rs ∧ (ev w).hit = true ∧ w.hasSub = true ∧
    (matchEngine fix key ev .mostSpecific rs).subcategory = w.subcategory ∧
    ∀ r ∈ rs, (ev r).hit = true → r.hasSub = true → (key w).lt (key r) = false := by
  have ws := winner_spec fix key ev rs
  simp only at ws
  rw [ws.2.2.2.1] at h
  have fm := pyMax_spec key _ w h
  have hm := fm.mem
  simp only [subCandidates, List.mem_filter] at hm
  refine ⟨hm.1.1, hm.1.2, hm.2, ?_, ?_⟩
  · rw [ws.2.2.2.2, h]; rfl
  · intro r hr h1 h2
    exact fm.maximal r (by simp [subCandidates, List.mem_filter, hr, h1, h2])

/-- ranking is lexicographic: explicit priority, then number of pattern conditions, then number
of constraint kinds, then total pattern length -/
theorem lex_order (a b : Key) :
    a.lt b = true ↔
      a.prio < b.prio ∨ (a.prio = b.prio ∧ (a.pats < b.pats ∨ (a.pats = b.pats ∧
        (a.kinds < b.kinds ∨ (a.kinds = b.kinds ∧ a.len < b.len))))) := Key.lt_iff a b

/-- the code's key tuple lists the four components in the order the property states
(`Gen.Specificity` is regenerated from `calculate_specificity` on every run) -/
theorem key_order_as_stated :
    TallyVerif.Gen.Specificity.keyOrder = ["priority", "pattern_count", "field_count", "pattern_length"] := by
  decide

/-- tags still accumulate from all matching rules (C02) -/
theorem tags_unchanged (fix : Bool) (key : Rule → Key) (ev : Rule → Eval) (rs : List Rule) (t : String) :
    t ∈ (matchEngine fix key ev .mostSpecific rs).tags ↔ ∃ r ∈ rs, (ev r).hit = true ∧ t ∈ (ev r).tags :=
  TallyVerif.Props.C02.tags_iff fix key ev .mostSpecific rs t

/-! ### non-vacuity -/
def a : Rule := ⟨1, "A", "A", "Ca", "", 50, "contains(\"UBER\")"⟩
def b : Rule := ⟨5, "B", "B", "Cb", "Sb", 50, "contains(\"UBER\") and contains(\"EATS\")"⟩
def c : Rule := ⟨9, "C", "C", "Cc", "", 50, "contains(\"UBER\") and contains(\"EATZ\")"⟩   -- ties with b
def d : Rule := ⟨13, "D", "D", "Cd", "", 60, "contains(\"U\")"⟩                              -- priority
def kx (r : Rule) : Key := if r.line == 1 then ⟨50, 1, 0, 4⟩ else if r.line == 13 then ⟨60, 1, 0, 1⟩ else ⟨50, 2, 0, 8⟩
def ex (_ : Rule) : Eval := ⟨true, [], []⟩
example : (matchEngine true kx ex .mostSpecific [a, b, c]).category = "Cb" := by decide +kernel
example : (matchEngine true kx ex .mostSpecific [a, c, b]).category = "Cc" := by decide +kernel   -- tie → earlier
example : (matchEngine true kx ex .mostSpecific [a, b, c, d]).category = "Cd" := by decide +kernel
example : (matchEngine true kx ex .mostSpecific [d, a, b]).subcategory = "Sb" := by decide +kernel

end TallyVerif.Props.C09
