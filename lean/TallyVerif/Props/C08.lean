/-
C08 — a rule that fails to evaluate is skipped; it never aborts classification.

Model: `Engine.matchTxn` = `MerchantEngine.match` end to end (evaluator `Expr.eval` + rule-list
algorithm), with `evalRoot true` = `_eval_Expression` after the D8 repair (every Python exception
raised inside evaluation becomes ExpressionError at the expression root).  All statements are for
every oracle family, context, rule list and expression.  `Err.unmodelled` is the model's own
"I do not cover this construct" outcome; it is not an exception of the implementation, so the
totality statements read "…unless the model gives up".
-/
import TallyVerif.Model.Engine
import TallyVerif.Props.C01

namespace TallyVerif.Props.C08
open TallyVerif.Py TallyVerif.Expr TallyVerif.Rules TallyVerif.Engine

/-- only the model's own give-up outcome; never an implementation exception -/
def ModelGaveUp (e : Err) : Prop := ∃ w, e = .unmodelled w

/-- After the repair no Python exception leaves an expression root: evaluation yields a value, an
ExpressionError, or the model gives up. -/
theorem root_raises_only_expression_error (o : Oracles) (ctx : Ctx) (e : Expr) (err : Err)
    (h : evalRoot true o ctx e = .error err) : (∃ t, err = .expr t) ∨ ModelGaveUp err := by
  unfold evalRoot at h
  split at h
  · cases h
  · simp at h; exact Or.inl ⟨_, h.symm⟩
  · rename_i err' hne _
    cases err' with
    | expr t => simp at h; exact Or.inl ⟨t, h.symm⟩
    | py c => exact absurd rfl (hne c)
    | unmodelled w => simp at h; exact Or.inr ⟨w, h.symm⟩

/-- The code as pinned (`convert = false`) lets a Python exception through: `amount > "x"`. -/
theorem root_leaks_unrepaired :
    let o : Oracles := ⟨fun _ => none, fun _ => none, fun _ _ => none, fun _ _ => none, fun _ _ _ => none,
      fun _ _ => none, fun _ => none, fun _ => none, fun _ _ => none, fun _ _ => none⟩
    let ctx : Ctx := ⟨"A", .int 5, none, "", "", none, [], [], []⟩
    let e : Expr := .cmp (.name "amount") [.mk .gt (.const (.str "x"))]
    outcomeTag (evalRoot false o ctx e) = "TypeError" ∧ outcomeTag (evalRoot true o ctx e) = "ExpressionError" := by
  decide +kernel

private theorem caught_root (o : Oracles) (ctx : Ctx) (e : PExpr) (err : Err)
    (h : caught (evalP true o ctx e) = .abort err) : ModelGaveUp err := by
  unfold caught at h
  split at h
  · cases h
  · cases h
  · rename_i e' hne heq
    simp only [Caught.abort.injEq] at h
    subst h
    cases e with
    | none =>
      simp only [evalP, Except.error.injEq] at heq
      exact absurd heq.symm (hne _)
    | some x =>
      simp only [evalP] at heq
      rcases root_raises_only_expression_error o ctx x _ heq with ⟨t, ht⟩ | hg
      · exact absurd (ht ▸ rfl) (hne t)
      · exact hg

/-! ### classification is total -/

private theorem evalVariables_total (o : Oracles) (ctx : Ctx) (vs : List (String × PExpr)) (err : Err)
    (h : evalVariables true o ctx vs = .error err) : ModelGaveUp err := by
  induction vs with
  | nil => simp [evalVariables] at h
  | cons v vs ih =>
    obtain ⟨n, e⟩ := v
    simp only [evalVariables] at h
    split at h
    · rename_i e' hc; simp only [Except.error.injEq] at h; subst h; exact caught_root o _ e _ hc
    · exact ih h
    · cases hr : evalVariables true o ctx vs with
      | error e2 => rw [hr] at h; simp [Except.map] at h; subst h; exact ih hr
      | ok r => rw [hr] at h; simp [Except.map] at h

private theorem evalLets_total (o : Oracles) (ctx : Ctx) (ls : List (String × PExpr)) (vars : List (String × Val))
    (err : Err) (h : evalLets true o ctx ls vars = .error err) : ModelGaveUp err := by
  induction ls generalizing vars with
  | nil => simp [evalLets] at h
  | cons l ls ih =>
    obtain ⟨n, e⟩ := l
    simp only [evalLets] at h
    split at h
    · rename_i e' hc; simp only [Except.error.injEq] at h; subst h; exact caught_root o _ e _ hc
    · exact ih _ h
    · exact ih _ h

private theorem pyLower_err (o : Oracles) (s : String) (e : Err)
    (h : pyLower o s = .error e) : ModelGaveUp e := by
  unfold pyLower at h
  by_cases hA : isAsciiStr s = true
  · simp [hA, pure, Except.pure] at h
  · have hA' : isAsciiStr s = false := by simpa using hA
    cases ho : o.lower s with
    | some r => simp [hA', ho, pure, Except.pure] at h
    | none =>
      simp only [hA', ho, needE, Bool.false_eq_true, if_false, Except.error.injEq] at h
      exact ⟨_, h.symm⟩

private theorem pyStr_err (o : Oracles) (v : Val) (e : Err)
    (h : pyStr o v = .error e) : ModelGaveUp e := by
  cases v with
  | flt b =>
    cases ho : o.fltStr b with
    | some r => simp [pyStr, ho, pure, Except.pure] at h
    | none =>
      simp only [pyStr, ho, needE, Except.error.injEq] at h
      exact ⟨_, h.symm⟩
  | none => simp [pyStr, pure, Except.pure] at h
  | bool b => simp [pyStr, pure, Except.pure] at h
  | int i => simp [pyStr, pure, Except.pure] at h
  | str s => simp [pyStr, pure, Except.pure] at h
  | date d => simp [pyStr, pure, Except.pure] at h
  | tdelta d => simp only [pyStr, raiseE, Except.error.injEq] at h; exact ⟨_, h.symm⟩
  | list xs => simp only [pyStr, raiseE, Except.error.injEq] at h; exact ⟨_, h.symm⟩
  | row kvs => simp only [pyStr, raiseE, Except.error.injEq] at h; exact ⟨_, h.symm⟩
  | gen xs => simp only [pyStr, raiseE, Except.error.injEq] at h; exact ⟨_, h.symm⟩
  | other k => simp only [pyStr, raiseE, Except.error.injEq] at h; exact ⟨_, h.symm⟩

private theorem tagOf_total (o : Oracles) (v : Val) (err : Err) (h : tagOf o v = .error err) : ModelGaveUp err := by
  unfold tagOf at h
  simp only [bind, Except.bind] at h
  cases hs : pyStr o v with
  | error e => rw [hs] at h; simp only [Except.error.injEq] at h; subst h; exact pyStr_err o v _ hs
  | ok s' => rw [hs] at h; exact pyLower_err o _ _ h

private theorem foldTags_total (o : Oracles) (xs : List Val) (acc : List String) (err : Err)
    (h : xs.foldlM (fun acc x => do let s ← tagOf o x; pure (acc ++ [s])) acc = (.error err : Except Err (List String))) :
    ModelGaveUp err := by
  induction xs generalizing acc with
  | nil => simp [List.foldlM, pure, Except.pure] at h
  | cons x xs ih =>
    simp only [List.foldlM_cons, bind, Except.bind] at h
    cases ht : tagOf o x with
    | error e =>
      rw [ht] at h
      simp only [Except.error.injEq] at h; subst h; exact tagOf_total o x _ ht
    | ok s' =>
      rw [ht] at h
      exact ih _ h

private theorem resolveTags_total (o : Oracles) (ctx : Ctx) (ts : List TagSpec) (err : Err)
    (h : resolveTags true o ctx ts = .error err) : ModelGaveUp err := by
  induction ts with
  | nil => simp [resolveTags] at h
  | cons t ts ih =>
    cases t with
    | blank => simp only [resolveTags] at h; exact ih h
    | static text =>
      simp only [resolveTags, bind, Except.bind] at h
      cases hl : pyLower o text with
      | error e =>
        rw [hl] at h
        simp only [Except.error.injEq] at h; subst h; exact pyLower_err o text _ hl
      | ok l =>
        rw [hl] at h
        simp only at h
        cases hm : resolveTags true o ctx ts with
        | error e2 => rw [hm] at h; simp only [Except.error.injEq] at h; subst h; exact ih hm
        | ok more => rw [hm] at h; simp [pure, Except.pure] at h
    | dynamic e =>
      simp only [resolveTags] at h
      split at h
      · rename_i e' hc; simp only [Except.error.injEq] at h; subst h; exact caught_root o _ e _ hc
      · exact ih h
      · rename_i v hc
        simp only [bind, Except.bind] at h
        split at h
        · rename_i e2 hh
          simp only [Except.error.injEq] at h; subst h
          by_cases htv : truthy v = true
          · simp only [htv, Bool.not_true, Bool.false_eq_true, if_false] at hh
            cases v with
            | list xs => exact foldTags_total o _ _ _ hh
            | none => simp [truthy] at htv
            | bool b =>
              simp only [bind, Except.bind] at hh
              cases ht : tagOf o (.bool b) with
              | error e3 => rw [ht] at hh; simp only [Except.error.injEq] at hh; subst hh; exact tagOf_total o _ _ ht
              | ok s' => rw [ht] at hh; simp [pure, Except.pure] at hh
            | int i =>
              simp only [bind, Except.bind] at hh
              cases ht : tagOf o (.int i) with
              | error e3 => rw [ht] at hh; simp only [Except.error.injEq] at hh; subst hh; exact tagOf_total o _ _ ht
              | ok s' => rw [ht] at hh; simp [pure, Except.pure] at hh
            | flt b =>
              simp only [bind, Except.bind] at hh
              cases ht : tagOf o (.flt b) with
              | error e3 => rw [ht] at hh; simp only [Except.error.injEq] at hh; subst hh; exact tagOf_total o _ _ ht
              | ok s' => rw [ht] at hh; simp [pure, Except.pure] at hh
            | str x =>
              simp only [bind, Except.bind] at hh
              cases ht : tagOf o (.str x) with
              | error e3 => rw [ht] at hh; simp only [Except.error.injEq] at hh; subst hh; exact tagOf_total o _ _ ht
              | ok s' => rw [ht] at hh; simp [pure, Except.pure] at hh
            | date d =>
              simp only [bind, Except.bind] at hh
              cases ht : tagOf o (.date d) with
              | error e3 => rw [ht] at hh; simp only [Except.error.injEq] at hh; subst hh; exact tagOf_total o _ _ ht
              | ok s' => rw [ht] at hh; simp [pure, Except.pure] at hh
            | tdelta d =>
              simp only [bind, Except.bind] at hh
              cases ht : tagOf o (.tdelta d) with
              | error e3 => rw [ht] at hh; simp only [Except.error.injEq] at hh; subst hh; exact tagOf_total o _ _ ht
              | ok s' => rw [ht] at hh; simp [pure, Except.pure] at hh
            | row kvs =>
              simp only [bind, Except.bind] at hh
              cases ht : tagOf o (.row kvs) with
              | error e3 => rw [ht] at hh; simp only [Except.error.injEq] at hh; subst hh; exact tagOf_total o _ _ ht
              | ok s' => rw [ht] at hh; simp [pure, Except.pure] at hh
            | gen xs =>
              simp only [bind, Except.bind] at hh
              cases ht : tagOf o (.gen xs) with
              | error e3 => rw [ht] at hh; simp only [Except.error.injEq] at hh; subst hh; exact tagOf_total o _ _ ht
              | ok s' => rw [ht] at hh; simp [pure, Except.pure] at hh
            | other k =>
              simp only [bind, Except.bind] at hh
              cases ht : tagOf o (.other k) with
              | error e3 => rw [ht] at hh; simp only [Except.error.injEq] at hh; subst hh; exact tagOf_total o _ _ ht
              | ok s' => rw [ht] at hh; simp [pure, Except.pure] at hh
          · have : truthy v = false := by simpa using htv
            simp [this, pure, Except.pure] at hh
        · rename_i here hh
          cases hm : resolveTags true o ctx ts with
          | error e2 => rw [hm] at h; simp only [Except.error.injEq] at h; subst h; exact ih hm
          | ok more => rw [hm] at h; simp [pure, Except.pure] at h

private theorem evalFields_total (o : Oracles) (ctx : Ctx) (fs : List (String × PExpr)) (err : Err)
    (h : evalFields true o ctx fs = .error err) : ModelGaveUp err := by
  induction fs with
  | nil => simp [evalFields] at h
  | cons f fs ih =>
    obtain ⟨n, e⟩ := f
    simp only [evalFields] at h
    split at h
    · rename_i e' hc; simp only [Except.error.injEq] at h; subst h; exact caught_root o _ e _ hc
    · exact ih h
    · cases hr : evalFields true o ctx fs with
      | error e2 => rw [hr] at h; simp [Except.map] at h; subst h; exact ih hr
      | ok r => rw [hr] at h; simp [Except.map] at h

private theorem ruleBody_total (o : Oracles) (c : Ctx) (r : RuleX) (err : Err)
    (h : ruleBody true o c r = .error err) : ModelGaveUp err := by
  unfold ruleBody at h
  split at h
  · rename_i e' hc; simp only [Except.error.injEq] at h; subst h; exact caught_root o _ _ _ hc
  · cases h
  · rename_i v hc
    by_cases ht : truthy v = true
    · simp only [ht, Bool.not_true, Bool.false_eq_true, if_false] at h
      split at h
      · rename_i e2 htg; simp only [Except.error.injEq] at h; subst h; exact resolveTags_total o _ _ _ htg
      · split at h
        · rename_i e2 hf; simp only [Except.error.injEq] at h; subst h; exact evalFields_total o _ _ _ hf
        · cases h
    · have : truthy v = false := by simpa using ht
      simp [this] at h

private theorem evalRule_total (o : Oracles) (ctx : Ctx) (g : List (String × Val)) (r : RuleX) (err : Err)
    (h : evalRule true o ctx g r = .error err) : ModelGaveUp err := by
  unfold evalRule at h
  by_cases hl : r.lets.isEmpty = true
  · simp only [hl, if_true] at h; exact ruleBody_total o _ r _ h
  · simp only [hl, Bool.false_eq_true, if_false] at h
    split at h
    · rename_i e hv; simp only [Except.error.injEq] at h; subst h; exact evalLets_total o ctx _ _ _ hv
    · exact ruleBody_total o _ r _ h

private theorem evalRules_total (o : Oracles) (ctx : Ctx) (g : List (String × Val)) (rs : List RuleX) (err : Err)
    (h : evalRules true o ctx g rs = .error err) : ModelGaveUp err := by
  induction rs with
  | nil => simp [evalRules] at h
  | cons r rs ih =>
    simp only [evalRules, bind, Except.bind] at h
    cases h1 : evalRule true o ctx g r with
    | error e => rw [h1] at h; simp only [Except.error.injEq] at h; subst h; exact evalRule_total o ctx g r _ h1
    | ok ev =>
      rw [h1] at h; simp only at h
      cases h2 : evalRules true o ctx g rs with
      | error e => rw [h2] at h; simp only [Except.error.injEq] at h; subst h; exact ih h2
      | ok es => rw [h2] at h; simp [pure, Except.pure] at h

/-- **Classification completes.** With the repaired evaluator root, `MerchantEngine.match` never
aborts on an implementation exception, whatever the rules, variables, lets, tags and field
expressions are and whatever the transaction is (the only non-`ok` outcome is the model giving up
on a construct it does not cover). -/
theorem match_total (fixD2 : Bool) (key : Rule → Key) (o : Oracles) (ctx : Ctx) (mode : Mode)
    (variables : List (String × PExpr)) (rules : List RuleX) (err : Err)
    (h : matchTxn true fixD2 key o ctx mode variables rules = .error err) : ModelGaveUp err := by
  unfold matchTxn at h
  simp only [bind, Except.bind] at h
  cases h1 : evalVariables true o ctx variables with
  | error e => rw [h1] at h; simp only [Except.error.injEq] at h; subst h; exact evalVariables_total o ctx _ _ h1
  | ok g =>
    rw [h1] at h; simp only at h
    cases h2 : evalRules true o ctx g rules with
    | error e => rw [h2] at h; simp only [Except.error.injEq] at h; subst h; exact evalRules_total o ctx g _ _ h2
    | ok t => rw [h2] at h; simp [pure, Except.pure] at h

/-- a rule whose `match:` cannot be evaluated (ExpressionError at the root — which after the
repair includes every ill-typed or partial expression) simply does not match -/
theorem failing_match_is_nonmatch (o : Oracles) (ctx : Ctx) (g : List (String × Val)) (r : RuleX)
    (hl : r.lets = []) (t : String) (h : evalP true o { ctx with variables := g } r.matchE = .error (.expr t)) :
    (evalRule true o ctx g r).map (·.hit) = .ok false := by
  unfold evalRule ruleBody
  simp [hl, h, caught, Except.map]

/-- … and a rule that does not match has no influence on any part of the result (C01
`nonmatching_irrelevant`, which holds for every per-rule evaluation): so the outcome equals what it
would be if the failing rule did not exist. -/
theorem failing_rule_absent (fixD2 : Bool) (key : Rule → Key) (ev : Rule → Rules.Eval) (mode : Mode) (rs : List Rule) :
    matchEngine fixD2 key ev mode (rs.filter (fun r => (ev r).hit)) = matchEngine fixD2 key ev mode rs :=
  TallyVerif.Props.C01.nonmatching_irrelevant fixD2 key ev mode rs

/-- a `let:` that cannot be evaluated binds `None` and evaluation goes on -/
theorem failing_let_binds_none (o : Oracles) (ctx : Ctx) (n : String) (e : PExpr) (rest : List (String × PExpr))
    (vars : List (String × Val)) (t : String)
    (h : evalP true o { ctx with variables := vars } e = .error (.expr t)) :
    evalLets true o ctx ((n, e) :: rest) vars = evalLets true o ctx rest (setKV n .none vars) := by
  simp [evalLets, caught, h]

/-- a `field:` that cannot be evaluated is omitted -/
theorem failing_field_omitted (o : Oracles) (ctx : Ctx) (n : String) (e : PExpr) (rest : List (String × PExpr)) (t : String)
    (h : evalP true o ctx e = .error (.expr t)) :
    evalFields true o ctx ((n, e) :: rest) = evalFields true o ctx rest := by
  simp [evalFields, caught, h]

/-- a `{expression}` tag that cannot be evaluated is dropped -/
theorem failing_tag_dropped (o : Oracles) (ctx : Ctx) (e : PExpr) (rest : List TagSpec) (t : String)
    (h : evalP true o ctx e = .error (.expr t)) :
    resolveTags true o ctx (.dynamic e :: rest) = resolveTags true o ctx rest := by
  simp [resolveTags, caught, h]

/-- a top-level variable that cannot be evaluated is skipped -/
theorem failing_variable_skipped (o : Oracles) (ctx : Ctx) (n : String) (e : PExpr) (rest : List (String × PExpr)) (t : String)
    (h : evalP true o { ctx with variables := [] } e = .error (.expr t)) :
    evalVariables true o ctx ((n, e) :: rest) = evalVariables true o ctx rest := by
  simp [evalVariables, caught, h]

/-! ### non-vacuity: an ill-typed rule between two good ones -/

def noOracle : Oracles := ⟨fun _ => none, fun _ => none, fun _ _ => none, fun _ _ => none, fun _ _ _ => none,
  fun _ _ => none, fun _ => none, fun _ => none, fun _ _ => none, fun _ _ => none⟩
def ctxEx : Ctx := ⟨"UBER EATS", .int 25, none, "", "", none, [], [], ["contains"]⟩
def bad : RuleX := ⟨⟨1, "Bad", "Bad", "X", "", 50, "amount > \"x\""⟩, [], some (.cmp (.name "amount") [.mk .gt (.const (.str "x"))]), [], []⟩
def good : RuleX := ⟨⟨5, "Good", "Good", "Food", "", 50, "contains(\"uber\")"⟩, [], some (.callName "contains" [.const (.str "uber")]),
  [.static "t", .dynamic (some (.callName "contains" [.const (.int 5)]))], []⟩
def keyEx (_ : Rule) : Key := ⟨50, 1, 0, 1⟩

example : resultTag (matchTxn true true keyEx noOracle ctxEx .firstMatch [] [bad, good]) = "Good|Food||t" := by
  decide +kernel
example : resultTag (matchTxn false true keyEx noOracle ctxEx .firstMatch [] [bad, good]) = "TypeError" := by
  decide +kernel

end TallyVerif.Props.C08
