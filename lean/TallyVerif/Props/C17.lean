/-
C17 — rule files are read by structure alone; malformed ones are rejected, not trimmed.

Models (Model/RulesFile.lean, tied to the code by correspondence on every run):
  `Impl.parseRulesFile validExpr lines`          = MerchantEngine.parse + _add_rule   (merchants.rules)
  `Impl.parseViewsFile validExpr wordNA lines`   = section_engine.parse_sections       (views.rules)
`lines` = `content.split('\n')`.  Every theorem holds for EVERY `validExpr` (what the expression parser
accepts) and every `wordNA` (which non-ASCII characters `\w` matches): no property of them is assumed.
`eraseLine` forgets the line number of an error (kept: the error kind); a successful result carries no
line numbers, so `eraseLine x = eraseLine y` says: same rules on success, same kind of error otherwise.
-/
import TallyVerif.Lemmas.RulesFile

namespace TallyVerif.Props.C17
open TallyVerif.RulesFile

/-! ## blank lines and comments -/

/-- *blank lines, comment lines … never change the result* (merchants file): two files that agree once
blank and `#` lines are deleted — any number of them, anywhere — give the same rules, or fail with the same
kind of error (the reported line number moves with the inserted lines). -/
theorem insert_comment_blank_neutral (ve : Str → Bool) (lines lines' : List Str)
    (h : lines.filter nonSkipLine = lines'.filter nonSkipLine) :
    eraseLine (Impl.parseRulesFile ve lines) = eraseLine (Impl.parseRulesFile ve lines') := by
  unfold Impl.parseRulesFile
  apply finish_erase
  rw [run_filter_skip ve 1 1 {} {} lines rfl, run_filter_skip ve 1 1 {} {} lines' rfl, h]

/-- success case of the above, for ONE comment / blank line `c` inserted at any position `i` -/
theorem insert_comment_blank_neutral_ok (ve : Str → Bool) (lines : List Str) (i : Nat) (c : Str)
    (hc : isSkip (strip c) = true) (r : RulesFileResult) :
    Impl.parseRulesFile ve (lines.take i ++ c :: lines.drop i) = .ok r ↔ Impl.parseRulesFile ve lines = .ok r := by
  have hf : (lines.take i ++ c :: lines.drop i).filter nonSkipLine = lines.filter nonSkipLine := by
    have h1 : (lines.take i ++ c :: lines.drop i).filter nonSkipLine =
        (lines.take i).filter nonSkipLine ++ (lines.drop i).filter nonSkipLine := by
      simp [List.filter_append, nonSkipLine, hc]
    rw [h1, ← List.filter_append, List.take_append_drop]
  have := insert_comment_blank_neutral ve _ _ hf
  revert this
  cases Impl.parseRulesFile ve (lines.take i ++ c :: lines.drop i) with
  | error a =>
    obtain ⟨_, _⟩ := a
    cases Impl.parseRulesFile ve lines with
    | error b => obtain ⟨_, _⟩ := b; simp [eraseLine]
    | ok b => simp [eraseLine]
  | ok a =>
    cases Impl.parseRulesFile ve lines with
    | error b => obtain ⟨_, _⟩ := b; simp [eraseLine]
    | ok b => simp only [eraseLine, Except.ok.injEq]; intro h; rw [h]

/-- the same for a views file (`COMMENT` / `BLANK` are tested on the raw line) -/
theorem insert_comment_blank_neutral_views (ve : Str → Bool) (w : Char → Bool) (lines lines' : List Str)
    (h : lines.filter nonSkipRaw = lines'.filter nonSkipRaw) :
    eraseLine (Impl.parseViewsFile ve w lines) = eraseLine (Impl.parseViewsFile ve w lines') := by
  unfold Impl.parseViewsFile
  apply vfinish_erase
  rw [vrun_filter_skip ve w 1 1 {} {} lines rfl, vrun_filter_skip ve w 1 1 {} {} lines' rfl, h]

/-! ## white space at the ends of lines: trailing blanks, CRLF, indentation -/

/-- merchants file: the parser sees a line only through `strip`; any edit that keeps every stripped line
keeps the outcome, line numbers included -/
theorem strip_eq_neutral (ve : Str → Bool) (lines lines' : List Str)
    (h : lines.map strip = lines'.map strip) :
    Impl.parseRulesFile ve lines = Impl.parseRulesFile ve lines' := by
  unfold Impl.parseRulesFile; rw [run_congr_strip ve 1 {} lines lines' h]

/-- *trailing blanks never change the result* (merchants): every line may get its own white-space suffix -/
theorem trailing_ws_neutral (ve : Str → Bool) (lines : List Str) (suffix : Str → Str)
    (hs : ∀ l, (suffix l).all isSpace = true) :
    Impl.parseRulesFile ve (lines.map fun l => l ++ suffix l) = Impl.parseRulesFile ve lines := by
  apply strip_eq_neutral
  simp only [List.map_map]
  apply List.map_congr_left
  intro l _
  exact strip_append_right l _ (hs l)

/-- *line-ending style never changes the result* (merchants): CRLF = every line ends in '\r' -/
theorem crlf_neutral (ve : Str → Bool) (lines : List Str) :
    Impl.parseRulesFile ve (lines.map fun l => l ++ ['\r']) = Impl.parseRulesFile ve lines :=
  trailing_ws_neutral ve lines (fun _ => ['\r']) (fun _ => by decide)

/-- *indentation of property lines never changes the result* and `indented_header_ok` (merchants): ANY
line — property line, header, top-level assignment — may be indented by any white space -/
theorem indent_property_neutral (ve : Str → Bool) (lines : List Str) (indent : Str → Str)
    (hs : ∀ l, (indent l).all isSpace = true) :
    Impl.parseRulesFile ve (lines.map fun l => indent l ++ l) = Impl.parseRulesFile ve lines := by
  apply strip_eq_neutral
  simp only [List.map_map]
  apply List.map_congr_left
  intro l _
  exact strip_append_left _ l (hs l)

/-- merchants only: an indented `[Header]` is the same header (special case of the previous theorem, stated
for one line at position `i`) -/
theorem indented_header_ok (ve : Str → Bool) (pre post : List Str) (hdr ws : Str) (hw : ws.all isSpace = true) :
    Impl.parseRulesFile ve (pre ++ (ws ++ hdr) :: post) = Impl.parseRulesFile ve (pre ++ hdr :: post) := by
  apply strip_eq_neutral
  simp [strip_append_left ws hdr hw]

/-- views file, trailing blanks / CRLF: every line may get its own white-space suffix (headers too:
`^\[([^\]]+)\]\s*$`) -/
theorem trailing_ws_neutral_views (ve : Str → Bool) (w : Char → Bool) (lines : List Str) (suffix : Str → Str)
    (hs : ∀ l, (suffix l).all isSpace = true) :
    Impl.parseViewsFile ve w (lines.map fun l => l ++ suffix l) = Impl.parseViewsFile ve w lines := by
  unfold Impl.parseViewsFile
  rw [vrun_congr ve w 1 {} _ lines]
  simp only [List.map_map]
  apply List.map_congr_left
  intro l _
  exact vkey_append_right l _ (hs l)

theorem crlf_neutral_views (ve : Str → Bool) (w : Char → Bool) (lines : List Str) :
    Impl.parseViewsFile ve w (lines.map fun l => l ++ ['\r']) = Impl.parseViewsFile ve w lines :=
  trailing_ws_neutral_views ve w lines (fun _ => ['\r']) (fun _ => by decide)

/-- views file, indentation: every line that is NOT a section header may be indented (an indented header is
not a header for `parse_sections`: the regex is anchored at column 0 — hence "merchants only" above) -/
theorem indent_property_neutral_views (ve : Str → Bool) (w : Char → Bool) (lines : List Str) (indent : Str → Str)
    (hs : ∀ l, (indent l).all isSpace = true)
    (hh : ∀ l, matchSectionHeader l ≠ none → indent l = []) :
    Impl.parseViewsFile ve w (lines.map fun l => indent l ++ l) = Impl.parseViewsFile ve w lines := by
  unfold Impl.parseViewsFile
  rw [vrun_congr ve w 1 {} _ lines]
  simp only [List.map_map]
  apply List.map_congr_left
  intro l _
  by_cases hl : matchSectionHeader l = none
  · exact vkey_indent _ l (hs l) hl
  · simp [hh l hl]


/-! ## malformed files are rejected, with the line number

Shape of the statements: `pre` are the lines before the offending line `l`; they parse (`run … pre = .ok st`)
and leave the parser inside a rule (`st.cur = some d`; `inside_rule_of_header` below: that is the case as
soon as `pre` contains a header).  Then the whole file `pre ++ l :: post` — whatever follows — is rejected
with the line number of `l`, i.e. `pre.length + 1`. -/

private theorem parse_error_at (ve : Str → Bool) (pre post : List Str) (l : Str) (st : MState) (e : Nat × MErr)
    (hpre : run ve 1 {} pre = .ok st) (hstep : stepS ve st (pre.length + 1) (strip l) = .error e) :
    Impl.parseRulesFile ve (pre ++ l :: post) = .error e := by
  unfold Impl.parseRulesFile
  rw [run_append, hpre]
  simp only [run, step]
  have : 1 + pre.length = pre.length + 1 := by omega
  rw [this, hstep]

/-- a line is a property line with key `k` (lower-cased, stripped) and value `v` -/
def IsPropLine (l : Str) (key value : Str) : Prop :=
  isSkip (strip l) = false ∧ isHeader (strip l) = false ∧ (strip l).contains ':' = true ∧
  splitProp (strip l) = (key, value)

private theorem propLine_error (ve : Str → Bool) (pre post : List Str) (l key value : Str) (st : MState)
    (d : RuleData) (k : MErr)
    (hpre : run ve 1 {} pre = .ok st) (hcur : st.cur = some d) (hl : IsPropLine l key value)
    (herr : propLine (strip l) d = .error k) :
    Impl.parseRulesFile ve (pre ++ l :: post) = .error (pre.length + 1, k) := by
  obtain ⟨h1, h2, h3, _⟩ := hl
  apply parse_error_at ve pre post l st _ hpre
  simp only [stepS, h1, h2, h3, hcur, herr, Bool.false_eq_true, if_false, if_true]

/-- *an unknown property is rejected with an error naming the line* -/
theorem rejects_unknown_property (ve : Str → Bool) (pre post : List Str) (l key value : Str) (st : MState)
    (d : RuleData) (hpre : run ve 1 {} pre = .ok st) (hcur : st.cur = some d)
    (hl : IsPropLine l key value) (hk : propKey? key = none) :
    Impl.parseRulesFile ve (pre ++ l :: post) = .error (pre.length + 1, .unknownProperty) := by
  apply propLine_error ve pre post l key value st d _ hpre hcur hl
  simp [propLine, hl.2.2.2, hk]

/-- *a malformed let is rejected …*: `let: <value>` where `<value>` is not `identifier = expression` -/
theorem rejects_bad_let (ve : Str → Bool) (pre post : List Str) (l value : Str) (st : MState)
    (d : RuleData) (hpre : run ve 1 {} pre = .ok st) (hcur : st.cur = some d)
    (hl : IsPropLine l ['l', 'e', 't'] value) (hv : matchLetAssign value = none) :
    Impl.parseRulesFile ve (pre ++ l :: post) = .error (pre.length + 1, .badLet) := by
  apply propLine_error ve pre post l _ value st d _ hpre hcur hl
  simp [propLine, hl.2.2.2, propKey?, applyProp, hv]

/-- *a malformed field is rejected …* -/
theorem rejects_bad_field (ve : Str → Bool) (pre post : List Str) (l value : Str) (st : MState)
    (d : RuleData) (hpre : run ve 1 {} pre = .ok st) (hcur : st.cur = some d)
    (hl : IsPropLine l ['f', 'i', 'e', 'l', 'd'] value) (hv : matchLetAssign value = none) :
    Impl.parseRulesFile ve (pre ++ l :: post) = .error (pre.length + 1, .badField) := by
  apply propLine_error ve pre post l _ value st d _ hpre hcur hl
  simp [propLine, hl.2.2.2, propKey?, applyProp, hv]

/-- *a malformed priority is rejected …*: the value is not an integer literal -/
theorem rejects_bad_priority (ve : Str → Bool) (pre post : List Str) (l value : Str) (st : MState)
    (d : RuleData) (hpre : run ve 1 {} pre = .ok st) (hcur : st.cur = some d)
    (hl : IsPropLine l ['p', 'r', 'i', 'o', 'r', 'i', 't', 'y'] value) (hv : pyInt value = none) :
    Impl.parseRulesFile ve (pre ++ l :: post) = .error (pre.length + 1, .badPriority) := by
  apply propLine_error ve pre post l _ value st d _ hpre hcur hl
  simp [propLine, hl.2.2.2, propKey?, applyProp, hv]

/-- not in the property's list but the same mechanism: inside a rule a line without ':' is rejected, never skipped -/
theorem rejects_unexpected_content (ve : Str → Bool) (pre post : List Str) (l : Str) (st : MState)
    (d : RuleData) (hpre : run ve 1 {} pre = .ok st) (hcur : st.cur = some d)
    (h1 : isSkip (strip l) = false) (h2 : isHeader (strip l) = false) (h3 : (strip l).contains ':' = false) :
    Impl.parseRulesFile ve (pre ++ l :: post) = .error (pre.length + 1, .unexpectedContent) := by
  apply parse_error_at ve pre post l st _ hpre
  simp only [stepS, h1, h2, h3, hcur, Bool.false_eq_true, if_false]

/-- the rule under construction is closed (validated) when the next header or the end of the file is reached -/
def ClosesRule (post : List Str) : Prop :=
  (∀ l ∈ post, isSkip (strip l) = true) ∨
  ∃ skips h rest, post = skips ++ h :: rest ∧ (∀ l ∈ skips, isSkip (strip l) = true) ∧
    isSkip (strip h) = false ∧ isHeader (strip h) = true

private theorem run_skips (ve : Str → Bool) (n : Nat) (st : MState) (skips : List Str)
    (h : ∀ l ∈ skips, isSkip (strip l) = true) : run ve n st skips = .ok st := by
  induction skips generalizing n with
  | nil => rfl
  | cons l ls ih =>
    have hl := h l (List.mem_cons_self)
    simp only [run, step, stepS, hl, if_true]
    exact ih _ (fun x hx => h x (List.mem_cons_of_mem _ hx))

private theorem closes_error (ve : Str → Bool) (pre post : List Str) (st : MState) (d : RuleData) (k : MErr)
    (hpre : run ve 1 {} pre = .ok st) (hcur : st.cur = some d) (hk : addRule ve d = .error k)
    (hpost : ClosesRule post) :
    Impl.parseRulesFile ve (pre ++ post) = .error (st.startLine, k) := by
  have hclose : closeCur ve st = .error (st.startLine, k) := by simp [closeCur, hcur, hk]
  unfold Impl.parseRulesFile
  rw [run_append, hpre]
  rcases hpost with hall | ⟨skips, h, rest, rfl, hs, h1, h2⟩
  · simp only [run_skips ve _ st post hall, finish, hclose]
  · simp only [run_append, run_skips ve _ st skips hs, run, step, stepS, h1, h2, hclose, if_true,
      Bool.false_eq_true, if_false]

/-- *a section lacking its match is rejected*: when the rule being read (`d`, opened at line `st.startLine`)
has seen no `match:` line and the next thing in the file is a header or the end, the file is rejected with the
line number of that rule's header.  (`startLine_is_header` below: `st.startLine` IS the header's line.) -/
theorem rejects_missing_match (ve : Str → Bool) (pre post : List Str) (st : MState) (d : RuleData)
    (hpre : run ve 1 {} pre = .ok st) (hcur : st.cur = some d) (hm : d.matchExpr = none)
    (hpost : ClosesRule post) :
    Impl.parseRulesFile ve (pre ++ post) = .error (st.startLine, .missingMatch) :=
  closes_error ve pre post st d _ hpre hcur (by simp [addRule, hm]) hpost

/-- *an invalid expression is rejected* (merchants): a rule whose match expression the expression parser refuses
is rejected when it is closed, with the line number of the rule's header (that is the number `_add_rule`
receives).  Same for let / field expressions (`.invalidLetExpr`, `.invalidFieldExpr`, checked first). -/
theorem rejects_invalid_expr (ve : Str → Bool) (pre post : List Str) (st : MState) (d : RuleData) (m : Str)
    (hpre : run ve 1 {} pre = .ok st) (hcur : st.cur = some d) (hm : d.matchExpr = some m)
    (hbad : ve m = false ∨ allValid ve d.lets = false ∨ allValid ve d.fields = false)
    (hpost : ClosesRule post) :
    ∃ k, Impl.parseRulesFile ve (pre ++ post) = .error (st.startLine, k) := by
  cases hk : addRule ve d with
  | error k => exact ⟨k, closes_error ve pre post st d k hpre hcur hk hpost⟩
  | ok r =>
    exfalso
    obtain ⟨m', hm', _, h1, h2, h3, _⟩ := addRule_ok ve d r hk
    rw [hm] at hm'; cases hm'
    rcases hbad with h | h | h
    · rw [h1] at h; exact Bool.noConfusion h
    · rw [h2] at h; exact Bool.noConfusion h
    · rw [h3] at h; exact Bool.noConfusion h


/-- "inside a rule" is a syntactic condition: it holds as soon as the accepted prefix contains a header line -/
theorem inside_rule_of_header (ve : Str → Bool) (pre : List Str) (st : MState) (hpre : run ve 1 {} pre = .ok st)
    (hh : ∃ l ∈ pre, isHeaderLine l = true) : ∃ d, st.cur = some d := by
  have := run_cur_isSome ve 1 {} st pre hpre (Or.inr hh)
  cases h : st.cur with
  | none => simp [h] at this
  | some d => exact ⟨d, rfl⟩

/-! ### views file -/

private theorem vparse_error_at (ve : Str → Bool) (w : Char → Bool) (pre post : List Str) (l : Str) (st : VState)
    (e : Nat × VErr) (hpre : vrun ve w 1 {} pre = .ok st) (hstep : vstep ve w st (pre.length + 1) l = .error e) :
    Impl.parseViewsFile ve w (pre ++ l :: post) = .error e := by
  unfold Impl.parseViewsFile
  rw [vrun_append, hpre]
  simp only [vrun]
  have : 1 + pre.length = pre.length + 1 := by omega
  rw [this, hstep]

/-- *an unknown property is rejected* (views; also every orphan line): a line that is not blank, comment, header,
`filter:…`, `description:…` or `name = expr` is rejected with its line number — anywhere in the file -/
theorem rejects_unknown_property_views (ve : Str → Bool) (w : Char → Bool) (pre post : List Str) (l : Str)
    (st : VState) (hpre : vrun ve w 1 {} pre = .ok st)
    (h1 : isSkipRaw l = false) (h2 : matchSectionHeader l = none)
    (h3 : matchKeyDecl ['f', 'i', 'l', 't', 'e', 'r', ':'] (strip l) = none)
    (h4 : matchKeyDecl ['d', 'e', 's', 'c', 'r', 'i', 'p', 't', 'i', 'o', 'n', ':'] (strip l) = none)
    (h5 : matchVarDecl w (strip l) = none) :
    Impl.parseViewsFile ve w (pre ++ l :: post) = .error (pre.length + 1, .unexpectedContent) := by
  apply vparse_error_at ve w pre post l st _ hpre
  simp only [vstep, h1, h2, vbodyS, h3, h4, h5, Bool.false_eq_true, if_false]

/-- *an invalid expression is rejected with an error naming the line* (views): a `filter:` whose expression the
parser refuses is rejected at the line of the filter itself -/
theorem rejects_invalid_expr_views (ve : Str → Bool) (w : Char → Bool) (pre post : List Str) (l g : Str)
    (st : VState) (sec : Section) (hpre : vrun ve w 1 {} pre = .ok st) (hcur : st.cur = some sec)
    (h1 : isSkipRaw l = false) (h2 : matchSectionHeader l = none)
    (h3 : matchKeyDecl ['f', 'i', 'l', 't', 'e', 'r', ':'] (strip l) = some g) (hbad : ve (strip g) = false) :
    Impl.parseViewsFile ve w (pre ++ l :: post) = .error (pre.length + 1, .invalidFilterExpr) := by
  apply vparse_error_at ve w pre post l st _ hpre
  simp only [vstep, h1, h2, vbodyS, h3, hcur, hbad, Bool.false_eq_true, if_false]

/-- … and a variable line `name = expr` with a refused expression, inside or outside a section -/
theorem rejects_invalid_var_expr_views (ve : Str → Bool) (w : Char → Bool) (pre post : List Str) (l nm e : Str)
    (st : VState) (hpre : vrun ve w 1 {} pre = .ok st)
    (h1 : isSkipRaw l = false) (h2 : matchSectionHeader l = none)
    (h3 : matchKeyDecl ['f', 'i', 'l', 't', 'e', 'r', ':'] (strip l) = none)
    (h4 : matchKeyDecl ['d', 'e', 's', 'c', 'r', 'i', 'p', 't', 'i', 'o', 'n', ':'] (strip l) = none)
    (h5 : matchVarDecl w (strip l) = some (nm, e)) (hbad : ve (strip e) = false) :
    Impl.parseViewsFile ve w (pre ++ l :: post) = .error (pre.length + 1, .invalidVarExpr) := by
  apply vparse_error_at ve w pre post l st _ hpre
  simp only [vstep, h1, h2, vbodyS, h3, h4, h5, hbad, Bool.false_eq_true, if_false]

/-- the section under construction is closed when the next header or the end of the file is reached -/
def ClosesSection (post : List Str) : Prop :=
  (∀ l ∈ post, isSkipRaw l = true) ∨
  ∃ skips h rest name, post = skips ++ h :: rest ∧ (∀ l ∈ skips, isSkipRaw l = true) ∧
    isSkipRaw h = false ∧ matchSectionHeader h = some name

private theorem vrun_skips (ve : Str → Bool) (w : Char → Bool) (n : Nat) (st : VState) (skips : List Str)
    (h : ∀ l ∈ skips, isSkipRaw l = true) : vrun ve w n st skips = .ok st := by
  induction skips generalizing n with
  | nil => rfl
  | cons l ls ih =>
    have hl := h l (List.mem_cons_self)
    simp only [vrun, vstep, hl, if_true]
    exact ih _ (fun x hx => h x (List.mem_cons_of_mem _ hx))

/-- *a section lacking its filter is rejected*: the section being read (opened at line `st.startLine`) has no
filter yet and the next thing is a header or the end of the file ⇒ error at that section's header line -/
theorem rejects_missing_filter (ve : Str → Bool) (w : Char → Bool) (pre post : List Str) (st : VState) (sec : Section)
    (hpre : vrun ve w 1 {} pre = .ok st) (hcur : st.cur = some sec) (hf : sec.filterExpr = [])
    (hpost : ClosesSection post) :
    Impl.parseViewsFile ve w (pre ++ post) = .error (st.startLine, .missingFilter) := by
  have hclose : closeSection st = .error (st.startLine, .missingFilter) := by simp [closeSection, hcur, hf]
  unfold Impl.parseViewsFile
  rw [vrun_append, hpre]
  rcases hpost with hall | ⟨skips, h, rest, name, rfl, hs, h1, h2⟩
  · simp only [vrun_skips ve w _ st post hall, vfinish, hclose]
  · simp only [vrun_append, vrun_skips ve w _ st skips hs, vrun, vstep, h1, h2, hclose,
      Bool.false_eq_true, if_false]

/-! ## every section yields exactly one rule, in file order -/

/-- *every section yields exactly one rule … in file order* (merchants): when the file is accepted, the names of
the rules are exactly the names between the brackets of the header lines, one rule per header, in file order
(in particular as many rules as headers).  That each rule carries exactly the stated properties is covered by the
correspondence + oracle (every rendering parses to the abstract file's content), not by a theorem: `_partial`. -/
theorem sections_to_rules_partial (ve : Str → Bool) (lines : List Str) (r : RulesFileResult)
    (h : Impl.parseRulesFile ve lines = .ok r) : r.rules.map (·.name) = headerNames lines := by
  unfold Impl.parseRulesFile at h
  cases hr : run ve 1 {} lines with
  | error e => simp [hr] at h
  | ok st =>
    simp only [hr, finish] at h
    cases hc : closeCur ve st with
    | error e => simp [hc] at h
    | ok st' =>
      simp only [hc, Except.ok.injEq] at h
      obtain ⟨hn, hcur⟩ := closeCur_names ve st st' hc
      have := run_names ve 1 {} st lines hr
      rw [← hn] at this
      subst h
      simpa [namesOf, hcur] using this

/-- the same for a views file -/
theorem sections_to_views_partial (ve : Str → Bool) (w : Char → Bool) (lines : List Str) (r : ViewsResult)
    (h : Impl.parseViewsFile ve w lines = .ok r) : r.sections.map (·.name) = vheaderNames lines := by
  unfold Impl.parseViewsFile at h
  cases hr : vrun ve w 1 {} lines with
  | error e => simp [hr] at h
  | ok st =>
    simp only [hr, vfinish] at h
    cases hc : closeSection st with
    | error e => simp [hc] at h
    | ok st' =>
      simp only [hc, Except.ok.injEq] at h
      obtain ⟨hn, hcur⟩ := closeSection_names st st' hc
      have := vrun_names ve w 1 {} st lines hr
      rw [← hn] at this
      subst h
      simpa [vnamesOf, hcur] using this


/-! ## the relative order of a section's distinct properties -/

/-- *the relative order of a section's distinct properties never changes the result* (merchants): inside a rule
(some header precedes), two ADJACENT property lines whose keys are different known properties — `match`,
`category`, `subcategory`, `merchant`, `tags`, `priority`, and also `let` against `field` or against any of the
others — may be swapped: the file is accepted either both ways or neither way, with the same rules.
(`let` lines among themselves and `field` lines among themselves are sequences: `k1 ≠ k2` keeps their order.
When BOTH lines are malformed the error reported differs — the first one wins — hence `okPart`.)
Any permutation of distinct properties is a product of such swaps. -/
theorem permute_distinct_properties_neutral (ve : Str → Bool) (pre post : List Str) (l1 l2 : Str) (k1 k2 : PropKey)
    (hh : ∃ l ∈ pre, isHeaderLine l = true)
    (h1 : propKeyOf l1 = some k1) (h2 : propKeyOf l2 = some k2) (hne : k1 ≠ k2) :
    okPart (Impl.parseRulesFile ve (pre ++ l1 :: l2 :: post)) =
    okPart (Impl.parseRulesFile ve (pre ++ l2 :: l1 :: post)) := by
  unfold Impl.parseRulesFile
  rw [run_append, run_append]
  cases hpre : run ve 1 {} pre with
  | error e => rfl
  | ok st =>
    obtain ⟨d, hcur⟩ := inside_rule_of_header ve pre st hpre hh
    have := run_swap_props ve (1 + pre.length) st d l1 l2 post k1 k2 hcur h1 h2 hne
    revert this
    simp only [bindE]
    cases run ve (1 + pre.length) st (l1 :: l2 :: post) <;> cases run ve (1 + pre.length) st (l2 :: l1 :: post) <;>
      exact id


/-! ## key letter case (merchants only) -/

/-- *for merchants files also key letter case … never changes the result*: inside a rule (some header precedes), a
property line `key: value` (after stripping; `key` is what precedes the first ':') may have its key rewritten to
any `key'` with the same lower-cased text — `Match:`, `CATEGORY :`, `tAgs:` … — and the outcome of the whole file,
line numbers included, is the same.  `hs`, `hs'`: neither line is a comment or a header (automatic when the key
starts with a letter).  (A `key: value` line BEFORE the first header is ignored whatever its case — reading note,
not part of this theorem.) -/
theorem key_case_neutral (ve : Str → Bool) (pre post : List Str) (l l' key key' rest : Str)
    (hh : ∃ h ∈ pre, isHeaderLine h = true)
    (hl : strip l = key ++ ':' :: rest) (hl' : strip l' = key' ++ ':' :: rest)
    (hc : ':' ∉ key) (hc' : ':' ∉ key')
    (hs : isSkip (strip l) = false ∧ isHeader (strip l) = false)
    (hs' : isSkip (strip l') = false ∧ isHeader (strip l') = false)
    (hlow : lower (strip key) = lower (strip key')) :
    Impl.parseRulesFile ve (pre ++ l :: post) = Impl.parseRulesFile ve (pre ++ l' :: post) := by
  unfold Impl.parseRulesFile
  rw [run_append, run_append]
  cases hpre : run ve 1 {} pre with
  | error e => rfl
  | ok st =>
    obtain ⟨d, hcur⟩ := inside_rule_of_header ve pre st hpre hh
    simp only [run, step, stepS_key_case ve st d _ (strip l) (strip l') key key' rest hcur hl hl' hc hc' hs hs' hlow]

/-! ## `tags:` — exactly the stated tags, whatever is nested inside their parentheses -/

/-- scan of ONE tag starting at parenthesis depth `d`: `none` if a comma is met at depth 0, else the depth at its end -/
def tagScan : Str → Int → Option Int
  | [], d => some d
  | c :: cs, d =>
    if c == '(' then tagScan cs (d + 1)
    else if c == ')' then tagScan cs (d - 1)
    else if c == ',' && d == 0 then none
    else tagScan cs d

/-- a CLOSED tag: its parentheses balance and none of its commas is outside them.  Nothing is asked of what is inside the
parentheses: further calls to any depth, commas at any depth, string literals holding commas / parentheses / braces. -/
def closedTag (t : Str) : Bool := tagScan t 0 == some 0

/-- `", ".join(tags)` without the blank (a blank, if wanted, is part of the next tag and stripped from it) -/
def joinTags : List Str → Str
  | [] => []
  | [t] => t
  | t :: u :: r => t ++ ',' :: joinTags (u :: r)

/-- what `tags.add(tag.strip())` (skipped when empty) does with the stated tag `t` -/
def addTag (acc : List Str) (t : Str) : List Str := if (strip t).isEmpty then acc else setAdd (strip t) acc

private theorem tagsLoop_scan (t rest : Str) (d d' : Int) (cur : Str) (tags : List Str) (h : tagScan t d = some d') :
    tagsLoop (t ++ rest) d cur tags = tagsLoop rest d' (t.reverse ++ cur) tags := by
  induction t generalizing d cur with
  | nil => simp only [tagScan] at h; cases h; simp
  | cons c cs ih =>
    simp only [tagScan] at h
    simp only [List.cons_append, tagsLoop, List.reverse_cons, List.append_assoc]
    by_cases h1 : (c == '(') = true
    · simp only [h1, if_true] at h ⊢; exact ih _ _ h
    · simp only [h1] at h ⊢
      by_cases h2 : (c == ')') = true
      · simp only [h2, if_true] at h ⊢; exact ih _ _ h
      · simp only [h2] at h ⊢
        by_cases h3 : (c == ',' && d == 0) = true
        · simp [h3] at h
        · simp only [h3] at h ⊢; exact ih _ _ h

private theorem pushTag_reverse (t : Str) (tags : List Str) : pushTag t.reverse tags = addTag tags t := by
  simp [pushTag, addTag]

private theorem tagsLoop_join (ts : List Str) (hne : ts ≠ []) (hall : ∀ t ∈ ts, closedTag t = true) (tags : List Str) :
    tagsLoop (joinTags ts) 0 [] tags = ts.foldl addTag tags := by
  induction ts generalizing tags with
  | nil => exact absurd rfl hne
  | cons t r ih =>
    have ht : tagScan t 0 = some 0 := by
      have := hall t (by simp); simpa [closedTag] using this
    cases r with
    | nil =>
      have := tagsLoop_scan t [] 0 0 [] tags ht
      simp only [List.append_nil] at this
      simp only [joinTags, this, tagsLoop, pushTag_reverse, List.foldl]
    | cons u r' =>
      have := tagsLoop_scan t (',' :: joinTags (u :: r')) 0 0 [] tags ht
      simp only [List.append_nil] at this
      simp only [joinTags, this, List.foldl]
      have hc : tagsLoop (',' :: joinTags (u :: r')) 0 t.reverse tags = tagsLoop (joinTags (u :: r')) 0 [] (pushTag t.reverse tags) := by
        simp [tagsLoop]
      rw [hc, pushTag_reverse]
      exact ih (by simp) (fun x hx => hall x (by simp [hx])) _

/-- *every section yields … exactly the stated properties*, clause for `tags:` — for ANY list of closed tags (parentheses balance,
no comma outside them; arbitrary nesting, commas and string literals inside), the value `t₁,t₂,…,tₙ` is read as exactly those tags:
each trimmed, empty ones skipped, duplicates once, in order of first appearance.  No tag is ever cut at a comma inside its
parentheses, however deep the comma sits and whatever follows it. -/
theorem tags_exactly_the_stated (ts : List Str) (hall : ∀ t ∈ ts, closedTag t = true) :
    splitTags (joinTags ts) = ts.foldl addTag [] := by
  cases ts with
  | nil => simp [splitTags, joinTags, tagsLoop, pushTag, strip, rstrip, lstrip]
  | cons t r => exact tagsLoop_join (t :: r) (by simp) hall []

private theorem mem_foldl_addTag (ts : List Str) (acc : List Str) (x : Str) :
    x ∈ ts.foldl addTag acc ↔ x ∈ acc ∨ ∃ t ∈ ts, x = strip t ∧ x ≠ [] := by
  induction ts generalizing acc with
  | nil => simp
  | cons t r ih =>
    simp only [List.foldl, ih, List.mem_cons, exists_eq_or_imp]
    unfold addTag setAdd
    by_cases he : (strip t).isEmpty = true
    · have : strip t = [] := by simpa using he
      simp only [he, if_true]
      constructor
      · rintro (h | h)
        · exact .inl h
        · exact .inr (.inr h)
      · rintro (h | ⟨h, hx⟩ | h)
        · exact .inl h
        · exact absurd (h.trans this) hx
        · exact .inr h
    · have hne : strip t ≠ [] := by simpa using he
      simp only [he]
      by_cases hc : acc.contains (strip t) = true
      · have hm : strip t ∈ acc := by simpa using hc
        simp only [hc, if_true]
        constructor
        · rintro (h | h)
          · exact .inl h
          · exact .inr (.inr h)
        · rintro (h | ⟨h, _⟩ | h)
          · exact .inl h
          · exact .inl (h ▸ hm)
          · exact .inr h
      · simp only [hc]
        constructor
        · rintro (h | h)
          · rcases List.mem_append.mp h with h | h
            · exact .inl h
            · have : x = strip t := by simpa using h
              exact .inr (.inl ⟨this, this ▸ hne⟩)
          · exact .inr (.inr h)
        · rintro (h | ⟨h, _⟩ | h)
          · exact .inl (List.mem_append.mpr (.inl h))
          · exact .inl (List.mem_append.mpr (.inr (by simp [h])))
          · exact .inr h

/-- the same as a statement about the SET of tags: `x` is a tag of the rule iff it is the trimmed, non-empty text of a stated tag -/
theorem tag_mem_iff_stated (ts : List Str) (hall : ∀ t ∈ ts, closedTag t = true) (x : Str) :
    x ∈ splitTags (joinTags ts) ↔ ∃ t ∈ ts, x = strip t ∧ x ≠ [] := by
  rw [tags_exactly_the_stated ts hall, mem_foldl_addTag]; simp

/-! ## non-vacuity: the hypotheses are satisfiable, the conclusions are about real files (kernel-checked) -/

instance exceptDecEq {ε α : Type} [DecidableEq ε] [DecidableEq α] : DecidableEq (Except ε α) := fun a b =>
  match a, b with
  | .ok x, .ok y => if h : x = y then isTrue (by rw [h]) else isFalse (by intro e; cases e; exact h rfl)
  | .error x, .error y => if h : x = y then isTrue (by rw [h]) else isFalse (by intro e; cases e; exact h rfl)
  | .ok _, .error _ => isFalse (by intro e; cases e)
  | .error _, .ok _ => isFalse (by intro e; cases e)
instance (l k v : Str) : Decidable (IsPropLine l k v) := by unfold IsPropLine; infer_instance
def s (x : String) : Str := x.toList
def veAll : Str → Bool := fun _ => true
/-- refuses exactly the text `contains("NETFLIX"` (the D17 witness) -/
def veBad : Str → Bool := fun e => e != "contains(\"NETFLIX\"".toList
def noWord : Char → Bool := fun _ => false

def fileA : List Str := [s "is_large = amount > 500", s "[Netflix]", s "match: contains(\"NETFLIX\")",
  s "category: Subscriptions", s "tags: a, f(b, c) ,a", s "priority: -5", s "let: X = amount * 2", s "", s "[Big]",
  s "match: is_large", s "tags: large"]

/-- a non-trivial accepted file: two rules, names = headers, tags split outside parentheses and de-duplicated,
let name lower-cased, merchant defaults to the name, default priority 50 -/
example : Impl.parseRulesFile veAll fileA = .ok
    { rules := [{ name := s "Netflix", merchant := s "Netflix", category := s "Subscriptions", subcategory := [],
                  tags := [s "a", s "f(b, c)"], priority := -5, matchExpr := s "contains(\"NETFLIX\")",
                  lets := [(s "x", s "amount * 2")], fields := [] },
                { name := s "Big", merchant := s "Big", category := [], subcategory := [], tags := [s "large"],
                  priority := 50, matchExpr := s "is_large", lets := [], fields := [] }],
      variables := [(s "is_large", s "amount > 500")], transforms := [] } := by decide +kernel

example : headerNames fileA = [s "Netflix", s "Big"] := by decide +kernel
/-- layout noise on the same file: CRLF, indentation (header too), key case, comments, property order -/
example : Impl.parseRulesFile veAll [s "# c\r", s "is_large = amount > 500\r", s "  [Netflix]  \r", s "\tCATEGORY : Subscriptions\r",
    s "Match: contains(\"NETFLIX\")\r", s "   # x: y\r", s "tags: a, f(b, c) ,a\r", s "let: X = amount * 2\r", s "priority: -5\r",
    s "[Big]\r", s "tags: large\r", s "match: is_large\r", s ""] = Impl.parseRulesFile veAll fileA := by decide +kernel
/-- rejections, each with its line number -/
example : Impl.parseRulesFile veBad [s "[Netflix]", s "match: contains(\"NETFLIX\"", s "category: Subscriptions"]
    = .error (1, .invalidMatchExpr) := by decide +kernel
example : Impl.parseRulesFile veAll [s "# c", s "[A]", s "category: c", s "", s "[B]", s "match: x", s "category: c"]
    = .error (2, .missingMatch) := by decide +kernel
example : Impl.parseRulesFile veAll [s "[A]", s "match: x", s "categry: c"] = .error (3, .unknownProperty) := by decide +kernel
example : Impl.parseRulesFile veAll [s "[A]", s "let: 3x = 1"] = .error (2, .badLet) := by decide +kernel
example : Impl.parseRulesFile veAll [s "[A]", s "", s "field: x"] = .error (3, .badField) := by decide +kernel
example : Impl.parseRulesFile veAll [s "[A]", s "match: x", s "priority: high"] = .error (3, .badPriority) := by decide +kernel
/-- hypotheses of the rejection theorems on a concrete prefix: inside a rule after `[A]` -/
example : (match run veAll 1 {} [s "x = 1", s "[A]", s "match: y"] with
            | .ok st => some (st.cur.isSome, st.startLine) | .error _ => none) = some (true, 2) ∧
    IsPropLine (s "  Priority : high ") (s "priority") (s "high") ∧ pyInt (s "high") = none ∧
    propKeyOf (s "tags: a") = some .tags ∧ propKeyOf (s " MATCH: z") = some .match ∧
    isHeaderLine (s "  [A] ") = true ∧ ClosesRule [s "", s "[B]"] := by
  refine ⟨by decide +kernel, by decide +kernel, by decide +kernel, by decide +kernel, by decide +kernel,
    by decide +kernel, Or.inr ⟨[s ""], s "[B]", [], rfl, by decide +kernel, by decide +kernel, by decide +kernel⟩⟩
/-- reading note (observation, not a rejection): a `key: value` line before the first header is ignored -/
example : Impl.parseRulesFile veAll [s "category: Food", s "[A]", s "match: x", s "category: c"] =
    Impl.parseRulesFile veAll [s "[A]", s "match: x", s "category: c"] := by decide +kernel

def viewsA : List Str := [s "is_frequent = months >= 6", s "[Every Month]", s "description: d", s "filter: is_frequent and cv < 0.3",
  s "avg = total / 12", s "", s "[ Rare ]  ", s "filter: months < 3"]
example : Impl.parseViewsFile veAll noWord viewsA = .ok
    { globals := [(s "is_frequent", s "months >= 6")],
      sections := [{ name := s "Every Month", filterExpr := s "is_frequent and cv < 0.3", description := some (s "d"),
                     variables := [(s "avg", s "total / 12")] },
                   { name := s "Rare", filterExpr := s "months < 3", description := none, variables := [] }] } := by decide +kernel
example : vheaderNames viewsA = [s "Every Month", s "Rare"] := by decide +kernel
example : Impl.parseViewsFile veAll noWord [s "[A]", s "x = 1", s "", s "[B]", s "filter: y"] = .error (1, .missingFilter) := by decide +kernel
example : Impl.parseViewsFile veAll noWord [s "[A]", s "filter: y", s "Filter: z"] = .error (3, .unexpectedContent) := by decide +kernel
example : Impl.parseViewsFile veAll noWord [s "[A]", s "  [B]", s "filter: y"] = .error (2, .unexpectedContent) := by decide +kernel
example : Impl.parseViewsFile veBad noWord [s "[A]", s "filter: contains(\"NETFLIX\""] = .error (2, .invalidFilterExpr) := by decide +kernel

-- tags: a nested call AFTER an argument comma, a regex group inside a string literal, a comma inside a string literal inside a call
def tagsEx : List Str := [s "{split(field.holder, lowercase(\" \"), 0)}", s " card", s " {extract(field.memo, \"REF (\\d+), (x)\")} ", s "card"]
example : (tagsEx.all closedTag) = true := by decide +kernel
example : splitTags (joinTags tagsEx) =
    [s "{split(field.holder, lowercase(\" \"), 0)}", s "card", s "{extract(field.memo, \"REF (\\d+), (x)\")}"] := by decide +kernel
-- not closed: a comma outside parentheses (inside quotes only) does separate
example : closedTag (s "{\"a,b\"}") = false ∧ splitTags (s "{\"a,b\"}") = [s "{\"a", s "b\"}"] := by decide +kernel


/-! ## an expression is ONE line, whatever delimiters its text holds

Where a `match:` / `let:` / `field:` value ends is decided by the line, never by counting what is inside it: a string
literal may hold an opening parenthesis without its partner (`PAYPAL (`, an escaped regex parenthesis, a smiley), a
closing one alone, brackets, braces, the other kind of quote.  The swap / layout theorems above are stated for EVERY line
text, so they cover such lines; the examples pin the reading on concrete files (the demonstration file of the
"wrapped expressions" regression class), in both property orders. -/

def fileUnbalanced : List Str := [s "[Paypal]", s "match: contains(\"PAYPAL (\")", s "category: Shopping", s "tags: online, paypal",
  s "", s "[Refund]", s "let: r = regex(\"\\\\(REFUND\")", s "match: r and amount < 0", s "category: Income", s "priority: 60",
  s "field: note = \"}])\"", s "", s "[Smiley]", s "match: contains(\":(\") or contains(\"it's\")", s "tags: mood"]

/-- three rules with exactly the stated properties: nothing after an expression line is swallowed by it -/
example : Impl.parseRulesFile veAll fileUnbalanced = .ok
    { rules := [{ name := s "Paypal", merchant := s "Paypal", category := s "Shopping", subcategory := [],
                  tags := [s "online", s "paypal"], priority := 50, matchExpr := s "contains(\"PAYPAL (\")", lets := [], fields := [] },
                { name := s "Refund", merchant := s "Refund", category := s "Income", subcategory := [], tags := [],
                  priority := 60, matchExpr := s "r and amount < 0", lets := [(s "r", s "regex(\"\\\\(REFUND\")")],
                  fields := [(s "note", s "\"}])\"")] },
                { name := s "Smiley", merchant := s "Smiley", category := [], subcategory := [], tags := [s "mood"],
                  priority := 50, matchExpr := s "contains(\":(\") or contains(\"it's\")", lets := [], fields := [] }],
      variables := [], transforms := [] } := by decide +kernel

/-- the same file with every expression line moved to the END of its section (the only order a naive continuation
scanner reads correctly) parses to the same rules -/
example : Impl.parseRulesFile veAll [s "[Paypal]", s "category: Shopping", s "tags: online, paypal", s "match: contains(\"PAYPAL (\")",
    s "[Refund]", s "category: Income", s "priority: 60", s "let: r = regex(\"\\\\(REFUND\")", s "match: r and amount < 0",
    s "field: note = \"}])\"", s "[Smiley]", s "tags: mood", s "match: contains(\":(\") or contains(\"it's\")"]
    = Impl.parseRulesFile veAll fileUnbalanced := by decide +kernel

end TallyVerif.Props.C17
