/-
C13 — the report's in-browser classification equals the command-line classification.

Both sides are REGENERATED from /repo on every run:
  `Gen.ClassPy`  from src/tally/classification.py
  `Gen.ClassJs`  from the TRANSACTION CLASSIFICATION block of src/tally/spending_report.js
The theorems quantify over every number system `N : NumLike` (so IEEE doubles with NaN and
-0.0, exact cents, …), every lower-casing function `lower` shared by the two sides, every
amount and every tag list (missing, empty, any strings).
-/
import TallyVerif.Gen.ClassPy
import TallyVerif.Gen.ClassJs
import TallyVerif.Lemmas.ClassSets

namespace TallyVerif.Props.C13
open TallyVerif TallyVerif.Gen

theorem tags_lower_eq (N : NumLike) (lower : String → String) (tags : Option (List String)) :
    ClassJs.getTagsLower N lower tags = ClassPy.get_tags_lower N lower tags := by
  simp [ClassJs.getTagsLower, ClassPy.get_tags_lower]

/-- bucket and bucket value agree (keys canonicalised `transferIn ↦ transfer_in`, …). -/
theorem categorize_eq (N : NumLike) (lower : String → String) (amount : N.α)
    (tags : Option (List String)) :
    ClassJs.categorizeAmount N lower amount tags = ClassPy.categorize_amount N lower amount tags := by
  simp only [ClassJs.categorizeAmount, ClassPy.categorize_amount, tags_lower_eq,
    ClassJs.INCOME_TAG, ClassPy.INCOME_TAG, ClassJs.INVESTMENT_TAG, ClassPy.INVESTMENT_TAG,
    ClassJs.TRANSFER_TAG, ClassPy.TRANSFER_TAG]

theorem is_income_eq (N : NumLike) (lower : String → String) (tags : Option (List String)) :
    ClassJs.isIncome N lower tags = ClassPy.is_income N lower tags := by
  simp only [ClassJs.isIncome, ClassPy.is_income, tags_lower_eq, ClassJs.INCOME_TAG, ClassPy.INCOME_TAG]

theorem is_transfer_eq (N : NumLike) (lower : String → String) (tags : Option (List String)) :
    ClassJs.isTransfer N lower tags = ClassPy.is_transfer N lower tags := by
  simp only [ClassJs.isTransfer, ClassPy.is_transfer, tags_lower_eq, ClassJs.TRANSFER_TAG, ClassPy.TRANSFER_TAG]

theorem is_investment_eq (N : NumLike) (lower : String → String) (tags : Option (List String)) :
    ClassJs.isInvestment N lower tags = ClassPy.is_investment N lower tags := by
  simp only [ClassJs.isInvestment, ClassPy.is_investment, tags_lower_eq, ClassJs.INVESTMENT_TAG,
    ClassPy.INVESTMENT_TAG]

/-- the excluded-from-spending decision agrees (JS: loop with early return; Python: set
intersection). -/
theorem excluded_eq (N : NumLike) (lower : String → String) (tags : Option (List String)) :
    ClassJs.isExcludedFromSpending N lower tags = ClassPy.is_excluded_from_spending N lower tags := by
  simp only [ClassJs.isExcludedFromSpending, ClassPy.is_excluded_from_spending, tags_lower_eq,
    ClassJs.EXCLUDED_FROM_SPENDING, ClassPy.EXCLUDED_FROM_SPENDING,
    ClassJs.INCOME_TAG, ClassPy.INCOME_TAG, ClassJs.INVESTMENT_TAG, ClassPy.INVESTMENT_TAG,
    ClassJs.TRANSFER_TAG, ClassPy.TRANSFER_TAG]
  rw [forFirst_contains_eq_any, setNonempty_setInter, any_contains_swap]

/-- the cash-flow formula agrees. -/
theorem cashflow_eq (N : NumLike) (lower : String → String) (income spending credits : N.α) :
    ClassJs.calculateCashFlow N lower income spending credits =
      ClassPy.calculate_cash_flow N lower income spending credits := by
  simp only [ClassJs.calculateCashFlow, ClassPy.calculate_cash_flow]

end TallyVerif.Props.C13
