/-
C13 — the report's in-browser classification equals the command-line classification.

Both sides are REGENERATED from /repo on every run:
  `Gen.ClassPy`  from src/tally/classification.py
  `Gen.ClassJs`  from the TRANSACTION CLASSIFICATION block of src/tally/spending_report.js
The theorems quantify over every number system `N : NumLike` (so IEEE doubles with NaN and
-0.0, exact cents, …), every lower-casing function `lower` shared by the two sides, every
amount and every tag list (missing, empty, any strings).

The two languages do NOT in fact share one lower-casing function: Python's `str.lower` and
JavaScript's `toLowerCase` follow the Unicode tables of their own runtimes (e.g. CPython 3.12 =
Unicode 15.0, node 20 = Unicode 17.0: they differ on the letters added in between), and a change
of either side to another normalisation (`casefold`, `toLocaleLowerCase`, NFKC, trimming, accent
folding …) makes them differ on `ſ`, `ı`, `İ`, `ﬆ`, full-width letters, ….  The second group of
theorems (`*_eq_of_specialAgree`) therefore takes the two lower-casing functions SEPARATELY and
states the exact hypothesis under which the two programs still agree: `specialAgree`, i.e. for
each of the three special words, some tag of the list lower-cases to it on the JavaScript side
exactly when one does on the Python side.  The check evaluates this (decidable) hypothesis with
the real `str.lower` / `toLowerCase` on every generated tag list and runs both generated models
with the recorded per-tag images of the two functions.
-/
import TallyVerif.Gen.ClassPy
import TallyVerif.Gen.ClassJs
import TallyVerif.Lemmas.ClassSets
import TallyVerif.Model.Num

namespace TallyVerif.Props.C13
open TallyVerif TallyVerif.Gen

theorem tags_lower_eq (N : NumLike) (lower : String → String) (tags : Option (List String)) :
    ClassJs.getTagsLower N lower tags = ClassPy.get_tags_lower N lower tags := by
  simp [ClassJs.getTagsLower, ClassPy.get_tags_lower]

/-- bucket and bucket value agree (keys canonicalised `transferIn ↦ transfer_in`, …). -/
theorem categorize_eq (N : NumLike) (lower : String → String) (amount : N.α)
    (tags : Option (List String)) :
    ClassJs.categorizeAmount N lower amount tags = ClassPy.categorize_amount N lower amount tags := by
  simp only [ClassJs.categorizeAmount, ClassPy.categorize_amount, tags_lower_eq,
    ClassJs.INCOME_TAG, ClassPy.INCOME_TAG, ClassJs.INVESTMENT_TAG, ClassPy.INVESTMENT_TAG,
    ClassJs.TRANSFER_TAG, ClassPy.TRANSFER_TAG]

theorem is_income_eq (N : NumLike) (lower : String → String) (tags : Option (List String)) :
    ClassJs.isIncome N lower tags = ClassPy.is_income N lower tags := by
  simp only [ClassJs.isIncome, ClassPy.is_income, tags_lower_eq, ClassJs.INCOME_TAG, ClassPy.INCOME_TAG]

theorem is_transfer_eq (N : NumLike) (lower : String → String) (tags : Option (List String)) :
    ClassJs.isTransfer N lower tags = ClassPy.is_transfer N lower tags := by
  simp only [ClassJs.isTransfer, ClassPy.is_transfer, tags_lower_eq, ClassJs.TRANSFER_TAG, ClassPy.TRANSFER_TAG]

theorem is_investment_eq (N : NumLike) (lower : String → String) (tags : Option (List String)) :
    ClassJs.isInvestment N lower tags = ClassPy.is_investment N lower tags := by
  simp only [ClassJs.isInvestment, ClassPy.is_investment, tags_lower_eq, ClassJs.INVESTMENT_TAG,
    ClassPy.INVESTMENT_TAG]

/-- the excluded-from-spending decision agrees (JS: loop with early return; Python: set
intersection). -/
theorem excluded_eq (N : NumLike) (lower : String → String) (tags : Option (List String)) :
    ClassJs.isExcludedFromSpending N lower tags = ClassPy.is_excluded_from_spending N lower tags := by
  simp only [ClassJs.isExcludedFromSpending, ClassPy.is_excluded_from_spending, tags_lower_eq,
    ClassJs.EXCLUDED_FROM_SPENDING, ClassPy.EXCLUDED_FROM_SPENDING,
    ClassJs.INCOME_TAG, ClassPy.INCOME_TAG, ClassJs.INVESTMENT_TAG, ClassPy.INVESTMENT_TAG,
    ClassJs.TRANSFER_TAG, ClassPy.TRANSFER_TAG]
  rw [forFirst_contains_eq_any, setNonempty_setInter, any_contains_swap]

/-- the cash-flow formula agrees. -/
theorem cashflow_eq (N : NumLike) (lower : String → String) (income spending credits : N.α) :
    ClassJs.calculateCashFlow N lower income spending credits =
      ClassPy.calculate_cash_flow N lower income spending credits := by
  simp only [ClassJs.calculateCashFlow, ClassPy.calculate_cash_flow]

/-! ### two lower-casing functions -/

private theorem specialAgree_iff {lowerJs lowerPy : String → String} {tags : Option (List String)}
    (h : specialAgree lowerJs lowerPy tags = true) :
    (((orEmpty tags).map lowerJs).contains "income" = ((orEmpty tags).map lowerPy).contains "income") ∧
    (((orEmpty tags).map lowerJs).contains "transfer" = ((orEmpty tags).map lowerPy).contains "transfer") ∧
    (((orEmpty tags).map lowerJs).contains "investment" = ((orEmpty tags).map lowerPy).contains "investment") := by
  simpa [specialAgree] using h

/-- pointwise agreement on the tags of the list is enough for `specialAgree`. -/
theorem specialAgree_of_pointwise (lowerJs lowerPy : String → String) (tags : Option (List String))
    (h : ∀ t ∈ orEmpty tags, lowerJs t = lowerPy t) : specialAgree lowerJs lowerPy tags = true := by
  have : (orEmpty tags).map lowerJs = (orEmpty tags).map lowerPy := List.map_congr_left h
  simp [specialAgree, this]

/-- the hypothesis cannot be dropped: with a Python side that folds the long s (what
`str.casefold` does) and a JavaScript side that does not, `['tranſfer']` is a transfer for one
program and ordinary spending for the other. -/
example :
    let lowerJs : String → String := id
    let lowerPy : String → String := fun s => if s = "tranſfer" then "transfer" else s
    specialAgree lowerJs lowerPy (some ["tranſfer"]) = false ∧
    ClassJs.isTransfer intNum lowerJs (some ["tranſfer"]) ≠
      ClassPy.is_transfer intNum lowerPy (some ["tranſfer"]) := by
  decide +kernel

/-- …and it is satisfiable by functions that differ (Unicode-version skew on a non-special tag). -/
example :
    let lowerJs : String → String := fun s => if s = "Ᲊ" then "ᲊ" else s
    let lowerPy : String → String := id
    lowerJs "Ᲊ" ≠ lowerPy "Ᲊ" ∧
    specialAgree lowerJs lowerPy (some ["Ᲊ", "income"]) = true := by
  decide +kernel

theorem is_income_eq_of_specialAgree (N : NumLike) (lowerJs lowerPy : String → String)
    (tags : Option (List String)) (h : specialAgree lowerJs lowerPy tags = true) :
    ClassJs.isIncome N lowerJs tags = ClassPy.is_income N lowerPy tags := by
  obtain ⟨hi, _, _⟩ := specialAgree_iff h
  simpa only [ClassJs.isIncome, ClassPy.is_income, ClassJs.getTagsLower, ClassPy.get_tags_lower,
    ClassJs.INCOME_TAG, ClassPy.INCOME_TAG] using hi

theorem is_transfer_eq_of_specialAgree (N : NumLike) (lowerJs lowerPy : String → String)
    (tags : Option (List String)) (h : specialAgree lowerJs lowerPy tags = true) :
    ClassJs.isTransfer N lowerJs tags = ClassPy.is_transfer N lowerPy tags := by
  obtain ⟨_, ht, _⟩ := specialAgree_iff h
  simpa only [ClassJs.isTransfer, ClassPy.is_transfer, ClassJs.getTagsLower, ClassPy.get_tags_lower,
    ClassJs.TRANSFER_TAG, ClassPy.TRANSFER_TAG] using ht

theorem is_investment_eq_of_specialAgree (N : NumLike) (lowerJs lowerPy : String → String)
    (tags : Option (List String)) (h : specialAgree lowerJs lowerPy tags = true) :
    ClassJs.isInvestment N lowerJs tags = ClassPy.is_investment N lowerPy tags := by
  obtain ⟨_, _, hv⟩ := specialAgree_iff h
  simpa only [ClassJs.isInvestment, ClassPy.is_investment, ClassJs.getTagsLower, ClassPy.get_tags_lower,
    ClassJs.INVESTMENT_TAG, ClassPy.INVESTMENT_TAG] using hv

/-- bucket and bucket value agree whenever the two lower-casing functions agree about the
special words on this tag list. -/
theorem categorize_eq_of_specialAgree (N : NumLike) (lowerJs lowerPy : String → String)
    (amount : N.α) (tags : Option (List String)) (h : specialAgree lowerJs lowerPy tags = true) :
    ClassJs.categorizeAmount N lowerJs amount tags = ClassPy.categorize_amount N lowerPy amount tags := by
  obtain ⟨hi, ht, hv⟩ := specialAgree_iff h
  simp only [ClassJs.categorizeAmount, ClassPy.categorize_amount, ClassJs.getTagsLower,
    ClassPy.get_tags_lower, ClassJs.INCOME_TAG, ClassPy.INCOME_TAG, ClassJs.INVESTMENT_TAG,
    ClassPy.INVESTMENT_TAG, ClassJs.TRANSFER_TAG, ClassPy.TRANSFER_TAG] at hi ht hv ⊢
  rw [hi, ht, hv]

/-- the excluded-from-spending decision agrees under the same hypothesis. -/
theorem excluded_eq_of_specialAgree (N : NumLike) (lowerJs lowerPy : String → String)
    (tags : Option (List String)) (h : specialAgree lowerJs lowerPy tags = true) :
    ClassJs.isExcludedFromSpending N lowerJs tags = ClassPy.is_excluded_from_spending N lowerPy tags := by
  obtain ⟨hi, ht, hv⟩ := specialAgree_iff h
  simp only [ClassJs.isExcludedFromSpending, ClassPy.is_excluded_from_spending,
    ClassJs.EXCLUDED_FROM_SPENDING, ClassPy.EXCLUDED_FROM_SPENDING,
    ClassJs.INCOME_TAG, ClassPy.INCOME_TAG, ClassJs.INVESTMENT_TAG, ClassPy.INVESTMENT_TAG,
    ClassJs.TRANSFER_TAG, ClassPy.TRANSFER_TAG]
  rw [forFirst_contains_eq_any, setNonempty_setInter,
    any_contains_swap (ClassPy.get_tags_lower N lowerPy tags)]
  simp only [ClassJs.getTagsLower, ClassPy.get_tags_lower, List.any_cons, List.any_nil] at hi ht hv ⊢
  rw [hi, ht, hv]

end TallyVerif.Props.C13
