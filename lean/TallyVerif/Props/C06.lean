/-
C06 — totals conserve money: each transaction is counted once, in exactly one bucket.

Model: `Totals.analyze` (hand model of the loop in `analyzer.analyze_transactions`, tied by
correspondence) over the GENERATED `Gen.ClassPy.categorize_amount` / `normalize_amount`
(regenerated from `classification.py` on every run).  Amounts are exact (`intNum`: integer cents);
float rounding is modelled away (DESIGN.md §3).  `lower` is arbitrary.
-/
import TallyVerif.Lemmas.TotalsInt

namespace TallyVerif.Props.C06
open TallyVerif TallyVerif.Totals TallyVerif.Gen

abbrev N := intNum
abbrev T := Txn Int
inductive Bucket | income | investment | transferIn | transferOut | spending | credits
deriving DecidableEq, Repr
def zeroB : Buckets Int := ⟨0, 0, 0, 0, 0, 0⟩
def single (b : Bucket) (v : Int) : Buckets Int :=
  match b with
  | .income => { zeroB with income := v }
  | .investment => { zeroB with investment := v }
  | .transferIn => { zeroB with transfer_in := v }
  | .transferOut => { zeroB with transfer_out := v }
  | .spending => { zeroB with spending := v }
  | .credits => { zeroB with credits := v }
def choice (tagsLower : List String) (a : Int) : Bucket :=
  if tagsLower.contains "income" then .income
  else if tagsLower.contains "investment" then .investment
  else if tagsLower.contains "transfer" then (if a > 0 then .transferIn else .transferOut)
  else (if a > 0 then .spending else .credits)
def absI (a : Int) : Int := if a < 0 then -a else a

/-- exactly one bucket receives |amount|; which one is decided only by tag precedence
(income > investment > transfer, on lower-cased tags) and by the sign -/
theorem one_bucket (lower : String → String) (a : Int) (tags : Option (List String)) :
    ClassPy.categorize_amount N lower a tags = single (choice ((orEmpty tags).map lower) a) (absI a) := by
  simp only [ClassPy.categorize_amount, ClassPy.get_tags_lower, ClassPy.INCOME_TAG,
    ClassPy.INVESTMENT_TAG, ClassPy.TRANSFER_TAG, choice]
  generalize (List.map lower (orEmpty tags)) = tl
  by_cases h1 : "income" ∈ tl
  · simp [h1, single, zeroB, absI]
  · by_cases h2 : "investment" ∈ tl
    · simp [h1, h2, single, zeroB, absI]
    · by_cases h3 : "transfer" ∈ tl <;> by_cases h4 : a > 0 <;>
        simp [h1, h2, h3, h4, single, zeroB, absI] <;> omega
/-- the six bucket values of one transaction add up to |amount| -/
theorem buckets_sum_abs (lower : String → String) (a : Int) (tags : Option (List String)) :
    (ClassPy.categorize_amount N lower a tags).income + (ClassPy.categorize_amount N lower a tags).investment
     + (ClassPy.categorize_amount N lower a tags).transfer_in + (ClassPy.categorize_amount N lower a tags).transfer_out
     + (ClassPy.categorize_amount N lower a tags).spending + (ClassPy.categorize_amount N lower a tags).credits = absI a := by
  rw [one_bucket]; cases choice ((orEmpty tags).map lower) a <;> simp [single, zeroB]

/-- when the amount is non-zero exactly one bucket is non-zero -/
theorem exactly_one_nonzero (lower : String → String) (a : Int) (tags : Option (List String)) (ha : a ≠ 0) :
    ∃ b : Bucket, ClassPy.categorize_amount N lower a tags = single b (absI a) ∧ absI a ≠ 0 ∧
      ∀ b', ClassPy.categorize_amount N lower a tags = single b' (absI a) → b' = b := by
  have hz : absI a ≠ 0 := by unfold absI; split <;> omega
  refine ⟨_, one_bucket lower a tags, hz, ?_⟩
  intro b' h
  rw [one_bucket] at h
  generalize choice ((orEmpty tags).map lower) a = b at h
  cases b <;> cases b' <;> simp_all [single, zeroB, Buckets.mk.injEq]

/-- normalised amount: |a| for income / investment, raw otherwise -/
theorem normalize_spec (lower : String → String) (a : Int) (tags : Option (List String)) :
    ClassPy.normalize_amount N lower a tags =
      if ((orEmpty tags).map lower).contains "income" || ((orEmpty tags).map lower).contains "investment"
      then absI a else a := by
  simp [ClassPy.normalize_amount, ClassPy.is_income, ClassPy.is_investment, ClassPy.get_tags_lower,
    ClassPy.INCOME_TAG, ClassPy.INVESTMENT_TAG, N, intNum, absI]

/-- "chosen ONLY by whether its tags contain income, investment or transfer": two tag lists that agree on the
membership of each of the three words (after lower-casing) give the same buckets, whatever else they contain -/
theorem bucket_only_by_membership (lower : String → String) (a : Int) (tags tags' : Option (List String))
    (hi : ((orEmpty tags).map lower).contains "income" = ((orEmpty tags').map lower).contains "income")
    (hv : ((orEmpty tags).map lower).contains "investment" = ((orEmpty tags').map lower).contains "investment")
    (ht : ((orEmpty tags).map lower).contains "transfer" = ((orEmpty tags').map lower).contains "transfer") :
    ClassPy.categorize_amount N lower a tags = ClassPy.categorize_amount N lower a tags' := by
  rw [one_bucket, one_bucket]; simp only [choice, hi, hv, ht]

/-- a tag whose lower-cased text is not EXACTLY one of the three words (`income-tax`, ` income`, `transfers`,
`İncome` …) is ordinary: adding it anywhere changes neither the bucket nor the normalised amount -/
theorem ordinary_tag_neutral (lower : String → String) (a : Int) (t : String) (pre post : List String)
    (h1 : lower t ≠ "income") (h2 : lower t ≠ "investment") (h3 : lower t ≠ "transfer") :
    ClassPy.categorize_amount N lower a (some (pre ++ t :: post)) = ClassPy.categorize_amount N lower a (some (pre ++ post)) ∧
    ClassPy.normalize_amount N lower a (some (pre ++ t :: post)) = ClassPy.normalize_amount N lower a (some (pre ++ post)) := by
  have key : ∀ w : String, lower t ≠ w →
      ((orEmpty (some (pre ++ t :: post))).map lower).contains w = ((orEmpty (some (pre ++ post))).map lower).contains w := by
    intro w hw
    simp only [orEmpty, List.map_append, List.map_cons, List.contains_eq_mem, List.mem_append, List.mem_cons]
    have : ¬ (w = lower t) := fun e => hw e.symm
    simp [this]
  refine ⟨bucket_only_by_membership lower a _ _ (key _ h1) (key _ h2) (key _ h3), ?_⟩
  rw [normalize_spec, normalize_spec, key _ h1, key _ h2]

/-! ### the running totals are plain sums over the list -/

def eff (lower : String → String) (t : T) : Int := ClassPy.normalize_amount N lower t.amount t.tags
def cat (lower : String → String) (t : T) : Buckets Int := ClassPy.categorize_amount N lower t.amount t.tags

structure Flow where
  income : Int
  spending : Int
  credits : Int
  transfersIn : Int
  transfersOut : Int
  investment : Int
  count : Nat
  total : Int
deriving DecidableEq

def flowOf (s : Stats Int) : Flow :=
  ⟨s.income, s.spending, s.credits, s.transfersIn, s.transfersOut, s.investment, s.count, s.total⟩

def flowSpec (lower : String → String) (l : List T) : Flow :=
  ⟨sumBy (fun t => (cat lower t).income) l, sumBy (fun t => (cat lower t).spending) l,
   sumBy (fun t => (cat lower t).credits) l, sumBy (fun t => (cat lower t).transfer_in) l,
   sumBy (fun t => (cat lower t).transfer_out) l, sumBy (fun t => (cat lower t).investment) l,
   l.length, sumBy (fun t => t.amount) l⟩

private theorem fold_flow (lower : String → String) (l : List T) (s : Stats Int) :
    flowOf (l.foldl (step N lower) s) =
      ⟨s.income + sumBy (fun t => (cat lower t).income) l, s.spending + sumBy (fun t => (cat lower t).spending) l,
       s.credits + sumBy (fun t => (cat lower t).credits) l, s.transfersIn + sumBy (fun t => (cat lower t).transfer_in) l,
       s.transfersOut + sumBy (fun t => (cat lower t).transfer_out) l,
       s.investment + sumBy (fun t => (cat lower t).investment) l,
       s.count + l.length, s.total + sumBy (fun t => t.amount) l⟩ := by
  induction l generalizing s with
  | nil => simp [flowOf]
  | cons t l ih =>
    rw [List.foldl_cons, ih]
    simp only [step, sumBy_cons, cat, N, intNum, List.length_cons, Flow.mk.injEq]
    refine ⟨?_, ?_, ?_, ?_, ?_, ?_, ?_, ?_⟩ <;> omega

theorem flow_totals (lower : String → String) (l : List T) :
    flowOf (analyze N lower l) = flowSpec lower l := by
  unfold analyze; rw [fold_flow]; simp [init, flowSpec, N, intNum]

private theorem sum_cats (lower : String → String) (l : List T) :
    sumBy (fun t => (cat lower t).income) l + sumBy (fun t => (cat lower t).investment) l
      + sumBy (fun t => (cat lower t).transfer_in) l + sumBy (fun t => (cat lower t).transfer_out) l
      + sumBy (fun t => (cat lower t).spending) l + sumBy (fun t => (cat lower t).credits) l
      = sumBy (fun t => absI t.amount) l := by
  induction l with
  | nil => simp
  | cons t l ih =>
    simp only [sumBy_cons]
    have := buckets_sum_abs lower t.amount t.tags
    simp only [cat] at *
    omega

/-- income + investment + transfers in + transfers out + spending + credits = Σ |amountᵢ| -/
theorem six_buckets_sum (lower : String → String) (l : List T) :
    (analyze N lower l).income + (analyze N lower l).investment + (analyze N lower l).transfersIn
      + (analyze N lower l).transfersOut + (analyze N lower l).spending + (analyze N lower l).credits
      = sumBy (fun t => absI t.amount) l := by
  have h := flow_totals lower l
  simp only [flowOf, flowSpec, Flow.mk.injEq] at h
  obtain ⟨h1, h2, h3, h4, h5, h6, -, -⟩ := h
  rw [h1, h2, h3, h4, h5, h6, ← sum_cats lower l]

theorem cash_flow_def (lower : String → String) (s : Stats Int) :
    cashFlow N lower s = s.income - s.spending + s.credits := by
  simp [cashFlow, ClassPy.calculate_cash_flow, N, intNum]

theorem transfers_net_def (lower : String → String) (s : Stats Int) :
    transfersNet N lower s = s.transfersIn - s.transfersOut := by
  simp [transfersNet, ClassPy.calculate_transfers_net, N, intNum]

/-! ### the three groupings are dictionaries accumulated from the same list -/

def gCount (lower : String → String) (t : T) : Nat × Int → Nat × Int := fun p => (p.1 + 1, p.2 + eff lower t)

private theorem fold_dicts (lower : String → String) (l : List T) (s : Stats Int) :
    (l.foldl (step N lower) s).byMerchant = accumFrom (fun t : T => t.merchant) (0, 0) (gCount lower) s.byMerchant l ∧
    (l.foldl (step N lower) s).byCategory =
      accumFrom (fun t : T => (t.category, t.subcategory)) (0, 0) (gCount lower) s.byCategory l ∧
    (l.foldl (step N lower) s).byMonth =
      accumFrom (fun t : T => t.month) 0 (fun t x => x + eff lower t) s.byMonth l := by
  induction l generalizing s with
  | nil => simp [accumFrom]
  | cons t l ih =>
    rw [List.foldl_cons]
    obtain ⟨h1, h2, h3⟩ := ih (step N lower s t)
    refine ⟨?_, ?_, ?_⟩
    · rw [h1]; rfl
    · rw [h2]; rfl
    · rw [h3]; rfl

theorem by_merchant_def (lower : String → String) (l : List T) :
    (analyze N lower l).byMerchant = accumFrom (fun t : T => t.merchant) (0, 0) (gCount lower) [] l :=
  (fold_dicts lower l (init N)).1

theorem by_category_def (lower : String → String) (l : List T) :
    (analyze N lower l).byCategory =
      accumFrom (fun t : T => (t.category, t.subcategory)) (0, 0) (gCount lower) [] l :=
  (fold_dicts lower l (init N)).2.1

theorem by_month_def (lower : String → String) (l : List T) :
    (analyze N lower l).byMonth = accumFrom (fun t : T => t.month) 0 (fun t x => x + eff lower t) [] l :=
  (fold_dicts lower l (init N)).2.2

private theorem sumTotals_accum {κ : Type} [BEq κ] (lower : String → String) (key : T → κ) (l : List T)
    (m : List (κ × (Nat × Int))) :
    sumTotals (accumFrom key (0, 0) (gCount lower) m l) = sumTotals m + sumBy (eff lower) l ∧
    sumCounts (accumFrom key (0, 0) (gCount lower) m l) = sumCounts m + l.length := by
  induction l generalizing m with
  | nil => simp [accumFrom]
  | cons t l ih =>
    simp only [accumFrom, List.foldl_cons] at ih ⊢
    obtain ⟨h1, h2⟩ := ih (upsert (key t) (0, 0) (gCount lower t) m)
    rw [h1, h2]
    have e1 : sumTotals (upsert (key t) (0, 0) (gCount lower t) m) = sumTotals m + eff lower t :=
      sumTotals_upsert (key t) (eff lower t) m
    have e2 : sumCounts (upsert (key t) (0, 0) (gCount lower t) m) = sumCounts m + 1 :=
      sumCounts_upsert (key t) (eff lower t) m
    rw [e1, e2, sumBy_cons, List.length_cons]
    constructor <;> omega

private theorem sumVals_accum {κ : Type} [BEq κ] (lower : String → String) (key : T → κ) (l : List T)
    (m : List (κ × Int)) :
    sumVals (accumFrom key 0 (fun t x => x + eff lower t) m l) = sumVals m + sumBy (eff lower) l := by
  induction l generalizing m with
  | nil => simp [accumFrom]
  | cons t l ih =>
    simp only [accumFrom, List.foldl_cons] at ih ⊢
    rw [ih, sumVals_upsert, sumBy_cons]; omega

/-- per-merchant, per-category and per-month totals each add up to the same grand total
(Σ normalised amounts), and the counts to the number of transactions -/
theorem groupings_conserve (lower : String → String) (l : List T) :
    sumTotals (analyze N lower l).byMerchant = sumBy (eff lower) l ∧
    sumTotals (analyze N lower l).byCategory = sumBy (eff lower) l ∧
    sumVals (analyze N lower l).byMonth = sumBy (eff lower) l ∧
    sumCounts (analyze N lower l).byMerchant = l.length ∧
    sumCounts (analyze N lower l).byCategory = l.length ∧
    (analyze N lower l).count = l.length := by
  simp only [by_merchant_def, by_category_def, by_month_def]
  have hm := sumTotals_accum lower (fun t : T => t.merchant) l []
  have hc := sumTotals_accum lower (fun t : T => (t.category, t.subcategory)) l []
  have hv := sumVals_accum lower (fun t : T => t.month) l []
  have hf := flow_totals lower l
  simp only [flowOf, flowSpec, Flow.mk.injEq] at hf
  refine ⟨?_, ?_, ?_, ?_, ?_, hf.2.2.2.2.2.2.1⟩
  · simpa [sumTotals, sumBy] using hm.1
  · simpa [sumTotals, sumBy] using hc.1
  · simpa [sumVals, sumBy] using hv
  · simpa [sumCounts] using hm.2
  · simpa [sumCounts] using hc.2

/-- `total_transactions` (Σ merchant totals) is that same grand total -/
theorem total_transactions_def (lower : String → String) (l : List T) :
    totalTransactions N (analyze N lower l) = sumBy (eff lower) l := by
  have h := (groupings_conserve lower l).1
  simpa [totalTransactions, sumTotals, sumBy, N, intNum] using h

/-! ### order- and partition-independence -/

private theorem gCount_comm (lower : String → String) (x y : T) (z : Nat × Int) :
    gCount lower y (gCount lower x z) = gCount lower x (gCount lower y z) := by
  obtain ⟨c, v⟩ := z; unfold gCount; simp only [Prod.mk.injEq]
  exact ⟨trivial, Int.add_right_comm v (eff lower x) (eff lower y)⟩

/-- Every figure is unchanged by permuting the transactions: the scalar totals, and each
dictionary as a map (`lookup` of every key). -/
theorem analyze_perm (lower : String → String) {l l' : List T} (p : l.Perm l') :
    flowOf (analyze N lower l) = flowOf (analyze N lower l') ∧
    (∀ k, (analyze N lower l).byMerchant.lookup k = (analyze N lower l').byMerchant.lookup k) ∧
    (∀ k, (analyze N lower l).byCategory.lookup k = (analyze N lower l').byCategory.lookup k) ∧
    (∀ k, (analyze N lower l).byMonth.lookup k = (analyze N lower l').byMonth.lookup k) := by
  refine ⟨?_, ?_, ?_, ?_⟩
  · rw [flow_totals, flow_totals]
    simp only [flowSpec, Flow.mk.injEq]
    exact ⟨sumBy_perm _ p, sumBy_perm _ p, sumBy_perm _ p, sumBy_perm _ p, sumBy_perm _ p,
      sumBy_perm _ p, p.length_eq, sumBy_perm _ p⟩
  · intro k; rw [by_merchant_def, by_merchant_def]
    exact lookup_accum_perm _ _ _ (gCount_comm lower) k p
  · intro k; rw [by_category_def, by_category_def]
    exact lookup_accum_perm _ _ _ (gCount_comm lower) k p
  · intro k; rw [by_month_def, by_month_def]
    exact lookup_accum_perm _ _ _ (fun x y z => Int.add_right_comm z (eff lower x) (eff lower y)) k p

/-- Splitting the transactions across data sources: the figures of `l₁ ++ l₂` are obtained by
continuing the accumulation of `l₁` with `l₂` — scalar totals add, every dictionary entry is the
entry for `l₁` extended by the items of `l₂` with that key. -/
theorem analyze_append (lower : String → String) (l₁ l₂ : List T) :
    flowOf (analyze N lower (l₁ ++ l₂)) =
      ⟨(analyze N lower l₁).income + (analyze N lower l₂).income,
       (analyze N lower l₁).spending + (analyze N lower l₂).spending,
       (analyze N lower l₁).credits + (analyze N lower l₂).credits,
       (analyze N lower l₁).transfersIn + (analyze N lower l₂).transfersIn,
       (analyze N lower l₁).transfersOut + (analyze N lower l₂).transfersOut,
       (analyze N lower l₁).investment + (analyze N lower l₂).investment,
       (analyze N lower l₁).count + (analyze N lower l₂).count,
       (analyze N lower l₁).total + (analyze N lower l₂).total⟩ ∧
    (∀ k, (analyze N lower (l₁ ++ l₂)).byMerchant.lookup k =
      match (analyze N lower l₁).byMerchant.lookup k with
      | some v => some ((l₂.filter (fun t => t.merchant == k)).foldl (fun b t => gCount lower t b) v)
      | none => (analyze N lower l₂).byMerchant.lookup k) := by
  refine ⟨?_, ?_⟩
  · rw [flow_totals]
    have h₁ := flow_totals lower l₁
    have h₂ := flow_totals lower l₂
    simp only [flowOf, flowSpec, Flow.mk.injEq] at h₁ h₂
    obtain ⟨a1, a2, a3, a4, a5, a6, a7, a8⟩ := h₁
    obtain ⟨b1, b2, b3, b4, b5, b6, b7, b8⟩ := h₂
    simp only [flowSpec, sumBy_append, List.length_append, a1, a2, a3, a4, a5, a6, a7, a8,
      b1, b2, b3, b4, b5, b6, b7, b8]
  intro k
  simp only [by_merchant_def]
  rw [lookup_accum_append, lookup_accum (l := l₂)]
  cases List.lookup k (accumFrom (fun t : T => t.merchant) (0, 0) (gCount lower) [] l₁) <;> simp

/-! ### non-vacuity: the theorems talk about lists like this one -/

def sample : List T :=
  [⟨-10000, some ["Income"], "Emp", "Income", "Salary", "2025-01"⟩,
   ⟨2500, some ["TRANSFER", "x"], "Bank", "Transfers", "", "2025-01"⟩,
   ⟨-300, none, "Shop", "Shopping", "", "2025-02"⟩,
   ⟨0, some [], "Z", "Misc", "", "2025-02"⟩,
   ⟨-700, some ["Investment", "transfer"], "Broker", "Savings", "", "2025-03"⟩,
   ⟨4200, some ["groceries"], "Shop", "Food", "", "2025-02"⟩]

example : flowOf (analyze N asciiLower sample) = ⟨10000, 4200, 300, 2500, 0, 700, 6, -4300⟩ := by decide +kernel
example : (analyze N asciiLower sample).byMerchant.lookup "Shop" = some (2, 3900) := by decide +kernel
/-- near-miss tags under the driver's `asciiLower`: none of them is a special tag, so the bucket is spending -/
example : ["income-tax", "Transfer fee", " income", "INVESTMENT:fees", "transfers", "reinvestment", "İncome", "tranſfer"].all
    (fun t => asciiLower t != "income" && asciiLower t != "investment" && asciiLower t != "transfer") = true := by decide +kernel
example : ClassPy.categorize_amount N asciiLower 500 (some ["income-tax", "Transfer fee", " income"]) = single .spending 500 := by
  decide +kernel
example : sample.Perm (sample.reverse) := (List.reverse_perm sample).symm

end TallyVerif.Props.C06
