/-
C04 — expressions mean what the reference says: logic, comparisons, match functions.

All statements are about `Expr.eval`, the model of `TransactionEvaluator` that is tied to the code by
the evaluator correspondence (exhaustive operator × type table, random well-typed and ill-typed streams, full
engine runs).  They hold for EVERY oracle family (regex engine, Unicode case mapping, …), context
and scope, and include the error behaviour and the final scope unless said otherwise.
-/
import TallyVerif.Lemmas.ExprUnfold
import TallyVerif.Lemmas.AsciiCase
import TallyVerif.Lemmas.Scope
import TallyVerif.Lemmas.NameCase
import TallyVerif.Model.Engine

namespace TallyVerif.Props.C04
open TallyVerif.Py TallyVerif.Expr

/-- Python `bool(v)` as a value -/
def asBool (v : Val) : Val := .bool (truthy v)

/-! ### Boolean connectives -/

/-- `not not e` is `bool(e)`: same value, same error, same final scope -/
theorem not_not (o : Oracles) (ctx : Ctx) (e : Expr) (s : Scope) :
    eval o ctx (.unop .not (.unop .not e)) s =
      (match eval o ctx e s with
       | (.ok v, s') => (.ok (asBool v), s')
       | (.error err, s') => (.error err, s')) := by
  simp only [eval_unop, bind_apply]
  cases h : eval o ctx e s with
  | mk r s' => cases r <;> simp [asBool]

/-- `and`: operands are evaluated left to right; the first falsy one decides (the rest is NOT
evaluated) and the result is a Python bool -/
theorem and_short_circuit (o : Oracles) (ctx : Ctx) (a : Expr) (rest : List Expr) (s : Scope) :
    eval o ctx (.boolop true (a :: rest)) s =
      (match eval o ctx a s with
       | (.ok v, s') => if truthy v then eval o ctx (.boolop true rest) s' else (.ok (.bool false), s')
       | (.error err, s') => (.error err, s')) := by
  simp only [eval_unop, eval_boolop, evalBool_cons, evalBool_nil, bind_apply]
  cases h : eval o ctx a s with
  | mk r s' =>
    cases r with
    | error e => simp
    | ok v => cases ht : truthy v <;> simp [ht]

theorem or_short_circuit (o : Oracles) (ctx : Ctx) (a : Expr) (rest : List Expr) (s : Scope) :
    eval o ctx (.boolop false (a :: rest)) s =
      (match eval o ctx a s with
       | (.ok v, s') => if truthy v then (.ok (.bool true), s') else eval o ctx (.boolop false rest) s'
       | (.error err, s') => (.error err, s')) := by
  simp only [eval_unop, eval_boolop, evalBool_cons, evalBool_nil, bind_apply]
  cases h : eval o ctx a s with
  | mk r s' =>
    cases r with
    | error e => simp
    | ok v => cases ht : truthy v <;> simp [ht]

theorem and_empty (o : Oracles) (ctx : Ctx) (s : Scope) : eval o ctx (.boolop true []) s = (.ok (.bool true), s) := by
  simp [eval_boolop, evalBool_nil, bind_apply]

theorem or_empty (o : Oracles) (ctx : Ctx) (s : Scope) : eval o ctx (.boolop false []) s = (.ok (.bool false), s) := by
  simp [eval_boolop, evalBool_nil, bind_apply]

/-- De Morgan: `not (a and b)` ≡ `(not a) or (not b)` — value, errors, evaluation order and scope -/
theorem de_morgan_and (o : Oracles) (ctx : Ctx) (a b : Expr) (s : Scope) :
    eval o ctx (.unop .not (.boolop true [a, b])) s =
      eval o ctx (.boolop false [.unop .not a, .unop .not b]) s := by
  simp only [eval_unop, eval_boolop, evalBool_cons, evalBool_nil, bind_apply]
  cases h : eval o ctx a s with
  | mk r s' =>
    cases r with
    | error e => simp
    | ok v =>
      cases ht : truthy v
      · simp [ht]
      · simp only [ht, if_true, pure_apply, truthy_bool, Bool.not_true, Bool.false_eq_true, if_false, bind_apply]
        cases h2 : eval o ctx b s' with
        | mk r2 s2 =>
          cases r2 with
          | error e => simp
          | ok w => cases hw : truthy w <;> simp [hw]

/-- De Morgan: `not (a or b)` ≡ `(not a) and (not b)` -/
theorem de_morgan_or (o : Oracles) (ctx : Ctx) (a b : Expr) (s : Scope) :
    eval o ctx (.unop .not (.boolop false [a, b])) s =
      eval o ctx (.boolop true [.unop .not a, .unop .not b]) s := by
  simp only [eval_unop, eval_boolop, evalBool_cons, evalBool_nil, bind_apply]
  cases h : eval o ctx a s with
  | mk r s' =>
    cases r with
    | error e => simp
    | ok v =>
      cases ht : truthy v
      · simp only [ht, Bool.false_eq_true, if_false, pure_apply, truthy_bool, Bool.not_false, if_true, bind_apply]
        cases h2 : eval o ctx b s' with
        | mk r2 s2 =>
          cases r2 with
          | error e => simp
          | ok w => cases hw : truthy w <;> simp [hw]
      · simp [ht]

/-- an operand is *quiet* at a scope when it evaluates to a value without touching the scope -/
def Quiet (o : Oracles) (ctx : Ctx) (e : Expr) (s : Scope) (v : Val) : Prop := eval o ctx e s = (.ok v, s)

/-- swapping error-free, scope-neutral operands of `and` / `or` does not change the result -/
theorem and_comm (o : Oracles) (ctx : Ctx) (a b : Expr) (s : Scope) (va vb : Val)
    (ha : Quiet o ctx a s va) (hb : Quiet o ctx b s vb) :
    eval o ctx (.boolop true [a, b]) s = eval o ctx (.boolop true [b, a]) s := by
  unfold Quiet at ha hb
  simp only [eval_boolop, evalBool_cons, evalBool_nil, bind_apply, ha, hb]
  cases h1 : truthy va <;> cases h2 : truthy vb <;> simp [h1, h2, ha, hb, bind_apply]

theorem or_comm (o : Oracles) (ctx : Ctx) (a b : Expr) (s : Scope) (va vb : Val)
    (ha : Quiet o ctx a s va) (hb : Quiet o ctx b s vb) :
    eval o ctx (.boolop false [a, b]) s = eval o ctx (.boolop false [b, a]) s := by
  unfold Quiet at ha hb
  simp only [eval_boolop, evalBool_cons, evalBool_nil, bind_apply, ha, hb]
  cases h1 : truthy va <;> cases h2 : truthy vb <;> simp [h1, h2, ha, hb, bind_apply]

/-! ### arithmetic -/

/-- division or modulo by zero gives 0 (the int 0), whatever the left operand is -/
theorem div_zero (o : Oracles) (ctx : Ctx) (l r : Expr) (s s1 s2 : Scope) (a b : Val)
    (hl : eval o ctx l s = (.ok a, s1)) (hr : eval o ctx r s1 = (.ok b, s2)) (hz : isZero b = true) :
    eval o ctx (.binop .div l r) s = (.ok (.int 0), s2) ∧ eval o ctx (.binop .mod l r) s = (.ok (.int 0), s2) := by
  constructor <;> simp [eval_binop, bind_apply, hl, hr, hz]

/-- what counts as zero: the ints/floats/bools that are `== 0` in Python -/
example : isZero (.int 0) = true ∧ isZero (.bool false) = true ∧ isZero (.flt 0) = true ∧ isZero (.str "") = false ∧
    isZero .none = false := by decide +kernel

/-! ### comparison chains -/

/-- the date / ISO-string coercion of one link leaves both operands as they are -/
def NoCoercion (l r : Val) : Prop :=
  match l, r with
  | .date _, .str _ => False
  | .str _, .date _ => False
  | _, _ => True

theorem coerce_noop (o : Oracles) (l r : Val) (h : NoCoercion l r) : coerceDates o l r = .ok (l, r) := by
  cases l <;> cases r <;> simp_all [NoCoercion, coerceDates, pure, Except.pure]

/-- `a o₁ b o₂ c` is the conjunction `(a o₁ b) and (b o₂ c)` — same value, same errors, same
scope — whenever the middle operand is quiet (evaluates to a value without touching the scope, so
evaluating it a second time is harmless) and is not date/ISO-coerced by the first link. -/
theorem chain_eq_conj (o : Oracles) (ctx : Ctx) (a b c : Expr) (o₁ o₂ : CmpOp) (s s1 : Scope) (va vb : Val)
    (ha : eval o ctx a s = (.ok va, s1)) (hb : Quiet o ctx b s1 vb) (hn : NoCoercion va vb) :
    eval o ctx (.cmp a [.mk o₁ b, .mk o₂ c]) s =
      eval o ctx (.boolop true [.cmp a [.mk o₁ b], .cmp b [.mk o₂ c]]) s := by
  unfold Quiet at hb
  simp only [eval_cmp, eval_boolop, evalBool_cons, evalBool_nil, evalLinks_cons, evalLinks_nil, bind_apply, ha, hb,
    coerce_noop o va vb hn, liftE_apply, pure_apply]
  cases hc1 : cmpLink o o₁ va vb with
  | error e => simp
  | ok b1 =>
    cases b1
    · simp
    · simp only [if_true, truthy_bool, pure_apply, bind_apply, hb]
      cases h3 : eval o ctx c s1 with
      | mk r3 s3 =>
        cases r3 with
        | error e => simp
        | ok vc =>
          simp only [liftE_apply]
          cases hco : coerceDates o vb vc with
          | error e => simp
          | ok lr =>
            simp only
            cases hc2 : cmpLink o o₂ lr.1 lr.2 with
            | error e => simp
            | ok b2 => cases b2 <;> simp

/-- a chain stops at the first false link: later comparators are not evaluated -/
theorem chain_stops (o : Oracles) (ctx : Ctx) (left : Val) (op : CmpOp) (e : Expr) (rest : List Link) (s s1 : Scope)
    (vr : Val) (l r : Val) (he : eval o ctx e s = (.ok vr, s1)) (hco : coerceDates o left vr = .ok (l, r))
    (hf : cmpLink o op l r = .ok false) :
    evalLinks o ctx left (.mk op e :: rest) s = (.ok false, s1) := by
  simp [evalLinks_cons, bind_apply, he, hco, hf]

/-! ### names are case-insensitive -/

/-- variable / primitive names: only the lower-cased spelling matters -/
theorem name_case (o : Oracles) (ctx : Ctx) (id id' : String) (h : lowerName id = lowerName id') :
    eval o ctx (.name id) = eval o ctx (.name id') := by
  simp only [eval_name, lookupName, h]

/-- attribute names (`field.X`, `txn.X`, `r.X`) -/
theorem attr_case (o : Oracles) (ctx : Ctx) (e : Expr) (a a' : String) (h : lowerName a = lowerName a') :
    eval o ctx (.attr e a) = eval o ctx (.attr e a') := by
  simp only [eval_attr, h]

/-! ### names are case-insensitive: WHOLE expressions

`Expr.mapNames f` (Model/ExprNames.lean) rewrites every identifier position of the tree — variable /
primitive / data-source names, `txn` / `field` / row receivers, attribute names, function names (plain calls
and calls consuming a generator), string-method names, comprehension binders, walrus targets — and
nothing else.  Model and code lower-case an identifier at every one of these positions, at binding
time as well as at lookup time, so no side condition on binders is needed.  What is NOT an identifier
and stays case-sensitive (model and code agree, see the examples below): string constants, in
particular the key of a `row["key"]` subscript; and the KEYS of the context (variables, data
sources, captured fields, row columns) — they belong to the context, which the theorem keeps fixed. -/

/-- CLAUSE "changing the letter case of function and variable names never changes the result", for
whole expressions: renaming every identifier of `e` by any `f` that keeps each identifier's
lower-cased spelling leaves the evaluation unchanged — same value, same error, same final scope —
for every oracle family, context and starting scope. -/
theorem mapNames_case (o : Oracles) (ctx : Ctx) (f : String → String) (hf : CasePreserving f) (e : Expr) (s : Scope) :
    eval o ctx (e.mapNames f) s = eval o ctx e s := by
  rw [eval_mapNames_aux o ctx f hf e]

/-- … in particular for a top-level evaluation (fresh evaluator) -/
theorem run_mapNames_case (o : Oracles) (ctx : Ctx) (f : String → String) (hf : CasePreserving f) (e : Expr) :
    run o ctx (e.mapNames f) = run o ctx e := by
  unfold run; rw [mapNames_case o ctx f hf]

/-- The position-by-position form: two expressions that become THE SAME tree once every identifier
is lower-cased (so each occurrence may be spelled in its own way: `Amount + AMOUNT`, a binder `X`
used as `x`) evaluate identically. -/
theorem same_lowered_names (o : Oracles) (ctx : Ctx) (e e' : Expr) (h : e.mapNames lowerName = e'.mapNames lowerName)
    (s : Scope) : eval o ctx e s = eval o ctx e' s := by
  rw [← mapNames_case o ctx lowerName casePreserving_lower e, ← mapNames_case o ctx lowerName casePreserving_lower e', h]

/-- the same for the sub-evaluators the induction goes through: argument lists, `and`/`or` operand lists,
`if` clauses, comparison chains, generator clauses (binders included) -/
theorem mapNames_case_lists (o : Oracles) (ctx : Ctx) (f : String → String) (hf : CasePreserving f) :
    (∀ es, evalArgs o ctx (mapNamesList f es) = evalArgs o ctx es) ∧
    (∀ c es, evalLazyArgs o ctx c (mapNamesList f es) = evalLazyArgs o ctx c es) ∧
    (∀ isAnd es, evalBool o ctx isAnd (mapNamesList f es) = evalBool o ctx isAnd es) ∧
    (∀ es, evalConds o ctx (mapNamesList f es) = evalConds o ctx es) ∧
    (∀ links left, evalLinks o ctx left (mapNamesLinks f links) = evalLinks o ctx left links) ∧
    (∀ gens, evalGens o ctx (mapNamesComps f gens) = evalGens o ctx gens) :=
  ⟨evalArgs_mapNames_aux o ctx f hf, evalLazyArgs_mapNames_aux o ctx f hf, evalBool_mapNames_aux o ctx f hf,
   evalConds_mapNames_aux o ctx f hf, evalLinks_mapNames_aux o ctx f hf, evalGens_mapNames_aux o ctx f hf⟩

/-- renamings that satisfy the hypothesis on EVERY string: upper-casing, lower-casing, and any
per-identifier table of respellings -/
example : CasePreserving String.toUpper ∧ CasePreserving lowerName ∧
    CasePreserving (fun id => ([("x", "X"), ("rows", "Rows"), ("sum", "SuM"), ("a", "A")].lookup id).getD id) :=
  ⟨casePreserving_upper, casePreserving_lower,
   casePreserving_table _ (by decide +kernel)⟩     -- `tableOk`

/-! ### dates -/

/-- `date ⋈ "YYYY-MM-DD"`: the ISO string is read as a date and the comparison is the date order -/
theorem date_vs_iso (o : Oracles) (d d' : Date) (iso : String) (h : strictIso iso = some (some d')) :
    coerceDates o (.date d) (.str iso) = .ok (.date d, .date d') ∧
    cmpLink o .ge (.date d) (.date d') = .ok (d'.lt d || d' == d) ∧
    cmpLink o .lt (.date d) (.date d') = .ok (d.lt d') ∧
    cmpLink o .eq (.date d) (.date d') = .ok (d == d') := by
  refine ⟨?_, ?_, ?_, ?_⟩
  · simp [coerceDates, parseDate, h, bind, Except.bind, pure, Except.pure]
  · simp [cmpLink, pyLe, pure, Except.pure]
  · simp [cmpLink, pyLt, scalarLt, pure, Except.pure]
  · simp [cmpLink, pyEq, pure, Except.pure]

/-- a string that is not a date makes the comparison an expression error (not a Python exception) -/
theorem date_vs_bad_iso (o : Oracles) (d : Date) (iso : String) (h : strictIso iso = some none) :
    coerceDates o (.date d) (.str iso) = .error (.expr "Invalid date format") := by
  simp [coerceDates, parseDate, h, bind, Except.bind, exprErrE]

/-- month / year / day / weekday are those of the transaction date (0 when there is no date) -/
theorem date_parts (ctx : Ctx) (d : Date) (h : ctx.date = some d) :
    primitive ctx "month" = some (.int d.m) ∧ primitive ctx "year" = some (.int d.y) ∧
    primitive ctx "day" = some (.int d.d) ∧ primitive ctx "weekday" = some (.int d.weekday) := by
  simp [primitive, h]

theorem date_parts_missing (ctx : Ctx) (h : ctx.date = none) :
    primitive ctx "month" = some (.int 0) ∧ primitive ctx "weekday" = some (.int 0) ∧ primitive ctx "date" = some .none := by
  simp [primitive, h]

/-- weekday: Monday = 0 … Sunday = 6, periodic in the ordinal -/
theorem weekday_range (d : Date) : d.weekday < 7 := by unfold Date.weekday; omega
example : (⟨2025, 3, 14⟩ : Date).weekday = 4 ∧ (⟨2024, 12, 30⟩ : Date).weekday = 0 ∧ (⟨2000, 2, 29⟩ : Date).weekday = 1 := by
  decide +kernel

/-! ### letter case of ASCII text never matters for ==, !=, in, contains, startswith, anyof, normalized -/

/-- two ASCII strings that differ only in letter case -/
def SameUpToCase (s s' : String) : Prop := isAsciiStr s = true ∧ isAsciiStr s' = true ∧ upperAscii s = upperAscii s'

theorem sameUpToCase_lower (s : String) (h : isAsciiStr s = true) : SameUpToCase s (lowerAscii s) :=
  ⟨h, isAscii_lower s h, (upper_lower_ascii s h).symm⟩

theorem sameUpToCase_upper (s : String) (h : isAsciiStr s = true) : SameUpToCase s (upperAscii s) := by
  refine ⟨h, isAscii_upper s h, ?_⟩
  have := upper_lower_ascii (upperAscii s) (isAscii_upper s h)
  rw [lower_upper_ascii s h, upper_lower_ascii s h] at this
  exact this

private theorem lower_eq_of_upper_eq (s s' : String) (h : SameUpToCase s s') : lowerAscii s = lowerAscii s' := by
  rw [← lower_upper_ascii s h.1, ← lower_upper_ascii s' h.2.1, h.2.2]

theorem contains_ci (o : Oracles) (ctx : Ctx) (t t' p p' : String) (ht : SameUpToCase t t') (hp : SameUpToCase p p') :
    callFn o ctx "contains" [.str t, .str p] = callFn o ctx "contains" [.str t', .str p'] := by
  simp [callFn, textPattern, requireStr, bind, Except.bind, pure, Except.pure, pyUpper_ascii, ht.1, ht.2.1, hp.1, hp.2.1,
    ht.2.2, hp.2.2]

theorem startswith_ci (o : Oracles) (ctx : Ctx) (t t' p p' : String) (ht : SameUpToCase t t') (hp : SameUpToCase p p') :
    callFn o ctx "startswith" [.str t, .str p] = callFn o ctx "startswith" [.str t', .str p'] := by
  simp [callFn, textPattern, requireStr, bind, Except.bind, pure, Except.pure, pyUpper_ascii, ht.1, ht.2.1, hp.1, hp.2.1,
    ht.2.2, hp.2.2]

theorem normalized_ci (o : Oracles) (ctx : Ctx) (t t' p p' : String) (ht : SameUpToCase t t') (hp : SameUpToCase p p') :
    callFn o ctx "normalized" [.str t, .str p] = callFn o ctx "normalized" [.str t', .str p'] := by
  simp [callFn, textPattern, requireStr, bind, Except.bind, pure, Except.pure, pyUpper_ascii, ht.1, ht.2.1, hp.1, hp.2.1,
    ht.2.2, hp.2.2]

/-- the one-argument forms search the description: its letter case does not matter either -/
theorem contains_desc_ci (o : Oracles) (ctx ctx' : Ctx) (p p' : String)
    (hd : SameUpToCase ctx.description ctx'.description) (hp : SameUpToCase p p') :
    callFn o ctx "contains" [.str p] = callFn o ctx' "contains" [.str p'] := by
  simp [callFn, textPattern, requireStr, bind, Except.bind, pure, Except.pure, pyUpper_ascii, hd.1, hd.2.1, hp.1, hp.2.1,
    hd.2.2, hp.2.2]

theorem str_eq_ci (o : Oracles) (a a' b b' : String) (ha : SameUpToCase a a') (hb : SameUpToCase b b') :
    cmpLink o .eq (.str a) (.str b) = cmpLink o .eq (.str a') (.str b') ∧
    cmpLink o .ne (.str a) (.str b) = cmpLink o .ne (.str a') (.str b') := by
  have e1 := lower_eq_of_upper_eq a a' ha
  have e2 := lower_eq_of_upper_eq b b' hb
  simp [cmpLink, bind, Except.bind, pure, Except.pure, pyLower_ascii, ha.1, ha.2.1, hb.1, hb.2.1, e1, e2]

theorem str_in_ci (o : Oracles) (a a' b b' : String) (ha : SameUpToCase a a') (hb : SameUpToCase b b') :
    cmpLink o .isIn (.str a) (.str b) = cmpLink o .isIn (.str a') (.str b') ∧
    cmpLink o .notIn (.str a) (.str b) = cmpLink o .notIn (.str a') (.str b') := by
  simp [cmpLink, bind, Except.bind, pure, Except.pure, pyUpper_ascii, ha.1, ha.2.1, hb.1, hb.2.1, ha.2.2, hb.2.2]

/-- `regex()` is case-insensitive by construction (re.IGNORECASE); that the regex engine itself ignores
ASCII case is an oracle law, tested against CPython by the harness, not proved here. -/
theorem regex_uses_oracle (o : Oracles) (ctx : Ctx) (t p : String) (b : Bool) (h : o.reSearch p t = some (some b)) :
    callFn o ctx "regex" [.str t, .str p] = .ok (.bool b) := by
  simp [callFn, textPattern, hashable, h, bind, Except.bind, pure, Except.pure]

/-! ### comprehensions, any/all and := behave like the Python construct -/

/-- the loop of a comprehension whose condition and body are quiet: a fold over the items that
pass the condition, the scope is left as it was (the binder is unbound again) -/
theorem loop_quiet (x : String) (cond : M Bool) (body : Acc → M (Step Acc)) (c : Val → Bool) (g : Val → Acc → Acc)
    (items : List Val) (s : Scope) (acc : Acc)
    (hx : s.lookup x = none)
    (hcond : ∀ it ∈ items, cond (s ++ [(x, it)]) = (.ok (c it), s ++ [(x, it)]))
    (hbody : ∀ it ∈ items, ∀ a, body a (s ++ [(x, it)]) = (.ok (.more (g it a)), s ++ [(x, it)])) :
    loopItems x cond body items acc s = (.ok (.more ((items.filter c).foldl (fun a it => g it a) acc)), s) := by
  induction items generalizing acc with
  | nil => simp [loopItems]
  | cons it rest ih =>
    have hc := hcond it (List.mem_cons_self ..)
    have hb := hbody it (List.mem_cons_self ..)
    have ih' := fun acc => ih acc (fun i hi => hcond i (List.mem_cons_of_mem _ hi)) (fun i hi => hbody i (List.mem_cons_of_mem _ hi))
    cases hci : c it <;>
      simp [loopItems, bind_apply, getScope_apply, hx, setVar_fresh s x it hx, hc, hb, hci,
        delVar_after_fresh s x it hx, ih', List.filter_cons]

private theorem fold_collect (f : Val → Val) (l : List Val) (acc : Acc) :
    l.foldl (fun a it => { a with vals := f it :: a.vals }) acc = { acc with vals := (l.map f).reverse ++ acc.vals } := by
  induction l generalizing acc with
  | nil => simp
  | cons x l ih => simp [ih]

/-- One generator over a list with a quiet condition and element (each evaluates to a value
without touching the scope): `[elt for x in items if cond]` is exactly `filter` then `map`, in
order, and the scope is left as it was. -/
theorem loop_collect_spec (x : String) (cond : M Bool) (elt : M Val) (c : Val → Bool) (f : Val → Val)
    (items : List Val) (s : Scope) (acc : Acc)
    (hx : s.lookup x = none)
    (hcond : ∀ it ∈ items, cond (s ++ [(x, it)]) = (.ok (c it), s ++ [(x, it)]))
    (helt : ∀ it ∈ items, elt (s ++ [(x, it)]) = (.ok (f it), s ++ [(x, it)])) :
    loopItems x cond (fun a => do let v ← elt; liftE (consume .collect a v)) items acc s =
      (.ok (.more { acc with vals := ((items.filter c).map f).reverse ++ acc.vals }), s) := by
  rw [loop_quiet x cond _ c (fun it a => { a with vals := f it :: a.vals }) items s acc hx hcond]
  · rw [fold_collect]
  · intro it hi a
    simp [bind_apply, helt it hi, consume]

/-- `any(elt for x in items)` with a quiet element: the value is `List.any` over the elements'
truthiness; evaluation stops at the first truthy element (the rest is never evaluated). -/
theorem loop_any_spec (x : String) (body : Acc → M (Step Acc)) (f : Val → Val) (items : List Val) (s : Scope) (acc : Acc)
    (hx : s.lookup x = none)
    (hbody : ∀ it ∈ items, ∀ a, body a (s ++ [(x, it)]) =
      (.ok (if truthy (f it) then .done { a with cur := .bool true } else .more a), s ++ [(x, it)])) :
    ∃ s', loopItems x (pure true) body items acc s =
      (.ok (if items.any (fun it => truthy (f it)) then .done { acc with cur := .bool true } else .more acc), s') := by
  induction items with
  | nil => exact ⟨s, by simp [loopItems]⟩
  | cons it rest ih =>
    have hb := hbody it (List.mem_cons_self ..)
    obtain ⟨s', ih'⟩ := ih (fun i hi => hbody i (List.mem_cons_of_mem _ hi))
    cases ht : truthy (f it)
    · exact ⟨s', by simp [loopItems, bind_apply, getScope_apply, hx, setVar_fresh s x it hx, hb, ht,
        delVar_after_fresh s x it hx, ih']⟩
    · exact ⟨s ++ [(x, it)], by simp [loopItems, bind_apply, getScope_apply, hx, setVar_fresh s x it hx, hb, ht]⟩

/-- the body `any()` runs per element is of that shape whenever the element expression is quiet -/
theorem any_body_shape (elt : M Val) (σ : Scope) (v : Val) (a : Acc) (h : elt σ = (.ok v, σ)) :
    (do let w ← elt; liftE (consume .any a w) : M (Step Acc)) σ =
      (.ok (if truthy v then .done { a with cur := .bool true } else .more a), σ) := by
  cases ht : truthy v <;> simp [bind_apply, h, consume, ht]

/-- `:=` yields the value and stores it under the (lower-cased) name in the scope -/
theorem walrus_binds (o : Oracles) (ctx : Ctx) (id : String) (e : Expr) (s s1 : Scope) (v : Val)
    (h : eval o ctx e s = (.ok v, s1)) :
    eval o ctx (.walrus id e) s = (.ok v, (setVar (lowerName id) v s1).2) := by
  simp only [eval_walrus, bind_apply, h, pure_apply]
  cases hs : setVar (lowerName id) v s1 with
  | mk r s2 =>
    have : r = .ok () := by simp [setVar] at hs; exact hs.1.symm
    subst this; rfl

/-- … and a later use of the name finds it (when it was not bound before) -/
theorem walrus_then_name (o : Oracles) (ctx : Ctx) (id : String) (s1 : Scope) (v : Val)
    (hfresh : s1.lookup (lowerName id) = none) :
    eval o ctx (.name id) (setVar (lowerName id) v s1).2 = (.ok v, (setVar (lowerName id) v s1).2) := by
  simp [eval_name, lookupName, bind_apply, getScope_apply, setVar_fresh _ _ _ hfresh, lookup_append_fresh _ _ _ hfresh]

/-! ### non-vacuity and the one recorded scope observation -/

open TallyVerif.Engine in
def noOracle : Oracles := ⟨fun _ => none, fun _ => none, fun _ _ => none, fun _ _ => none, fun _ _ _ => none,
  fun _ _ => none, fun _ => none, fun _ => none, fun _ _ => none, fun _ _ => none⟩

def ctxEx : Ctx :=
  { description := "Uber Eats 123", amount := .int 45, date := some ⟨2025, 3, 14⟩, source := "Amex", location := "",
    field := some [("memo", .str "x")], variables := [("r", .int 5)],
    sources := [("rows", .list [.row [("a", .int 1)], .row [("a", .int 7)]])], functionNames := ["contains", "startswith"] }

open TallyVerif.Engine in
example : outcomeTag (run noOracle ctxEx (.callName "contains" [.const (.str "uBER")])) = "ok bool:True" := by decide +kernel
open TallyVerif.Engine in
example : outcomeTag (run noOracle ctxEx (.cmp (.const (.int 1)) [.mk .lt (.name "Amount"), .mk .lt (.const (.int 50))])) =
    "ok bool:True" := by decide +kernel
open TallyVerif.Engine in
example : outcomeTag (run noOracle ctxEx (.cmp (.name "date") [.mk .ge (.const (.str "2025-03-01"))])) = "ok bool:True" := by
  decide +kernel
open TallyVerif.Engine in
example : outcomeTag (run noOracle ctxEx (.listcomp (.attrName "x" "a") [.mk (some "x") (.name "rows")
    [.cmp (.attrName "x" "a") [.mk .gt (.const (.int 2))]]])) = "ok list:?" := by decide +kernel
example : SameUpToCase "Uber Eats" "UBER eats" := by
  unfold SameUpToCase      -- (the two computed strings are compared as character lists: 36 s → 0.1 s in the kernel)
  exact ⟨by decide +kernel, by decide +kernel, String.toList_inj.mp (by decide +kernel)⟩

/-- `sum(x.a for x in rows if x.a > 2) + (m := len(rows)) + m`, with a method call and `txn.` / `field.` access
in the condition: every identifier position occurs -/
def exNames : Expr :=
  .binop .add (.binop .add
    (.callNameGen "sum" (.attrName "x" "a") [.mk (some "x") (.name "rows")
      [.cmp (.attrName "x" "a") [.mk .gt (.const (.int 2))],
       .callAttr (.callAttr (.attrName "txn" "description") "lower" []) "startswith" [.const (.str "uber")],
       .cmp (.attr (.subscript (.name "rows") (.const (.int 0))) "a") [.mk .eq (.const (.int 1))],
       .callName "exists" [.attrName "field" "memo"]]] [])
    (.walrus "m" (.callName "len" [.name "rows"])))
    (.name "m")

/-- the same expression with the binder written `X` but used as `x`, `SUM`, `Rows`, `.A`, `.LOWER()`, `TXN.Description`, `M := … m` -/
def exNamesMixed : Expr :=
  .binop .add (.binop .add
    (.callNameGen "SUM" (.attrName "x" "A") [.mk (some "X") (.name "Rows")
      [.cmp (.attrName "X" "a") [.mk .gt (.const (.int 2))],
       .callAttr (.callAttr (.attrName "TXN" "Description") "LOWER" []) "StartsWith" [.const (.str "uber")],
       .cmp (.attr (.subscript (.name "ROWS") (.const (.int 0))) "A") [.mk .eq (.const (.int 1))],
       .callName "Exists" [.attrName "Field" "MEMO"]]] [])
    (.walrus "M" (.callName "LEN" [.name "rOWS"])))
    (.name "m")

open TallyVerif.Engine in
example : outcomeTag (run noOracle ctxEx exNames) = "ok int:11" ∧
    outcomeTag (run noOracle ctxEx (exNames.mapNames String.toUpper)) = "ok int:11" := by decide +kernel
/-- the hypothesis of `same_lowered_names` holds for the pair (string equalities are decided on character lists) … -/
theorem exNames_same_lowered : exNamesMixed.mapNames lowerName = exNames.mapNames lowerName := by
  simp [exNames, exNamesMixed, Expr.mapNames, mapNamesList, mapNamesComps, mapNamesLinks, lowerName, ← String.toList_inj]
  decide +kernel
/-- … so the mixed spelling evaluates like the plain one everywhere, and to 11 here (obtained from the theorem: the
kernel needs 18 s to run the mixed tree itself, comparing the computed strings `lower("X")` and `lower("x")`) -/
example (o : Oracles) (ctx : Ctx) (s : Scope) : eval o ctx exNamesMixed s = eval o ctx exNames s :=
  same_lowered_names o ctx _ _ exNames_same_lowered s
open TallyVerif.Engine in
example : outcomeTag (run noOracle ctxEx exNamesMixed) = "ok int:11" := by
  have h : run noOracle ctxEx exNamesMixed = run noOracle ctxEx exNames := by
    unfold run; rw [same_lowered_names noOracle ctxEx _ _ exNames_same_lowered]
  rw [h]; decide +kernel

/-- NOT identifiers, and case-SENSITIVE in model and code alike: the string key of a subscript
(`rows[0]["a"]` is 1, `rows[0]["A"]` is an "Index error" ExpressionError; as an attribute both `.a`
and `.A` give 1) … -/
example :
    Engine.outcomeTag (run noOracle ctxEx (.subscript (.subscript (.name "rows") (.const (.int 0))) (.const (.str "a")))) = "ok int:1" ∧
    Engine.outcomeTag (run noOracle ctxEx (.subscript (.subscript (.name "rows") (.const (.int 0))) (.const (.str "A")))) = "ExpressionError" ∧
    Engine.outcomeTag (run noOracle ctxEx (.attr (.subscript (.name "ROWS") (.const (.int 0))) "A")) = "ok int:1" := by decide +kernel
/-- … and the keys of the context: a variable stored under the key `R` (the rule loader never does
that: it stores lower-cased names) is found under NO spelling, because every spelling is looked up
as `r`; a row column `A` is reached by no attribute spelling.  The renaming theorem is unaffected
(both spellings fail alike). -/
example :
    Engine.outcomeTag (run noOracle { ctxEx with variables := [("R", .int 5)] } (.name "R")) = "ExpressionError" ∧
    Engine.outcomeTag (run noOracle { ctxEx with variables := [("R", .int 5)] } (.name "r")) = "ExpressionError" ∧
    Engine.outcomeTag (run noOracle { ctxEx with sources := [("rows", .list [.row [("A", .int 1)]])] }
      (.attr (.subscript (.name "rows") (.const (.int 0))) "A")) = "ExpressionError" := by decide +kernel

/-- OBSERVATION (recorded, DESIGN.md §6 C04-obs): a generator abandoned by `any()` leaves its binder
bound, so a top-level variable of the same name is shadowed afterwards.  With a variable `r = 5`:
`any(r.a == 1 for r in rows) and r == 5` is False in the evaluator (Python's scoping gives True). -/
theorem binder_leak_observation :
    Engine.outcomeTag (run noOracle ctxEx
      (.boolop true [.callNameGen "any" (.cmp (.attrName "r" "a") [.mk .eq (.const (.int 1))]) [.mk (some "r") (.name "rows") []] [],
                     .cmp (.name "r") [.mk .eq (.const (.int 5))]])) = "ok bool:False" := by
  decide +kernel

end TallyVerif.Props.C04
