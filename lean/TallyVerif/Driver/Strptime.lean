import TallyVerif.Driver.Util
import TallyVerif.Model.Strptime
/-! Driver ops of the `Strptime` component (properties C05, C18).

* `strptime` — `Strptime.strptime` on one (format, text) pair, with CPython's character tables for the non-ASCII
               characters of the case (`tables`: digits / ci / lower); also the regular expression the compiled item list
               denotes, printed back in `TimeRE.pattern`'s own syntax (`pattern`), and, with a `render` key,
               `Strptime.strftimeWith` of a date
* `strptime_names` — the C-locale names and the directive table the model assumes
-/
namespace TallyVerif.Driver
open Lean TallyVerif.Strptime

private def chr (s : String) : Char := (s.toList.head?).getD ' '

/-- `tables`: `{"digits": [[ch, value]…], "ci": [[patternChar, textChar]…] (the pairs that match), "lower": [[ch, text]…]}`;
ASCII is answered by the model itself. -/
def strpTablesOfJson (j : Json) : Tables :=
  let t := jget j "tables"
  let digits : List (Char × Nat) := (jarr t "digits").map fun p =>
    match p with
    | .arr #[.str c, .num n] => (chr c, n.mantissa.toNat)
    | _ => (' ', 0)
  let ci : List (Char × Char) := (jarr t "ci").map fun p =>
    match p with
    | .arr #[.str c, .str d] => (chr c, chr d)
    | _ => (' ', ' ')
  let lower : List (Char × TallyVerif.Csv.Str) := (jarr t "lower").map fun p =>
    match p with
    | .arr #[.str c, .str d] => (chr c, d.toList)
    | _ => (' ', [])
  { digitVal := fun c => if isAscii c then TallyVerif.Csv.digitVal? c else digits.lookup c
    ciMatch := fun c t => if isAscii c && isAscii t then asciiLower c == asciiLower t else ci.contains (c, t)
    lower := fun c => if isAscii c then [asciiLower c] else (lower.lookup c).getD [c] }

private def ccText : CC → String
  | .digit => "\\d"
  | .range a b => s!"[{a}-{b}]"
  | .exact c => String.singleton c
  | .ci c => if isRegexSpecial c then "\\" ++ String.singleton c else String.singleton c

private def altText (a : List CC) : String := String.join (a.map ccText)

private def itemText : Item → String
  | .lit c => ccText (.ci c)
  | .spaces _ => "\\s+"
  | .group n alts =>
    let body := if n == 'f' && alts == (List.range 6).reverse.map (fun k => List.replicate (k + 1) (CC.range '0' '9'))
      then "[0-9]{1,6}" else "|".intercalate (alts.map altText)
    s!"(?P<{n}>{body})"

def strpErrJson : StrpErr → List (String × Json)
  | .stray => [("err", .str "ValueError"), ("kind", .str "stray")]
  | .badDirective => [("err", .str "ValueError"), ("kind", .str "badDirective")]
  | .reError => [("err", .str "error"), ("kind", .str "reError")]
  | .unsupported => [("err", .str "unsupported"), ("kind", .str "unsupported")]
  | .noMatch => [("err", .str "ValueError"), ("kind", .str "noMatch")]
  | .unconverted r => [("err", .str "ValueError"), ("kind", .str "unconverted"), ("rest", .str (String.ofList r))]
  | .notInList => [("err", .str "ValueError"), ("kind", .str "notInList")]
  | .outOfRange => [("err", .str "ValueError"), ("kind", .str "outOfRange")]

private def natOf (j : Json) (k : String) : Nat := (jint j k).toNat

/-- `render`: `{"y","m","d","H","M","S": numbers, "spells": [{"unpad": bool, "blanks": text|null, "name": text|null}…]}` ↦ the text
`strftimeWith` writes, whether the hypotheses of the round-trip theorem hold, and what `strptime` reads back from that text -/
def handleStrftime (T : Tables) (fmt : TallyVerif.Csv.Str) (r : Json) : Json :=
  let t : DateTime := { year := natOf r "y", month := natOf r "m", day := natOf r "d", hour := natOf r "H", minute := natOf r "M",
                        second := natOf r "S" }
  let sps : List Spell := (jarr r "spells").map fun s =>
    { unpad := jbool s "unpad", blanks := (jstr? s "blanks").map String.toList, name := (jstr? s "name").map String.toList }
  let text := strftimeWith sps fmt t
  let back : List (String × Json) := match strptime T fmt text with
    | .ok t' => [("back", .str (String.ofList (isoformat t')))]
    | .error e => [("back_err", obj (strpErrJson e))]
  obj ([("text", .str (String.ofList text)), ("fmtok", .bool (FmtOk fmt)), ("valid", .bool t.valid), ("yearfits", .bool (YearFits fmt t)),
        ("spellsok", .bool (SpellsOk T sps fmt t)), ("expect", .str (String.ofList (isoformat (readBack fmt t))))] ++ back)

def handleStrptime (j : Json) : Json :=
  let T := strpTablesOfJson j
  let fmt := (jstr j "fmt").toList
  if (j.getObjVal? "render").isOk then handleStrftime T fmt (jget j "render") else
  let pat : List (String × Json) := match scan fmt with
    | .ok items => [("pattern", .str (String.join (items.map itemText)))]
    | .error _ => []
  match j.getObjVal? "text" with
  | .ok (.str text) =>
    match strptime T fmt text.toList with
    | .ok t => obj ([("ok", .str (String.ofList (isoformat t)))] ++ pat)
    | .error e => obj (strpErrJson e ++ pat)
  | _ => obj pat

def handleStrptimeNames (_ : Json) : Json :=
  let strs (l : List TallyVerif.Csv.Str) : Json := .arr (l.map fun s => Json.str (String.ofList s)).toArray
  let keys := "dfHIjmMSwuyYAaBbp".toList
  obj [("a_month", strs aMonth), ("f_month", strs fMonth), ("a_weekday", strs aWeekday), ("f_weekday", strs fWeekday),
       ("am_pm", strs amPm),
       ("directives", .arr (keys.map fun k => Json.arr #[.str (String.singleton k),
          .str (match directive k with | .group alts => itemText (.group k alts) | _ => "")]).toArray),
       ("unsupported", .str (String.ofList ((List.range 128).map Char.ofNat |>.filter fun c =>
          match directive c with | .unsupported => true | _ => false))),
       ("bad", .str (String.ofList ((List.range 128).map Char.ofNat |>.filter fun c =>
          match directive c with | .bad => true | _ => false)))]

end TallyVerif.Driver
