import Lean.Data.Json
/-! JSON helpers for the line-protocol driver (`tvdrv`). Not part of any model. -/
namespace TallyVerif.Driver
open Lean

def jstr (j : Json) (k : String) : String :=
  match j.getObjVal? k with
  | .ok (.str s) => s
  | _ => ""

def jstr? (j : Json) (k : String) : Option String :=
  match j.getObjVal? k with
  | .ok (.str s) => some s
  | _ => none

def jarr (j : Json) (k : String) : List Json :=
  match j.getObjVal? k with
  | .ok (.arr a) => a.toList
  | _ => []

def jget (j : Json) (k : String) : Json :=
  match j.getObjVal? k with
  | .ok v => v
  | _ => .null

def jint (j : Json) (k : String) : Int :=
  match j.getObjVal? k with
  | .ok (.num n) => if n.exponent == 0 then n.mantissa else 0
  | .ok (.str s) => s.toInt?.getD 0
  | _ => 0

def jbool (j : Json) (k : String) : Bool :=
  match j.getObjVal? k with
  | .ok (.bool b) => b
  | _ => false

def asStr : Json → String
  | .str s => s
  | _ => ""

def asStrList : Json → List String
  | .arr a => a.toList.map asStr
  | _ => []

/-- floats travel as the decimal string of their IEEE bit pattern -/
def floatOfBits (s : String) : Float := Float.ofBits (UInt64.ofNat (s.toNat?.getD 0))

def floatToJson (f : Float) : Json :=
  if f.isNaN then .str "nan" else .str (toString f.toBits.toNat)

def jfloat (j : Json) (k : String) : Float := floatOfBits (jstr j k)

def obj (kvs : List (String × Json)) : Json := Json.mkObj kvs

end TallyVerif.Driver
