import TallyVerif.Driver.Util
import TallyVerif.Model.Report
/-! `report`: the C12 text-level model. Strings travel as arrays of code points (no transport escaping issues). -/
namespace TallyVerif.Driver
open Lean TallyVerif.Report

def cpsOf : Json → List Char
  | .arr a => a.toList.map fun x => match x with
    | .num n => Char.ofNat n.mantissa.toNat
    | _ => Char.ofNat 0
  | _ => []

def natsOf : Json → List Nat
  | .arr a => a.toList.map fun x => match x with
    | .num n => n.mantissa.toNat
    | _ => 0
  | _ => []

def cpsJson (l : List Char) : Json := .arr (l.map fun c => Json.num (c.toNat : Int)).toArray

def optCps : Option (List Char) → Json
  | some l => cpsJson l
  | none => .null

def phOf (name : String) : List Char :=
  match name with
  | "CSS" => cssPh
  | "DATA" => dataPh
  | "JS" => jsPh
  | _ => []

def rowOf (j : Json) : MRow :=
  { id := cpsOf (jget j "id"), cat := cpsOf (jget j "cat"), sub := cpsOf (jget j "sub"),
    ytd := jint j "ytd", count := (jint j "count").toNat }

def ftxnOf (j : Json) : FTxn :=
  { merchant := cpsOf (jget j "merchant"), amount := jint j "amount", income := jbool j "income",
    transfer := jbool j "transfer", investment := jbool j "investment" }

def handleReport (j : Json) : Json :=
  match jstr j "fn" with
  | "str" =>
    let s := cpsOf (jget j "s")
    let e := jsonEncodeStr s
    obj [("enc", cpsJson e), ("dec", optCps (jsonDecodeStr e)),
         ("emb", cpsJson (embedRepaired e)), ("embdec", optCps (jsonDecodeStr (embedRepaired e))),
         ("ends_unrepaired", .bool (scriptDataEnds (embedUnrepaired e))),
         ("ends_repaired", .bool (scriptDataEnds (embedRepaired e))),
         ("mid", cpsJson (makeMerchantId s)), ("idsafe", .bool (idSafe s))]
  | "dec" => obj [("dec", optCps (jsonDecodeStr (cpsOf (jget j "t"))))]
  | "ends" => obj [("ends", .bool (scriptDataEnds (cpsOf (jget j "t"))))]
  | "embed" =>
    let t := cpsOf (jget j "t")
    obj [("unrepaired", cpsJson (embedUnrepaired t)), ("repaired", cpsJson (embedRepaired t))]
  | "splice" =>
    let template := cpsOf (jget j "template")
    let css := cpsOf (jget j "css")
    let js := cpsOf (jget j "js")
    let data := cpsOf (jget j "data")
    let content (n : String) : List Char := match n with
      | "CSS" => css | "DATA" => data | "JS" => js | _ => []
    let order := asStrList (jget j "order")
    let out := splice (order.map fun n => (phOf n, content n)) template
    let t2 := replaceAll jsPh js (replaceAll cssPh css template)
    let hyp := match findAt dataPh t2 with
      | some k => (findAt dataPh (t2.drop (k + dataPh.length))).isNone
      | none => false
    let verb := match findAt dataPh t2 with
      | some k => t2.take k ++ data ++ t2.drop (k + dataPh.length)
      | none => t2
    obj [("out", cpsJson out), ("hyp", .bool hyp), ("verbatim", cpsJson verb)]
  | "catview" =>
    let rows := (jarr j "rows").map rowOf
    obj [("kept", .arr ((allMerchants rows).map fun kv => cpsJson kv.2.id).toArray),
         ("total", .num (categoryViewTotal rows)), ("count", .num (categoryViewCount rows : Int)),
         ("sums", .arr ((categoryViewSums rows).map fun kv => .arr #[cpsJson kv.1, .num kv.2]).toArray),
         ("analysed", .num (analysedTotal rows)), ("distinct", .bool (idsDistinct rows))]
  | "alloc" =>
    -- `make_merchant_id` called on `names` in this order; optional `rows` (same order as the distinct names) → category view
    let names := (jarr j "names").map cpsOf
    let tbl := allocIds names
    let data := (jarr j "rows").map rowOf
    let rows := (tbl.zip data).map fun (p, r) => { r with id := p.2 }
    obj [("table", .arr (tbl.map fun p => .arr #[cpsJson p.1, cpsJson p.2]).toArray),
         ("distinct", .bool (idsDistinct rows)),
         ("kept", .arr ((allMerchants rows).map fun kv => cpsJson kv.2.id).toArray),
         ("total", .num (categoryViewTotal rows)), ("analysed", .num (analysedTotal rows)),
         ("sums", .arr ((categoryViewSums rows).map fun kv => .arr #[cpsJson kv.1, .num kv.2]).toArray)]
  | "figures" =>
    let ts := (jarr j "txns").map ftxnOf
    obj [("flow_income", .num (flowIncome ts)), ("flow_spending", .num (flowSpending ts)),
         ("flow_credits", .num (flowCredits ts)), ("flow_cash", .num (flowCash ts)),
         ("json_income", .num (jsonIncome ts)), ("json_credits", .num (jsonCredits ts)),
         ("json_net", match jsonNet ts with | some v => .num v | none => .null)]
  | "calendar" =>
    -- days = [[y, m, d], …]: validity, the two strftime texts, the month keys in first-appearance order, num_months
    let days : List (Nat × Nat × Nat) := (jarr j "days").map fun x =>
      match natsOf x with
      | [y, m, d] => (y, m, d)
      | _ => (0, 0, 0)
    obj [("valid", .arr (days.map fun (y, m, d) => Json.bool (validDay y m d)).toArray),
         ("leap", .arr (days.map fun (y, _, _) => Json.bool (isLeap y)).toArray),
         ("month", .arr (days.map fun (y, m, _) => cpsJson (monthKey y m)).toArray),
         ("day", .arr (days.map fun (_, m, d) => cpsJson (dayKey m d)).toArray),
         ("months_seen", .arr ((monthsSeen days).map cpsJson).toArray),
         ("num_months", .num (numMonths days : Nat))]
  | f => obj [("err", .str s!"unknown report fn {f}")]

end TallyVerif.Driver
