import Lean.Data.Json
import TallyVerif.Driver.Util
import TallyVerif.Model.Fs
import TallyVerif.Gen.FsSteps
/-! Driver op `fs`: run the M-Fs model (programs, crash / fault injection, Safe predicate) on one budget shape. -/
namespace TallyVerif.Driver.FsD
open Lean TallyVerif.Driver TallyVerif.Fs

def relShort : Rel → String
  | .configDir => "configDir" | .dataDir => "dataDir" | .outputDir => "outputDir" | .tallyDir => "tallyDir"
  | .settings => "settings" | .rules => "rules" | .rulesTmp => "rulesTmp" | .rulesBak => "rulesBak"
  | .rulesBak1 => "rulesBak1" | .rulesBak2 => "rulesBak2" | .csv => "csv" | .csvBak => "csvBak"
  | .csvBak1 => "csvBak1" | .csvBak2 => "csvBak2" | .views => "views" | .other => "other" | .schema => "schema"
  | .stmt => "stmt" | .report => "report" | .gitignore => "gitignore"

def starterStr : Starter → String
  | .settings => "settings" | .merchants => "merchants" | .views => "views" | .gitignore => "gitignore"
  | .schema => "schema" | .report => "report" | .junk => "junk"

def lineStr : Line → String
  | .mfComment => "mfComment" | .mfKey => "mfKey" | .vfComment => "vfComment" | .vfKey => "vfKey"

def chunkStr : Chunk Rel → String
  | .orig a _ => "orig:" ++ relShort a
  | .migrated a => "migrated:" ++ relShort a
  | .starter s => "starter:" ++ starterStr s
  | .line l => "line:" ++ lineStr l
  | .cut c => "cut(" ++ chunkStr c ++ ")"

def contentStr (c : Content Rel) : String := "+".intercalate (c.map chunkStr)

def treeJson (fs : FS Rel) : Json :=
  Json.mkObj (fs.map fun e => (e.1.toString, match e.2 with | .dir => Json.str "<dir>" | .file c => Json.str ("file:" ++ contentStr c)))

def srcStr : RuleSrc Rel → String
  | .err => "err" | .none => "none"
  | .csv c => "csv:" ++ contentStr c
  | .rules c => "rules:" ++ contentStr c

def effJson (e : Eff Rel) : Json :=
  obj [("rules", .str (srcStr e.rules)), ("data", match e.data with | some c => .str (contentStr c) | none => .null)]

def runStr : RunOut Rel → String
  | .error => "error"
  | .used r => srcStr r

def parseSettings : String → SettingsKind
  | "plain" => .plain | "commentMF" => .commentMF | "keyRules" => .keyRules | "keyOther" => .keyOther | _ => .absent

def parseCsv : String → CsvKind
  | "headerOnly" => .headerOnly | "withRules" => .withRules | _ => .absent

def parseShape (j : Json) : Shape :=
  ⟨parseSettings (jstr j "settings"), parseCsv (jstr j "csv"), jbool j "rules", jbool j "csvBak",
   jbool j "views", jbool j "mentionsVF", jbool j "dirs"⟩

def parseLShape (j : Json) : LShape :=
  ⟨jbool j "data", jbool j "output", jbool j "tallyDir", jbool j "schema", jbool j "csvRules"⟩

def parseProg : String → Prog
  | "upMigrate" => .upMigrate | "init" => .init | "layout" => .layout | "up" => .up
  | "upMigrateHtml" => .upMigrateHtml | _ => .readOnly

def parsePartial : String → Partial
  | "empty" => .empty | "half" => .half | _ => .full

/-- the variants the code currently has, as read off the regenerated call-order tables -/
def detected : Option CsvVariant × Option LayoutVariant :=
  (detectCsv Gen.FsSteps.migrateCsv Gen.FsSteps.migrateCsvMentionTest, detectLayout Gen.FsSteps.migrateLayout)

def variantsOf (s : String) : Variants :=
  match s with
  | "impl" => .impl
  | "repaired" => .repaired
  | _ => ⟨detected.1.getD .impl, detected.2.getD .impl⟩

def variantJson (v : Variants) : Json :=
  obj [("reorder", .bool v.csv.reorder), ("fresh", .bool v.csv.fresh), ("keyCheck", .bool v.csv.keyCheck),
       ("layout", .str (match v.layout with | .impl => "impl" | .configLast => "configLast")),
       ("csvDetected", .bool detected.1.isSome), ("layoutDetected", .bool detected.2.isSome),
       ("initConfigOk", .bool (decide (Gen.FsSteps.initConfig = initConfigCalls))),
       ("cmdInitOk", .bool (decide (Gen.FsSteps.cmdInit = cmdInitCalls)))]

def evTags (m : M Rel) : Json :=
  .arr (m.evs.map fun e => Json.str ((if e.2 then "FAULT " else "") ++ e.1.tag)).toArray

def handleFs (j : Json) : Json :=
  let v := variantsOf (jstr j "variant")
  let p := parseProg (jstr j "program")
  let fs₀ : FS Rel :=
    match j.getObjVal? "lshape" with
    | .ok l => (parseLShape l).fs id
    | _ => (parseShape (jget j "shape")).fs id
  let k := (jint j "k").toNat
  let mode := jstr j "mode"
  let c := complete v p fs₀
  let base := [("variant", variantJson v), ("numEvents", Json.num c.n), ("events", evTags c),
               ("tree0", treeJson fs₀), ("eff0", effJson (effective fs₀)),
               ("usable0", .bool (effective fs₀).rules.usable), ("outOfModel", .bool c.outOfModel)]
  let (fs, run, injected, tags) : FS Rel × String × Bool × Json :=
    if mode == "crash" then (crashAt v p fs₀ k (parsePartial (jstr j "partial")), "crashed", decide (k ≤ c.n), evTags c)
    else if mode == "fault" then
      let r := runProg v p (start fs₀ (some k))
      let f := faultAt v p fs₀ k
      (f.1, runStr f.2, r.1.m.evs.any (·.2), evTags r.1.m)
    else (c.fs, runStr (runProg v p (start fs₀)).2, false, evTags c)
  let rr := rerun v p fs
  obj (base ++ [("tree", treeJson fs), ("eff", effJson (effective fs)), ("run", .str run), ("injected", .bool injected),
                ("trace", tags),
                ("rerunTree", treeJson rr), ("effRerun", effJson (effective rr)),
                ("preserved", .bool (preserved fs₀ fs)), ("stranded", .bool (stranded fs)),
                ("safe", .bool (safeB v p fs₀ fs)),
                ("runOk", .bool (match (runProg v p (start fs₀ (some k))).2 with
                                  | o => if mode == "fault" && p == .upMigrate then runOk fs₀ fs o else true))])

/-- the same budget under `./tally/` (new layout) -/
def relocate (fs : FS Rel) : FS Rel :=
  (⟨.top, .tallyDir⟩, Node.dir) :: fs.map fun e => (⟨.tally, e.1.rel⟩, e.2)

/-- op `fsseq`: a sequence of commands on one budget; the tree after each -/
def handleFsSeq (j : Json) : Json :=
  let v := variantsOf (jstr j "variant")
  -- "extra": files of the user's own in the budget folder that the model can name (".gitignore")
  let gitignore := (jarr j "extra").any fun e => asStr e == "gitignore"
  let fs₀ : FS Rel := (parseShape (jget j "shape")).fsWith gitignore id
  let fs₀ := if jstr j "layout" == "new" then relocate fs₀ else fs₀
  let progs := (jarr j "programs").map fun p => parseProg (asStr p)
  let (_, trees) := progs.foldl (fun (acc : FS Rel × List Json) p =>
      let fs' := (complete v p acc.1).fs
      (fs', acc.2 ++ [treeJson fs'])) (fs₀, [])
  obj [("tree0", treeJson fs₀), ("trees", .arr trees.toArray), ("variant", variantJson v)]

end TallyVerif.Driver.FsD
