import TallyVerif.Driver.Util
import TallyVerif.Model.Csv
import TallyVerif.Driver.Strptime
/-! Driver ops of the `Csv` component (property C05).

* `csv`    — `Csv.parseFile` on tokenised rows with the recorded `float()` results; dates are read by the MODEL of
             `datetime.strptime` (`Strptime.oracles`, with CPython's character tables for the non-ASCII characters of the
             case under `tables`) when the case says `"strptime_model": true` (C05), else looked up in the recorded
             `dates` table (the `pipeline` op of C11/C16);
             with a `text` key: `Csv.iterRows` (tokenisation of the file text); with a `write` key: `Csv.writeCsv`
* `amount` — `Csv.cleanAmount` / `Csv.parseAmountExact` of one cell, or `Csv.render` of one number
* `spaces` — the code points `Csv.isPySpace` accepts (compared with `str.isspace`)
-/
namespace TallyVerif.Driver
open Lean TallyVerif.Csv

private def str (s : Str) : Json := .str (String.ofList s)

private def optNat (j : Json) (k : String) : Option Nat :=
  match j.getObjVal? k with
  | .ok (.num n) => if n.exponent == 0 then some n.mantissa.toNat else none
  | _ => none

private def optStr (j : Json) (k : String) : Option Str := (jstr? j k).map String.toList

private def pairList (j : Json) (k : String) : Option (List (Str × Nat)) :=
  match j.getObjVal? k with
  | .ok (.arr a) => some (a.toList.map fun p =>
      match p with
      | .arr #[.str n, .num c] => (n.toList, c.mantissa.toNat)
      | _ => ([], 0))
  | _ => none

def csvSpecOfJson (j : Json) : Spec :=
  { dateCol := (optNat j "date_col").getD 0, dateFormat := (jstr j "date_format").toList,
    amountCol := (optNat j "amount_col").getD 0, descCol := optNat j "desc_col",
    customCaptures := pairList j "custom", template := optStr j "template", extraFields := pairList j "extra",
    locationCol := optNat j "loc_col", sourceName := optStr j "source_name",
    negateAmount := jbool j "negate", absAmount := jbool j "abs" }

/-- lookup table `[[key, value|null], …]`; outer `none` = the key was never recorded -/
private def table (j : Json) (k : String) : List (String × Option String) :=
  (jarr j k).map fun p =>
    match p with
    | .arr #[.str a, .str b] => (a, some b)
    | .arr #[.str a, _] => (a, none)
    | _ => ("", none)

private def errName : Err → String
  | .shortRow => "short" | .emptyField => "empty" | .valueError => "ValueError" | .indexError => "IndexError"
  | .nonFinite => "nonfinite" | .zero => "zero" | .keyError => "KeyError" | .attributeError => "AttributeError"
  | .reError => "error"
  | .unsupported => "unsupported"

private def optJson (o : Option Str) : Json := match o with | some s => str s | none => .null

def csvTxnToJson (t : Txn) : Json :=
  obj [("date", str t.date), ("raw_description", str t.rawDescription), ("amount", .str (toString t.amount.toBits)),
       ("source", str t.source), ("location", optJson t.location), ("is_credit", .bool t.isCredit),
       ("field", match t.field with
         | none => .null
         | some kv => .arr (kv.map fun (k, v) => .arr #[str k, str v]).toArray)]

private def rowsJson (rows : List (List Str)) : Json :=
  .arr (rows.map fun r => Json.arr (r.map str).toArray).toArray

/-- `csv` op with a `text` key: `Csv.iterRows` on the decoded file text.  `matches` = what `pattern.match` returned for
each stripped line (`[[line, [groups…] | null], …]`); a line the model asks about that is not listed is a `miss`. -/
def handleTokenise (j : Json) : Json :=
  let text := (jstr j "text").toList
  let dl := delimOf (optStr j "delimiter")
  let tbl : List (String × Option (List Str)) := (jarr j "matches").map fun p =>
    match p with
    | .arr #[.str a, .arr g] => (a, some (g.toList.map fun x => (asStr x).toList))
    | .arr #[.str a, _] => (a, none)
    | _ => ("", none)
  let m : Str → Option (List Str) := fun s => (tbl.lookup (String.ofList s)).join
  let asked : List Str := match dl with
    | .regex => (splitLines text).map strip |>.filter (fun s => !s.isEmpty)
    | .csv _ => []
  let misses := asked.filter fun s => (tbl.lookup (String.ofList s)).isNone
  obj [("rows", rowsJson (iterRows m dl (jbool j "has_header") text)),
       ("kind", .str (match dl with | .regex => "regex" | .csv d => String.singleton d)),
       ("misses", .arr (misses.map str).toArray)]

/-- `csv` op with a `write` key: `Csv.writeCsv` (what `csv.writer` puts in the file) and `Csv.readCsv` of it -/
def handleWrite (j : Json) : Json :=
  let d : Char := ((jstr j "d").toList.head?).getD ','
  let rows : List (List Str) := (jarr j "write").map fun r => (asStrList r).map String.toList
  let text := writeCsv d rows
  obj [("text", str text), ("read_back", rowsJson (readCsv d text))]

/-- `float()` from the recorded table; `strptime` from the model (`"strptime_model": true`) or from the recorded table -/
def csvOracles (j : Json) (floats dates : List (String × Option String)) : Oracles :=
  let pyFloat : Str → Option F64 := fun s => match floats.lookup (String.ofList s) with
    | some (some b) => some (F64.ofBits (b.toNat?.getD 0))
    | _ => none
  if jbool j "strptime_model" then TallyVerif.Strptime.oracles (strpTablesOfJson j) pyFloat else
  { pyFloat := pyFloat
    strptime := fun _ tok => match dates.lookup (String.ofList tok) with
      | some (some d) => .ok d.toList
      | _ => .error .valueError }

def handleCsv (j : Json) : Json :=
  if (j.getObjVal? "text").isOk then handleTokenise j else
  if (j.getObjVal? "write").isOk then handleWrite j else
  let spec := csvSpecOfJson (jget j "spec")
  let c := jget j "cfg"
  let cfg : Cfg := { spec := spec, eu := jbool c "eu", sourceName := (jstr c "source").toList,
                     skipNonFinite := jbool c "fixed" }
  let floats := table j "floats"
  let dates := table j "dates"
  let o : Oracles := csvOracles j floats dates
  let rows : List (List Str) := (jarr j "rows").map fun r => (asStrList r).map String.toList
  -- oracle questions the model asks that the implementation never asked
  let misses : List Json := rows.flatMap fun row =>
    if row.length ≤ maxCol spec then [] else
    match describe spec row with
    | .error _ => []
    | .ok (desc, _) =>
      let ds := cell row spec.dateCol
      let am := cell row spec.amountCol
      if ds.isEmpty || desc.isEmpty || am.isEmpty then [] else
      match dateToken spec ds with
      | none => []
      | some tok =>
        if !jbool j "strptime_model" && (dates.lookup (String.ofList tok)).isNone then [Json.arr #[.str "strptime", str tok]] else
        match o.strptime spec.dateFormat tok with
        | .error _ => []
        | .ok _ =>
          let cl := (cleanAmount cfg.eu am).2
          match floats.lookup (String.ofList cl) with
          | none => [Json.arr #[.str "float", str cl]]
          | some _ => []
  let perRow : List Json := rows.map fun row =>
    match parseRow o cfg row with
    | .ok _ => .str "txn"
    | .error e => .str (errName e)
  let result : Json := match parseFile o cfg rows with
    | .ok ts => obj [("txns", .arr (ts.map csvTxnToJson).toArray)]
    | .error e => obj [("fatal", .str (errName e))]
  obj [("result", result), ("rows", .arr perRow.toArray), ("misses", .arr misses.toArray)]

def handleAmount (j : Json) : Json :=
  match j.getObjVal? "render" with
  | .ok r =>
    let eu := jbool r "eu"
    let sym : Option Char := match jstr? r "symbol" with
      | some s => s.toList.head?
      | none => none
    let pos : SymPos := match jstr r "pos" with
      | "post" => .post
      | "postSpace" => .postSpace
      | _ => .pre
    let st : Style := { thousands := jbool r "thousands", blankSep := jbool r "blank", symbol := sym,
                        symPos := pos, paren := jbool r "paren" }
    let n := jint r "cents"
    let text := renderCents eu st n
    obj [("text", str text),
         ("exact", match parseAmountExact eu text with
           | some (m, k) => .arr #[.str (toString m), .num k]
           | none => .null)]
  | _ =>
    let eu := jbool j "eu"
    let cellS := (jstr j "cell").toList
    let (paren, cl) := cleanAmount eu cellS
    obj [("paren", .bool paren), ("cleaned", str cl),
         ("exact", match parseAmountExact eu cellS with
           | some (m, k) => .arr #[.str (toString m), .num k]
           | none => .null)]

def handleSpaces (_ : Json) : Json :=
  let cps := (List.range 0x110000).filter fun n => isPySpace (Char.ofNat n) && (n < 0xd800 || n > 0xdfff)
  obj [("spaces", .arr (cps.map fun (n : Nat) => Json.num (JsonNumber.fromNat n)).toArray)]

/-- `Csv.parseFile` on one source given in the `csv` op's JSON form (used by the `pipeline` op) -/
def csvParseJson (j : Json) : Except Err (List Txn) :=
  let spec := csvSpecOfJson (jget j "spec")
  let c := jget j "cfg"
  let cfg : Cfg := { spec := spec, eu := jbool c "eu", sourceName := (jstr c "source").toList,
                     skipNonFinite := jbool c "fixed" }
  let floats := table j "floats"
  let dates := table j "dates"
  let o : Oracles := csvOracles j floats dates
  let rows : List (List Str) := (jarr j "rows").map fun r => (asStrList r).map String.toList
  parseFile o cfg rows

end TallyVerif.Driver
