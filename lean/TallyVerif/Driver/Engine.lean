import TallyVerif.Driver.Expr
import TallyVerif.Driver.Rules
import TallyVerif.Model.Engine
/-! op `engine`: `MerchantEngine.match` end to end on the evaluator model. -/
namespace TallyVerif.Driver
open Lean TallyVerif.Py TallyVerif.Expr TallyVerif.Rules TallyVerif.Engine

def pexprOfJson (j : Json) : PExpr :=
  match j with
  | .null => none
  | x => some (exprOfJson x)

def namedExprs (j : Json) : List (String × PExpr) :=
  match j with
  | .arr a => a.toList.map fun kv => match kv with
    | .arr p => (asStr (p.getD 0 .null), pexprOfJson (p.getD 1 .null))
    | _ => ("", none)
  | _ => []

def tagSpecOf (j : Json) : TagSpec :=
  match jstr j "k" with
  | "static" => .static (jstr j "text")
  | "dynamic" => .dynamic (pexprOfJson (jget j "expr"))
  | _ => .blank

def ruleXOfJson (j : Json) : RuleX :=
  { rule := ruleOfJson j, lets := namedExprs (jget j "lets"), matchE := pexprOfJson (jget j "match_ast"),
    tags := (jarr j "tag_specs").map tagSpecOf, fields := namedExprs (jget j "field_asts") }

def handleEngine (j : Json) : Json :=
  let ctx := ctxOfJson (jget j "ctx") (fnNames j)
  let o := oraclesOf (tableOfJson (jget j "oracle"))
  let rules := (jarr j "rules").map ruleXOfJson
  let mode := if jstr j "mode" == "most_specific" then Mode.mostSpecific else Mode.firstMatch
  let convert := !(jbool j "no_convert")
  match matchTxn convert true modelKey o ctx mode (namedExprs (jget j "variables")) rules with
  | .error e => errJson e
  | .ok res =>
    obj [("matched", .bool res.matched), ("merchant", .str res.merchant), ("category", .str res.category),
         ("subcategory", .str res.subcategory), ("tags", .arr ((sortStrs res.tags).map Json.str).toArray),
         ("matched_rule", optLine res.matchedRule), ("merchant_rule", optLine res.merchantRule),
         ("subcategory_rule", optLine res.subcategoryRule),
         ("all_matching", .arr (res.allMatching.map fun r => Json.num r.line).toArray),
         ("extra_fields", .arr (res.extraFields.map fun (k, v) => Json.arr #[.str k, .str v]).toArray),
         ("tag_sources", .arr (((res.tagSources.toArray.qsort (fun a b => a.1 < b.1)).toList).map
            fun (t, r) => Json.arr #[.str t, .num r.line]).toArray)]

end TallyVerif.Driver
