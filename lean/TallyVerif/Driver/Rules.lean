import TallyVerif.Driver.Util
import TallyVerif.Model.Specificity
import TallyVerif.Gen.Specificity
/-! `match` / `legacy`: the rule-list algorithms on per-rule evaluations supplied with the case. -/
namespace TallyVerif.Driver
open Lean TallyVerif.Rules

def ruleOfJson (j : Json) : Rule :=
  { line := (jint j "line").toNat, name := jstr j "name", merchant := jstr j "merchant",
    category := jstr j "category", subcategory := jstr j "subcategory", priority := jint j "priority",
    matchExpr := jstr j "match" }

def evalOfJson (j : Json) : Eval :=
  { hit := jbool j "hit", tags := asStrList (jget j "tags"),
    fields := (jarr j "fields").map fun kv => match kv with
      | .arr a => (asStr (a.getD 0 .null), asStr (a.getD 1 .null))
      | _ => ("", "") }

def sortStrs (l : List String) : List String := (l.toArray.qsort (· < ·)).toList

def optLine : Option Rule → Json
  | none => .null
  | some r => .num r.line

def keyJson (k : Key) : Json := .arr #[.num k.prio, .num k.pats, .num k.kinds, .num k.len]

def modelKey (r : Rule) : Key :=
  specificity TallyVerif.Gen.Specificity.patternFuncs TallyVerif.Gen.Specificity.fieldKeywords r.priority r.matchExpr

def handleMatch (j : Json) : Json :=
  let rules := (jarr j "rules").map ruleOfJson
  let evs := (jarr j "evs").map evalOfJson
  let table := rules.zip evs
  let ev : Rule → Eval := fun r =>
    match table.find? (fun p => p.1.line == r.line) with
    | some p => p.2
    | none => ⟨false, [], []⟩
  let mode := if jstr j "mode" == "most_specific" then Mode.mostSpecific else Mode.firstMatch
  let fix := !(jbool j "unfixed_d2")
  let res := matchEngine fix modelKey ev mode rules
  obj [("matched", .bool res.matched), ("merchant", .str res.merchant), ("category", .str res.category),
       ("subcategory", .str res.subcategory), ("tags", .arr ((sortStrs res.tags).map Json.str).toArray),
       ("matched_rule", optLine res.matchedRule), ("merchant_rule", optLine res.merchantRule),
       ("subcategory_rule", optLine res.subcategoryRule),
       ("all_matching", .arr (res.allMatching.map fun r => Json.num r.line).toArray),
       ("extra_fields", .arr (res.extraFields.map fun (k, v) => Json.arr #[.str k, .str v]).toArray),
       ("tag_sources", .arr (((res.tagSources.toArray.qsort (fun a b => a.1 < b.1)).toList).map
          fun (t, r) => Json.arr #[.str t, .num r.line]).toArray),
       ("keys", .arr (rules.map fun r => keyJson (modelKey r)).toArray),
       ("norm", let n := normalizeEngine res (jstr j "fallback"); .arr #[.str n.1, .str n.2.1, .str n.2.2])]

def pairsOfJson (j : Json) : List (String × String) :=
  match j with
  | .arr a => a.toList.map fun kv => match kv with
    | .arr p => (asStr (p.getD 0 .null), asStr (p.getD 1 .null))
    | _ => ("", "")
  | _ => []

def pairsJson (l : List (String × String)) : Json := .arr (l.map fun (k, v) => Json.arr #[.str k, .str v]).toArray

/-- `transforms`: initial state + the sequence of (field name, value the expression produced | null) -/
def handleTransforms (j : Json) : Json :=
  let s0 : TState := { description := jstr j "description", fields := pairsOfJson (jget j "fields"), raw := [] }
  let s := (jarr j "steps").foldl (fun s st => match st with
    | .arr a => applyTransform s (asStr (a.getD 0 .null)) (match a.getD 1 .null with | .str v => some v | _ => none)
    | _ => s) s0
  obj [("description", .str s.description), ("fields", pairsJson s.fields), ("raw", pairsJson s.raw)]

def lruleOfJson (j : Json) : LRule :=
  { idx := (jint j "idx").toNat, pattern := jstr j "pattern", merchant := jstr j "merchant",
    category := jstr j "category", subcategory := jstr j "subcategory", source := jstr j "source" }

def levalOfJson (j : Json) : LEval :=
  { outcome := match jstr j "outcome" with
      | "matched" => .matched
      | "skipped" => .skipped
      | _ => .noMatch
    tags := asStrList (jget j "tags") }

def handleLegacy (j : Json) : Json :=
  let rules := (jarr j "rules").map lruleOfJson
  let evs := (jarr j "evs").map levalOfJson
  let table := rules.zip evs
  let ev : LRule → LEval := fun r =>
    match table.find? (fun p => p.1.idx == r.idx) with
    | some p => p.2
    | none => ⟨.noMatch, []⟩
  let res := legacy ev (jstr j "fallback") rules
  obj [("merchant", .str res.merchant), ("category", .str res.category), ("subcategory", .str res.subcategory),
       ("rule", match res.rule with | none => .null | some r => .num r.idx),
       ("tags", .arr (res.tags.map Json.str).toArray),
       ("tag_sources", .arr (res.tagSources.map fun (t, r) => Json.arr #[.str t, .num r.idx]).toArray)]

end TallyVerif.Driver
